#!/usr/bin/env python3
"""Regenerates /verif/MANIFEST.json from the table below (one entry per property).
A property with built=False is listed under not_applicable with its reason."""
import json, os, sys

ROOT = os.path.dirname(os.path.dirname(os.path.abspath(__file__)))

BASELINE_OFF = ("cd /repo && export GOFLAGS=-mod=mod GOPROXY=off GOSUMDB=off && go build ./... && "
                "go test -vet=off -count=1 -timeout 25m ./...")

P = {}

def prop(id, built, text, note, technique, design_ref, reason=None):
    P[id] = dict(built=built, text=text, note=note, technique=technique, design_ref=design_ref, reason=reason)

prop("C10", True,
     "Static necessary-condition check, all paths/all inputs: in every Servicer holding a *services.Limiter no write to the "
     "handler's connection is reachable on Handle's CFG without the true edge of limiter.Allow(conn.RemoteAddr()) or a non-UDP edge, "
     "no second reply without a new token, the bucket key is the bare IP, burst is a constant <= 4, and the per-IP table is only "
     "ever read/inserted. a reply made through a helper counts as one datagram only if the helper's own writes are neither in a loop nor sequenced; Decides the mechanism, not rate.Limiter's arithmetic or wall-clock timing.",
     "Trusts golang.org/x/time/rate; trusts that the datagram connection's RemoteAddr is the datagram source; go/ssa + edge-deleted CFG reachability.",
     "guarded CFG reachability (enabling-edge deletion) + who-may-touch + shape rules over go/ssa",
     "DESIGN.md §2 C10")

prop("C08", True,
     "Static check of the service-selection mechanism over all configurations, inputs and paths: peek typestate in the selector (monotone-cell "
     "reasoning: after Peek consumed bytes every successful return hands out the peeking connection), Peek at most once, detector sees exactly the "
     "peeked bytes, ascending scan with first acceptor returning, single-candidate shortcut, replay shape of peekConnection.Read/Peek (private copy of "
     "exactly p[:n], buffer served first and re-sliced by the copied count, under the mutex), dispatcher hand-over (selector's connection wrapped by the "
     "idle timeout, nil-service guard, deferred close), compareAddr accept conditions, timeoutConn delegation. Every connection type that serves Read from a held buffer advances it by exactly the copied count (a short peek buffer must not lose the rest). The candidate list is traced semantically: it must be the port-table entry whose key compareAddr accepted against conn.LocalAddr() (in findService or a helper given that address) – lists from a cache or a by-string lookup are rejected. Does not decide whether one Peek sees enough "
     "bytes for a detector when the first segment is short.",
     "Trusts listener net.Conn implementations to deliver bytes in order; detectors are pure predicates on the prefix.",
     "typestate over go/ssa CFG (edge-dominance conditions + monotone-cell guard analysis), guarded reachability, value-provenance shape rules",
     "DESIGN.md §2 C08")

prop("C19", True,
     "Static check for all configurations: ToAddr's accept set from its dominating conditions (two parts, ParseUint(port,10,16), tcp/udp with the matching resolver, "
     "every other arm refuses with an error) and, in Run, guarded reachability: hc.ports[addr]=… and AddAddress(addr) are unreachable from a port string's ToAddr call "
     "once any enabling edge (no error, non-nil address, at least one resolved service, not a compareAddr-duplicate of an existing key) is deleted; service list fresh per entry "
     "and built only from serviceList hits over the entry's names with unknown names continuing; the selector reaches only the entry whose key compareAddr matched against the connection's local address (rule entry-services-only, shared with C08); both spellings feed the list; only Run writes the table.",
     "Trusts net.Resolve*Addr / strconv.ParseUint and the listener back ends' binding.",
     "guarded CFG reachability (enabling-edge deletion) + dominating-condition extraction + provenance over go/ssa",
     "DESIGN.md §2 C19")

prop("C12", True,
     "Static check of the decision and gating mechanisms for all credential sets/attempt sequences: dominating-condition extraction at every success/failure "
     "return of the ssh-simulator password callback and the LDAP bind closure (success iff wildcard or exact equality of presented user and password with a configured entry; "
     "rejection only after the whole list; the callback writes no state so earlier attempts cannot matter), authentication events carry the evaluated user/password and are recorded before the decision, "
     "LDAP success code only under bindFunc()==true, catch-all stores a non-success code on every not-logged-in path to the reply, FTP dispatcher gate by edge deletion, effectful=>gated over all Command "
     "implementations (call-graph reach of Driver methods / data sockets), who-may-write Conn.user and Server.login, CheckPasswd's true leaf. Does not decide the SSH library's state machine or reply encodings.",
     "Trusts golang.org/x/crypto/ssh to call the password callback per attempt and honour its result; LDAP login cell sharing across connections is C03's subject.",
     "dominating-condition extraction + guarded reachability + who-may-write + registry exhaustiveness over go/ssa",
     "DESIGN.md §2 C12")

prop("C13", True,
     "Static check of the JA3 mechanism for every ClientHello: field consumption order by dominance, ascending walks, sibling rule over the three 16-bit list loops "
     "(every formatted use of an element is dominated by the negative outcome of a GREASE test whose table is exactly the 16 values 0x0a0a+k*0x1010; the point-format loop unfiltered), "
     "only decimal formatting and the separators '-' and ',', JA3Digest = hex(md5([]byte(JA3()))), extension types appended once per extension independent of type and stored on the hello, "
     "cipher suites/curves filled by ascending index as big-endian 16-bit values, clientHelloInfo field pairing, https events carrying hello.JA3Digest()/hello.ServerName. "
     "the JA3 source fields of a received clientHelloMsg are written by unmarshal only (no store, element store or append through a re-slice elsewhere in the forked stack). "
     "inside unmarshal the JA3 list fields are nil, make+fill, append or a slice of the message – never a list of constants. "
     "Decides shape and order on all paths; MD5/hex/decimal formatting are trusted.",
     "Trusts crypto/md5, encoding/hex, fmt/strconv; record-layer reassembly not analysed; arithmetic-mask GREASE predicates are rejected as undecidable by the rule (table/switch forms accepted).",
     "dominance-ordered field use + sibling-loop cross-check + dominating-condition extraction + provenance over go/ssa",
     "DESIGN.md §2 C13")

prop("C06", True,
     "Static check of the routing mechanism for all configurations and events: EventBus.Send delivers the same event to each subscriber in subscription order with no "
     "condition or early exit, Subscribe appends (and nothing else writes the list); filterChannel.Send reaches the inner Send exactly under FilterFn(e)==true; tokenChannel.Send forwards "
     "unconditionally with event.Token(mc.Token) applied; the regex filter closure admits iff some compiled matcher matches e.Get(field), rejects only after all were tried, one matcher per expression; "
     "Run's wiring: per (filter, name) exactly one Subscribe of channels[name] wrapped by TokenChannel(hc.token), category/service filters applied iff their list is non-empty with key/field pairing, "
     "unknown names skipped, decoded filter struct fresh per [[filter]]. Does not decide regexp semantics, back-end delivery, or ordering across concurrent senders.",
     "Trusts regexp and sync.Map; the bus is assumed to be called synchronously by senders.",
     "shape + dominating-condition extraction + wrapper-chain provenance + who-may-write over go/ssa",
     "DESIGN.md §2 C06")

prop("C18", True,
     "Static check of the persistence mechanism over all restart histories and crash points: every function that both Gets and Sets on storage.Storage (5 getters, 8 items) follows "
     "load-or-generate-then-store with key agreement (constant keys paired, Set only on that Get's failure arm, stored bytes are the generator's output and are the bytes used, no generator on the load arm, "
     "certificate generated from the loaded-or-stored key, key item settled before the certificate can be stored); storage Get/Set derive the database key identically; the token is adopted from the file only "
     "when non-empty, the token path is only created by os.Rename of a fully written temporary file, write/rename errors are consumed. each identity getter is called only from construction code, or under a mutex/sync.Once when reachable from a handler or an escaping callback; Crash-point coverage is by construction (atomic publish / store ordering), "
     "not by enumeration of kill instants.",
     "Trusts badger's atomic durable Set and POSIX rename atomicity.",
     "load/store pairing by key + dominating-condition extraction + CFG ordering (reachability between stores) + who-may-create rule over go/ssa",
     "DESIGN.md §2 C18")

prop("C20", True,
     "Static check of the port-scan grouping mechanism for all bursts/interleavings: every send on the knock queue is satisfiable (no atom in both polarities among its dominating conditions, pure helpers inlined) "
     "and each of the three probe kinds has a send site with source/destination roles from the packet; UniqueSet.Add returns the matched existing element or appends after a full scan, Remove cuts exactly the identical "
     "element, no UniqueSet field is maintained by only one of Add/Remove (no stale caches), Each iterates over a private copy or no callback (incl. deferred calls) mutates the iterated set; sibling NewGroup constructors "
     "set the same KnockGroup fields with distinct protocol constants and type-guarded element equality on the destination port; group equality is the conjunction of protocol, both hardware and both IP addresses; the port "
     "list is sized by Count and labelled per knock type. Timers (5 s / 60 s, what constitutes one burst) are not decided.",
     "Timer behaviour and channel scheduling are not analysed.",
     "condition-contradiction (dead send) detection + sibling-constructor cross-check + iterator-invalidation rule + shape rules over go/ssa",
     "DESIGN.md §2 C20")

prop("C16", True,
     "Static cross-checks for all message sequences: receive/send type tables mutually inverse over the 7 message types; per message type the ordered encoder-operation sequence of MarshalBinary equals the decoder-operation "
     "sequence of UnmarshalBinary (kind, field, loop) and every writing marshaller flushes before returning the bytes (sibling rule); primitives agree (16-bit length prefix, tags 6/17, ip then port); address roles "
     "(local values fill local slots, remote fill remote; Get(local, remote)); Connections.Get matches both addresses as separate comparisons and returns the compared element, nil only after the scan, all list methods locked; "
     "session loop delivers data only to the looked-up non-nil connection, EOF deletes+closes only it, deferred cleanup closes the rest; agentConnection.Read drops exactly the copied prefix under the mutex, receive appends under it. "
     "Length-prefixed fields are read with io.ReadFull (a single Read on the bufio reader truncates); the connection table of a session is allocated by that session (never a listener field); the non-blocking reader wake-up goes to a channel with capacity. "
     "Does not decide ordering across goroutines or libdisco framing.",
     "Trusts libdisco's message framing (Read counts ignored in conn2.receive) and honeytrap/protocol's integer encoders.",
     "sibling cross-check of encode/decode tables and operation sequences + role/provenance + dominating-condition rules over go/ssa",
     "DESIGN.md §2 C16")

prop("C05", True,
     "Static check of event fidelity for all inputs: (a) type-level serialisability of all ~320 sites that store a value into an event (dynamic types resolved through MakeInterface provenance across phis, locals, "
     "callees, callers, maps incl. interface-dispatched fillers and JSON-born maps; JSON-safety by structural recursion; unresolved origins fail unless in the reviewed table), (b) the payload option stores string/hex/len of the "
     "same captured slice, (c) Source/DestinationAddr key/role pairing in both the TCP and UDP arm, (d) MergeFrom guarded exactly by !Has(name), CopyFrom unconditional, (e) MarshalJSON/ToMap and the named channels' "
     "snapshot callbacks copy every string key and never stop the range, MarshalJSON returns json.Marshal of a snapshot taken in the same call, Event.Store/Range/Has/Get forward directly to the sync.Map without extra state. "
     "(f) a buffer an object hands back to a sync.Pool leaves the object in the same step (field cleared on the Put's path), so it cannot be pooled twice. "
     "Does not decide run-time values (NaN) or transport inside back ends.",
     "Trusts encoding/json on structurally safe types and third-party Marshal methods.",
     "interprocedural type provenance of interface values + structural JSON-safety + shape rules over go/ssa",
     "DESIGN.md §2 C05")

prop("C07", True,
     "Static necessary-condition checks for all line-length sequences/rotation moments/faults: the single consumer of the unbuffered request channel is started on every successful New and returns only under the channel-closed "
     "outcome (senders cannot block forever); the os.Rename target is dominated by a failed existence probe of that very name (rotation never overwrites); every file write is reachable only through a successful stat or reopen(); "
     "every advance p = p[a:] of the batch equals the length of a prefix handed to the file (or one more, when that byte is a newline index found by (Last)IndexByte and known >= 0 on every phi edge) – no byte is dropped; every prefix "
     "written before a rotation ends at a line boundary. rotateFile is only fed by producers that end every batch on a line boundary (io.Copy of a buffer filled by json.Encoder, or an encoder directly) – byte-count flushers such as bufio.Writer are rejected. The exactly-once/size-bound arithmetic over all alignments and flush timing are NOT decided (run-time quantities).",
     "Trusts os.Rename/Lstat/File.Write; one writer goroutine per FileBackend.",
     "consumer-exit rule + dominating-condition extraction on phi edges + guarded reachability + slice-advance provenance over go/ssa",
     "DESIGN.md §2 C07")

prop("C11", True,
     "Static containment argument by abstract interpretation over string values, for all path strings and directory histories: RootedClean = \"/\" | Clean(p) under IsAbs(p) | Join(<RootedClean>, …) | load of Htfs.cwd "
     "(inductive field invariant: every store to Htfs.cwd in the program stores a RootedClean value) | merge of such; Contained = Join(f.root, <RootedClean>). Obligations, all discharged: every return of RealPath is Contained; "
     "each of the 14 path arguments of os/ioutil/filepath file-system calls in the methods of ftp.Fs and filesystem.Htfs is Contained; no other FTP code touches the file system by path; every Driver method's path parameters flow "
     "only into RealPath; the reported directory is the RootedClean field; Htfs.root is written only by the constructor. This is obligation-complete for lexical containment (proof-like), claimed at level other because the "
     "path/filepath cleaning axiom and the absence of symlinks are assumed, not proved.",
     "Axiom: a rooted path cleaned by path/filepath has no `..` element. Symlinks leaving the root are assumed absent (the property's own assumption).",
     "abstract interpretation (two-point string lattice with an inductive field invariant) + sink enumeration over go/ssa",
     "DESIGN.md §2 C11")

prop("C02", True,
     "Static check over every frame for the unrecovered receive-loop goroutine: same-goroutine call-graph reach inside listener/canary (VTA, stopping at go statements and recovering callees); (a) no reachable panic/log.Fatal/os.Exit "
     "(three individually named exceptions with re-checked premises), (b) every dereference of a may-return-nil result is dominated by a nil test, (c) all 69 index/slice/make obligations on frame-derived bytes (inter-procedural taint from the "
     "Recvfrom buffer) are discharged by a difference-bound prover: facts from edge-dominating conditions, definitions, interval arithmetic with condition-aware refinement of x*k/x<<k, forwarding of struct-field loads to reaching stores, "
     "per-edge case splits at value and memory phis. Off-by-one mutants of each guard are detected. ARP parsing excluded on the re-checked premise that Canary.doARP is never written. Self-constructed buffers (Marshal/send/checksum update) are attempted, "
     "reported, not claimed. A mutex taken in the receive loop's reach is released on every path (a leaked lock blocks the loop at the next acquisition). May-return-nil is computed through phis and one level of callees. 'A later probe still yields its event' is decided only as 'the loop cannot die by these causes'.",
     "Entry assumption: frames >= 14 bytes (property's quantifier). Callees do not modify a header struct between a guard and the use of its fields. syscall.Recvfrom returns n <= len(buf). 32-bit unsigned loop counters bounded by a length do not wrap.",
     "call-graph reach + inter-procedural taint + difference-bound (zone) prover with memory forwarding over go/ssa",
     "DESIGN.md §2 C02")

prop("C17", True,
     "Static check for all buffers, cursor positions and size arguments: HasBytes' summary is extracted and verified (pure; nil iff 0 <= offset+size <= len(data)); the type invariant Decode.offset >= 0 is proved inductively over all 7 stores to the field; "
     "with both, all 20 index/slice/make obligations in the methods of *Decode are discharged by the difference-bound prover (summary imported at the dominating call, sum atoms for offset+size); failing arm (lasterror stored, zero returned, no cursor movement or deferred advance), "
     "advance == size checked, bytes read == data[offset:offset+size] for every primitive. IPP: tag tables of encode side (composite literals) and decode side agree, per value type the decoder's first-value operation sequence mirrors the encoder's widths, additional values are read "
     "in a loop while the peeked tag equals the value's tag, every look-ahead byte is given back on each exit path (path-sum over the CFG), no use of a nil value after an unmatched tag or failed assertion, response/event fields echo the decoded request. Full round-trip equality over all "
     "no list is built by appending over a re-slice of another object's list (request and response would overwrite each other); "
     "attribute combinations is not decided.",
     "Trusts encoding/binary; the decoder is used single-threaded per request.",
     "difference-bound prover with guard-function summaries and an inductive field invariant + sibling encode/decode cross-check + CFG path-sum rule over go/ssa",
     "DESIGN.md §2 C17")

prop("C01", True,
     "Static check, over all inputs and schedules, of four causes of process death for the 24 director-less services: (a) call graph (VTA) from each Handle; every goroutine started there installs a recover first or its same-goroutine reach has no explicit "
     "panic/logger Panic/Fatal/os.Exit, unchecked type assertion, nor index/slice/make the difference-bound prover cannot discharge; no exit site reachable from a handler; the dispatcher's own per-connection recover is present; (b) no function reachable from a handler "
     "calls itself on every path; (c) every access to a map stored in a shared service object (type closure from the Servicer structs, package-level maps included) that is written from handler-reachable code is under a mutex of the same object; (writes – insert/delete – need the exclusive lock, RLock does not count) (d) every loop driven by "
     "decoder reads has an exit that fires when a read fails (error-state test, a callee that provably propagates LastError, or a continuation condition that is false for the 0 a failed read returns, with the tag>0 premise proved). "
     "A relative Seek of the decoder by an input-derived amount must be provably non-negative (a negative length would move the cursor back and the decode loop would repeat for ever while memory grows). Implicit panics on the per-connection goroutine are covered by the checked dispatcher recover; memory growth in general and third-party code are not decided.",
     "x/crypto/ssh runs auth callbacks on the calling goroutine; library goroutines (ssh.DiscardRequests, io.Copy) do not panic on peer input; VTA call graph precision.",
     "call-graph reach per goroutine root + kill-site/recover rule + must-recurse + lock-dominance for shared maps + loop-exit classification, with the zone prover for implicit panics",
     "DESIGN.md §2 C01")

prop("C03", True,
     "Static isolation check for all interleavings and histories of the eight stateful services: a forward may-alias analysis marks as shared the Handle receiver, package-level variables of the service packages, variables captured by closures built before any connection existed, "
     "and everything loaded from them (inter-procedural over the VTA reach of each Handle restricted to the service's own code; field-based heap; closures, parameters, results, interface dispatch; cut at the event pipeline, directors, loggers, sync, TLS key material, the per-source limiter). "
     "Violations: a store through a shared address into a struct field or global, any send/receive/range/select on a shared channel, a mutating call on a shared stateful library object. Per-peer state in a shared map is keyed by conn.RemoteAddr() or its String() (other values computed from the address are rejected: injectivity cannot be established). By-value copies of shared structs are tracked per object (their reference fields stay shared until re-initialised before the object is handed on); element stores into and appends to shared slices are sinks. Keyed maps are allowed (their locking is C01's). "
     "Event addresses: all 135 event.SourceAddr/DestinationAddr sites under services/ take RemoteAddr()/LocalAddr() (not swapped) of a connection that is not stored in a service object. Cross-talk through the OS, libraries or response ordering is not decided.",
     "One Servicer per configured service, Handle called concurrently (server/honeytrap.go). The may-alias analysis is field-based and flow-insensitive (over-approximate); library callbacks are not followed.",
     "inter-procedural shared-memory (escape/ownership) taint with sink rules + role/provenance rule over go/ssa and the VTA call graph",
     "DESIGN.md §2 C03")

prop("C04", True,
     "Static necessary-condition checks, for all inputs and segmentations, of the capture mechanisms the property's why_tests_cant names: (R1) no buffering reader over the handler's connection is built inside a request loop (pipelined services), "
     "(R2) no direct conn.Read beside a buffered reader, (R3) no type assertion of the handler's connection to a concrete type that no in-repo caller passes (set computed from the call sites of Servicer.Handle: timeout wrapper, event.Conn) – such a branch is dead and its "
     "requests/datagrams are never decoded, (R4) every completed iteration of the redis/memcached/telnet request loops emits the command's event and the ftp/smtp line hooks hand each line to the event pump exactly once, (R5) on stream services the count returned by Read on the "
     "connection is not discarded. (R7) the telnet line editor's pending-input field is emptied only under a dominating test that nothing is pending. (R6) every datagram pseudo-connection built in a receive loop owns storage produced in that iteration (no buffer hoisted out of the loop). THE CORE (equal event lists for every cut of the byte stream) IS A RUN-TIME PROPERTY AND IS NOT DECIDED; this check only rules out the structural ways of losing bytes/requests.",
     "In-repo call sites of Handle (server dispatcher, https) are the only callers; conn-derivation is an intra-procedural taint followed into same-package callees.",
     "structural lints over go/ssa: loop membership of constructor calls, dead-type-assertion via call-site type sets, must-pass event emission, discarded Read counts",
     "DESIGN.md §2 C04")

prop("C09", True,
     "Static checks of the release mechanisms for the 24 listed services (BOUNDED TIME AND DESCRIPTOR COUNTS ARE RUN-TIME QUANTITIES AND ARE NOT DECIDED): every goroutine started in a handler's call-graph reach has a reachable return (or leaves through a recovered panic) and, when its "
     "only exits are closed/done arms of channel operations, a close() of that same channel object exists in handler code; every loop that reads from the handler's connection leaves the loop on every read error (no path from the error edge back to the read); every in-repo net.Conn "
     "implementation's Read can return a non-nil error; every listener opened in handler-reachable code is closed; the dispatcher passes the idle-timeout wrapper whose Read/Write re-arm the deadline; a mutex taken in service code without a deferred release is released on every path and no call that can explicitly panic sits inside the critical section (a recovered panic would leave it locked for all later connections); no handler selects its datagram path by a connection type the dispatcher never passes.",
     "Timing, descriptor counts and library-internal goroutines are not analysed; channel identity is by field / captured variable (field-based).",
     "goroutine-exit rule on the VTA call graph + loop/error-edge reachability + Reader-contract sibling rule + open/close pairing over go/ssa",
     "DESIGN.md §2 C09")

prop("C14", True,
     "Static check of the two structural clauses only; THE ARITHMETIC CORE (SYN-ACK/ACK numbers modulo 2^32 over all ISNs, one's-complement checksums over all payload parities, state-table lookup under all interleavings, payload-prefix content) IS NOT DECIDED – no static argument in reach bounds those run-time numerics. "
     "Decided: (1) replies are addressed back to the sender and carry this connection's counters: role-swapped provenance of every field of the tcp/ipv4 header literals in send(), NewState/StateTable.Get argument roles, RecvNext = SYN seq + 1 and SendNext = ISS + 1 stored before the SYN|ACK, sent only in LISTEN; "
     "(2) simultaneous connections do not disturb each other through shared memory: lock table (Canary.buffer under Canary.m; Socket.rbuffer under State.m locally or in every caller; any other used ring field fails closed) every checksum routine folds its carries in a loop or at least twice; no ordered uint32 comparison on values of the client's sequence space (SEG.SEQ/RCV.NXT and sums), which wrap for client ISNs the property quantifies over – the sensor's own space is observed only; and ring ownership (a ring field is only assigned a fresh allocation and never handed on).",
     "glycerine/rbuf rings are not concurrency safe; locks are matched by field name; the arithmetic is out of scope.",
     "field-role provenance of composite literals + lock-dominance table (with caller-held locks) + ownership/escape rule over go/ssa",
     "DESIGN.md §2 C14")

prop("C15", True,
     "Static necessary-condition checks for faithful relaying; BYTE-FOR-BYTE EQUALITY of what net/http re-serialises, cross-goroutine ordering (ssh exit-status versus end of data), stderr relaying and datagram boundaries ARE NOT DECIDED. "
     "Decided for every Proxier service (http-proxy, ssh-proxy, copy, dns-proxy): (1) who-may-dial: no outbound connection constructor in the proxy's reach, every backend connection is s.d.Dial(conn) on the director stored by SetDirector, the configured director reaches SetDirector unchanged, and the forward director dials exactly "
     "JoinHostPort(Host or its host part, this connection's port or the configured port) with the protocol of the local address type and keeps no state; (2) crossing: every relay write's content is traced to a read from the opposite leg (HTTP object, io.Copy pair, framed helper, Read count of the same buffer), ssh credentials/channel-open/requests/replies/data pumps are built from the received object and cross sides once per direction, the ssh recorder passes bytes through; "
     "(3) readers per leg are created outside the relay loop, a bare Read on a stream leg is never taken as a whole message, connection-type tests match what the dispatcher passes; (4) relaying is not gated on decoding the client's bytes and parsed HTTP objects are not modified before being re-serialised; the copier of the client->backend direction never fully closes a leg when the client stops sending (CloseWrite only), an in-repo writer placed beside the backend in io.MultiWriter reports len(p) on success; (5) every relay write to the backend is dominated or followed on every path by an event emission, and event addresses come from the client connection.",
     "net/http and x/crypto/ssh are trusted to re-serialise/deliver what they parsed; directors other than forward choose their own address by design; wrappers are limited to bufio/textproto constructors and the service's own helpers.",
     "leg typing of stream values (client/backend) over go/ssa + who-may-call + provenance of relay payloads + dominance/path rules",
     "DESIGN.md §2 C15")

# clauses added by later seed rounds (appended to the level text of the property)
ADD = {
 "C01": "The goroutines that accept and dispatch connections only hand a connection on (channel send / go statement): no call on them reaches a Read, Peek or CanHandle on an accepted connection (rule dispatch-loop-confined).",
 "C02": "Every goroutine started while a frame is processed (per-datagram, per-connection) defers a function that itself calls recover(), or provably cannot panic and calls no third-party decoder (rule frame-goroutine-recovers).",
 "C04": "In smtp the channels the reporting goroutine drains in one select next to its termination arm are rendezvous channels (rule reporter-handover-synchronous).",
 "C07": "The active descriptor is closed only once os.OpenFile has returned its replacement (rule descriptor-kept-until-replaced).",
 "C08": "A goroutine started in a loop of the listeners/server captures no variable the loop assigns again after the go statement (go.mod language version: one loop variable for all iterations; rule goroutine-own-variables).",
 "C09": "The IPP parser's loops end through the decoder's recorded error: every store to that error is of a non-nil value, and each loop that hands the decoder to further decoding first leaves on LastError (rule decode-loop-ends).",
 "C12": "After the LDAP catch-all has stored the not-logged-in refusal no other result-code store can execute on that path (rule ldap-gate).",
 "C13": "The tls.Config that carries the digest-taking GetCertificate callback leaves Certificates empty (the vendored stack otherwise skips the callback for hellos without SNI; rule hello-callback-always-runs), and the channel field the https/http handlers send on is the one the effective SetChannel sets (rule https-events-delivered).",
 "C14": "ANSWERS A FIN is decided on the state machine's shape by abstract interpretation of handleTCP over the finite set of connection states (mutex held throughout, no callee writes the state; FIN and ACK set, SYN/RST clear): from ESTABLISHED, FIN-WAIT-1 and FIN-WAIT-2 every path advances RCV.NXT by one and then sends a segment with the ACK bit, and under FIN RCV.NXT is never assigned a value that drops the segment's payload (rule fin-answered).",
 "C15": "What leaves a function after io.ReadAtLeast on a stream is cut at the count it returned (rule stream-read-not-overread).",
 "C16": "agentConnection.Read reports io.EOF only after it found its receive buffer empty (rule eof-after-drain).",
 "C17": "Every store to the decoder's recorded error is of a non-nil value (rule decoder-error-sticky).",
 "C18": "In storage Get/Set the caller's bare key flows only into the namespaced database key (rule storage-key-derivation).",
 "C20": "The IPv4 parser cuts the payload it hands to the transport parsers at the datagram's total-length field (rule payload-cut-at-ip-length).",
}
for _id, _t in ADD.items():
    P[_id]["text"] += " " + _t

# clauses added by seed round e
ADD2 = {
 "C01": "A function that calls itself passes on different arguments than it received (a recursion that descends on nothing ends only through outside state a client may be able to pin; rule no-unconditional-recursion).",
 "C02": "The switch that guards ARP handling in the receive loop is unexported and never written (the configuration decoder cannot set it); if it can become true the ARP parser is analysed like the others (rule arp-unreachable-premise).",
 "C03": "Datagram connections built in a receive loop own their bytes (shared with C04) and an object taken from a sync.Pool has every field assigned again before use (rule pooled-object-reset).",
 "C04": "A handler that serves several HTTP requests from one buffered reader consumes each request body to its end (or closes it, not deferred) before the next ReadRequest (rule request-body-consumed).",
 "C05": "The bytes json.Marshal produced for a snapshot reach the sink unmodified: not passed to bytes/strings/regexp rewriting functions, re-sliced or patched (rule serialised-bytes-unmodified).",
 "C06": "RegexFilterFunc hands back the closure it built in that very call (no memoised filter; clause of regex-any-of).",
 "C07": "The writer goroutine waits only in its select on the request channel; a bare receive from a reused timer is accepted only where a typestate analysis (live/dead over NewTimer, Reset, Stop results, receives) shows the timer cannot be dead (clause of sender-never-blocks).",
 "C09": "Closing the FTP session releases the control connection and the data socket on every path and is deferred in Serve; a new data socket is stored only after the one already held was closed; a listener opened for a connection is given a deadline; a Read in a handler loop is never handed a possibly empty buffer (zone prover; the forked TLS record reader is excepted with its invariant) (rules owner-close-releases-all, owner-close-deferred, data-socket-replaced-released, listener-accept-bounded, read-buffer-not-empty).",
 "C12": "The FTP session object that holds the login is made for the connection; one taken from a sync.Pool has every field assigned again (rule session-object-fresh).",
 "C13": "A received hello is parsed into a fresh clientHelloMsg; a pooled one must have every field reset (rule hello-message-fresh).",
 "C14": "In listener/canary no left shift is performed on a narrow integer and widened afterwards (packed look-up keys keep every address bit; rule no-shift-before-widening).",
 "C17": "Every copy() in the decoder/encoder package is proved to take its whole source (len(src) <= len(dst); zone prover with exact lengths of make/slice expressions; rule encoder-writes-whole-value).",
 "C18": "An identity getter, and its direct callers, do not park the loaded identity in package-level state (clause of identity-getter).",
 "C19": "compareAddr's accepting arms (same kind, equal ports, IPs equal or one side unset, either side) are decided as in C08 (rule compare-addr).",
 "C20": "A group is reported only when quiet: the detector's report arm waits on a time.After re-armed by every iteration, or every report is behind the group's inactivity test (rule report-only-when-quiet).",
}
for _id, _t in ADD2.items():
    P[_id]["text"] += " " + _t

ADD3 = {
 "C01": "A function that defers mu.Unlock() and also releases mu explicitly has taken it again before every return or explicit panic (a double unlock is a fatal runtime error no recover confines; rule mutex-unlock-balanced).",
 "C03": "A pointer to a private by-value copy of shared state that is kept in a field of the per-connection object still leads to the shared memory the copy's reference fields point to (field transfer in no-shared-state-write).",
 "C04": "What the dispatcher's peek connection reads off the socket it keeps in full for replay (shared with C08; a fixed-size replay store needs a proof that every copy into it takes its whole source; rule peek-replay).",
 "C05": "The file channel hands the rotating file whole-line batches (shared with C07; rule whole-line-batches).",
 "C06": "Event.Get, on which the filters decide, returns the stored value asserted to string or the empty string, never a textual rendering of another type (rule filter-field-string-or-empty).",
 "C08": "The value the selector asserts to CanHandlerer is the service itself: the registry stores the registered constructor, the service table holds its result, and no type that wraps a Servicer has a CanHandle of its own (rule detector-presence-preserved).",
 "C09": "The selector's own read of the client's first bytes goes through the idle-deadline wrapper or follows a deadline call (rule selector-read-bounded); a loop that takes items from a bounded queue the ssh library fills on the connection's reader goroutine does not wait for the peer inline (rule library-queue-drained).",
 "C12": "Every LDAP reply is sent from an object made for that request, or one whose result code is stored on every path to the reply (rule ldap-reply-per-request).",
 "C13": "readHandshake takes a message out of the reassembly buffer with Next(k) only after filling it to that same k, inline or through a helper whose bound is its argument (rule handshake-message-whole).",
 "C14": "Every flush() of the segment handler (and the listener helpers it calls) sits under a test that the segment carries PSH or FIN (rule flush-on-push-or-fin).",
 "C15": "The ssh recorder does not write into the relayed buffer, also not through re-slices handed to helpers (in-place filters, append onto b[:0], copy; clause of ssh-recorder-passthrough).",
 "C17": "The bytes handed to the IPP decoder come from a read-to-the-end (ReadAll, io.ReadFull/ReadAtLeast, io.Copy/ReadFrom), directly or through a helper (rule request-body-read-whole).",
 "C18": "Where the option list for server.New is built, an option that reads a Honeytrap field when applied is not put before the option that writes it (WithToken reads dataDir, WithDataDir sets it; rule option-order).",
 "C20": "No knock record is queued only when one of the Canary's own actions (transmitting the reply) succeeded (rule knock-independent-of-reply).",
}
for _id, _t in ADD3.items():
    P[_id]["text"] += " " + _t

ADD4 = {
 "C01": "A mutex of the shared service object that is taken without a deferred release is released on every way out of its critical section, including a panic the connection's recover swallows (shared with C09; rule lock-released-on-every-exit).",
 "C02": "No channel the unrecovered receive loop sends on (the socket wake-up, the knock queue) is closed anywhere in the listener (a send on a closed channel panics also inside a select with default; rule no-send-on-closable-channel).",
 "C03": "Goroutines started in loops of the listeners and the server read no variable the loop assigns again (shared with C08; rule goroutine-own-variables); memory handed back for reuse (sync.Pool.Put, directly, deferred or through a release helper; the bytes of a long-lived buffer that is reset) is not reachable from what a function returns, sends, hands to a goroutine or stores in a longer-lived object (rule released-memory-not-retained).",
 "C04": "LDAP's request loop emits its event on every path to the next iteration (one-event-per-command for ldapService.handle).",
 "C05": "The pushers queue no bytes that still belong to a buffer they reset for the next event (rule released-memory-not-retained over pushers and event).",
 "C09": "A datagram pseudo-connection reports the end of its stream by what is left of its buffer (length zero, or a read offset that reached the length, directly or through a flag only set from such a test; rule datagram-end-reported).",
 "C13": "No refusal that precedes the certificate callback in the vendored readClientHello depends on a ClientHello field other than the offered version and the renegotiation extension (rule refusals-before-callback).",
 "C14": "A pooled header is not captured by the port handler goroutine (rule released-memory-not-retained over listener/canary); a data octet added outside the pair loop of a checksum routine is shifted to the high byte (rule checksum-odd-octet-high).",
 "C15": "The dispatcher's peek connection keeps its own copy of what it peeked (shared with C08; rule peek-replay) and no recycled buffer stays reachable behind a returned connection (rule released-memory-not-retained over server and services).",
 "C17": "The reply buffer handed to the HTTP writer does not point into a pooled or reset encoder (rule released-memory-not-retained over services/ipp and services/decoder).",
 "C19": "No loop of the server walks a list (a field) that it assigns inside its body (rule ranged-list-untouched).",
 "C20": "Checksum routines of the raw listener treat the last octet of an odd-length message as the high byte (rule checksum-odd-octet-high).",
}
for _id, _t in ADD4.items():
    P[_id]["text"] += " " + _t

ADD5 = {
 "C02": "The port list of a port-scan report, the one place where the unrecovered knock detector indexes by a frame-driven count, is sized by the set it is filled from (shared with C20; rule knock-list-index-safe).",
 "C03": "Outside its constructor the per-source limiter assigns no plain field without holding a mutex of the limiter (rule limiter-state-synchronised).",
 "C04": "A datagram and the peeked bytes are served to the end: what did not fit one Read is kept for the next (shared with C08; rule read-drops-only-copied).",
 "C08": "Every configuration entry is decoded into a struct allocated inside the entry loop (a port configured without services does not inherit the previous entry's; rule entry-struct-fresh).",
 "C09": "A helper goroutine that watches an exit channel in a select blocks nowhere else inside that loop (no plain send or receive beside the select; rule helper-waits-on-exit).",
 "C11": "Every filesystem object is built with a root (no zero-value Htfs; rule fs-object-rooted).",
 "C12": "The ssh simulator's ServerConfig.MaxAuthTries is set on every path to NewServerConn from the configured value or a negative constant (the library reads 0 as six attempts; rule ssh-attempts-not-capped).",
 "C14": "The payload the segment handler sees is cut at the IPv4 total length (shared with C20; rule payload-cut-at-ip-length).",
 "C16": "A channel of the agent connection is closed under a closed-already flag that is read, set and followed by the close inside one critical section (rule close-once).",
 "C18": "After a failed Set a getter returns an error or no identity, never the freshly generated one (rule identity-not-used-unless-stored).",
 "C20": "Every frame or header object the receive loop hands to a handle* method is produced inside that iteration (rule frame-objects-per-frame).",
}
for _id, _t in ADD5.items():
    P[_id]["text"] += " " + _t

ADD6 = {
 "C01": "The decoder's recorded error stays set once set (shared with C09/C17; rule decoder-error-sticky).",
 "C02": "A function of the receive loop's reach that holds a mutex to its end calls nothing that locks the same mutex again (rule no-relock-of-held-mutex).",
 "C03": "No function of the service packages holds a mutex shared through a pointer field while it reads a handed-in reader to its end (rule shared-lock-not-across-client-io).",
 "C04": "Per-peer tables of the shared service object are keyed by the remote address or its String(), never by the local address or a part of the remote one (shared with C03; rule per-peer-key-complete).",
 "C05": "A time.Time stored in an event does not come from time.Unix/Date/Parse with non-constant arguments (MarshalJSON rejects years outside 0..9999; clause of event-value-serialisable).",
 "C09": "A loop over a library-owned queue is left only when the queue is closed, or after the queue was handed to a drainer (clause of library-queue-drained).",
 "C12": "USER records its argument as the pending user on every path to its return (rule ftp-user-recorded).",
 "C13": "The parser appends every extension type it reads, under no condition other than the length checks of its loop (rule extension-list-complete).",
 "C14": "The ARP cache is asked for the peer's address or a gateway, never for the connection's local address (rule next-hop-of-peer).",
 "C19": "A service entry is put into the service table only after its Service was set (rule service-entry-complete).",
 "C20": "StateTable.Add refuses a state only for want of a free slot, not on a condition about an existing entry (rule state-add-refuses-only-when-full).",
}
for _id, _t in ADD6.items():
    P[_id]["text"] += " " + _t

ADD7 = {
 "C01": "In a goroutine without a recover no interface or pointer loaded from a field that another function sets to nil is used without a test of the loaded value (clause of unrecovered-goroutine).",
 "C02": "An admission counter taken before a goroutine is started is given back by a deferred call when that goroutine recovers from panics (rule admission-counter-released).",
 "C03": "An entry kept in a map of the shared service object is not stored under a many-to-one function (case folding, trimming, sub-slice) of an input the stored value is computed from (rule shared-memo-key-exact).",
 "C04": "In smtp a buffer that message content is accumulated into lives in the message object or is emptied wherever the message is replaced (rule message-state-per-message); the reporter-queue rule also covers ftp.",
 "C07": "After a prefix of the batch was written without its final newline no further file write is reachable except through a rotation that succeeded (rule line-boundary-new-file).",
 "C08": "The port-table construction rules of C19 (first-wins for compatible definitions, guarded sinks) are run for C08 as well.",
 "C09": "The accept deadline of a per-connection listener is not conditional on a comma-ok assertion of a listener that may have been wrapped (clause of listener-accept-bounded).",
 "C12": "A command log drained next to a termination arm is a rendezvous channel (shared with C04; rule reporter-handover-synchronous over services/ftp).",
 "C13": "The callback that takes the digest and server name is stored into a tls.Config built in Handle for that connection (rule hello-callback-own-config).",
 "C14": "A port decoder reports buff[:n] with n a (sum of) Read result(s), also through a helper (rule decoder-payload-read-count).",
 "C16": "conn2.send is called only before the session's goroutines exist and from the one goroutine that drains the out channel (rule single-frame-writer).",
 "C19": "The goroutines of the socket listener read no variable their starter overwrites (shared with C08/C03; rule goroutine-own-variables).",
 "C20": "A slice filled by an inner loop and read after the enclosing loop is not started afresh inside the enclosing loop (rule address-list-complete).",
}
for _id, _t in ADD7.items():
    P[_id]["text"] += " " + _t

ADD8 = {
 "C01": "A function value that can be nil (the nil constant, or a helper that returns nil on some path) is not appended to a list whose consumer calls every element without a test, in a goroutine without recover (clause of unrecovered-goroutine); lock-released-on-every-exit also rejects an index/slice the prover cannot discharge inside a critical section whose Unlock is not deferred.",
 "C02": "frame-bounds also covers tables of the listener's own indexed by a value read from the frame (scalar header fields followed into callees).",
 "C03": "C09's lock-released-on-every-exit (including implicit panics inside non-deferred critical sections) is run for C03 as well.",
 "C04": "A window of a buffered reader's own buffer (ReadSlice, Peek, Scanner.Bytes) and byte slices cut from it are not used after a later read from the same reader (rule borrowed-line-not-used-after-read).",
 "C07": "rotateFile.pos is set from the end offset of the file taken over (Seek(0, SeekEnd) or Stat().Size()), zero for a file the function just created, or advanced by a count (rule position-is-file-size).",
 "C09": "A helper goroutine that reports with a plain send on an unbuffered channel of its starter is received unconditionally, not in a select next to another arm (rule result-channel-not-abandoned).",
 "C14": "StateTable.Add takes a slot in TIME-WAIT in the scan iteration that finds it, while Get returns the first match whatever its state (rule new-state-before-time-wait); the channel Socket.flush signals with a non-blocking send has capacity for the token (rule wakeup-not-lost, shared with C16).",
 "C20": "A decoder table (map from uint16 to a function) of the raw listener is consulted with the datagram's destination port only (rule decoder-by-destination-port).",
}
for _id, _t in ADD8.items():
    P[_id]["text"] += " " + _t

ADD9 = {
 "C04": "A read buffer carried across the iterations of a request loop is not re-sliced to a run-time length inside it (shared with C05; rule read-buffer-full-size-per-request).",
 "C05": "A read buffer carried across the iterations of a request loop is not re-sliced to a run-time length inside it (rule read-buffer-full-size-per-request).",
 "C08": "C03/C04's datagram-buffer-per-connection is run for C08 as well (a datagram connection owns the bytes it was built from).",
 "C17": "Values the decoder composes with | do not widen a signed narrower piece below the top position (rule value-composed-unsigned).",
 "C18": "The parts of a multi-part identity record are hex-decoded from the offsets they were hex-encoded to (rule identity-record-layout).",
 "C19": "The list of port strings walked for an entry is the decoded fields joined by append; it passes through no other call and no sort (rule port-strings-in-configured-order).",
}
for _id, _t in ADD9.items():
    P[_id]["text"] += " " + _t

ADD10 = {
 "C03": "Where a handler records event.Payload(buff[:x]) of a buffer it has just read into, x is what that Read returned (rule payload-bounded-by-read-count).",
 "C04": "The isPrefix result of (*bufio.Reader).ReadLine is looked at wherever ReadLine is called in the service packages (rule readline-prefix-honoured).",
 "C09": "A loop that consumes from the connection and tests the error of its read/discard has a branch that leaves the loop on a non-nil error (rule drain-loop-leaves-on-error).",
 "C14": "Canary.send writes no field of the shared Canary object outside Canary.m (rule shared-scratch-under-lock).",
 "C16": "In agentConnection.Write a chunk copied inside a loop is not cut from the caller's buffer with a loop-variant upper bound and no lower bound (rule chunk-source-advances).",
 "C20": "In the TCP option loop the arm for option kind 0 (End-of-Option-List) leaves the loop (rule eol-ends-option-parsing).",
}
for _id, _t in ADD10.items():
    P[_id]["text"] += " " + _t

PENDING = {
}

def main():
    props = [json.loads(l) for l in open(os.path.join(ROOT, "properties.jsonl"))]
    checks, na = [], []
    for p in props:
        id = p["id"]
        e = P.get(id)
        if e and e["built"]:
            checks.append({
                "property_id": id,
                "quick_cmd": "./run_check.sh %s quick" % id,
                "thorough_cmd": "./run_check.sh %s thorough" % id,
                "evidence_file": "/verif/evidence/%s.json" % id,
                "replay_cmd_template": "./run_check.sh %s quick -replay {path}" % id,
                "engine": "htcheck",
                "level_claimed": {"category": "other", "text": e["text"], "design_ref": e["design_ref"]},
                "level_note": e["note"],
                "technique": e["technique"],
            })
        else:
            reason = (e or {}).get("reason") or "static check not built yet in this revision; see DESIGN.md §2 %s for the planned structural clauses" % id
            na.append({"property_id": id, "reason": reason})
    m = {
        "version": 1,
        "setup_cmd": "cd checker && GOFLAGS=-mod=mod GOPROXY=off GOSUMDB=off GOTOOLCHAIN=local go build -o ../bin/htcheck ./cmd/htcheck",
        "hooks": {
            "guard": "verif",
            "enable": "no hooks: every check is a static analysis of /repo's working tree (go/packages + go/ssa); nothing in honeytrap is executed or instrumented",
            "baseline_off_cmd": BASELINE_OFF,
            "source_commits": [],
            "add_only": True,
        },
        "engines": [{
            "name": "htcheck",
            "path": "checker/",
            "serves_properties": [c["property_id"] for c in checks],
            "kind_free_text": "repository-specific static analyser (Go, golang.org/x/tools v0.29.0: go/packages, go/ssa, VTA/CHA call graphs); one rule file per property under checker/internal/rules",
        }],
        "checks": checks,
        "notes": "All checks are static (no honeytrap code is run). Level 'other' = static necessary-condition check of named structural clauses; each evidence file lists the obligations decided. See DESIGN.md.",
        "not_applicable": na,
    }
    json.dump(m, open(os.path.join(ROOT, "MANIFEST.json"), "w"), indent=1)
    print("checks:", [c["property_id"] for c in checks], "n/a:", len(na))

if __name__ == "__main__":
    main()
