#!/usr/bin/env python3
"""Sensitivity self-test of one property's static check (thorough tier).

usage: selftest.py <property id> [--update-meta]

Every seeded regression under /verif/seeded/<id>-*/ and every line of /verif/selftest/mutants.tsv for <id> is applied
to a scratch copy of /repo's *current working tree* (outside /repo and /verif, removed afterwards); the checker is run
on the copy without executing honeytrap and must report a violation from a rule of this property (the expected rule
when one is recorded).  The behaviour-preserving changes under /verif/benign/<id>/ are applied the same way and the check
must stay silent on each.  The reverse of every `fix:` commit (selftest/revfix/, applied with -R where it still applies)
re-introduces a defect found on the original tree and must be flagged again.  A patch that no longer applies to the current tree, or a mutant that no longer type-checks, is
skipped and reported as such.  The result is written into evidence/<id>.json under coverage.selftest; it never changes
the check's exit status (the verdict on /repo is the checker's alone)."""
import json, os, re, shutil, subprocess, sys, tempfile
from concurrent.futures import ThreadPoolExecutor

VERIF = os.path.dirname(os.path.dirname(os.path.abspath(__file__)))
REPO = os.environ.get("HT_REPO", "/repo")
ENV = dict(os.environ, GOFLAGS="-mod=mod", GOPROXY="off", GOSUMDB="off", GOTOOLCHAIN="local")
ENV.pop("GOWORK", None)

def variants(pid):
    out = []
    sd = os.path.join(VERIF, "seeded")
    for d in sorted(os.listdir(sd)) if os.path.isdir(sd) else []:
        if not d.startswith(pid + "-"):
            continue
        base = os.path.join(sd, d)
        patch = os.path.join(base, "patch.rebased.diff")
        if not os.path.exists(patch):
            patch = os.path.join(base, "patch.diff")
        if not os.path.exists(patch):
            continue
        exp = []
        try:
            meta = json.load(open(os.path.join(base, "meta.json")))
            for x in meta.get("detected_by") or []:
                m = re.match(r"^(C\d\d) ([a-z0-9-]+)", x)
                if m and m.group(1) == pid:
                    exp.append(m.group(2))
        except Exception:
            pass
        out.append({"name": "seed " + d, "kind": "patch", "patch": patch, "expect": exp})
    rd = os.path.join(VERIF, "selftest", "revfix")
    for f in sorted(os.listdir(rd)) if os.path.isdir(rd) else []:
        if f.startswith(pid + "-") and f.endswith(".diff"):
            out.append({"name": "reverse of fix " + f[:-5], "kind": "revfix", "patch": os.path.join(rd, f), "expect": []})
    bd = os.path.join(VERIF, "benign", pid)
    for f in sorted(os.listdir(bd)) if os.path.isdir(bd) else []:
        if f.endswith(".diff"):
            out.append({"name": "benign %s/%s" % (pid, f), "kind": "benign", "patch": os.path.join(bd, f), "expect": []})
    tsv = os.path.join(VERIF, "selftest", "mutants.tsv")
    if os.path.exists(tsv):
        for i, line in enumerate(open(tsv)):
            line = line.rstrip("\n")
            if not line or line.startswith("#"):
                continue
            f = line.split("\t")
            if len(f) < 4 or f[0] != pid:
                continue
            out.append({"name": "mutant %s:%d %s" % (pid, i + 1, f[1]), "kind": "sed", "file": f[1], "sed": f[2], "expect": [r for r in f[3].split(",") if r], "note": f[4] if len(f) > 4 else ""})
    return out

def run_variant(pid, v):
    scratch = tempfile.mkdtemp(prefix="htself.")
    try:
        repo = os.path.join(scratch, "repo")
        subprocess.run(["rsync", "-a", "--exclude", ".git", REPO + "/", repo + "/"], check=True)
        vdir = os.path.join(scratch, "verif")
        os.makedirs(vdir)
        shutil.copy(os.path.join(VERIF, "known_findings.json"), vdir)
        if v["kind"] in ("patch", "benign", "revfix"):
            cmd = ["git", "apply", "--whitespace=nowarn"] + (["-R"] if v["kind"] == "revfix" else []) + [v["patch"]]
            r = subprocess.run(cmd, cwd=repo, capture_output=True, text=True)
            if r.returncode != 0:
                return dict(v, result="skipped", why="patch does not apply to the current tree")
        else:
            path = os.path.join(repo, v["file"])
            if not os.path.exists(path):
                return dict(v, result="skipped", why="file not present")
            before = open(path).read()
            subprocess.run(["sed", "-i", v["sed"], path], check=True)
            if open(path).read() == before:
                return dict(v, result="skipped", why="mutation does not match the current source")
        r = subprocess.run([os.path.join(VERIF, "bin", "htcheck"), "-p", pid, "-tier", "quick", "-dir", repo, "-verif", vdir], capture_output=True, text=True, env=ENV)
        out = r.stdout
        if "checker could not analyse the tree" in out:
            return dict(v, result="skipped", why="variant does not type-check: " + out.split("\n")[0][:200])
        fired = sorted(set(re.findall(r"^\s+(?:VIOLATED|UNDECIDED) rule=([A-Za-z0-9_-]+)", out, re.M)))
        if v["kind"] == "benign":
            # a behaviour-preserving change: the check must stay silent
            return dict(v, result="silent" if (not fired and r.returncode == 0) else "FALSE-ALARM", fired=fired)
        ok = bool(fired) and r.returncode == 1 and (not v["expect"] or any(e in fired for e in v["expect"]))
        return dict(v, result="detected" if ok else "MISSED", fired=fired)
    finally:
        shutil.rmtree(scratch, ignore_errors=True)

def main():
    pid = sys.argv[1]
    vs = variants(pid)
    with ThreadPoolExecutor(max_workers=int(os.environ.get("HT_SELFTEST_JOBS", "4"))) as ex:
        res = list(ex.map(lambda v: run_variant(pid, v), vs))
    sil = sum(1 for r in res if r["result"] == "silent")
    fal = [r for r in res if r["result"] == "FALSE-ALARM"]
    det = sum(1 for r in res if r["result"] == "detected")
    mis = [r for r in res if r["result"] == "MISSED"]
    skp = sum(1 for r in res if r["result"] == "skipped")
    for r in res:
        print("SELFTEST %-8s %s %s" % (r["result"], r["name"], ",".join(r.get("fired", [])) or r.get("why", "")))
    print("SELFTEST property=%s variants=%d detected=%d missed=%d skipped=%d benign_silent=%d false_alarms=%d" % (pid, len(res), det, len(mis), skp, sil, len(fal)))
    ev = os.path.join(VERIF, "evidence", pid + ".json")
    if os.path.exists(ev):
        e = json.load(open(ev))
        e.setdefault("coverage", {})["selftest"] = {
            "what": "seeded regressions and mutants applied to scratch copies of the current working tree; the static checker must flag each (no code is executed)",
            "variants": len(res), "detected": det, "missed": len(mis), "skipped": skp, "benign_silent": sil, "false_alarms": len(fal),
            "results": [{k: r.get(k) for k in ("name", "result", "fired", "expect", "why") if r.get(k) is not None} for r in res]}
        json.dump(e, open(ev, "w"), indent=1)
    if "--update-meta" in sys.argv:
        for r in res:
            if r["kind"] == "patch" and r["result"] == "detected" and not r["expect"]:
                mp = os.path.join(os.path.dirname(r["patch"]), "meta.json")
                m = json.load(open(mp))
                m["detected_by"] = ["%s %s" % (pid, f) for f in r["fired"]]
                json.dump(m, open(mp, "w"), indent=1)
    return 0

if __name__ == "__main__":
    sys.exit(main())
