#!/bin/bash
# usage: try_patch.sh <patch.diff> <prop> [<prop>...]  — applies the patch to /repo, runs the checks, always reverts.
patch=$1; shift
cd /repo || exit 2
if [ -n "$(git status --porcelain)" ]; then echo "/repo not clean"; exit 2; fi
[ -f "${patch%patch.diff}patch.rebased.diff" ] && patch="${patch%patch.diff}patch.rebased.diff"; git apply "$patch" || { echo "patch does not apply"; exit 2; }
trap 'git -C /repo checkout -- . ; git -C /repo clean -fdq' EXIT
for id in "$@"; do
  /verif/bin/htcheck -p "$id" -verif /tmp/try_verif 2>&1 | grep -E "VIOLATION|VIOLATED|UNDECIDED|^      |KNOWN|^C[0-9]+:" | head -${LINES_MAX:-30}
done
