#!/usr/bin/env python3
"""gen_seedrows.py <round letter> <descriptions.json>  — prints DESIGN §7.6 seed-table rows for one round from seeded/<id>/{patch.diff,meta.json}."""
import sys, json, re, os
rnd, desc = sys.argv[1], json.load(open(sys.argv[2]))
for k in sorted(desc):
    d = "/verif/seeded/" + k
    v = desc[k]
    text = v[1] if isinstance(v, list) else v
    patch = d + ("/patch.rebased.diff" if os.path.exists(d + "/patch.rebased.diff") else "/patch.diff")
    files = re.findall(r"^diff --git a/(\S+)", open(patch).read(), re.M)
    det = json.load(open(d + "/meta.json")).get("detected_by", [])
    print("| %s | %s | %s | %s |" % (k, ", ".join(files), text.replace("|", "\\|"), "; ".join(det).replace("|", "\\|")))
