#!/usr/bin/env python3
"""benign.py <dir with N.diff files> [prop ...]  — must-stay-silent test: applies each behaviour-preserving diff to a scratch
copy of /repo's working tree and runs the given property checks (default: all 20) on it; prints every alarm."""
import glob, json, os, re, shutil, subprocess, sys, tempfile
from concurrent.futures import ThreadPoolExecutor
VERIF = os.path.dirname(os.path.dirname(os.path.abspath(__file__)))
ENV = dict(os.environ, GOFLAGS="-mod=mod", GOPROXY="off", GOSUMDB="off", GOTOOLCHAIN="local"); ENV.pop("GOWORK", None)
def main():
    d = sys.argv[1]
    props = sys.argv[2:] or ["C%02d" % i for i in range(1, 21)]
    for diff in sorted(glob.glob(os.path.join(d, "*.diff"))):
        scratch = tempfile.mkdtemp(prefix="htbenign.")
        try:
            repo = os.path.join(scratch, "repo")
            subprocess.run(["rsync", "-a", "--exclude", ".git", "/repo/", repo + "/"], check=True)
            r = subprocess.run(["git", "apply", "--whitespace=nowarn", diff], cwd=repo, capture_output=True, text=True)
            if r.returncode != 0:
                print("SKIP %s: does not apply: %s" % (diff, r.stderr.strip()[:120])); continue
            b = subprocess.run(["go", "build", "./..."], cwd=repo, capture_output=True, text=True, env=ENV)
            if b.returncode != 0:
                print("SKIP %s: does not build" % diff); continue
            def run(pid):
                vdir = os.path.join(scratch, "verif-" + pid); os.makedirs(vdir, exist_ok=True)
                shutil.copy(os.path.join(VERIF, "known_findings.json"), vdir)
                r = subprocess.run([os.environ.get("HTCHECK", os.path.join(VERIF, "bin", "htcheck")), "-p", pid, "-dir", repo, "-verif", vdir], capture_output=True, text=True, env=ENV)
                al = re.findall(r"^\s+(?:VIOLATED|UNDECIDED) rule=(\S+) construct=(.*?) at (\S+)\n\s+(.*)$", r.stdout, re.M)
                if "checker could not analyse" in r.stdout:
                    al.append(("machinery", r.stdout.split("\n")[0][:200], "-", ""))
                return pid, al
            with ThreadPoolExecutor(max_workers=8) as ex:
                res = list(ex.map(run, props))
            alarms = [(p, a) for p, al in res for a in al]
            print("%s: %s" % (diff, "silent" if not alarms else "%d ALARM(S)" % len(alarms)))
            for p, a in alarms:
                print("   %s %s | %s | %s | %s" % (p, a[0], a[1][:110], a[2], a[3][:160]))
        finally:
            shutil.rmtree(scratch, ignore_errors=True)
if __name__ == "__main__":
    main()
