#!/bin/bash
# usage: mutate.sh <prop> <file rel to /repo> <sed expr>   — applies an in-place sed mutation, builds, runs the check, reverts.
export GOFLAGS=-mod=mod GOPROXY=off GOSUMDB=off GOTOOLCHAIN=local; unset GOWORK
prop=$1; f=$2; expr=$3
cd /repo || exit 2
[ -z "$(git status --porcelain)" ] || { echo "/repo not clean"; exit 2; }
trap 'git -C /repo checkout -- .' EXIT
sed -i "$expr" "$f"
if git diff --quiet; then echo "MUTATION DID NOT APPLY"; exit 2; fi
go build ./... 2>&1 | head -3 || { echo "does not build"; exit 2; }
n=$(/verif/bin/htcheck -p $prop -verif /tmp/try_verif | grep -c "^VIOLATION")
echo "violations=$n  ($expr)"
/verif/bin/htcheck -p $prop -verif /tmp/try_verif | grep -A1 -E "VIOLATED|UNDECIDED" | grep -v "^--" | cut -c1-${W:-260} | head -${N:-4}
