#!/bin/bash
# usage: confirm_seed.sh <seed dir with patch.diff and demo/> <demo file name> <dest rel path in repo> <pkg> <-run regex> [timeout]
# Confirms in a scratch worktree: demo passes without patch, fails with patch; touched packages build.
export GOFLAGS=-mod=mod GOPROXY=off GOSUMDB=off GOTOOLCHAIN=local; unset GOWORK
sd=$1; demo=$2; dest=$3; pkg=$4; run=$5; to=${6:-120s}
wt=/tmp/wt/confirm-$$
git -C /repo worktree add --detach $wt HEAD >/dev/null 2>&1 || exit 2
trap 'git -C /repo worktree remove --force '$wt' >/dev/null 2>&1' EXIT
cd $wt
mkdir -p "$(dirname "$dest")"; cp "$sd/demo/$demo" "$dest"
echo "--- without patch:"; go test -vet=off -count=1 -timeout $to -run "$run" $pkg 2>&1 | tail -3; r0=${PIPESTATUS[0]}
P="$sd/patch.diff"; [ -f "$sd/patch.rebased.diff" ] && P="$sd/patch.rebased.diff"; git apply "$P" || { echo "patch does not apply"; exit 2; }
echo "--- build with patch:"; go build ./... 2>&1 | tail -3; rb=${PIPESTATUS[0]}
echo "--- with patch:"; go test -vet=off -count=1 -timeout $to -run "$run" $pkg 2>&1 | tail -5; r1=${PIPESTATUS[0]}
echo "RESULT without=$r0 build=$rb with=$r1  (want 0 0 nonzero)"
