#!/usr/bin/env python3
"""Replaces the as-built table of DESIGN.md §7.2 (header row '| id | rules (obligations) | …') by the output of gen_asbuilt.py."""
import subprocess, os
V = os.path.dirname(os.path.dirname(os.path.abspath(__file__)))
new = subprocess.run(["python3", V + "/tools/gen_asbuilt.py"], capture_output=True, text=True, check=True).stdout.rstrip("\n").split("\n")
s = open(V + "/DESIGN.md").read().split("\n")
i = next(k for k, l in enumerate(s) if l.startswith("| id | rules (obligations)"))
j = i
while j < len(s) and s[j].startswith("|"):
    j += 1
s[i:j] = new
open(V + "/DESIGN.md", "w").write("\n".join(s))
print("replaced rows", i, j)
