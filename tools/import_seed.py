#!/usr/bin/env python3
"""import_seed.py <seed-id> <property> <demo file> <dest rel path> <pkg> <run regex> <needs...>  — copies /tmp/seeds/<seed-id> into /verif/seeded/<seed-id>/ with meta.json"""
import sys, os, shutil, json
sid, prop, demo, dest, pkg, run = sys.argv[1:7]
needs = " ".join(sys.argv[7:])
src = "/tmp/seeds/" + sid
dst = "/verif/seeded/" + sid
os.makedirs(dst + "/demo", exist_ok=True)
shutil.copy(src + "/patch.diff", dst + "/patch.diff")
shutil.copy(src + "/demo/" + demo, dst + "/demo/" + demo + ".txt")  # .txt so the go tool never compiles it inside /verif
if os.path.exists(src + "/notes.md"):
    shutil.copy(src + "/notes.md", dst + "/notes.md")
meta = {
  "seed": sid, "property": prop, "origin": "independent sub-agent given only the property text and a scratch worktree",
  "needs_to_manifest": needs,
  "demo": {"file": "demo/" + demo + ".txt", "place_at": dest, "cmd": "go test -vet=off -count=1 -run '%s' %s" % (run, pkg)},
  "confirmed": {"how": "tools/confirm_seed.sh in a scratch worktree of /repo HEAD: demo passes without patch, `go build ./...` ok and demo fails with patch; existing tests of the touched packages pass with the patch (run by the sub-agent, see notes.md)",
                "without_patch": "pass", "with_patch": "fail", "build_with_patch": "ok"},
  "detected_by": []
}
json.dump(meta, open(dst + "/meta.json", "w"), indent=1)
print("imported", sid)
