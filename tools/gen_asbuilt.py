#!/usr/bin/env python3
"""Prints the 'as built' markdown table (rules, obligations, configurations, self-test) from evidence/*.json."""
import json, glob, os
V = os.path.dirname(os.path.dirname(os.path.abspath(__file__)))
print("| id | rules (obligations) | total | configs | self-test (detected/variants) |")
print("|----|---------------------|-------|---------|-------------------------------|")
for f in sorted(glob.glob(V + "/evidence/C*.json")):
    e = json.load(open(f)); c = e["coverage"]
    rules = []
    for r, m in sorted(c["per_rule"].items()):
        n = sum(v for k, v in m.items() if k != "observed")
        rules.append("%s (%d)" % (r, n))
    st = c.get("selftest")
    cfg = 1 + len(c.get("additional_build_configurations", []))
    print("| %s | %s | %d | %d | %s |" % (e["property_id"], ", ".join(rules), c["obligations"], cfg, ("%d/%d" % (st["detected"], st["variants"]) + (" (%d skipped)" % st["skipped"] if st.get("skipped") else "")) if st else "-"))
