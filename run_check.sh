#!/bin/bash
# usage: run_check.sh <property id> [quick|thorough] [extra htcheck flags]
# Builds the checker if needed (offline) and decides the property on /repo's current working tree.
# quick: linux/amd64.  thorough: linux/amd64 + linux/arm64 + linux/s390x, then the sensitivity self-test
# (seeded regressions and mutants on scratch copies of the working tree, see tools/selftest.py).
set -u
cd "$(dirname "$0")"
export GOFLAGS=-mod=mod GOPROXY=off GOSUMDB=off GOTOOLCHAIN=local
unset GOWORK
id=$1; tier=${2:-${VERIF_TIER:-quick}}; shift; [ $# -gt 0 ] && shift
if [ ! -x bin/htcheck ] || [ -n "$(find checker -name '*.go' -newer bin/htcheck 2>/dev/null | head -1)" ]; then
  (cd checker && go build -o ../bin/htcheck ./cmd/htcheck) || { echo "VIOLATION property=$id replay=/verif/checker (checker does not build)"; exit 1; }
fi
./bin/htcheck -p "$id" -tier "$tier" -dir /repo -verif "$(pwd)" "$@"
code=$?
if [ "$tier" = thorough ] && [ $# -eq 0 ]; then
  # sensitivity self-test on scratch copies (never changes the verdict; recorded in the evidence file)
  python3 tools/selftest.py "$id" || true
fi
exit $code
