// htcheck decides the structural clauses of properties C01..C20 on /repo's current working tree.
package main

import (
	"flag"
	"fmt"
	"os"
	"runtime"
	"runtime/debug"
	"sort"
	"strings"
	"time"

	"htcheck/internal/core"
	"htcheck/internal/rules"
)

func main() {
	prop := flag.String("p", "", "property id (C01..C20)")
	tier := flag.String("tier", "quick", "quick|thorough")
	dir := flag.String("dir", "/repo", "honeytrap working tree")
	verif := flag.String("verif", "/verif", "verif directory (evidence, known_findings.json)")
	replay := flag.String("replay", "", "replay file: re-run and print only that construct")
	arch := flag.String("arch", "", "GOARCH override (default: host amd64)")
	list := flag.Bool("list", false, "list properties with a rule")
	dump := flag.String("dump", "", "debug: print SSA of in-repo functions whose name contains this string")
	flag.Parse()
	if *list {
		var ids []string
		for id := range rules.Registry {
			ids = append(ids, id)
		}
		sort.Strings(ids)
		for _, id := range ids {
			fmt.Println(id)
		}
		return
	}
	if *dump != "" {
		p, err := core.Load(*dir, *arch)
		if err != nil {
			fmt.Println(err)
			os.Exit(2)
		}
		for _, fn := range p.Funcs() {
			if strings.Contains(core.FnName(fn), *dump) {
				fn.WriteTo(os.Stdout)
			}
		}
		return
	}
	rule, ok := rules.Registry[*prop]
	if !ok {
		fmt.Fprintf(os.Stderr, "no rule for property %q\n", *prop)
		os.Exit(2)
	}
	start := time.Now()
	code := run(*prop, *tier, *dir, *verif, *replay, *arch, rule, start)
	os.Exit(code)
}

func run(prop, tier, dir, verif, replay, arch string, rule rules.Rule, start time.Time) (code int) {
	failClosed := func(what string) int {
		// machinery failure: fail closed with a VIOLATION line naming the cause
		_ = os.MkdirAll(verif+"/evidence/findings", 0o755)
		path := verif + "/evidence/findings/" + prop + "-machinery.json"
		_ = os.WriteFile(path, []byte(fmt.Sprintf("{\"rule\":\"machinery\",\"key\":%q}", what)), 0o644)
		fmt.Printf("checker could not analyse the tree: %s\nVIOLATION property=%s replay=%s\n", what, prop, path)
		return 1
	}
	defer func() {
		if r := recover(); r != nil {
			code = failClosed(fmt.Sprintf("panic in checker: %v\n%s", r, debug.Stack()))
		}
	}()
	p, err := core.Load(dir, arch)
	if err != nil {
		return failClosed(err.Error())
	}
	c := core.NewCtx(prop, tier, p)
	c.Start = start
	rule(c)
	if tier == "thorough" && arch == "" && replay == "" {
		// the other build configurations honeytrap compiles for (32-bit targets do not type-check: services/docker
		// has an int constant that overflows; non-linux targets lack the canary listener)
		for _, a := range []string{"arm64", "s390x"} {
			p2, err := core.Load(dir, a)
			if err != nil {
				return failClosed("linux/" + a + ": " + err.Error())
			}
			c2 := core.NewCtx(prop, tier, p2)
			rule(c2)
			c.Merge(c2, "linux/"+a)
			p2, c2 = nil, nil
			runtime.GC()
		}
	}
	return c.Finish(verif, replay)
}
