// Package zone: a small difference-bound ("zone") prover for slice/index obligations over go/ssa.
//
// Facts are difference constraints x - y <= c over atoms (integer SSA values, len(v) of slice/string values and
// the constant ZERO).  They come from (1) definitions (v = x + k, conversions that cannot truncate, len of slices
// and makes, interval arithmetic on masks/shifts/multiplications, type ranges), (2) the branch conditions that
// dominate the program point (edge dominance), (3) memory forwarding of struct-field loads to the store(s) that
// reach them.  A query a - b <= c is a shortest-path question; when it fails and an operand is a phi (or a field
// load with several reaching stores) the query is split per incoming edge, using the conditions that hold on that
// edge (depth-bounded).  Sound for the modelled operations; anything not modelled yields "unknown", never "safe".
package zone

import (
	"fmt"
	"go/constant"
	"go/token"
	"go/types"
	"math"

	"golang.org/x/tools/go/ssa"

	"htcheck/internal/core"
)

const inf = math.MaxInt64 / 4

type atomKind int

const (
	kZero atomKind = iota
	kVal
	kLen
	kCell    // integer value of a struct field at function entry state: key = cellKey
	kLenCell // len of a slice-typed struct field at entry state
	kSum     // s1 + s2 of two atoms
)

type atom struct {
	k   atomKind
	v   ssa.Value
	key string // kCell/kLenCell: "<render base>#<field>"; kSum: canonical "a|b"
	typ string // kCell: "<named type>#<field>" for field invariants
}

var zero = atom{k: kZero}

// term = atom + c
type term struct {
	a atom
	c int64
}

type edge struct {
	from, to atom // to - from <= w
	w        int64
}

// Prover holds per-function state.
type Prover struct {
	fn       *ssa.Function
	ivalMemo map[ssa.Value][2]int64
	ivalBusy map[ssa.Value]bool
	// EntryLen: assumed minimum length of parameter slices (entry assumption), by parameter
	EntryLen map[*ssa.Parameter]int64
	// Assumptions used (for evidence)
	Notes  map[string]bool
	is32   bool
	rep    map[string]*ssa.UnOp
	stored map[string]bool
	sums   map[string][2]atom
	// FieldLower: lower bounds that hold for an integer struct field as a (checked) type invariant: "<pkg.Type>#<field>" -> bound
	FieldLower map[string]int64
	// Summaries of guard functions: callee -> conditions (over the callee's own values) that hold when it returns nil/true
	Summaries map[*ssa.Function][]core.Cond
}

// New creates a prover for fn.
func New(fn *ssa.Function) *Prover {
	p := &Prover{fn: fn, ivalMemo: map[ssa.Value][2]int64{}, ivalBusy: map[ssa.Value]bool{}, EntryLen: map[*ssa.Parameter]int64{}, Notes: map[string]bool{}}
	p.rep = map[string]*ssa.UnOp{}
	p.stored = map[string]bool{}
	p.sums = map[string][2]atom{}
	p.FieldLower = map[string]int64{}
	p.Summaries = map[*ssa.Function][]core.Cond{}
	for _, b := range fn.Blocks {
		for _, in := range b.Instrs {
			if st, ok := in.(*ssa.Store); ok {
				if c, ok := cellOf(st.Addr); ok && isPureAddr(c.base) {
					p.stored[cellKey(c)] = true
				}
			}
		}
	}
	return p
}

func cellKey(c cell) string { return fmt.Sprintf("%s#%d", core.Render(c.base), c.field) }

// repLoad: for a cell that is never stored to in this function all loads yield the same value (callees are
// assumed not to modify the caller's header structs while it is being parsed/used – listed as an assumption).
func (p *Prover) repLoad(ld *ssa.UnOp) ssa.Value {
	c, ok := cellOf(ld.X)
	if !ok || !isPureAddr(c.base) {
		return ld
	}
	k := cellKey(c)
	if p.stored[k] {
		return ld
	}
	if r, ok := p.rep[k]; ok {
		return r
	}
	p.rep[k] = ld
	p.Notes["loads of "+k+" in "+p.fn.Name()+" treated as one value (no store to it in the function)"] = true
	return ld
}

func isWideInt(t types.Type) bool {
	b, ok := t.Underlying().(*types.Basic)
	if !ok {
		return false
	}
	switch b.Kind() {
	case types.Int, types.Int64, types.Uint, types.Uint64, types.Uintptr, types.Int32, types.Uint32, types.UntypedInt:
		return true
	}
	return false
}

func typeRange(t types.Type) (int64, int64, bool) {
	b, ok := t.Underlying().(*types.Basic)
	if !ok {
		return 0, 0, false
	}
	switch b.Kind() {
	case types.Uint8:
		return 0, 255, true
	case types.Uint16:
		return 0, 65535, true
	case types.Uint32:
		return 0, math.MaxUint32, true
	case types.Uint, types.Uint64, types.Uintptr:
		return 0, inf, true
	case types.Int8:
		return -128, 127, true
	case types.Int16:
		return -32768, 32767, true
	case types.Int32:
		return math.MinInt32, math.MaxInt32, true
	case types.Int, types.Int64:
		return -inf, inf, true
	}
	return 0, 0, false
}

func constInt(v ssa.Value) (int64, bool) {
	c, ok := v.(*ssa.Const)
	if !ok || c.Value == nil || c.Value.Kind() != constant.Int {
		return 0, false
	}
	n, exact := constant.Int64Val(c.Value)
	if !exact {
		return 0, false
	}
	return n, true
}

func clamp(x int64) int64 {
	if x > inf {
		return inf
	}
	if x < -inf {
		return -inf
	}
	return x
}

func addSat(a, b int64) int64 {
	if a >= inf || b >= inf {
		return inf
	}
	if a <= -inf || b <= -inf {
		return -inf
	}
	return clamp(a + b)
}

func mulSat(a, b int64) int64 {
	if a == 0 || b == 0 {
		return 0
	}
	if (a >= inf || a <= -inf) || (b >= inf || b <= -inf) {
		if (a > 0) == (b > 0) {
			return inf
		}
		return -inf
	}
	r := a * b
	if a != 0 && r/a != b {
		if (a > 0) == (b > 0) {
			return inf
		}
		return -inf
	}
	return clamp(r)
}

// Ival computes a sound interval for integer value v from its definition (no path conditions).
func (p *Prover) Ival(v ssa.Value) (int64, int64) {
	if r, ok := p.ivalMemo[v]; ok {
		return r[0], r[1]
	}
	tlo, thi, okT := typeRange(v.Type())
	if !okT {
		tlo, thi = -inf, inf
	}
	if p.ivalBusy[v] {
		return tlo, thi
	}
	p.ivalBusy[v] = true
	lo, hi := p.ival(v, tlo, thi)
	delete(p.ivalBusy, v)
	if lo < tlo {
		lo = tlo
	}
	if hi > thi {
		hi = thi
	}
	if lo > hi { // wrapped: fall back to the type range
		lo, hi = tlo, thi
	}
	p.ivalMemo[v] = [2]int64{lo, hi}
	return lo, hi
}

func (p *Prover) ival(v ssa.Value, tlo, thi int64) (int64, int64) {
	if n, ok := constInt(v); ok {
		return n, n
	}
	switch x := v.(type) {
	case *ssa.Convert:
		slo, shi := p.Ival(x.X)
		if _, _, ok := typeRange(x.X.Type()); !ok {
			return tlo, thi
		}
		if slo >= tlo && shi <= thi {
			return slo, shi
		}
		return tlo, thi
	case *ssa.ChangeType:
		return p.Ival(x.X)
	case *ssa.BinOp:
		alo, ahi := p.Ival(x.X)
		blo, bhi := p.Ival(x.Y)
		var lo, hi int64 = tlo, thi
		switch x.Op {
		case token.ADD:
			lo, hi = addSat(alo, blo), addSat(ahi, bhi)
		case token.SUB:
			lo, hi = addSat(alo, -bhi), addSat(ahi, -blo)
		case token.MUL:
			c := []int64{mulSat(alo, blo), mulSat(alo, bhi), mulSat(ahi, blo), mulSat(ahi, bhi)}
			lo, hi = c[0], c[0]
			for _, y := range c {
				if y < lo {
					lo = y
				}
				if y > hi {
					hi = y
				}
			}
		case token.AND:
			// non-negative mask bounds the result
			if blo >= 0 && bhi < inf {
				lo, hi = 0, bhi
				if alo >= 0 && ahi < hi {
					hi = ahi
				}
			} else if alo >= 0 && ahi < inf {
				lo, hi = 0, ahi
			}
		case token.SHR:
			if k, ok := constInt(x.Y); ok && k >= 0 && k < 63 && alo >= 0 {
				lo, hi = alo>>uint(k), ahi
				if ahi < inf {
					hi = ahi >> uint(k)
				}
			}
		case token.SHL:
			if k, ok := constInt(x.Y); ok && k >= 0 && k < 32 && alo >= 0 {
				lo, hi = mulSat(alo, 1<<uint(k)), mulSat(ahi, 1<<uint(k))
			}
		case token.REM:
			if blo > 0 && bhi < inf {
				if alo >= 0 {
					lo, hi = 0, bhi-1
				} else {
					lo, hi = -(bhi - 1), bhi-1
				}
			}
		case token.QUO:
			if blo > 0 && alo >= 0 {
				lo, hi = 0, ahi
			}
		case token.OR, token.XOR:
			if alo >= 0 && blo >= 0 && ahi < inf && bhi < inf {
				// result < next power of two above max
				m := ahi
				if bhi > m {
					m = bhi
				}
				pow := int64(1)
				for pow <= m {
					pow <<= 1
				}
				lo, hi = 0, pow-1
			}
		}
		// wrap-around: if the computed interval leaves the type range, the type range is all we know
		if lo < tlo || hi > thi {
			return tlo, thi
		}
		return lo, hi
	case *ssa.Phi:
		// induction variable: phi(c, phi+k) with k>0  ->  >= c ; general: join
		lo, hi := int64(inf), int64(-inf)
		for _, e := range x.Edges {
			if b, ok := e.(*ssa.BinOp); ok && b.X == ssa.Value(x) {
				if k, okk := constInt(b.Y); okk {
					if (b.Op == token.ADD && k >= 0) || (b.Op == token.SUB && k <= 0) {
						hi = inf
						continue // does not lower the bound
					}
					if (b.Op == token.SUB && k >= 0) || (b.Op == token.ADD && k <= 0) {
						lo = -inf
						continue // does not raise the bound
					}
				}
			}
			if e == ssa.Value(x) {
				continue
			}
			elo, ehi := p.Ival(e)
			if elo < lo {
				lo = elo
			}
			if ehi > hi {
				hi = ehi
			}
		}
		if lo > hi {
			return tlo, thi
		}
		return lo, hi
	case *ssa.Call:
		if b, ok := x.Call.Value.(*ssa.Builtin); ok {
			switch b.Name() {
			case "len", "cap", "copy":
				return 0, inf
			}
		}
		// documented non-negative results of the standard library's length helpers
		if f := x.Call.StaticCallee(); f != nil && f.Pkg != nil {
			switch f.Pkg.Pkg.Path() + "." + f.Name() {
			case "encoding/hex.EncodedLen", "encoding/hex.DecodedLen", "encoding/base64.EncodedLen", "encoding/base64.DecodedLen", "unicode/utf8.RuneCountInString", "unicode/utf8.RuneCount":
				return 0, inf
			}
		}
		return tlo, thi
	}
	return tlo, thi
}

// canonSlice strips representation-only conversions of slice/string values.
func canonSlice(v ssa.Value) ssa.Value {
	for {
		switch x := v.(type) {
		case *ssa.ChangeType:
			v = x.X
		case *ssa.Convert:
			// string <-> []byte keep the length
			_, fromS := x.X.Type().Underlying().(*types.Slice)
			fb, fromStr := x.X.Type().Underlying().(*types.Basic)
			_, toS := x.Type().Underlying().(*types.Slice)
			tb, toStr := x.Type().Underlying().(*types.Basic)
			if (fromS || (fromStr && fb.Info()&types.IsString != 0)) && (toS || (toStr && tb.Info()&types.IsString != 0)) {
				v = x.X
				continue
			}
			return v
		default:
			return v
		}
	}
}

// --- memory forwarding --------------------------------------------------------------------------------------

type cell struct {
	base  ssa.Value
	field int
}

func cellOf(addr ssa.Value) (cell, bool) {
	fa, ok := addr.(*ssa.FieldAddr)
	if !ok {
		return cell{}, false
	}
	// a receiver/parameter spilled into a local because a closure captures it: use the parameter itself
	return cell{base: core.Deref(fa.X), field: fa.Field}, true
}

type reaching struct {
	val  ssa.Value       // stored value (nil: unknown / function entry)
	via  *ssa.BasicBlock // predecessor (of `into`) through which it arrives (nil: same block / dominating)
	into *ssa.BasicBlock // the merge block the value enters (nil: the load's own block)
}

func sameCell(a, b cell) bool {
	if a.field != b.field {
		return false
	}
	if a.base == b.base {
		return true
	}
	// IndexAddr-derived bases (e.g. &hdr.Options[len-1]) recomputed: compare structurally one level
	return core.Render(a.base) == core.Render(b.base) && isPureAddr(a.base) && isPureAddr(b.base)
}

func isPureAddr(v ssa.Value) bool {
	switch x := v.(type) {
	case *ssa.Parameter, *ssa.Alloc, *ssa.FieldAddr:
		return true
	case *ssa.UnOp:
		if _, ok := x.X.(*ssa.FreeVar); ok && x.Op == token.MUL {
			return true // a captured (single-assignment) pointer variable
		}
	}
	return false
}

// cellTyp: "<named struct type>#<field>" of a cell, for type-level field invariants.
func cellTyp(c cell) string {
	n := core.NamedOf(c.base.Type())
	if n == nil {
		return ""
	}
	return fmt.Sprintf("%s#%d", n.String(), c.field)
}

// cellAtom: the atom standing for the value a cell has when no store of this function has reached it yet.
func cellAtom(c cell, isLen bool) atom {
	k := kCell
	if isLen {
		k = kLenCell
	}
	return atom{k: k, key: cellKey(c), typ: cellTyp(c)}
}

func (p *Prover) sumAtom(a, b atom) atom {
	ka, kb := atomString(a), atomString(b)
	if kb < ka {
		a, b = b, a
		ka, kb = kb, ka
	}
	key := ka + " + " + kb
	p.sums[key] = [2]atom{a, b}
	return atom{k: kSum, key: key}
}

// mayWrite: instruction may modify cell c (a store to it, or a call that receives its base pointer).
func mayWrite(in ssa.Instruction, c cell) (stored ssa.Value, writes bool) {
	switch x := in.(type) {
	case *ssa.Store:
		if cc, ok := cellOf(x.Addr); ok && sameCell(cc, c) {
			return x.Val, true
		}
	}
	return nil, false
}

// reachingStores finds, for the load at instruction `ld` of cell c, the stores that may reach it.
func (p *Prover) reachingStores(ld *ssa.UnOp, c cell) []reaching {
	b := ld.Block()
	idx := -1
	for i, in := range b.Instrs {
		if in == ssa.Instruction(ld) {
			idx = i
		}
	}
	// same block, before the load; then up the chain of single-predecessor blocks: an earlier load of the same
	// cell with no store in between carries the same value (go/ssa does no CSE)
	cur, from := b, idx-1
	for hops := 0; hops < 16; hops++ {
		for i := from; i >= 0; i-- {
			if v, w := mayWrite(cur.Instrs[i], c); w {
				return []reaching{{val: v}}
			}
			if l2, ok := cur.Instrs[i].(*ssa.UnOp); ok && l2.Op == token.MUL {
				if c2, ok := cellOf(l2.X); ok && sameCell(c2, c) {
					return []reaching{{val: l2}}
				}
			}
		}
		if len(cur.Preds) != 1 || cur.Preds[0] == b {
			break
		}
		cur = cur.Preds[0]
		from = len(cur.Instrs) - 1
	}
	if cur != b {
		// continue the search from the top of `cur` (a merge point or the entry)
		var out []reaching
		for _, pred := range cur.Preds {
			seen := map[*ssa.BasicBlock]bool{}
			for _, v := range p.reachEnd(pred, c, seen, b, idx) {
				out = append(out, reaching{val: v, via: pred, into: cur})
			}
		}
		if len(cur.Preds) == 0 {
			out = append(out, reaching{val: nil})
		}
		return out
	}
	var out []reaching
	for _, pred := range b.Preds {
		seen := map[*ssa.BasicBlock]bool{b: false}
		vals := p.reachEnd(pred, c, seen, b, idx)
		for _, v := range vals {
			out = append(out, reaching{val: v, via: pred})
		}
	}
	if len(b.Preds) == 0 {
		out = append(out, reaching{val: nil})
	}
	return out
}

// reachEnd: stores reaching the end of block blk.
func (p *Prover) reachEnd(blk *ssa.BasicBlock, c cell, seen map[*ssa.BasicBlock]bool, loadBlk *ssa.BasicBlock, loadIdx int) []ssa.Value {
	if seen[blk] {
		return nil
	}
	seen[blk] = true
	start := len(blk.Instrs) - 1
	for i := start; i >= 0; i-- {
		if blk == loadBlk && i >= loadIdx {
			// coming around a loop into the load's own block: only instructions after the load matter first
		}
		if v, w := mayWrite(blk.Instrs[i], c); w {
			return []ssa.Value{v}
		}
	}
	if len(blk.Preds) == 0 {
		return []ssa.Value{nil}
	}
	var out []ssa.Value
	for _, pr := range blk.Preds {
		out = append(out, p.reachEnd(pr, c, seen, loadBlk, loadIdx)...)
	}
	return out
}

// --- graph ----------------------------------------------------------------------------------------------------

type graph struct {
	edges []edge
	atoms map[atom]bool
}

func (g *graph) add(from, to atom, w int64) {
	if w >= inf {
		return
	}
	g.atoms[from] = true
	g.atoms[to] = true
	g.edges = append(g.edges, edge{from, to, w})
}

// leq adds t1 <= t2 + c  i.e. t1.a - t2.a <= c + t2.c - t1.c
func (g *graph) leq(t1, t2 term, c int64) {
	g.add(t2.a, t1.a, addSat(addSat(c, t2.c), -t1.c))
}

// shortest: minimal w such that to - from <= w is derivable (inf if none).
func (g *graph) shortest(from, to atom) int64 {
	dist := map[atom]int64{from: 0}
	n := len(g.atoms) + 2
	for i := 0; i < n; i++ {
		changed := false
		for _, e := range g.edges {
			d, ok := dist[e.from]
			if !ok {
				continue
			}
			nd := addSat(d, e.w)
			if old, ok := dist[e.to]; !ok || nd < old {
				dist[e.to] = nd
				changed = true
			}
		}
		if !changed {
			break
		}
	}
	if d, ok := dist[to]; ok {
		return d
	}
	return inf
}

// termOf renders an integer value as atom + constant (through widening conversions and +/- constants on wide ints).
func (p *Prover) termOf(v ssa.Value) term {
	if n, ok := constInt(v); ok {
		return term{zero, n}
	}
	switch x := v.(type) {
	case *ssa.Convert:
		if _, _, ok := typeRange(x.X.Type()); ok {
			slo, shi := p.Ival(x.X)
			tlo, thi, _ := typeRange(x.Type())
			if slo >= tlo && shi <= thi {
				return p.termOf(x.X)
			}
		}
	case *ssa.ChangeType:
		return p.termOf(x.X)
	case *ssa.BinOp:
		if isWideInt(x.Type()) {
			if k, ok := constInt(x.Y); ok {
				switch x.Op {
				case token.ADD:
					t := p.termOf(x.X)
					return term{t.a, t.c + k}
				case token.SUB:
					t := p.termOf(x.X)
					return term{t.a, t.c - k}
				}
			}
			if k, ok := constInt(x.X); ok && x.Op == token.ADD {
				t := p.termOf(x.Y)
				return term{t.a, t.c + k}
			}
			if x.Op == token.ADD {
				tx, ty := p.termOf(x.X), p.termOf(x.Y)
				if tx.a.k != kZero && ty.a.k != kZero {
					return term{p.sumAtom(tx.a, ty.a), tx.c + ty.c}
				}
			}
		}
	case *ssa.Call:
		if b, ok := x.Call.Value.(*ssa.Builtin); ok && b.Name() == "len" {
			return term{p.sliceAtom(x.Call.Args[0]), 0}
		}
	case *ssa.UnOp:
		if x.Op == token.MUL {
			if c, ok := cellOf(x.X); ok {
				rs := p.reachingStores(x, c)
				if len(rs) == 1 && rs[0].val != nil {
					return p.termOf(rs[0].val)
				}
				if len(rs) == 1 && rs[0].val == nil && isPureAddr(c.base) {
					return term{cellAtom(c, false), 0}
				}
			}
		}
	}
	return term{atom{k: kVal, v: v}, 0}
}

// sliceAtom returns the len-atom of a slice/string value, forwarding field loads with a single reaching store.
func (p *Prover) sliceAtom(v ssa.Value) atom {
	v = canonSlice(v)
	if ld, ok := v.(*ssa.UnOp); ok && ld.Op == token.MUL {
		if c, ok := cellOf(ld.X); ok {
			rs := p.reachingStores(ld, c)
			if len(rs) == 1 && rs[0].val != nil {
				return p.sliceAtom(rs[0].val)
			}
			if len(rs) == 1 && rs[0].val == nil && isPureAddr(c.base) {
				return cellAtom(c, true)
			}
		}
	}
	return atom{k: kLen, v: v}
}

// defFacts adds facts that follow from the definitions of the atoms currently in the graph (closure, bounded).
func (p *Prover) defFacts(g *graph) {
	done := map[atom]bool{}
	for round := 0; round < 8; round++ {
		var todo []atom
		for a := range g.atoms {
			if !done[a] {
				todo = append(todo, a)
			}
		}
		if len(todo) == 0 {
			return
		}
		for _, a := range todo {
			done[a] = true
			switch a.k {
			case kVal:
				lo, hi := p.Ival(a.v)
				if hi < inf {
					g.add(zero, a, hi)
				}
				if lo > -inf {
					g.add(a, zero, -lo)
				}
				if ex, ok := a.v.(*ssa.Extract); ok && ex.Index == 0 {
					if call, ok := ex.Tuple.(*ssa.Call); ok {
						if f := call.Call.StaticCallee(); f != nil && f.Pkg != nil && f.Pkg.Pkg.Path() == "syscall" && (f.Name() == "Recvfrom" || f.Name() == "Read") && len(call.Call.Args) >= 2 {
							// n <= len(buffer) (system call contract)
							g.leq(term{a, 0}, term{p.sliceAtom(call.Call.Args[1]), 0}, 0)
							p.Notes["syscall."+f.Name()+" returns n <= len(p) (contract)"] = true
						}
						// io.Reader: Read(p) returns 0 <= n <= len(p)
						var buf ssa.Value
						if call.Call.IsInvoke() && call.Call.Method.Name() == "Read" && len(call.Call.Args) == 1 {
							buf = call.Call.Args[0]
						} else if f := call.Call.StaticCallee(); f != nil && f.Name() == "Read" && f.Signature.Recv() != nil && len(call.Call.Args) == 2 && f.Signature.Results().Len() == 2 {
							buf = call.Call.Args[1]
						}
						if buf != nil {
							if sl, ok := buf.Type().Underlying().(*types.Slice); ok {
								if bt, ok := sl.Elem().Underlying().(*types.Basic); ok && bt.Kind() == types.Byte {
									g.leq(term{a, 0}, term{p.sliceAtom(buf), 0}, 0)
									g.add(a, zero, 0)
									p.Notes["Read(p) returns 0 <= n <= len(p) (io.Reader contract)"] = true
								}
							}
						}
					}
				}
				if cv, ok := a.v.(*ssa.Convert); ok {
					if _, _, okS := typeRange(cv.X.Type()); okS {
						slo, _ := p.Ival(cv.X)
						tlo, _, _ := typeRange(cv.Type())
						if slo >= 0 && tlo == 0 {
							// truncating a non-negative value to an unsigned type never increases it
							g.leq(term{a, 0}, p.termOf(cv.X), 0)
						}
					}
				}
				if b, ok := a.v.(*ssa.BinOp); ok && isWideInt(b.Type()) {
					// v = x - y / x + y with non-constant operands: bound by the other operand's interval
					tx, ty := p.termOf(b.X), p.termOf(b.Y)
					self := term{a, 0}
					switch b.Op {
					case token.SUB:
						ylo, yhi := p.Ival(b.Y)
						g.leq(self, tx, -ylo) // v <= x - ylo
						g.leq(tx, self, yhi)  // x <= v + yhi
						_ = ty
					case token.ADD:
						ylo, yhi := p.Ival(b.Y)
						g.leq(self, tx, yhi)
						g.leq(tx, self, -ylo)
						xlo, xhi := p.Ival(b.X)
						g.leq(self, ty, xhi)
						g.leq(ty, self, -xlo)
					}
				}
			case kCell:
				if lb, ok := p.FieldLower[a.typ]; ok {
					g.add(a, zero, -lb)
				}
			case kLenCell:
				g.add(a, zero, 0)
			case kLen:
				g.add(a, zero, 0) // len >= 0
				self := term{a, 0}
				switch x := a.v.(type) {
				case *ssa.Slice:
					base := x.X
					var hiT term
					if x.High != nil {
						hiT = p.termOf(x.High)
					} else if pt, ok := base.Type().Underlying().(*types.Pointer); ok {
						if at, ok := pt.Elem().Underlying().(*types.Array); ok {
							hiT = term{zero, at.Len()}
						}
					} else {
						hiT = term{p.sliceAtom(base), 0}
					}
					if hiT.a.k == kLen || hiT.a.k == kVal || hiT.a.k == kZero {
						if x.Low == nil {
							g.leq(self, hiT, 0)
							g.leq(hiT, self, 0)
						} else if k, ok := constInt(x.Low); ok {
							// len = hi - k
							g.leq(self, hiT, -k)
							g.leq(hiT, self, k)
						} else {
							llo, lhi := p.Ival(x.Low)
							tl := p.termOf(x.Low)
							_ = tl
							g.leq(self, hiT, -llo)
							g.leq(hiT, self, lhi)
						}
					}
				case *ssa.MakeSlice:
					t := p.termOf(x.Len)
					g.leq(self, t, 0)
					g.leq(t, self, 0)
				case *ssa.Parameter:
					if n, ok := p.EntryLen[x]; ok {
						g.add(a, zero, -n)
					}
				case *ssa.Const:
					if x.Value != nil && x.Value.Kind() == constant.String {
						n := int64(len(constant.StringVal(x.Value)))
						g.add(zero, a, n)
						g.add(a, zero, -n)
					}
				}
			}
		}
	}
}

// condFacts adds the constraints implied by branch conditions.
func (p *Prover) condFacts(g *graph, conds []core.Cond) {
	p.condFactsWith(g, conds, p.termOf, 2)
}

// guardCall: cond states that a summarised guard function returned nil (error result) / true (bool result).
func (p *Prover) guardCall(dc core.Cond) *ssa.Call {
	// `if !guard(n) { return }`: the condition is a negation of the call, known false
	for {
		u, ok := dc.V.(*ssa.UnOp)
		if !ok || u.Op != token.NOT {
			break
		}
		dc = core.Cond{V: u.X, Pol: !dc.Pol, If: dc.If}
	}
	if call, ok := dc.V.(*ssa.Call); ok && dc.Pol {
		if _, ok := p.Summaries[call.Call.StaticCallee()]; ok {
			return call
		}
	}
	if b, ok := dc.V.(*ssa.BinOp); ok && core.IsNilConst(b.Y) {
		if call, ok := b.X.(*ssa.Call); ok {
			if _, ok := p.Summaries[call.Call.StaticCallee()]; ok {
				if (b.Op == token.EQL && dc.Pol) || (b.Op == token.NEQ && !dc.Pol) {
					return call
				}
			}
		}
	}
	return nil
}

// translator maps values of a summarised callee into terms of the caller at the call site.
func (p *Prover) translator(call *ssa.Call) func(ssa.Value) term {
	return p.translatorArgs(call.Call.StaticCallee(), call.Call.Args, call)
}

// translatorVia: `inner` is a guard call inside the summarised callee of `outer` (a guard wrapper); its arguments are
// expressed through the wrapper's parameters, which stand for outer's arguments at the outer call site.
func (p *Prover) translatorVia(outer, inner *ssa.Call) func(ssa.Value) term {
	w := outer.Call.StaticCallee()
	args := make([]ssa.Value, len(inner.Call.Args))
	for i, a := range inner.Call.Args {
		if par, ok := a.(*ssa.Parameter); ok {
			for j, q := range w.Params {
				if q == par && j < len(outer.Call.Args) {
					args[i] = outer.Call.Args[j]
				}
			}
		}
		if k, ok := a.(*ssa.Const); ok {
			args[i] = k
		}
	}
	return p.translatorArgs(inner.Call.StaticCallee(), args, outer)
}

type callArgs struct{ Args []ssa.Value }

func (p *Prover) translatorArgs(callee *ssa.Function, cargs []ssa.Value, at *ssa.Call) func(ssa.Value) term {
	call := struct{ Call callArgs }{callArgs{cargs}}
	unknown := 0
	var tr func(v ssa.Value) term
	tr = func(v ssa.Value) term {
		if n, ok := constInt(v); ok {
			return term{zero, n}
		}
		switch x := v.(type) {
		case *ssa.Parameter:
			for i, q := range callee.Params {
				if q == x && i < len(call.Call.Args) && call.Call.Args[i] != nil {
					return p.termOf(call.Call.Args[i])
				}
			}
		case *ssa.Convert:
			if _, _, ok := typeRange(x.X.Type()); ok {
				return tr(x.X)
			}
		case *ssa.BinOp:
			if isWideInt(x.Type()) && (x.Op == token.ADD || x.Op == token.SUB) {
				tx, ty := tr(x.X), tr(x.Y)
				if x.Op == token.ADD {
					if ty.a.k == kZero {
						return term{tx.a, tx.c + ty.c}
					}
					if tx.a.k == kZero {
						return term{ty.a, tx.c + ty.c}
					}
					return term{p.sumAtom(tx.a, ty.a), tx.c + ty.c}
				}
				if ty.a.k == kZero {
					return term{tx.a, tx.c - ty.c}
				}
			}
		case *ssa.UnOp:
			if x.Op == token.MUL {
				if fa, ok := x.X.(*ssa.FieldAddr); ok {
					if par, ok := fa.X.(*ssa.Parameter); ok {
						for i, q := range callee.Params {
							if q == par && i < len(call.Call.Args) && call.Call.Args[i] != nil {
								c := cell{base: core.Deref(call.Call.Args[i]), field: fa.Field}
								if isPureAddr(c.base) && p.entryStateAt(at, c) {
									return term{cellAtom(c, false), 0}
								}
							}
						}
					}
				}
			}
		case *ssa.Call:
			if b, ok := x.Call.Value.(*ssa.Builtin); ok && b.Name() == "len" {
				if ld, ok := x.Call.Args[0].(*ssa.UnOp); ok && ld.Op == token.MUL {
					if fa, ok := ld.X.(*ssa.FieldAddr); ok {
						if par, ok := fa.X.(*ssa.Parameter); ok {
							for i, q := range callee.Params {
								if q == par && i < len(call.Call.Args) && call.Call.Args[i] != nil {
									c := cell{base: core.Deref(call.Call.Args[i]), field: fa.Field}
									if isPureAddr(c.base) && p.entryStateAt(at, c) {
										return term{cellAtom(c, true), 0}
									}
								}
							}
						}
					}
				}
			}
		}
		unknown++
		return term{atom{k: kVal, v: v, key: fmt.Sprintf("callee:%d", unknown)}, 0}
	}
	return tr
}

// entryStateAt: no store of this function to cell c can have executed before instruction `at`.
func (p *Prover) entryStateAt(at ssa.Instruction, c cell) bool {
	b := at.Block()
	idx := -1
	for i, in := range b.Instrs {
		if in == at {
			idx = i
		}
	}
	for i := idx - 1; i >= 0; i-- {
		if _, w := mayWrite(b.Instrs[i], c); w {
			return false
		}
	}
	seen := map[*ssa.BasicBlock]bool{}
	for _, pred := range b.Preds {
		for _, v := range p.reachEnd(pred, c, seen, b, idx) {
			if v != nil {
				return false
			}
		}
	}
	return true
}

func (p *Prover) condFactsWith(g *graph, conds []core.Cond, termOf func(ssa.Value) term, depth int) {
	p.condFactsVia(g, conds, termOf, depth, nil)
}

func (p *Prover) condFactsVia(g *graph, conds []core.Cond, termOf func(ssa.Value) term, depth int, via *ssa.Call) {
	for _, dc := range conds {
		if depth > 0 {
			if call := p.guardCall(dc); call != nil {
				p.Notes["summary of "+call.Call.StaticCallee().Name()+" imported at a dominating call"] = true
				if via == nil {
					p.condFactsVia(g, p.Summaries[call.Call.StaticCallee()], p.translator(call), depth-1, call)
				} else {
					p.condFactsVia(g, p.Summaries[call.Call.StaticCallee()], p.translatorVia(via, call), depth-1, nil)
				}
				continue
			}
		}
		b, ok := dc.V.(*ssa.BinOp)
		if !ok {
			continue
		}
		if _, _, ok := typeRange(b.X.Type()); !ok {
			continue
		}
		if rem, ok := b.X.(*ssa.BinOp); ok && rem.Op == token.REM && b.Op == token.EQL && dc.Pol {
			if c, okc := constInt(b.Y); okc && c > 0 {
				rx := termOf(rem.X)
				lo := int64(-inf)
				if rx.a.k == kLen {
					lo = 0
				} else if rx.a.k == kVal {
					lo, _ = p.Ival(rx.a.v)
				}
				if lo >= 0 {
					g.leq(term{zero, c}, rx, 0)
				}
			}
		}
		x, y := termOf(b.X), termOf(b.Y)
		op := b.Op
		if !dc.Pol {
			switch op {
			case token.LSS:
				op = token.GEQ
			case token.LEQ:
				op = token.GTR
			case token.GTR:
				op = token.LEQ
			case token.GEQ:
				op = token.LSS
			case token.EQL:
				op = token.NEQ
			case token.NEQ:
				op = token.EQL
			default:
				continue
			}
		}
		switch op {
		case token.LSS:
			g.leq(x, y, -1)
		case token.LEQ:
			g.leq(x, y, 0)
		case token.GTR:
			g.leq(y, x, -1)
		case token.GEQ:
			g.leq(y, x, 0)
		case token.EQL:
			g.leq(x, y, 0)
			g.leq(y, x, 0)
		case token.NEQ:
			// x != k with x >= k known  ->  x >= k+1 (covers len(d) != 0)
			if y.a == zero {
				lo := int64(-inf)
				if x.a.k == kLen {
					lo = 0
				} else if x.a.k == kVal {
					lo, _ = p.Ival(x.a.v)
				}
				if addSat(lo, x.c) == y.c {
					g.leq(term{zero, y.c + 1}, x, 0)
				}
			}
		}
	}
}

// Query: prove t1 <= t2 + c at program point `at` (conditions = those dominating at.Block()).
type Query struct {
	T1, T2 term
	C      int64
}

func (p *Prover) prove(q Query, conds []core.Cond, extraEq [][2]term, depth int) (bool, string) {
	g := &graph{atoms: map[atom]bool{zero: true}}
	g.atoms[q.T1.a] = true
	g.atoms[q.T2.a] = true
	p.condFacts(g, conds)
	for _, eq := range extraEq {
		g.leq(eq[0], eq[1], 0)
		g.leq(eq[1], eq[0], 0)
	}
	p.defFacts(g)
	p.refine(g)
	// need T1.a - T2.a <= C + T2.c - T1.c
	want := addSat(addSat(q.C, q.T2.c), -q.T1.c)
	d := g.shortest(q.T2.a, q.T1.a)
	if d <= want {
		return true, ""
	}
	if depth <= 0 {
		return false, p.describe(q, d, want)
	}
	// case split on a phi / multi-store load among the atoms of the query
	for _, a := range []atom{q.T1.a, q.T2.a} {
		if a.k == kZero {
			continue
		}
		alts := p.alternatives(a)
		if len(alts) == 0 {
			continue
		}
		all := true
		why := ""
		for _, alt := range alts {
			c2 := append([]core.Cond{}, conds...)
			if alt.via != nil {
				c2 = append(c2, core.EdgeConds(alt.via, alt.into)...)
			}
			eq := append([][2]term{}, extraEq...)
			eq = append(eq, [2]term{{a, 0}, alt.t})
			ok, w := p.prove(q, c2, eq, depth-1)
			if !ok {
				all = false
				why = fmt.Sprintf("case %s: %s", core.RenderN(alt.src, 3), w)
				break
			}
		}
		if all {
			return true, ""
		}
		if why != "" {
			return false, why
		}
	}
	return false, p.describe(q, d, want)
}

type alternative struct {
	t    term
	via  *ssa.BasicBlock
	into *ssa.BasicBlock
	src  ssa.Value
}

// alternatives enumerates, for a phi atom (value or len-of-phi) or a field load with several reaching stores,
// the per-edge values.
func (p *Prover) alternatives(a atom) []alternative {
	var out []alternative
	if a.v == nil {
		return nil
	}
	switch x := a.v.(type) {
	case *ssa.Phi:
		for i, e := range x.Edges {
			var t term
			if a.k == kLen {
				t = term{p.sliceAtom(e), 0}
			} else {
				t = p.termOf(e)
			}
			if t.a == a && t.c == 0 {
				continue
			}
			out = append(out, alternative{t: t, via: x.Block().Preds[i], into: x.Block(), src: e})
		}
	case *ssa.UnOp:
		if x.Op != token.MUL {
			return nil
		}
		c, ok := cellOf(x.X)
		if !ok {
			return nil
		}
		rs := p.reachingStores(x, c)
		if len(rs) < 2 {
			return nil
		}
		for _, r := range rs {
			if r.val == nil {
				return nil // a path without a store: unknown value
			}
			var t term
			if a.k == kLen {
				t = term{p.sliceAtom(r.val), 0}
			} else {
				t = p.termOf(r.val)
			}
			into := r.into
			if into == nil {
				into = x.Block()
			}
			out = append(out, alternative{t: t, via: r.via, into: into, src: r.val})
		}
	}
	return out
}

func atomString(a atom) string {
	switch a.k {
	case kZero:
		return "0"
	case kLen:
		return "len(" + core.RenderN(a.v, 3) + ")"
	case kCell:
		return "cell(" + a.key + ")"
	case kLenCell:
		return "len(cell(" + a.key + "))"
	case kSum:
		return "(" + a.key + ")"
	}
	return core.RenderN(a.v, 3)
}

func termString(t term) string {
	if t.a.k == kZero {
		return fmt.Sprint(t.c)
	}
	if t.c == 0 {
		return atomString(t.a)
	}
	return fmt.Sprintf("%s%+d", atomString(t.a), t.c)
}

func (p *Prover) describe(q Query, got, want int64) string {
	rel := fmt.Sprintf("%s <= %s", termString(q.T1), termString(term{q.T2.a, q.T2.c + q.C}))
	if got >= inf {
		return "cannot derive " + rel + " (no bound relating the two)"
	}
	return fmt.Sprintf("cannot derive %s (best derivable slack %d, needed %d)", rel, got, want)
}

// --- obligations -------------------------------------------------------------------------------------------------

// Obligation is one bounds requirement of an instruction.
type Obligation struct {
	What string
	Q    Query
}

// lenTermOfBase: the length/capacity term of the indexed/sliced operand.
func (p *Prover) lenTermOfBase(x ssa.Value) (term, bool) {
	t := x.Type().Underlying()
	if pt, ok := t.(*types.Pointer); ok {
		if at, ok := pt.Elem().Underlying().(*types.Array); ok {
			return term{zero, at.Len()}, true
		}
		return term{}, false
	}
	if at, ok := t.(*types.Array); ok {
		return term{zero, at.Len()}, true
	}
	return term{p.sliceAtom(x), 0}, true
}

// Obligations lists the in-range requirements of an index/slice/make instruction (none for statically safe forms).
func (p *Prover) Obligations(in ssa.Instruction) []Obligation {
	var out []Obligation
	switch x := in.(type) {
	case *ssa.IndexAddr:
		L, ok := p.lenTermOfBase(x.X)
		if !ok {
			return nil
		}
		i := p.termOf(x.Index)
		out = append(out, Obligation{"index >= 0", Query{term{zero, 0}, i, 0}})
		out = append(out, Obligation{"index < len", Query{i, L, -1}})
	case *ssa.Index:
		L, ok := p.lenTermOfBase(x.X)
		if !ok {
			return nil
		}
		i := p.termOf(x.Index)
		out = append(out, Obligation{"index >= 0", Query{term{zero, 0}, i, 0}})
		out = append(out, Obligation{"index < len", Query{i, L, -1}})
	case *ssa.Slice:
		L, ok := p.lenTermOfBase(x.X)
		if !ok {
			return nil
		}
		lo := term{zero, 0}
		if x.Low != nil {
			lo = p.termOf(x.Low)
			out = append(out, Obligation{"low >= 0", Query{term{zero, 0}, lo, 0}})
		}
		hi := L
		if x.High != nil {
			hi = p.termOf(x.High)
			// hi <= cap; we only know len (len <= cap): require hi <= len unless the base is an array
			out = append(out, Obligation{"high <= len", Query{hi, L, 0}})
		}
		if x.Low != nil {
			out = append(out, Obligation{"low <= high", Query{lo, hi, 0}})
		}
		if x.Max != nil {
			mx := p.termOf(x.Max)
			out = append(out, Obligation{"high <= max", Query{hi, mx, 0}})
			out = append(out, Obligation{"max <= len", Query{mx, L, 0}})
		}
	case *ssa.MakeSlice:
		n := p.termOf(x.Len)
		out = append(out, Obligation{"make length >= 0", Query{term{zero, 0}, n, 0}})
	}
	// drop trivially constant-true ones
	var res []Obligation
	for _, o := range out {
		if o.Q.T1.a == zero && o.Q.T2.a == zero && o.Q.T1.c <= o.Q.T2.c+o.Q.C {
			continue
		}
		res = append(res, o)
	}
	return res
}

// CopyObligation: copy(dst, src) transfers min(len(dst), len(src)) elements and reports nothing when that is fewer than
// len(src); "the whole source arrives" is the requirement len(src) <= len(dst).
func (p *Prover) CopyObligation(call *ssa.Call) (Obligation, bool) {
	b, ok := call.Call.Value.(*ssa.Builtin)
	if !ok || b.Name() != "copy" || len(call.Call.Args) != 2 {
		return Obligation{}, false
	}
	ld, ok1 := p.exactLen(call.Call.Args[0])
	ls, ok2 := p.exactLen(call.Call.Args[1])
	if !ok1 || !ok2 {
		return Obligation{}, false
	}
	return Obligation{"copy source fits destination", Query{ls, ld, 0}}, true
}

// NonEmptyObligation: len(v) >= 1.
func (p *Prover) NonEmptyObligation(v ssa.Value) (Obligation, bool) {
	l, ok := p.exactLen(v)
	if !ok {
		return Obligation{}, false
	}
	return Obligation{"buffer is not empty", Query{term{zero, 1}, l, 0}}, true
}

// exactLen: the length of a value where it is known by construction – make([]T, n) has length n, x[lo:lo+k] has length k,
// x[lo:hi] of constants has hi-lo – otherwise its symbolic length.
func (p *Prover) exactLen(v ssa.Value) (term, bool) {
	switch x := v.(type) {
	case *ssa.MakeSlice:
		return p.termOf(x.Len), true
	case *ssa.Slice:
		if x.High != nil {
			hi := p.termOf(x.High)
			lo := term{zero, 0}
			if x.Low != nil {
				lo = p.termOf(x.Low)
			}
			if hi.a == lo.a {
				return term{zero, hi.c - lo.c}, true
			}
			if hi.a.k == kSum {
				parts := p.sums[hi.a.key]
				if parts[0] == lo.a {
					return term{parts[1], hi.c - lo.c}, true
				}
				if parts[1] == lo.a {
					return term{parts[0], hi.c - lo.c}, true
				}
			}
		} else if x.Low != nil {
			// x[lo:] of an array: len = N - lo for constant lo
			if L, ok := p.lenTermOfBase(x.X); ok && L.a == zero {
				lo := p.termOf(x.Low)
				if lo.a == zero {
					return term{zero, L.c - lo.c}, true
				}
			}
		}
	}
	return p.lenTermOfBase(v)
}

// Prove decides one obligation at instruction `at`.
func (p *Prover) Prove(o Obligation, at ssa.Instruction) (bool, string) {
	return p.prove(o.Q, core.DomConds(at), nil, 3)
}

// refine derives bounds for v = x*k / x<<k (k constant) from the bounds the current fact graph gives for x
// (conditions included), which interval arithmetic on definitions alone cannot see.
func (p *Prover) refine(g *graph) {
	for round := 0; round < 3; round++ {
		added := false
		for a := range g.atoms {
			if a.k != kSum {
				continue
			}
			parts := p.sums[a.key]
			x, y := parts[0], parts[1]
			for _, z := range []atom{x, y} {
				if !g.atoms[z] {
					g.atoms[z] = true
					p.defFacts(g)
				}
			}
			self := term{a, 0}
			for _, pr := range [][2]atom{{x, y}, {y, x}} {
				u, w := pr[0], pr[1]
				whi := g.shortest(zero, w)
				wlo := -g.shortest(w, zero)
				if whi < inf {
					g.leq(self, term{u, 0}, whi) // s <= u + hi(w)
					added = true
				}
				if wlo > -inf {
					g.leq(term{u, 0}, self, -wlo) // u + lo(w) <= s
					added = true
				}
			}
		}
		for a := range g.atoms {
			if a.k != kVal {
				continue
			}
			b, ok := a.v.(*ssa.BinOp)
			if !ok {
				continue
			}
			var k int64
			switch b.Op {
			case token.MUL:
				c, ok := constInt(b.Y)
				if !ok || c <= 0 {
					continue
				}
				k = c
			case token.SHL:
				c, ok := constInt(b.Y)
				if !ok || c < 0 || c > 30 {
					continue
				}
				k = 1 << uint(c)
			default:
				continue
			}
			x := p.termOf(b.X)
			if !g.atoms[x.a] {
				g.atoms[x.a] = true
				p.defFacts(g)
			}
			hi := addSat(g.shortest(zero, x.a), x.c)   // x <= hi
			lo := -addSat(g.shortest(x.a, zero), -x.c) // x >= lo
			_, thi, okT := typeRange(b.Type())
			if hi < inf && (!okT || mulSat(hi, k) <= thi) {
				if lo > -inf && lo >= 0 {
					g.add(a, zero, -mulSat(lo, k))
					added = true
				}
				g.add(zero, a, mulSat(hi, k))
				added = true
			}
		}
		if !added {
			return
		}
	}
}

// ProveGE proves v >= k at instruction `at`.
func (p *Prover) ProveGE(v ssa.Value, k int64, at ssa.Instruction) (bool, string) {
	return p.prove(Query{T1: term{zero, k}, T2: p.termOf(v), C: 0}, core.DomConds(at), nil, 3)
}
