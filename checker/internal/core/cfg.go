package core

import (
	"go/constant"
	"go/token"
	"go/types"

	"golang.org/x/tools/go/ssa"
)

// Cond is a branch condition known to hold (Pol=true) or not hold (Pol=false).
type Cond struct {
	V   ssa.Value
	Pol bool
	If  *ssa.If
}

// edgeDominates reports whether control can reach block b only by having taken edge d->s most recently
// w.r.t. d's evaluation: s dominates b and every predecessor of s other than d is dominated by s
// (i.e. only back edges re-enter s).
func edgeDominates(d, s, b *ssa.BasicBlock) bool {
	if !s.Dominates(b) {
		return false
	}
	for _, p := range s.Preds {
		if p == d {
			continue
		}
		if !s.Dominates(p) {
			return false
		}
	}
	// d must have exactly one edge to s among its two successors (both edges to s => no info)
	if len(d.Succs) == 2 && d.Succs[0] == d.Succs[1] {
		return false
	}
	return true
}

// DomCondsBlock returns the branch conditions that hold whenever control is in block b.
func DomCondsBlock(b *ssa.BasicBlock) []Cond {
	var out []Cond
	fn := b.Parent()
	for _, d := range fn.Blocks {
		if len(d.Instrs) == 0 {
			continue
		}
		iff, ok := d.Instrs[len(d.Instrs)-1].(*ssa.If)
		if !ok {
			continue
		}
		if !d.Dominates(b) {
			continue
		}
		for i, s := range d.Succs {
			if edgeDominates(d, s, b) {
				out = append(out, Cond{V: iff.Cond, Pol: i == 0, If: iff})
			}
		}
	}
	out = expandConds(out)
	return append(out, contextConds(fn, 0)...)
}

// ---- calling context ---------------------------------------------------------------------------------------------
// A helper with exactly one static call site (and whose address is never taken), and a function literal, run only in
// the context in which they are called / created: the branch conditions that hold there are facts about immutable SSA
// values and therefore also hold inside. This makes guard rules independent of whether the guarded code sits in the
// guarding function or in a helper extracted from it.
var (
	ctxSites   map[*ssa.Function][]ssa.Instruction
	ctxTaken   map[*ssa.Function]bool
	ctxMemo    = map[*ssa.Function][]Cond{}
	ctxVisited = map[*ssa.Function]bool{}
)

// BuildContextIndex records, for the given functions, their static call sites and whether they are used as values.
func BuildContextIndex(fns []*ssa.Function) {
	ctxSites = map[*ssa.Function][]ssa.Instruction{}
	ctxTaken = map[*ssa.Function]bool{}
	ctxMemo = map[*ssa.Function][]Cond{}
	for _, fn := range fns {
		for _, b := range fn.Blocks {
			for _, in := range b.Instrs {
				var callee *ssa.Function
				if ci, ok := in.(ssa.CallInstruction); ok {
					callee = ci.Common().StaticCallee()
					if callee != nil {
						if _, isMC := ci.Common().Value.(*ssa.MakeClosure); !isMC {
							ctxSites[callee] = append(ctxSites[callee], in)
						}
					}
				}
				if mc, ok := in.(*ssa.MakeClosure); ok {
					if f, ok := mc.Fn.(*ssa.Function); ok {
						ctxSites[f] = append(ctxSites[f], in)
					}
				}
				for _, op := range in.Operands(nil) {
					if op == nil || *op == nil {
						continue
					}
					if f, ok := (*op).(*ssa.Function); ok && f != callee {
						ctxTaken[f] = true
					}
				}
			}
		}
	}
}

func contextConds(fn *ssa.Function, depth int) []Cond {
	if ctxSites == nil || depth > 3 {
		return nil
	}
	if m, ok := ctxMemo[fn]; ok {
		return m
	}
	if ctxVisited[fn] {
		return nil
	}
	sites := ctxSites[fn]
	if len(sites) != 1 || ctxTaken[fn] || sites[0].Parent() == fn {
		ctxMemo[fn] = nil
		return nil
	}
	ctxVisited[fn] = true
	out := DomCondsBlock(sites[0].Block())
	ctxVisited[fn] = false
	ctxMemo[fn] = out
	return out
}

// DomConds returns the conditions holding at instr.
func DomConds(in ssa.Instruction) []Cond { return DomCondsBlock(in.Block()) }

// expandConds decomposes !x and short-circuit-free boolean structure: a true `x && y` is not
// visible in SSA (it is lowered to control flow), so only NOT and ==/!= against bool constants unfold.
func expandConds(cs []Cond) []Cond {
	var out []Cond
	var add func(c Cond)
	add = func(c Cond) {
		switch v := c.V.(type) {
		case *ssa.UnOp:
			if v.Op == token.NOT {
				add(Cond{V: v.X, Pol: !c.Pol, If: c.If})
				return
			}
		case *ssa.BinOp:
			if v.Op == token.EQL || v.Op == token.NEQ {
				if k, ok := v.Y.(*ssa.Const); ok && k.Value != nil && k.Value.Kind() == constant.Bool {
					pol := c.Pol
					if !constant.BoolVal(k.Value) {
						pol = !pol
					}
					if v.Op == token.NEQ {
						pol = !pol
					}
					add(Cond{V: v.X, Pol: pol, If: c.If})
					return
				}
			}
		}
		// a short-circuit `a && b` (or `a || b`) that was materialised as a value (switch case, assignment) is a phi of
		// bool constants and the right operand: its true (resp. false) outcome fixes every operand
		if ph, ok := c.V.(*ssa.Phi); ok {
			if ops, ok := Conjuncts(ph, c.Pol); ok {
				out = append(out, c)
				for _, o := range ops {
					o.If = c.If
					add(o)
				}
				return
			}
		}
		out = append(out, c)
	}
	for _, c := range cs {
		add(c)
	}
	return out
}

// Conjuncts: if phi is the materialised value of a short-circuit conjunction (pol=true: `a && b && …` known true) or
// disjunction (pol=false: `a || b || …` known false), returns the operand conditions that then hold.
func Conjuncts(ph *ssa.Phi, pol bool) ([]Cond, bool) {
	if b, ok := ph.Type().Underlying().(*types.Basic); !ok || b.Kind() != types.Bool {
		return nil, false
	}
	var out []Cond
	nonConst := 0
	for i, e := range ph.Edges {
		k, isK := e.(*ssa.Const)
		if !isK {
			nonConst++
			if inner, isPhi := e.(*ssa.Phi); isPhi {
				sub, ok := Conjuncts(inner, pol)
				if !ok {
					return nil, false
				}
				out = append(out, sub...)
			} else {
				out = append(out, Cond{V: e, Pol: pol})
			}
			continue
		}
		if k.Value == nil || k.Value.Kind() != constant.Bool || constant.BoolVal(k.Value) == pol {
			return nil, false // a constant edge with the asked outcome: the outcome does not fix the operands
		}
		// the edge comes from the block that evaluated an earlier operand and short-circuited
		pred := ph.Block().Preds[i]
		if len(pred.Instrs) == 0 {
			return nil, false
		}
		iff, ok := pred.Instrs[len(pred.Instrs)-1].(*ssa.If)
		if !ok {
			return nil, false
		}
		// the operand had the value that leads here; on the asked outcome it had the other one
		toHere := pred.Succs[0] == ph.Block()
		out = append(out, Cond{V: iff.Cond, Pol: !toHere})
	}
	if nonConst != 1 {
		return nil, false
	}
	return out, true
}

// EdgeFilter decides whether CFG edge from->to (succ index idx) may be traversed.
type EdgeFilter func(from *ssa.BasicBlock, idx int) bool

// ReachBlocks computes the blocks reachable from start (inclusive) following allowed edges and
// not entering blocked blocks.
func ReachBlocks(start []*ssa.BasicBlock, allow EdgeFilter, blocked map[*ssa.BasicBlock]bool) map[*ssa.BasicBlock]bool {
	seen := map[*ssa.BasicBlock]bool{}
	var stack []*ssa.BasicBlock
	for _, s := range start {
		if blocked[s] || seen[s] {
			continue
		}
		seen[s] = true
		stack = append(stack, s)
	}
	for len(stack) > 0 {
		b := stack[len(stack)-1]
		stack = stack[:len(stack)-1]
		for i, s := range b.Succs {
			if allow != nil && !allow(b, i) {
				continue
			}
			if blocked[s] || seen[s] {
				continue
			}
			seen[s] = true
			stack = append(stack, s)
		}
	}
	return seen
}

// InstrReach: which instructions are reachable from the function entry if control may not pass
// *through* (i.e. beyond) any instruction for which stop(instr) is true, and edges are filtered by allow.
// Returns a predicate.  Instructions for which stop is true are themselves reachable (if reached).
func InstrReach(fn *ssa.Function, allow EdgeFilter, stop func(ssa.Instruction) bool) func(ssa.Instruction) bool {
	return InstrReachFrom(fn, nil, allow, stop)
}

// InstrReachFrom is InstrReach starting right after instruction `after` (nil = function entry).
func InstrReachFrom(fn *ssa.Function, after ssa.Instruction, allow EdgeFilter, stop func(ssa.Instruction) bool) func(ssa.Instruction) bool {
	if len(fn.Blocks) == 0 {
		return func(ssa.Instruction) bool { return false }
	}
	// per block: index of first stopping instruction (len if none)
	firstStop := map[*ssa.BasicBlock]int{}
	for _, b := range fn.Blocks {
		k := len(b.Instrs)
		if stop != nil {
			for i, in := range b.Instrs {
				if stop(in) {
					k = i
					break
				}
			}
		}
		firstStop[b] = k
	}
	entered := map[*ssa.BasicBlock]bool{} // block entered at its top
	type partial struct {
		b    *ssa.BasicBlock
		from int
	}
	var part *partial
	var stack []*ssa.BasicBlock
	pushSuccs := func(b *ssa.BasicBlock) {
		for i, s := range b.Succs {
			if allow != nil && !allow(b, i) {
				continue
			}
			if !entered[s] {
				entered[s] = true
				stack = append(stack, s)
			}
		}
	}
	partEnd := -1
	if after == nil {
		entered[fn.Blocks[0]] = true
		stack = append(stack, fn.Blocks[0])
	} else {
		b := after.Block()
		idx := 0
		for i, in := range b.Instrs {
			if in == after {
				idx = i + 1
			}
		}
		part = &partial{b, idx}
		// find first stop at or after idx
		k := len(b.Instrs)
		if stop != nil {
			for i := idx; i < len(b.Instrs); i++ {
				if stop(b.Instrs[i]) {
					k = i
					break
				}
			}
		}
		partEnd = k
		if k == len(b.Instrs) {
			pushSuccs(b)
		}
	}
	for len(stack) > 0 {
		b := stack[len(stack)-1]
		stack = stack[:len(stack)-1]
		if firstStop[b] == len(b.Instrs) {
			pushSuccs(b)
		}
	}
	index := func(in ssa.Instruction) int {
		for i, x := range in.Block().Instrs {
			if x == in {
				return i
			}
		}
		return -1
	}
	return func(in ssa.Instruction) bool {
		b := in.Block()
		i := index(in)
		if entered[b] && i <= firstStop[b] {
			return true
		}
		if part != nil && part.b == b && i >= part.from && i <= partEnd {
			return true
		}
		return false
	}
}

// Returns lists the Return instructions of fn.
func Returns(fn *ssa.Function) []*ssa.Return {
	var out []*ssa.Return
	for _, b := range fn.Blocks {
		if len(b.Instrs) == 0 || b == fn.Recover {
			// the recover block only runs after a recovered panic and returns the (zero) named results
			continue
		}
		if r, ok := b.Instrs[len(b.Instrs)-1].(*ssa.Return); ok {
			out = append(out, r)
		}
	}
	return out
}

// InLoop reports whether block b lies on a CFG cycle.
func InLoop(b *ssa.BasicBlock) bool {
	seen := map[*ssa.BasicBlock]bool{}
	stack := append([]*ssa.BasicBlock{}, b.Succs...)
	for len(stack) > 0 {
		x := stack[len(stack)-1]
		stack = stack[:len(stack)-1]
		if x == b {
			return true
		}
		if seen[x] {
			continue
		}
		seen[x] = true
		stack = append(stack, x.Succs...)
	}
	return false
}

// Calls enumerates call instructions (call, go, defer) in fn.
func Calls(fn *ssa.Function) []ssa.CallInstruction {
	var out []ssa.CallInstruction
	for _, b := range fn.Blocks {
		for _, in := range b.Instrs {
			if c, ok := in.(ssa.CallInstruction); ok {
				out = append(out, c)
			}
		}
	}
	return out
}

// CalleeIs reports whether the call statically resolves to function/method with the given
// package path and name (for methods: "Recv.Name" or "(*Recv).Name" is matched by type name + name).
func CalleeIs(c ssa.CallInstruction, pkgPath, name string) bool {
	cc := c.Common()
	if cc.IsInvoke() {
		m := cc.Method
		if m.Name() != name {
			return false
		}
		return m.Pkg() != nil && m.Pkg().Path() == pkgPath
	}
	f := cc.StaticCallee()
	if f == nil {
		return false
	}
	return FuncIs(f, pkgPath, name)
}

// FuncIs matches a function object by package and (unqualified) name.
func FuncIs(f *ssa.Function, pkgPath, name string) bool {
	if f == nil || f.Name() != name {
		return false
	}
	o := f.Object()
	if o == nil || o.Pkg() == nil {
		return f.Pkg != nil && f.Pkg.Pkg.Path() == pkgPath
	}
	return o.Pkg().Path() == pkgPath
}

// MethodIs matches a static callee that is method `name` of named type pkgPath.typ.
func MethodIs(f *ssa.Function, pkgPath, typ, name string) bool {
	if f == nil || f.Name() != name || f.Signature.Recv() == nil {
		return false
	}
	n := namedOf(f.Signature.Recv().Type())
	return n != nil && n.Obj().Name() == typ && n.Obj().Pkg() != nil && n.Obj().Pkg().Path() == pkgPath
}

// InvokeIs matches an interface method call by method name and the receiver's static interface type name.
func InvokeIs(c ssa.CallInstruction, name string) bool {
	cc := c.Common()
	return cc.IsInvoke() && cc.Method.Name() == name
}

// RecvTypeName returns the named type of a method's receiver ("" if none).
func RecvTypeName(f *ssa.Function) string {
	if f == nil || f.Signature.Recv() == nil {
		return ""
	}
	if n := namedOf(f.Signature.Recv().Type()); n != nil {
		return n.Obj().Name()
	}
	return ""
}

// IsNilConst reports whether v is the nil constant.
func IsNilConst(v ssa.Value) bool {
	c, ok := v.(*ssa.Const)
	return ok && c.Value == nil
}

// ConstString returns the string constant value of v.
func ConstString(v ssa.Value) (string, bool) {
	c, ok := v.(*ssa.Const)
	if !ok || c.Value == nil || c.Value.Kind() != constant.String {
		return "", false
	}
	return constant.StringVal(c.Value), true
}

// ConstInt returns the integer constant value of v.
func ConstInt(v ssa.Value) (int64, bool) {
	c, ok := v.(*ssa.Const)
	if !ok || c.Value == nil || c.Value.Kind() != constant.Int {
		return 0, false
	}
	n, exact := constant.Int64Val(c.Value)
	if !exact {
		u, ok2 := constant.Uint64Val(c.Value)
		if ok2 {
			return int64(u), true
		}
		return 0, false
	}
	return n, true
}

// Unwrap strips representation-only conversions (ChangeType, MakeInterface, ChangeInterface).
func Unwrap(v ssa.Value) ssa.Value {
	for {
		switch x := v.(type) {
		case *ssa.ChangeType:
			v = x.X
		case *ssa.MakeInterface:
			v = x.X
		case *ssa.ChangeInterface:
			v = x.X
		default:
			return v
		}
	}
}

// IsErrorType reports whether t is the builtin error interface.
func IsErrorType(t types.Type) bool {
	return types.Identical(t, types.Universe.Lookup("error").Type())
}

// RetVals returns the values a Return yields, looking through go/ssa's spilling of results into locals
// in functions that contain a defer (`*t0 = v; rundefers; t9 = *t0; return t9`): for a result loaded
// from a local cell, the last store to that cell earlier in the same block is used.
func RetVals(r *ssa.Return) []ssa.Value {
	out := make([]ssa.Value, len(r.Results))
	b := r.Block()
	for i, v := range r.Results {
		out[i] = v
		ld, ok := v.(*ssa.UnOp)
		if !ok || ld.Op != token.MUL || ld.Block() != b {
			continue
		}
		a, ok := ld.X.(*ssa.Alloc)
		if !ok {
			continue
		}
		for j := len(b.Instrs) - 1; j >= 0; j-- {
			if st, ok := b.Instrs[j].(*ssa.Store); ok && st.Addr == ssa.Value(a) {
				out[i] = st.Val
				break
			}
		}
	}
	return out
}

// EdgeConds returns the conditions that hold when control flows along the CFG edge pred->succ:
// everything that holds in pred plus pred's own branch outcome.
func EdgeConds(pred, succ *ssa.BasicBlock) []Cond {
	out := DomCondsBlock(pred)
	if len(pred.Instrs) == 0 {
		return out
	}
	if iff, ok := pred.Instrs[len(pred.Instrs)-1].(*ssa.If); ok && len(pred.Succs) == 2 && pred.Succs[0] != pred.Succs[1] {
		var extra []Cond
		if pred.Succs[0] == succ {
			extra = append(extra, Cond{V: iff.Cond, Pol: true, If: iff})
		} else if pred.Succs[1] == succ {
			extra = append(extra, Cond{V: iff.Cond, Pol: false, If: iff})
		}
		out = append(out, expandConds(extra)...)
	}
	return out
}

// Loop is a natural loop: Header dominates every block of Blocks; Latches are the sources of its back edges.
type Loop struct {
	Header  *ssa.BasicBlock
	Blocks  map[*ssa.BasicBlock]bool
	Latches []*ssa.BasicBlock
}

// Loops returns the natural loops of fn (back edges b->h with h dominating b; loops sharing a header are merged).
func Loops(fn *ssa.Function) []*Loop {
	byHeader := map[*ssa.BasicBlock]*Loop{}
	var order []*ssa.BasicBlock
	for _, b := range fn.Blocks {
		for _, h := range b.Succs {
			if !h.Dominates(b) {
				continue
			}
			l := byHeader[h]
			if l == nil {
				l = &Loop{Header: h, Blocks: map[*ssa.BasicBlock]bool{h: true}}
				byHeader[h] = l
				order = append(order, h)
			}
			l.Latches = append(l.Latches, b)
			stack := []*ssa.BasicBlock{b}
			for len(stack) > 0 {
				x := stack[len(stack)-1]
				stack = stack[:len(stack)-1]
				if l.Blocks[x] {
					continue
				}
				l.Blocks[x] = true
				stack = append(stack, x.Preds...)
			}
		}
	}
	var out []*Loop
	for _, h := range order {
		out = append(out, byHeader[h])
	}
	return out
}
