package core

import (
	"fmt"
	"go/token"
	"go/types"
	"strings"

	"golang.org/x/tools/go/ssa"
)

// Render gives a canonical, resolved rendering of an SSA value as an expression over
// parameters (p0,p1..), free variables (fv:name), fields, globals, constants and calls.
// It is derived from the type-checked program (not source text): local variable names,
// formatting and statement layout do not influence it.
func Render(v ssa.Value) string { return render(v, 8, map[ssa.Value]bool{}) }

// RenderN renders with an explicit depth bound.
func RenderN(v ssa.Value, depth int) string { return render(v, depth, map[ssa.Value]bool{}) }

func typeShort(t types.Type) string {
	return types.TypeString(t, func(p *types.Package) string { return p.Name() })
}

func calleeName(cc *ssa.CallCommon) string {
	if cc.IsInvoke() {
		return "iface:" + typeShort(cc.Value.Type()) + "." + cc.Method.Name()
	}
	switch f := cc.Value.(type) {
	case *ssa.Function:
		return FuncShort(f)
	case *ssa.Builtin:
		return f.Name()
	case *ssa.MakeClosure:
		if fn, ok := f.Fn.(*ssa.Function); ok {
			return "closure:" + FuncShort(fn)
		}
	}
	return "dyn"
}

// FuncShort: pkgname.Func or (pkgname.T).Method / (*pkgname.T).Method.
func FuncShort(f *ssa.Function) string {
	if f == nil {
		return "<nil>"
	}
	if f.Signature.Recv() != nil {
		return "(" + typeShort(f.Signature.Recv().Type()) + ")." + f.Name()
	}
	if f.Parent() != nil {
		return FuncShort(f.Parent()) + "$" + strings.TrimPrefix(f.Name(), f.Parent().Name()+"$")
	}
	if f.Pkg != nil {
		return f.Pkg.Pkg.Name() + "." + f.Name()
	}
	if o := f.Object(); o != nil && o.Pkg() != nil {
		return o.Pkg().Name() + "." + f.Name()
	}
	return f.Name()
}

func fieldName(t types.Type, idx int) string {
	if p, ok := t.Underlying().(*types.Pointer); ok {
		t = p.Elem()
	}
	st, ok := t.Underlying().(*types.Struct)
	if !ok || idx >= st.NumFields() {
		return fmt.Sprintf("#%d", idx)
	}
	return st.Field(idx).Name()
}

func paramIndex(p *ssa.Parameter) int {
	for i, q := range p.Parent().Params {
		if q == p {
			return i
		}
	}
	return -1
}

func render(v ssa.Value, d int, seen map[ssa.Value]bool) string {
	if v == nil {
		return "<nil>"
	}
	if d <= 0 {
		return "…"
	}
	r := func(x ssa.Value) string { return render(x, d-1, seen) }
	switch x := v.(type) {
	case *ssa.Const:
		if x.Value == nil {
			return "nil"
		}
		return x.Value.ExactString()
	case *ssa.Parameter:
		return fmt.Sprintf("p%d", paramIndex(x))
	case *ssa.FreeVar:
		return "fv:" + x.Name()
	case *ssa.Global:
		return x.Pkg.Pkg.Name() + "." + x.Name()
	case *ssa.Function:
		return "func:" + FuncShort(x)
	case *ssa.Builtin:
		return x.Name()
	case *ssa.Alloc:
		return "alloc(" + typeShort(x.Type().Underlying().(*types.Pointer).Elem()) + ")"
	case *ssa.UnOp:
		switch x.Op {
		case token.MUL:
			switch a := x.X.(type) {
			case *ssa.FieldAddr:
				if al, ok := a.X.(*ssa.Alloc); ok {
					if sv := SingleStore(al); sv != nil {
						// spilled value (receiver / struct local): a field of the stored value
						return r(sv) + "." + fieldName(a.X.Type(), a.Field)
					}
				}
				return r(a.X) + "." + fieldName(a.X.Type(), a.Field)
			case *ssa.IndexAddr:
				return r(a.X) + "[" + r(a.Index) + "]"
			case *ssa.Global:
				return r(a)
			case *ssa.FreeVar:
				return "*" + r(a)
			case *ssa.Alloc:
				if sv := SingleStore(a); sv != nil {
					return r(sv)
				}
				return "*" + r(a)
			}
			return "*" + r(x.X)
		case token.NOT:
			return "!" + r(x.X)
		case token.ARROW:
			return "<-" + r(x.X)
		default:
			return x.Op.String() + r(x.X)
		}
	case *ssa.BinOp:
		return "(" + r(x.X) + " " + x.Op.String() + " " + r(x.Y) + ")"
	case *ssa.Call:
		var args []string
		if x.Call.IsInvoke() {
			args = append(args, r(x.Call.Value))
		}
		for _, a := range x.Call.Args {
			args = append(args, r(a))
		}
		return calleeName(&x.Call) + "(" + strings.Join(args, ", ") + ")"
	case *ssa.FieldAddr:
		return "&" + r(x.X) + "." + fieldName(x.X.Type(), x.Field)
	case *ssa.Field:
		return r(x.X) + "." + fieldName(x.X.Type(), x.Field)
	case *ssa.IndexAddr:
		return "&" + r(x.X) + "[" + r(x.Index) + "]"
	case *ssa.Index:
		return r(x.X) + "[" + r(x.Index) + "]"
	case *ssa.Lookup:
		return r(x.X) + "[" + r(x.Index) + "]"
	case *ssa.Extract:
		return r(x.Tuple) + "#" + fmt.Sprint(x.Index)
	case *ssa.TypeAssert:
		return r(x.X) + ".(" + typeShort(x.AssertedType) + ")"
	case *ssa.MakeInterface:
		return r(x.X)
	case *ssa.ChangeInterface:
		return r(x.X)
	case *ssa.ChangeType:
		return r(x.X)
	case *ssa.Convert:
		return typeShort(x.Type()) + "(" + r(x.X) + ")"
	case *ssa.MultiConvert:
		return typeShort(x.Type()) + "(" + r(x.X) + ")"
	case *ssa.SliceToArrayPointer:
		return typeShort(x.Type()) + "(" + r(x.X) + ")"
	case *ssa.Slice:
		if a, ok := x.X.(*ssa.Alloc); ok && (a.Comment == "varargs" || a.Comment == "slicelit") && x.Low == nil && x.High == nil {
			// literal element list
			if at, ok := a.Type().Underlying().(*types.Pointer).Elem().Underlying().(*types.Array); ok {
				elems := make([]string, at.Len())
				for i := range elems {
					elems[i] = "_"
				}
				for _, ref := range *a.Referrers() {
					if ia, ok := ref.(*ssa.IndexAddr); ok {
						if k, ok := ia.Index.(*ssa.Const); ok && k.Value != nil {
							if idx, ok2 := constantInt(k); ok2 && idx >= 0 && idx < int64(len(elems)) {
								for _, r2 := range *ia.Referrers() {
									if st, ok := r2.(*ssa.Store); ok {
										elems[idx] = r(st.Val)
									}
								}
							}
						}
					}
				}
				return "[" + strings.Join(elems, ", ") + "]"
			}
		}
		lo, hi, mx := "", "", ""
		if x.Low != nil {
			lo = r(x.Low)
		}
		if x.High != nil {
			hi = r(x.High)
		}
		s := r(x.X) + "[" + lo + ":" + hi
		if x.Max != nil {
			mx = r(x.Max)
			s += ":" + mx
		}
		return s + "]"
	case *ssa.Phi:
		if seen[x] {
			return "φ"
		}
		seen[x] = true
		var parts []string
		for _, e := range x.Edges {
			parts = append(parts, r(e))
		}
		delete(seen, x)
		return "φ(" + strings.Join(parts, "|") + ")"
	case *ssa.MakeClosure:
		if fn, ok := x.Fn.(*ssa.Function); ok {
			return "closure:" + FuncShort(fn)
		}
		return "closure"
	case *ssa.MakeMap:
		return "makemap(" + typeShort(x.Type()) + ")"
	case *ssa.MakeSlice:
		return "makeslice(" + typeShort(x.Type()) + ", " + r(x.Len) + ")"
	case *ssa.MakeChan:
		return "makechan(" + typeShort(x.Type()) + ")"
	case *ssa.Range:
		return "range(" + r(x.X) + ")"
	case *ssa.Next:
		return "next(" + r(x.Iter) + ")"
	case *ssa.Select:
		return "select"
	}
	return fmt.Sprintf("?%T", v)
}

// RenderConds renders a condition list for reports.
func RenderConds(cs []Cond) []string {
	var out []string
	for _, c := range cs {
		s := Render(c.V)
		if !c.Pol {
			s = "!" + s
		}
		out = append(out, s)
	}
	return out
}

// SingleStore: if the local cell a is written exactly once (a spilled parameter or single-assignment variable
// captured by a closure), returns the stored value; otherwise nil.
func SingleStore(a *ssa.Alloc) ssa.Value {
	var val ssa.Value
	n := 0
	for _, ref := range *a.Referrers() {
		switch x := ref.(type) {
		case *ssa.Store:
			if x.Addr == ssa.Value(a) {
				n++
				val = x.Val
			}
		case *ssa.MakeClosure:
			// captured by reference: the closure may write it
			if fn, ok := x.Fn.(*ssa.Function); ok {
				for i, b := range x.Bindings {
					if b == ssa.Value(a) && i < len(fn.FreeVars) {
						for _, r2 := range *fn.FreeVars[i].Referrers() {
							if st, ok := r2.(*ssa.Store); ok && st.Addr == ssa.Value(fn.FreeVars[i]) {
								n += 2
							}
						}
					}
				}
			}
		}
	}
	if n == 1 {
		return val
	}
	return nil
}

// Deref resolves a load of a single-assignment local cell to the stored value (else returns v).
func Deref(v ssa.Value) ssa.Value {
	if ld, ok := v.(*ssa.UnOp); ok && ld.Op == token.MUL {
		if a, ok := ld.X.(*ssa.Alloc); ok {
			if sv := SingleStore(a); sv != nil {
				return sv
			}
		}
	}
	return v
}

// StoredValues lists all values stored directly into local cell a within its function.
func StoredValues(a *ssa.Alloc) []ssa.Value {
	var out []ssa.Value
	for _, ref := range *a.Referrers() {
		if st, ok := ref.(*ssa.Store); ok && st.Addr == ssa.Value(a) {
			out = append(out, st.Val)
		}
	}
	return out
}

func constantInt(k *ssa.Const) (int64, bool) {
	return ConstInt(k)
}
