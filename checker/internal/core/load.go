// Package core: loading /repo into type-checked SSA form, anchors, call graph.
package core

import (
	"fmt"
	"go/token"
	"go/types"
	"os"
	"path/filepath"
	"sort"
	"strings"

	"golang.org/x/tools/go/callgraph"
	"golang.org/x/tools/go/callgraph/cha"
	"golang.org/x/tools/go/callgraph/vta"
	"golang.org/x/tools/go/packages"
	"golang.org/x/tools/go/ssa"
	"golang.org/x/tools/go/ssa/ssautil"
)

// ModPath is the import path prefix of honeytrap.
const ModPath = "github.com/honeytrap/honeytrap"

// Program is the resolved program all rules work on.
type Program struct {
	Dir    string
	GOARCH string
	Roots  []*packages.Package
	ByPath map[string]*packages.Package
	SSA    *ssa.Program
	Fset   *token.FileSet

	cgVTA *callgraph.Graph
	cgCHA *callgraph.Graph
	funcs []*ssa.Function // all in-repo functions incl. anonymous, sorted
}

// Load type-checks every package of the module in dir (working tree as it is now)
// and builds SSA for the whole program (dependencies included, for call-graph edges).
func Load(dir, goarch string) (*Program, error) {
	env := append(os.Environ(), "GOFLAGS=-mod=mod", "GOPROXY=off", "GOSUMDB=off", "GOTOOLCHAIN=local", "GOWORK=off")
	if goarch != "" {
		env = append(env, "GOARCH="+goarch, "GOOS=linux", "CGO_ENABLED=0")
	}
	cfg := &packages.Config{Mode: packages.LoadAllSyntax, Dir: dir, Env: env, Tests: false}
	pkgs, err := packages.Load(cfg, "./...")
	if err != nil {
		return nil, fmt.Errorf("packages.Load: %w", err)
	}
	if len(pkgs) == 0 {
		return nil, fmt.Errorf("no packages loaded from %s", dir)
	}
	var errs []string
	packages.Visit(pkgs, nil, func(p *packages.Package) {
		if !strings.HasPrefix(p.PkgPath, ModPath) {
			return
		}
		for _, e := range p.Errors {
			errs = append(errs, e.Error())
		}
	})
	if len(errs) > 0 {
		sort.Strings(errs)
		if len(errs) > 10 {
			errs = errs[:10]
		}
		return nil, fmt.Errorf("load/type errors in honeytrap packages: %s", strings.Join(errs, "; "))
	}
	prog, _ := ssautil.AllPackages(pkgs, ssa.InstantiateGenerics)
	prog.Build()
	p := &Program{Dir: dir, GOARCH: goarch, Roots: pkgs, ByPath: map[string]*packages.Package{}, SSA: prog}
	packages.Visit(pkgs, nil, func(pk *packages.Package) { p.ByPath[pk.PkgPath] = pk })
	p.Fset = pkgs[0].Fset
	BuildContextIndex(p.Funcs())
	return p, nil
}

// InRepo reports whether fn belongs to honeytrap itself.
func InRepo(fn *ssa.Function) bool {
	if fn == nil {
		return false
	}
	for fn.Parent() != nil {
		fn = fn.Parent()
	}
	if fn.Pkg != nil {
		return strings.HasPrefix(fn.Pkg.Pkg.Path(), ModPath)
	}
	if o := fn.Object(); o != nil && o.Pkg() != nil {
		return strings.HasPrefix(o.Pkg().Path(), ModPath)
	}
	if fn.Synthetic != "" {
		// wrappers/bound methods/thunks: decide by the origin package if available
		if r := fn.Signature.Recv(); r != nil {
			if n := namedOf(r.Type()); n != nil && n.Obj().Pkg() != nil {
				return strings.HasPrefix(n.Obj().Pkg().Path(), ModPath)
			}
		}
	}
	return false
}

func namedOf(t types.Type) *types.Named {
	for {
		switch x := t.(type) {
		case *types.Pointer:
			t = x.Elem()
		case *types.Named:
			return x
		default:
			return nil
		}
	}
}

// NamedOf exposes namedOf.
func NamedOf(t types.Type) *types.Named { return namedOf(t) }

// PkgOf returns the package path of the outermost enclosing function.
func PkgOf(fn *ssa.Function) string {
	for fn.Parent() != nil {
		fn = fn.Parent()
	}
	if fn.Pkg != nil {
		return fn.Pkg.Pkg.Path()
	}
	if o := fn.Object(); o != nil && o.Pkg() != nil {
		return o.Pkg().Path()
	}
	return ""
}

// RelPkg returns the package path relative to the module ("" for root).
func RelPkg(path string) string {
	return strings.TrimPrefix(strings.TrimPrefix(path, ModPath), "/")
}

// Funcs returns all in-repo functions that have bodies (including closures), sorted by name+pos.
func (p *Program) Funcs() []*ssa.Function {
	if p.funcs != nil {
		return p.funcs
	}
	all := ssautil.AllFunctions(p.SSA)
	for fn := range all {
		if fn.Blocks == nil || !InRepo(fn) {
			continue
		}
		if fn.Synthetic != "" && !strings.HasPrefix(fn.Synthetic, "package init") && fn.Parent() == nil {
			// wrappers & bound-method thunks: no source of their own
			continue
		}
		p.funcs = append(p.funcs, fn)
	}
	sort.Slice(p.funcs, func(i, j int) bool {
		a, b := p.funcs[i], p.funcs[j]
		if a.String() != b.String() {
			return a.String() < b.String()
		}
		return a.Pos() < b.Pos()
	})
	return p.funcs
}

// FuncsIn returns in-repo functions whose package path (relative to the module) has the given prefix(es).
func (p *Program) FuncsIn(relPrefixes ...string) []*ssa.Function {
	var out []*ssa.Function
	for _, fn := range p.Funcs() {
		rp := RelPkg(PkgOf(fn))
		for _, pre := range relPrefixes {
			if rp == pre || strings.HasPrefix(rp, pre+"/") {
				out = append(out, fn)
				break
			}
		}
	}
	return out
}

// Pkg returns the SSA package for a module-relative path, or nil.
func (p *Program) Pkg(rel string) *ssa.Package {
	path := ModPath
	if rel != "" {
		path += "/" + rel
	}
	pk := p.ByPath[path]
	if pk == nil || pk.Types == nil {
		return nil
	}
	return p.SSA.Package(pk.Types)
}

// TypeHints / FuncHints make anchors on UNEXPORTED names tolerant to renames: when rel.name no longer exists, the unique
// named type of the package that declares the hinted methods (resp. the unique package-level function or method with
// the hinted signature) is taken instead. A rename of an unexported identifier is not a behaviour change.
var TypeHints = map[string][]string{}
var FuncHints = map[string]string{} // "rel.name" -> types.Signature string without receiver, e.g. "func(net.Addr, net.Addr) bool"

// Func returns package-level function rel.name or nil.
func (p *Program) Func(rel, name string) *ssa.Function {
	pk := p.Pkg(rel)
	if pk == nil {
		return nil
	}
	if f := pk.Func(name); f != nil {
		return f
	}
	want, ok := FuncHints[rel+"."+name]
	if !ok {
		return nil
	}
	var found *ssa.Function
	n := 0
	for _, m := range pk.Members {
		f, isF := m.(*ssa.Function)
		if !isF || f.Signature.Recv() != nil || f.Synthetic != "" {
			continue
		}
		if SigString(f.Signature) == want {
			found = f
			n++
		}
	}
	if n == 1 {
		return found
	}
	return nil
}

// declaredMethods lists the names of the methods declared (not promoted) on n or *n.
func (p *Program) declaredMethods(n *types.Named) map[string]bool {
	out := map[string]bool{}
	for i := 0; i < n.NumMethods(); i++ {
		out[n.Method(i).Name()] = true
	}
	return out
}

// Type returns the named type rel.name or nil.
func (p *Program) Type(rel, name string) *types.Named {
	pk := p.Pkg(rel)
	if pk == nil {
		return nil
	}
	if t, ok := pk.Members[name].(*ssa.Type); ok {
		n, _ := t.Type().(*types.Named)
		return n
	}
	hint, ok := TypeHints[rel+"."+name]
	if !ok {
		return nil
	}
	var found *types.Named
	cnt := 0
	for _, m := range pk.Members {
		t, isT := m.(*ssa.Type)
		if !isT {
			continue
		}
		n, isN := t.Type().(*types.Named)
		if !isN {
			continue
		}
		if _, isIface := n.Underlying().(*types.Interface); isIface {
			continue
		}
		dm := p.declaredMethods(n)
		all := true
		for _, h := range hint {
			neg := len(h) > 0 && h[0] == '!'
			if neg {
				if dm[h[1:]] {
					all = false
				}
			} else if !dm[h] {
				all = false
			}
		}
		if all {
			found = n
			cnt++
		}
	}
	if cnt == 1 {
		return found
	}
	return nil
}

// Method returns the method of rel.typ (pointer or value receiver, whichever declares it) or nil.
func (p *Program) Method(rel, typ, name string) *ssa.Function {
	n := p.Type(rel, typ)
	if n == nil {
		return nil
	}
	for _, t := range []types.Type{types.NewPointer(n), n} {
		ms := p.SSA.MethodSets.MethodSet(t)
		for i := 0; i < ms.Len(); i++ {
			sel := ms.At(i)
			if sel.Obj().Name() == name {
				fn := p.SSA.MethodValue(sel)
				if fn != nil && fn.Synthetic != "" {
					// promoted / wrapper: find the declared function
					if f2 := p.SSA.FuncValue(sel.Obj().(*types.Func)); f2 != nil {
						return f2
					}
				}
				return fn
			}
		}
	}
	return nil
}

// Anon returns the closures (transitively) defined in fn, in definition order.
func Anon(fn *ssa.Function) []*ssa.Function {
	var out []*ssa.Function
	var rec func(f *ssa.Function)
	rec = func(f *ssa.Function) {
		for _, a := range f.AnonFuncs {
			out = append(out, a)
			rec(a)
		}
	}
	rec(fn)
	return out
}

// Pos renders a position relative to the repo dir.
func (p *Program) Pos(pos token.Pos) string {
	if !pos.IsValid() {
		return "-"
	}
	ps := p.Fset.Position(pos)
	rel, err := filepath.Rel(p.Dir, ps.Filename)
	if err != nil || strings.HasPrefix(rel, "..") {
		rel = ps.Filename
	}
	return fmt.Sprintf("%s:%d", rel, ps.Line)
}

// InstrPos returns the best available position for an instruction.
func (p *Program) InstrPos(in ssa.Instruction) string {
	if in == nil {
		return "-"
	}
	pos := in.Pos()
	if !pos.IsValid() {
		if v, ok := in.(ssa.Value); ok {
			_ = v
		}
		// fall back to nearest instruction with a position in the same block
		b := in.Block()
		if b != nil {
			idx := -1
			for i, x := range b.Instrs {
				if x == in {
					idx = i
				}
			}
			for d := 1; d < len(b.Instrs); d++ {
				for _, j := range []int{idx - d, idx + d} {
					if j >= 0 && j < len(b.Instrs) && b.Instrs[j].Pos().IsValid() {
						return p.Pos(b.Instrs[j].Pos()) + "~"
					}
				}
			}
		}
		if in.Parent() != nil {
			return p.Pos(in.Parent().Pos()) + "~"
		}
	}
	return p.Pos(pos)
}

// FnName is a stable, readable function identifier: pkgrel.(Recv).Name[$n].
func FnName(fn *ssa.Function) string {
	if fn == nil {
		return "<nil>"
	}
	s := fn.String()
	s = strings.ReplaceAll(s, ModPath+"/", "")
	s = strings.ReplaceAll(s, ModPath, "honeytrap")
	return s
}

// VTA returns the VTA call graph (seeded with CHA), built on first use.
func (p *Program) VTA() *callgraph.Graph {
	if p.cgVTA == nil {
		p.cgVTA = vta.CallGraph(ssautil.AllFunctions(p.SSA), p.CHA())
	}
	return p.cgVTA
}

// CHA returns the class-hierarchy call graph.
func (p *Program) CHA() *callgraph.Graph {
	if p.cgCHA == nil {
		p.cgCHA = cha.CallGraph(p.SSA)
	}
	return p.cgCHA
}

// Callees returns the in-program callees of a call instruction under graph g (static callee first).
func Callees(g *callgraph.Graph, site ssa.CallInstruction) []*ssa.Function {
	if c := site.Common().StaticCallee(); c != nil {
		return []*ssa.Function{c}
	}
	n := g.Nodes[site.Parent()]
	if n == nil {
		return nil
	}
	seen := map[*ssa.Function]bool{}
	var out []*ssa.Function
	for _, e := range n.Out {
		if e.Site == site && e.Callee != nil && !seen[e.Callee.Func] {
			seen[e.Callee.Func] = true
			out = append(out, e.Callee.Func)
		}
	}
	sort.Slice(out, func(i, j int) bool { return out[i].String() < out[j].String() })
	return out
}

// Implements reports whether T or *T implements the interface type.
func Implements(t types.Type, iface *types.Interface) bool {
	if types.Implements(t, iface) {
		return true
	}
	if _, ok := t.(*types.Pointer); !ok {
		return types.Implements(types.NewPointer(t), iface)
	}
	return false
}

// Iface returns the interface rel.name (underlying) or nil.
func (p *Program) Iface(rel, name string) *types.Interface {
	n := p.Type(rel, name)
	if n == nil {
		return nil
	}
	i, _ := n.Underlying().(*types.Interface)
	return i
}

// NamedTypes lists all named (non-interface) types declared in in-repo packages, sorted.
func (p *Program) NamedTypes() []*types.Named {
	var out []*types.Named
	for path, pk := range p.ByPath {
		if !strings.HasPrefix(path, ModPath) || pk.Types == nil {
			continue
		}
		sc := pk.Types.Scope()
		for _, nm := range sc.Names() {
			if tn, ok := sc.Lookup(nm).(*types.TypeName); ok && !tn.IsAlias() {
				if n, ok := tn.Type().(*types.Named); ok {
					out = append(out, n)
				}
			}
		}
	}
	sort.Slice(out, func(i, j int) bool { return out[i].String() < out[j].String() })
	return out
}

// SigString renders a signature by its parameter and result types only (no names), packages by their name.
func SigString(sig *types.Signature) string {
	q := func(tp *types.Package) string { return tp.Name() }
	var ps, rs []string
	for i := 0; i < sig.Params().Len(); i++ {
		ps = append(ps, types.TypeString(sig.Params().At(i).Type(), q))
	}
	for i := 0; i < sig.Results().Len(); i++ {
		rs = append(rs, types.TypeString(sig.Results().At(i).Type(), q))
	}
	out := "func(" + strings.Join(ps, ", ") + ")"
	switch len(rs) {
	case 0:
	case 1:
		out += " " + rs[0]
	default:
		out += " (" + strings.Join(rs, ", ") + ")"
	}
	return out
}
