package core

import (
	"go/constant"
	"go/token"

	"golang.org/x/tools/go/ssa"
)

// NeverNil reports whether v is certainly non-nil: an allocation, an address, a conversion of such, or the
// result of a static callee all of whose returns are NeverNil (depth-bounded).
func NeverNil(v ssa.Value) bool { return neverNil(v, 3) }

func neverNil(v ssa.Value, d int) bool {
	switch x := v.(type) {
	case *ssa.Alloc, *ssa.FieldAddr, *ssa.IndexAddr, *ssa.MakeMap, *ssa.MakeChan, *ssa.MakeSlice, *ssa.MakeClosure, *ssa.Function, *ssa.Global:
		return true
	case *ssa.MakeInterface:
		return true // an interface holding a typed value is != nil interface
	case *ssa.ChangeType:
		return neverNil(x.X, d)
	case *ssa.ChangeInterface:
		return neverNil(x.X, d)
	case *ssa.Call:
		if d == 0 {
			return false
		}
		f := x.Call.StaticCallee()
		if f != nil && f.Pkg != nil && ((f.Pkg.Pkg.Path() == "fmt" && f.Name() == "Errorf") || (f.Pkg.Pkg.Path() == "errors" && f.Name() == "New")) {
			return true
		}
		if f == nil || f.Blocks == nil || f.Signature.Results().Len() != 1 {
			return false
		}
		for _, r := range Returns(f) {
			if !neverNil(RetVals(r)[0], d-1) {
				return false
			}
		}
		return true
	}
	return false
}

// afterEvents returns the blocks in which control may be *after* one of the events,
// never entering `blocked` (nil = none).  The events' own blocks are included.
func afterEvents(events []ssa.Instruction, blocked *ssa.BasicBlock) map[*ssa.BasicBlock]bool {
	return afterEventsAt(events, blocked, nil)
}

func instrIndex(in ssa.Instruction) int {
	for i, x := range in.Block().Instrs {
		if x == in {
			return i
		}
	}
	return -1
}

// afterEventsAt: like afterEvents, but an event's own block counts only if `at` lies after the event in it
// (at == nil: always counts).
func afterEventsAt(events []ssa.Instruction, blocked *ssa.BasicBlock, at ssa.Instruction) map[*ssa.BasicBlock]bool {
	res := map[*ssa.BasicBlock]bool{}
	var start []*ssa.BasicBlock
	for _, e := range events {
		if at == nil || at.Block() != e.Block() || instrIndex(at) > instrIndex(e) {
			res[e.Block()] = true
		}
		start = append(start, e.Block().Succs...)
	}
	bl := map[*ssa.BasicBlock]bool{}
	if blocked != nil {
		bl[blocked] = true
	}
	for b := range ReachBlocks(start, nil, bl) {
		res[b] = true
	}
	return res
}

// ImpliesNotYet decides whether condition c, holding at instruction `at`, implies that none of `events`
// has executed yet on the current activation.  Recognised: a "monotone cell" – a (web of) phi(s) whose value
// d (nil for `x == nil`, a bool constant for a flag) can only be injected on edges that cannot follow an event,
// and is overwritten with a known non-d value on every path after an event.  Sound but incomplete.
func ImpliesNotYet(c Cond, at ssa.Instruction, events []ssa.Instruction) bool {
	if len(events) == 0 {
		return true
	}
	var cell ssa.Value
	nilMode := false
	var isD func(v ssa.Value) (known bool, isd bool)
	switch v := c.V.(type) {
	case *ssa.BinOp:
		if v.Op != token.EQL && v.Op != token.NEQ {
			return false
		}
		x, y := v.X, v.Y
		if IsNilConst(x) {
			x, y = y, x
		}
		if !IsNilConst(y) {
			return false
		}
		wantNil := (v.Op == token.EQL) == c.Pol
		if !wantNil {
			return false
		}
		cell = x
		nilMode = true
		isD = func(w ssa.Value) (bool, bool) {
			if IsNilConst(w) {
				return true, true
			}
			if NeverNil(w) {
				return true, false
			}
			return false, false
		}
	default:
		// boolean flag
		cell = c.V
		want := c.Pol
		isD = func(w ssa.Value) (bool, bool) {
			k, ok := w.(*ssa.Const)
			if !ok || k.Value == nil || k.Value.Kind() != constant.Bool {
				return false, false
			}
			return true, constant.BoolVal(k.Value) == want
		}
	}
	// strip interface wrapping of the cell (e.g. make net.Conn <- *T (phi))
	cell = Unwrap(cell)
	ph, ok := cell.(*ssa.Phi)
	if !ok {
		return false
	}
	// (A) every path from an event to `at` re-evaluates the cell
	if afterEventsAt(events, ph.Block(), at)[at.Block()] {
		return false
	}
	after := afterEvents(events, nil)
	seen := map[*ssa.Phi]bool{}
	var okWeb func(w *ssa.Phi) bool
	okWeb = func(w *ssa.Phi) bool {
		if seen[w] {
			return true
		}
		seen[w] = true
		for i, e := range w.Edges {
			pred := w.Block().Preds[i]
			if u, isPhi := e.(*ssa.Phi); isPhi {
				// (B) no event between u's evaluation and this edge
				if afterEvents(events, u.Block())[pred] {
					return false
				}
				if !okWeb(u) {
					return false
				}
				continue
			}
			known, d := isD(e)
			if known && !d {
				continue
			}
			if ex, isEx := Unwrap(e).(*ssa.Extract); isEx && nilMode && extractNonNilOnSuccess(ex, pred, w.Block()) {
				continue // result of a helper that is non-nil whenever its error is nil, and the error was tested on the way here
			}
			// d (or possibly d) injected here: the edge must not be traversable after an event
			if after[pred] {
				return false
			}
		}
		return true
	}
	return okWeb(ph)
}

// extractNonNilOnSuccess: ex is result #i of a call of an in-repo function whose last result is an error; every return
// of that function either yields a never-nil value at #i or a non-nil error, and block b is only reached with the
// call's error tested to be nil.
func extractNonNilOnSuccess(ex *ssa.Extract, b, succ *ssa.BasicBlock) bool {
	call, ok := ex.Tuple.(*ssa.Call)
	if !ok {
		return false
	}
	f := call.Call.StaticCallee()
	if f == nil || f.Blocks == nil {
		return false
	}
	res := f.Signature.Results()
	ei := res.Len() - 1
	if ei < 1 || ex.Index >= ei || !IsErrorType(res.At(ei).Type()) {
		return false
	}
	rets := Returns(f)
	if len(rets) == 0 {
		return false
	}
	for _, r := range rets {
		rv := RetVals(r)
		if len(rv) != res.Len() {
			return false
		}
		if neverNil(rv[ex.Index], 2) {
			continue
		}
		if IsNilConst(rv[ei]) {
			return false
		}
		if !neverNil(rv[ei], 2) {
			// an error value of unknown origin: accept only values that were tested non-nil on the way to the return
			okErr := false
			for _, dc := range DomCondsBlock(r.Block()) {
				if bo, isB := dc.V.(*ssa.BinOp); isB && IsNilConst(bo.Y) && bo.X == rv[ei] && ((bo.Op == token.NEQ && dc.Pol) || (bo.Op == token.EQL && !dc.Pol)) {
					okErr = true
				}
			}
			if !okErr {
				return false
			}
		}
	}
	for _, dc := range EdgeConds(b, succ) {
		bo, isB := dc.V.(*ssa.BinOp)
		if !isB || !IsNilConst(bo.Y) {
			continue
		}
		e2, isEx := bo.X.(*ssa.Extract)
		if !isEx || e2.Tuple != ex.Tuple || e2.Index != ei {
			continue
		}
		if (bo.Op == token.EQL && dc.Pol) || (bo.Op == token.NEQ && !dc.Pol) {
			return true
		}
	}
	return false
}
