package core

import (
	"crypto/sha1"
	"encoding/json"
	"fmt"
	"os"
	"path/filepath"
	"regexp"
	"sort"
	"strings"
	"time"
)

// Status of an obligation.
type Status string

const (
	OK        Status = "discharged"
	Violated  Status = "violated"
	Excepted  Status = "excepted"
	Observed  Status = "observed" // out-of-domain observation, never an alarm
	Undecided Status = "undecided"
)

// Obligation is one rule instance over one named construct.
type Obligation struct {
	Rule   string `json:"rule"`
	Key    string `json:"key"` // construct identity: function/field/callee/ordinal — never a line number
	Pos    string `json:"pos"`
	Status Status `json:"status"`
	Detail string `json:"detail,omitempty"`
}

// Ctx collects what one property check analysed and found.
type Ctx struct {
	Prop        string
	Tier        string
	P           *Program
	Obl         []Obligation
	floors      []floor
	Assumptions []string
	Explanation string
	Notes       []string
	Extra       map[string]interface{}
	Start       time.Time
	keys        map[string]int
	floorsDone  bool
	Configs     []map[string]interface{}
}

type floor struct {
	rule string
	min  int
	why  string
}

// NewCtx starts a check.
func NewCtx(prop, tier string, p *Program) *Ctx {
	return &Ctx{Prop: prop, Tier: tier, P: p, Start: time.Now(), Extra: map[string]interface{}{}, keys: map[string]int{}}
}

func (c *Ctx) add(rule, key, pos string, st Status, detail string) {
	// make keys unique per rule by ordinal suffix (stable: enumeration order is deterministic)
	k := rule + "\x00" + key
	c.keys[k]++
	if n := c.keys[k]; n > 1 {
		key = fmt.Sprintf("%s#%d", key, n)
	}
	c.Obl = append(c.Obl, Obligation{Rule: rule, Key: key, Pos: pos, Status: st, Detail: detail})
}

// Ok records a discharged obligation.
func (c *Ctx) Ok(rule, key, pos, detail string) { c.add(rule, key, pos, OK, detail) }

// Violate records a violated obligation.
func (c *Ctx) Violate(rule, key, pos, detail string) { c.add(rule, key, pos, Violated, detail) }

// Except records an obligation covered by a named exception (reason in detail).
func (c *Ctx) Except(rule, key, pos, detail string) { c.add(rule, key, pos, Excepted, detail) }

// Observe records an out-of-domain observation.
func (c *Ctx) Observe(rule, key, pos, detail string) { c.add(rule, key, pos, Observed, detail) }

// Undecided records an obligation the analysis could not decide; it fails the check.
func (c *Ctx) Undecided(rule, key, pos, detail string) { c.add(rule, key, pos, Undecided, detail) }

// Check records OK or Violated depending on cond.
func (c *Ctx) Check(cond bool, rule, key, pos, okDetail, badDetail string) bool {
	if cond {
		c.Ok(rule, key, pos, okDetail)
	} else {
		c.Violate(rule, key, pos, badDetail)
	}
	return cond
}

// Anchor fails closed when a construct a rule needs is missing.
func (c *Ctx) Anchor(found bool, rule, what string) bool {
	if !found {
		c.add(rule, "anchor:"+what, "-", Undecided, "anchor not found in the program: "+what+" (renamed/removed? the rule cannot be evaluated; failing closed)")
	}
	return found
}

// Floor demands at least min obligations (any status except Observed) for rule.
func (c *Ctx) Floor(rule string, min int, why string) {
	c.floors = append(c.floors, floor{rule, min, why})
}

// ApplyFloors turns every unmet floor into an undecided obligation (once).
func (c *Ctx) ApplyFloors() {
	if c.floorsDone {
		return
	}
	c.floorsDone = true
	counts := map[string]int{}
	for _, o := range c.Obl {
		if o.Status != Observed {
			counts[o.Rule]++
		}
	}
	for _, f := range c.floors {
		if counts[f.rule] < f.min {
			c.add(f.rule, "floor", "-", Undecided, fmt.Sprintf("rule matched %d constructs, fewer than the %d confirmed by hand (%s): the rule would pass vacuously", counts[f.rule], f.min, f.why))
		}
	}
}

// Merge folds the result of the same rule run under another build configuration into c: obligations that
// agree (same rule, construct and status) are counted, the others are added with the configuration in their key.
func (c *Ctx) Merge(o *Ctx, config string) {
	c.ApplyFloors()
	o.ApplyFloors()
	have := map[string]Status{}
	for _, x := range c.Obl {
		have[x.Rule+"\x00"+x.Key] = x.Status
	}
	same, diff := 0, 0
	for _, x := range o.Obl {
		if st, ok := have[x.Rule+"\x00"+x.Key]; ok && st == x.Status {
			same++
			continue
		}
		diff++
		x.Key = x.Key + " [" + config + "]"
		c.Obl = append(c.Obl, x)
	}
	c.Configs = append(c.Configs, map[string]interface{}{"configuration": config, "obligations": len(o.Obl), "identical_to_primary": same, "specific_to_configuration": diff,
		"functions_in_program": len(o.P.Funcs())})
}

// Assume records a trusted assumption.
func (c *Ctx) Assume(s string) { c.Assumptions = append(c.Assumptions, s) }

// KnownFindings is the committed file of findings recorded rather than repaired.
type KnownFindings struct {
	Findings []struct {
		Property string `json:"property"`
		Rule     string `json:"rule"`
		Key      string `json:"key"`
		What     string `json:"what"`
	} `json:"findings"`
	Fixed []string `json:"fixed"`
}

var sanitize = regexp.MustCompile(`[^A-Za-z0-9_.-]+`)

// Finish prints the report, writes evidence and replay files, returns the exit code.
func (c *Ctx) Finish(verifDir string, replay string) int {
	c.ApplyFloors()
	var kf KnownFindings
	if b, err := os.ReadFile(filepath.Join(verifDir, "known_findings.json")); err == nil {
		if err := json.Unmarshal(b, &kf); err != nil {
			fmt.Printf("known_findings.json unreadable: %v\n", err)
			c.add("machinery", "known_findings.json", "-", Undecided, err.Error())
		}
	}
	known := func(o Obligation) (string, bool) {
		for _, f := range kf.Findings {
			if f.Property == c.Prop && f.Rule == o.Rule && f.Key == o.Key {
				return f.What, true
			}
		}
		return "", false
	}
	var replayFilter *Obligation
	if replay != "" {
		if b, err := os.ReadFile(replay); err == nil {
			var o Obligation
			if json.Unmarshal(b, &o) == nil {
				replayFilter = &o
			}
		}
	}

	sort.SliceStable(c.Obl, func(i, j int) bool {
		if c.Obl[i].Rule != c.Obl[j].Rule {
			return c.Obl[i].Rule < c.Obl[j].Rule
		}
		return false
	})
	byRule := map[string]map[Status]int{}
	var rules []string
	for _, o := range c.Obl {
		if byRule[o.Rule] == nil {
			byRule[o.Rule] = map[Status]int{}
			rules = append(rules, o.Rule)
		}
		byRule[o.Rule][o.Status]++
	}
	fmt.Printf("== %s (%s) on %s [linux/%s] ==\n", c.Prop, c.Tier, c.P.Dir, archName(c.P.GOARCH))
	for _, r := range rules {
		m := byRule[r]
		fmt.Printf("rule %-34s obligations=%d discharged=%d excepted=%d observed=%d violated=%d undecided=%d\n", r,
			m[OK]+m[Violated]+m[Excepted]+m[Undecided], m[OK], m[Excepted], m[Observed], m[Violated], m[Undecided])
	}
	verbose := os.Getenv("HTCHECK_VERBOSE") != ""
	findingsDir := filepath.Join(verifDir, "evidence", "findings")
	exit := 0
	nviol, nknown := 0, 0
	var vioSamples []Obligation
	for _, o := range c.Obl {
		if replayFilter != nil && !(o.Rule == replayFilter.Rule && o.Key == replayFilter.Key) {
			continue
		}
		switch o.Status {
		case OK, Excepted, Observed:
			if verbose || replayFilter != nil {
				fmt.Printf("  %-10s %s  %s  @%s  %s\n", o.Status, o.Rule, o.Key, o.Pos, o.Detail)
			}
		case Violated, Undecided:
			if what, ok := known(o); ok && o.Status == Violated {
				nknown++
				fmt.Printf("KNOWN-FINDING: property=%s rule=%s construct=%s at %s: %s [%s]\n", c.Prop, o.Rule, o.Key, o.Pos, what, oneLine(o.Detail))
				continue
			}
			nviol++
			exit = 1
			vioSamples = append(vioSamples, o)
			_ = os.MkdirAll(findingsDir, 0o755)
			h := sha1.Sum([]byte(o.Rule + "\x00" + o.Key))
			name := fmt.Sprintf("%s-%s-%x.json", c.Prop, sanitize.ReplaceAllString(o.Rule, "_"), h[:4])
			path := filepath.Join(findingsDir, name)
			b, _ := json.MarshalIndent(o, "", " ")
			_ = os.WriteFile(path, b, 0o644)
			fmt.Printf("  %s rule=%s construct=%s at %s\n      %s\n", strings.ToUpper(string(o.Status)), o.Rule, o.Key, o.Pos, o.Detail)
			fmt.Printf("VIOLATION property=%s replay=%s\n", c.Prop, path)
		}
	}
	if replayFilter != nil {
		return exit
	}
	// evidence
	total, disch := 0, 0
	var samples []interface{}
	perRule := map[string]interface{}{}
	sampleCount := map[string]int{}
	distinct := map[string]bool{}
	for _, o := range c.Obl {
		if o.Status == Observed {
			continue
		}
		total++
		if o.Status == OK || o.Status == Excepted {
			disch++
		}
		distinct[o.Rule+"|"+o.Key] = true
		if sampleCount[o.Rule] < 3 {
			sampleCount[o.Rule]++
			samples = append(samples, o)
		}
	}
	for _, o := range vioSamples {
		samples = append(samples, o)
	}
	for _, r := range rules {
		perRule[r] = byRule[r]
	}
	var funcsAnalysed, pkgsAnalysed int
	pk := map[string]bool{}
	for _, fn := range c.P.Funcs() {
		funcsAnalysed++
		pk[PkgOf(fn)] = true
	}
	pkgsAnalysed = len(pk)
	cov := map[string]interface{}{
		"explanation":          c.Explanation,
		"obligations":          total,
		"discharged":           disch,
		"evaluations":          total,
		"distinct_nontrivial":  len(distinct),
		"rule":                 "one obligation per (rule, construct) enumerated from the resolved program (go/packages + go/ssa of /repo's working tree); distinct = distinct (rule, construct) keys; all are non-trivial in that each is a site the rule had to decide",
		"samples":              samples,
		"per_rule":             perRule,
		"known_findings":       nknown,
		"packages_loaded":      len(c.P.Roots),
		"packages_with_bodies": pkgsAnalysed,
		"functions_in_program": funcsAnalysed,
		"build_configuration":  "linux/" + archName(c.P.GOARCH),
		"checker_cmd":          "bin/htcheck -p " + c.Prop + " -tier " + c.Tier,
		"notes":                c.Notes,
		"all_obligations":      c.Obl,
	}
	if len(c.Configs) > 0 {
		cov["additional_build_configurations"] = c.Configs
	}
	for k, v := range c.Extra {
		cov[k] = v
	}
	ev := map[string]interface{}{
		"property_id": c.Prop,
		"tier":        c.Tier,
		"seed":        0,
		"level":       "other",
		"coverage":    cov,
		"assumptions": c.Assumptions,
		"wall_s":      time.Since(c.Start).Seconds(),
		"violations":  nviol,
	}
	_ = os.MkdirAll(filepath.Join(verifDir, "evidence"), 0o755)
	b, _ := json.MarshalIndent(ev, "", " ")
	if err := os.WriteFile(filepath.Join(verifDir, "evidence", c.Prop+".json"), b, 0o644); err != nil {
		fmt.Printf("cannot write evidence: %v\n", err)
		return 2
	}
	fmt.Printf("%s: obligations=%d discharged=%d known-findings=%d violations=%d  (%.1fs)\n", c.Prop, total, disch, nknown, nviol, time.Since(c.Start).Seconds())
	return exit
}

func archName(a string) string {
	if a == "" {
		return "amd64"
	}
	return a
}

func oneLine(s string) string {
	s = strings.ReplaceAll(s, "\n", " ")
	if len(s) > 300 {
		s = s[:300] + "…"
	}
	return s
}
