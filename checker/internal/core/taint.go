package core

import (
	"go/token"
	"go/types"

	"golang.org/x/tools/go/ssa"
)

// TaintOpts configures the forward intra-procedural value-flow closure.
type TaintOpts struct {
	// CallResult decides whether the result of call c is derived, given which argument positions
	// (receiver of an invoke = -1; for static method calls the receiver is Args[0]) are derived.
	CallResult func(c *ssa.Call, derivedArgs []int) bool
	// ThroughFields: a derived value stored into a field/element of a local object makes that object derived,
	// and loads from any field of a derived object are derived (field-insensitive, flow-insensitive).
	ThroughFields bool
}

// Taint computes the set of SSA values in fn derived from the seeds.
func Taint(fn *ssa.Function, seeds []ssa.Value, o TaintOpts) map[ssa.Value]bool {
	t := map[ssa.Value]bool{}
	for _, s := range seeds {
		if s != nil {
			t[s] = true
		}
	}
	base := func(addr ssa.Value) ssa.Value {
		for {
			switch a := addr.(type) {
			case *ssa.FieldAddr:
				addr = a.X
			case *ssa.IndexAddr:
				addr = a.X
			default:
				return addr
			}
		}
	}
	changed := true
	mark := func(v ssa.Value) {
		if v != nil && !t[v] {
			t[v] = true
			changed = true
		}
	}
	for changed {
		changed = false
		for _, b := range fn.Blocks {
			for _, in := range b.Instrs {
				switch x := in.(type) {
				case *ssa.Phi:
					for _, e := range x.Edges {
						if t[e] {
							mark(x)
						}
					}
				case *ssa.ChangeType:
					if t[x.X] {
						mark(x)
					}
				case *ssa.MakeInterface:
					if t[x.X] {
						mark(x)
					}
				case *ssa.ChangeInterface:
					if t[x.X] {
						mark(x)
					}
				case *ssa.Convert:
					if t[x.X] {
						mark(x)
					}
				case *ssa.TypeAssert:
					if t[x.X] {
						mark(x)
					}
				case *ssa.Extract:
					if t[x.Tuple] {
						// comma-ok forms: only index 0 carries the value
						switch x.Tuple.(type) {
						case *ssa.TypeAssert, *ssa.Lookup, *ssa.UnOp:
							if x.Index == 0 {
								mark(x)
							}
						default:
							mark(x)
						}
					}
				case *ssa.Slice:
					if t[x.X] {
						mark(x)
					}
				case *ssa.FieldAddr:
					if o.ThroughFields && t[x.X] {
						mark(x)
					}
				case *ssa.Field:
					if o.ThroughFields && t[x.X] {
						mark(x)
					}
				case *ssa.IndexAddr:
					if o.ThroughFields && t[x.X] {
						mark(x)
					}
				case *ssa.UnOp:
					if x.Op == token.MUL && t[x.X] {
						mark(x)
					}
				case *ssa.Store:
					if t[x.Val] {
						if _, ok := x.Addr.(*ssa.Alloc); ok {
							mark(x.Addr)
						} else if o.ThroughFields {
							b := base(x.Addr)
							switch b.(type) {
							case *ssa.Alloc, *ssa.MakeSlice, *ssa.Call, *ssa.Phi:
								mark(b)
								mark(x.Addr)
							}
						}
					}
				case *ssa.Call:
					if o.CallResult == nil {
						continue
					}
					var d []int
					if x.Call.IsInvoke() && t[x.Call.Value] {
						d = append(d, -1)
					}
					for i, a := range x.Call.Args {
						if t[a] {
							d = append(d, i)
						}
					}
					if len(d) > 0 && !t[x] && o.CallResult(x, d) {
						mark(x)
					}
				}
			}
		}
	}
	return t
}

// HasMethod reports whether type t (or *t) has a method with the given name.
func HasMethod(t types.Type, name string) bool {
	ms := types.NewMethodSet(t)
	for i := 0; i < ms.Len(); i++ {
		if ms.At(i).Obj().Name() == name {
			return true
		}
	}
	if _, ok := t.(*types.Pointer); !ok {
		if _, isIface := t.Underlying().(*types.Interface); !isIface {
			return HasMethod(types.NewPointer(t), name)
		}
	}
	return false
}

// ClosureBindings maps each free variable of the closure to the value bound at the MakeClosure site.
func ClosureBindings(mc *ssa.MakeClosure) map[*ssa.FreeVar]ssa.Value {
	fn, ok := mc.Fn.(*ssa.Function)
	if !ok {
		return nil
	}
	m := map[*ssa.FreeVar]ssa.Value{}
	for i, fv := range fn.FreeVars {
		if i < len(mc.Bindings) {
			m[fv] = mc.Bindings[i]
		}
	}
	return m
}

// MakeClosures lists the MakeClosure instructions in fn.
func MakeClosures(fn *ssa.Function) []*ssa.MakeClosure {
	var out []*ssa.MakeClosure
	for _, b := range fn.Blocks {
		for _, in := range b.Instrs {
			if mc, ok := in.(*ssa.MakeClosure); ok {
				out = append(out, mc)
			}
		}
	}
	return out
}
