package rules

import (
	"golang.org/x/tools/go/ssa"

	. "htcheck/internal/core"
)

// resliceOrigin: v is (through phis and appends) a RE-SLICE of a list loaded from a struct field; returns that field address.
// `x.f` itself (no Slice in the chain) is not a re-slice: append(x.f, …) is the ordinary growth idiom.
func resliceOrigin(v ssa.Value) (*ssa.FieldAddr, bool) {
	var walk func(v ssa.Value, sliced bool, d int) (*ssa.FieldAddr, bool)
	seen := map[ssa.Value]bool{}
	walk = func(v ssa.Value, sliced bool, d int) (*ssa.FieldAddr, bool) {
		if d > 8 || seen[v] {
			return nil, false
		}
		seen[v] = true
		switch x := v.(type) {
		case *ssa.Slice:
			return walk(x.X, true, d+1)
		case *ssa.Phi:
			for _, e := range x.Edges {
				if fa, ok := walk(e, sliced, d+1); ok {
					return fa, true
				}
			}
		case *ssa.Call:
			if bi, ok := x.Call.Value.(*ssa.Builtin); ok && bi.Name() == "append" {
				return walk(x.Call.Args[0], sliced, d+1)
			}
		case *ssa.UnOp:
			fa, ok := x.X.(*ssa.FieldAddr)
			if !ok {
				return nil, false
			}
			if sliced {
				return fa, true
			}
			// a field of a local object: what was stored there (composite literal `val: in.val[:0]`, then append(out.val, …))
			if _, local := c15Root(fa.X).(*ssa.Alloc); local {
				for _, b := range x.Parent().Blocks {
					for _, in := range b.Instrs {
						st, ok := in.(*ssa.Store)
						if !ok {
							continue
						}
						fa2, ok := st.Addr.(*ssa.FieldAddr)
						if !ok || fa2.Field != fa.Field || c15Root(fa2.X) != c15Root(fa.X) {
							continue
						}
						if _, isApp := st.Val.(*ssa.Call); isApp {
							continue // the growth idiom's own store-back; the initial value is what matters
						}
						if r, ok := walk(st.Val, false, d+1); ok {
							return r, true
						}
					}
				}
			}
		}
		return nil, false
	}
	return walk(v, false, 0)
}

// storedInto: the field addresses an SSA value is (through phis) stored into within its function.
func storedInto(v ssa.Value) []*ssa.FieldAddr {
	var out []*ssa.FieldAddr
	seen := map[ssa.Value]bool{}
	var walk func(v ssa.Value, d int)
	walk = func(v ssa.Value, d int) {
		if d > 6 || seen[v] || v.Referrers() == nil {
			return
		}
		seen[v] = true
		for _, r := range *v.Referrers() {
			switch x := r.(type) {
			case *ssa.Store:
				if fa, ok := x.Addr.(*ssa.FieldAddr); ok && x.Val == v {
					out = append(out, fa)
				}
			case *ssa.Phi:
				walk(x, d+1)
			case *ssa.Call:
				if bi, ok := x.Call.Value.(*ssa.Builtin); ok && bi.Name() == "append" && x.Call.Args[0] == v {
					walk(x, d+1)
				}
			}
		}
	}
	walk(v, 0)
	return out
}

// writesThroughSlice: does fn (or an in-repo function it hands the slice to) write into the backing array of root, a
// []byte value of fn? Followed through re-slicing and phis; a write is a store to an element, an append onto a value
// that shares the array (`b[:0]` filtering in place), or a copy into it. Returns a description of the first write found.
func writesThroughSlice(p *Program, fn *ssa.Function, root ssa.Value, skip ssa.Instruction, depth int) string {
	derived := map[ssa.Value]bool{root: true}
	for changed := true; changed; {
		changed = false
		for _, b := range fn.Blocks {
			for _, in := range b.Instrs {
				switch x := in.(type) {
				case *ssa.Slice:
					if derived[x.X] && !derived[x] {
						derived[x] = true
						changed = true
					}
				case *ssa.Phi:
					for _, e := range x.Edges {
						if derived[e] && !derived[x] {
							derived[x] = true
							changed = true
						}
					}
				case *ssa.Call:
					// append(derived, …) yields a value that may still share the array
					if bi, ok := x.Call.Value.(*ssa.Builtin); ok && bi.Name() == "append" && len(x.Call.Args) > 0 && derived[x.Call.Args[0]] && !derived[x] {
						derived[x] = true
						changed = true
					}
				}
			}
		}
	}
	for _, b := range fn.Blocks {
		for _, in := range b.Instrs {
			if in == skip {
				continue
			}
			switch x := in.(type) {
			case *ssa.Store:
				if ia, ok := x.Addr.(*ssa.IndexAddr); ok && derived[ia.X] {
					return "an element of the buffer is written at " + p.InstrPos(x)
				}
			case ssa.CallInstruction:
				cc := x.Common()
				if bi, ok := cc.Value.(*ssa.Builtin); ok {
					switch bi.Name() {
					case "append":
						if len(cc.Args) > 0 && derived[cc.Args[0]] {
							return "append onto a slice that shares the buffer's array (in-place filter) at " + p.InstrPos(x)
						}
					case "copy":
						if len(cc.Args) > 0 && derived[cc.Args[0]] {
							return "copy into the buffer at " + p.InstrPos(x)
						}
					}
					continue
				}
				hf := cc.StaticCallee()
				if hf == nil || !InRepo(hf) || hf.Blocks == nil || depth >= 3 {
					continue
				}
				off := 0
				if cc.IsInvoke() {
					off = 1
				}
				for i, a := range cc.Args {
					if derived[a] && i+off < len(hf.Params) {
						if w := writesThroughSlice(p, hf, hf.Params[i+off], nil, depth+1); w != "" {
							return "handed to " + shortFn(hf) + " at " + p.InstrPos(x) + ", where " + w
						}
					}
				}
			}
		}
	}
	return ""
}
