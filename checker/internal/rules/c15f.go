package rules

import (
	"fmt"
	"strings"

	"golang.org/x/tools/go/ssa"

	. "htcheck/internal/core"
)

// c15HalfClose: the end of the client->backend direction only means that the client is done sending. The copier of that
// direction may close the WRITE side of the backend leg (CloseWrite), never Close() either leg: a full close cuts off
// the reply that the backend produces after it saw the client's EOF (`echo x | ssh host cmd`, a half-closing TCP client).
func c15HalfClose(c *Ctx, px *c15Proxier) {
	p := c.P
	n := 0
	for _, fn := range px.reach {
		for _, call := range Calls(fn) {
			if !CalleeIs(call, "io", "Copy") {
				continue
			}
			if _, isGo := call.(*ssa.Go); isGo {
				continue // nothing follows the copy in that goroutine
			}
			dst, src := call.Common().Args[0], call.Common().Args[1]
			// instantiations of (dst leg, src leg): directly, or per call site when they are the function's parameters
			type inst struct {
				d, s int
				at   string
			}
			var insts []inst
			dp, dIsP := c15Root(dst).(*ssa.Parameter)
			sp, sIsP := c15Root(src).(*ssa.Parameter)
			if dIsP && sIsP && dp.Parent() == fn && sp.Parent() == fn && fn != px.sv.Handle {
				for _, g := range px.reach {
					for _, site := range Calls(g) {
						sc := site.Common()
						if sc.IsInvoke() || c15FuncOf(sc.Value) != fn {
							continue
						}
						di, si := paramIdx(dp), paramIdx(sp)
						if di < len(sc.Args) && si < len(sc.Args) {
							insts = append(insts, inst{px.leg(sc.Args[di], 0), px.leg(sc.Args[si], 0), " (called at " + p.InstrPos(site) + ")"})
						}
					}
				}
			} else {
				insts = append(insts, inst{px.writerLeg(dst), px.leg(src, 0), ""})
			}
			for _, in := range insts {
				if in.d != legBackend || in.s != legClient {
					continue
				}
				n++
				key := fmt.Sprintf("%s: after the client→backend copy in %s #%d", px.name, shortFn(fn), n)
				reach := InstrReachFrom(fn, call, nil, nil)
				bad := ""
				for _, c2 := range Calls(fn) {
					if _, isDefer := c2.(*ssa.Defer); isDefer || !reach(c2) || c2 == call {
						continue
					}
					cc := c2.Common()
					if !cc.IsInvoke() || cc.Method.Name() != "Close" {
						continue
					}
					r := c15Root(cc.Value)
					if r != c15Root(dst) && r != c15Root(src) && px.leg(cc.Value, 0) == legUnknown {
						continue
					}
					// the fallback arm of `if cw, ok := dst.(interface{ CloseWrite() error }); ok {…} else { dst.Close() }`
					fallback := false
					for _, dc := range DomConds(c2) {
						if ex, ok := dc.V.(*ssa.Extract); ok && ex.Index == 1 && !dc.Pol {
							if ta, ok := ex.Tuple.(*ssa.TypeAssert); ok && c15Root(ta.X) == r && HasMethod(ta.AssertedType, "CloseWrite") {
								fallback = true
							}
						}
					}
					if !fallback {
						bad = "Close() at " + p.InstrPos(c2)
					}
				}
				if bad == "" {
					c.Ok("no-full-close-after-forward-copy", key, p.InstrPos(call), "no full Close follows the copy (write side only, or left to the handler's exit)"+in.at)
				} else {
					c.Violate("no-full-close-after-forward-copy", key, p.InstrPos(call), "when the client stops sending, the copier fully closes a leg ("+bad+")"+in.at+": the backend's reply to what it just received can no longer be relayed; close the write side only")
				}
			}
		}
	}
}

// c15TeeWriters: the HTTP proxy relays through io.MultiWriter(backend, recorder). MultiWriter turns a short count of ANY of
// its writers into io.ErrShortWrite and the handler then drops both connections, so an in-repo writer placed beside the
// backend must honour io.Writer's contract: with a nil error it reports len(p) (or the count of an inner Write of p).
func c15TeeWriters(c *Ctx, px *c15Proxier) {
	p := c.P
	for _, fn := range px.reach {
		for _, call := range Calls(fn) {
			if !CalleeIs(call, "io", "MultiWriter") {
				continue
			}
			for _, a := range variadicArgs(call.Common().Args[0]) {
				mi, ok := a.(*ssa.MakeInterface)
				if !ok {
					continue
				}
				nt := NamedOf(mi.X.Type())
				if nt == nil || nt.Obj().Pkg() == nil || !strings.HasPrefix(nt.Obj().Pkg().Path(), ModPath) {
					continue
				}
				w := p.Method(RelPkg(nt.Obj().Pkg().Path()), nt.Obj().Name(), "Write")
				if w == nil || w.Blocks == nil || len(w.Params) != 2 {
					continue
				}
				key := fmt.Sprintf("%s: %s.Write beside the backend in io.MultiWriter", px.name, TypeKey(nt))
				bad := ""
				for _, r := range Returns(w) {
					rv := RetVals(r)
					if len(rv) != 2 {
						continue
					}
					// `return inner.Write(q)`: the count is the inner writer's for q, which must be all of p
					if e0, ok := rv[0].(*ssa.Extract); ok {
						if e1, ok := rv[1].(*ssa.Extract); ok && e0.Tuple == e1.Tuple {
							if ic, ok := e0.Tuple.(*ssa.Call); ok {
								whole := false
								for _, ia := range ic.Call.Args {
									if ia == ssa.Value(w.Params[1]) {
										whole = true
									}
								}
								if !whole {
									bad = "it forwards only part of p to the inner writer and returns that writer's count at " + p.InstrPos(r)
								}
								continue
							}
						}
					}
					if !IsNilConst(rv[1]) {
						continue
					}
					okN := false
					switch x := rv[0].(type) {
					case *ssa.Call:
						if bi, ok := x.Call.Value.(*ssa.Builtin); ok && bi.Name() == "len" && x.Call.Args[0] == ssa.Value(w.Params[1]) {
							okN = true
						}
					case *ssa.Extract:
						if ic, ok := x.Tuple.(*ssa.Call); ok && x.Index == 0 {
							for _, ia := range ic.Call.Args {
								if ia == ssa.Value(w.Params[1]) {
									okN = true
								}
							}
						}
					}
					if !okN {
						bad = "with a nil error it returns " + RenderN(rv[0], 3) + " at " + p.InstrPos(r)
					}
				}
				c.Check(bad == "", "tee-writer-contract", key, p.InstrPos(call), "reports len(p) on success", "the recorder written in parallel with the backend can report a short count without an error ("+bad+"): io.MultiWriter turns that into ErrShortWrite, the handler returns and the request/reply in flight is cut off for sizes beyond the recorder's limit")
			}
		}
	}
}

// c15NoOverread: io.ReadAtLeast(r, buf, min) may take more than min bytes off the stream – up to len(buf). Every
// byte it took belongs to the relayed stream, so each later slice of that buffer that leaves the function (returned,
// written, recorded) must be cut at the count ReadAtLeast returned; cutting it at a parsed message length instead
// silently drops whatever followed the message in the same segment (a pipelined second query).
func c15NoOverread(c *Ctx, px *c15Proxier) {

	p := c.P
	for _, fn := range px.reach {
		for _, call := range Calls(fn) {
			cv, ok := call.(*ssa.Call)
			if !ok || !CalleeIs(call, "io", "ReadAtLeast") {
				continue
			}
			buf := cv.Call.Args[1]
			if mn, isC := ConstInt(cv.Call.Args[2]); isC {
				// a buffer cut to exactly min cannot over-read
				if sl, ok := buf.(*ssa.Slice); ok && sl.High != nil {
					if hi, ok := ConstInt(sl.High); ok && sl.Low == nil && hi == mn {
						c.Ok("stream-read-not-overread", px.name+": ReadAtLeast in "+shortFn(fn), p.InstrPos(call), "buffer is exactly the minimum")
						continue
					}
				}
			}
			var m ssa.Value
			for _, r := range *cv.Referrers() {
				if ex, ok := r.(*ssa.Extract); ok && ex.Index == 0 {
					m = ex
				}
			}
			base := bufBase(buf)
			after := InstrReachFrom(fn, cv, nil, nil)
			bad := ""
			for _, b := range fn.Blocks {
				for _, in := range b.Instrs {
					sl, ok := in.(*ssa.Slice)
					if !ok || !after(sl) || bufBase(sl) != base || sl == buf {
						continue
					}
					// slices that only feed further reads into the same buffer are not output
					onlyReads := sl.Referrers() != nil && len(*sl.Referrers()) > 0
					for _, r := range *sl.Referrers() {
						rc, isCall := r.(ssa.CallInstruction)
						if !isCall {
							onlyReads = false
							continue
						}
						if _, _, isRead := completeRead(rc); !isRead {
							if _, _, isR := readCall(rc); !isR {
								onlyReads = false
							}
						}
					}
					if onlyReads {
						continue
					}
					if sl.Low != nil {
						if lo, ok := ConstInt(sl.Low); !ok || lo != 0 {
							continue // a tail slice, judged by its own later cuts
						}
					}
					if m == nil || sl.High == nil || sl.High != m {
						bad = p.InstrPos(sl) + " `" + RenderN(sl, 3) + "`"
					}
				}
			}
			c.Check(bad == "", "stream-read-not-overread", px.name+": ReadAtLeast in "+shortFn(fn), p.InstrPos(call), "what leaves the function is cut at the count ReadAtLeast returned", "io.ReadAtLeast may take more than the minimum off the stream (up to the whole buffer), but the bytes handed on are cut elsewhere ("+bad+"), not at the count it returned: whatever followed the message in the same segment – a pipelined second message – is dropped and never relayed")
		}
	}
}
