package rules

import (
	"fmt"

	"golang.org/x/tools/go/ssa"

	. "htcheck/internal/core"
)

// c15HalfClose: the end of the client->backend direction only means that the client is done sending. The copier of that
// direction may close the WRITE side of the backend leg (CloseWrite), never Close() either leg: a full close cuts off
// the reply that the backend produces after it saw the client's EOF (`echo x | ssh host cmd`, a half-closing TCP client).
func c15HalfClose(c *Ctx, px *c15Proxier) {
	p := c.P
	n := 0
	for _, fn := range px.reach {
		for _, call := range Calls(fn) {
			if !CalleeIs(call, "io", "Copy") {
				continue
			}
			if _, isGo := call.(*ssa.Go); isGo {
				continue // nothing follows the copy in that goroutine
			}
			dst, src := call.Common().Args[0], call.Common().Args[1]
			// instantiations of (dst leg, src leg): directly, or per call site when they are the function's parameters
			type inst struct {
				d, s int
				at   string
			}
			var insts []inst
			dp, dIsP := c15Root(dst).(*ssa.Parameter)
			sp, sIsP := c15Root(src).(*ssa.Parameter)
			if dIsP && sIsP && dp.Parent() == fn && sp.Parent() == fn && fn != px.sv.Handle {
				for _, g := range px.reach {
					for _, site := range Calls(g) {
						sc := site.Common()
						if sc.IsInvoke() || c15FuncOf(sc.Value) != fn {
							continue
						}
						di, si := paramIdx(dp), paramIdx(sp)
						if di < len(sc.Args) && si < len(sc.Args) {
							insts = append(insts, inst{px.leg(sc.Args[di], 0), px.leg(sc.Args[si], 0), " (called at " + p.InstrPos(site) + ")"})
						}
					}
				}
			} else {
				insts = append(insts, inst{px.writerLeg(dst), px.leg(src, 0), ""})
			}
			for _, in := range insts {
				if in.d != legBackend || in.s != legClient {
					continue
				}
				n++
				key := fmt.Sprintf("%s: after the client→backend copy in %s #%d", px.name, shortFn(fn), n)
				reach := InstrReachFrom(fn, call, nil, nil)
				bad := ""
				for _, c2 := range Calls(fn) {
					if _, isDefer := c2.(*ssa.Defer); isDefer || !reach(c2) || c2 == call {
						continue
					}
					cc := c2.Common()
					if !cc.IsInvoke() || cc.Method.Name() != "Close" {
						continue
					}
					r := c15Root(cc.Value)
					if r != c15Root(dst) && r != c15Root(src) && px.leg(cc.Value, 0) == legUnknown {
						continue
					}
					// the fallback arm of `if cw, ok := dst.(interface{ CloseWrite() error }); ok {…} else { dst.Close() }`
					fallback := false
					for _, dc := range DomConds(c2) {
						if ex, ok := dc.V.(*ssa.Extract); ok && ex.Index == 1 && !dc.Pol {
							if ta, ok := ex.Tuple.(*ssa.TypeAssert); ok && c15Root(ta.X) == r && HasMethod(ta.AssertedType, "CloseWrite") {
								fallback = true
							}
						}
					}
					if !fallback {
						bad = "Close() at " + p.InstrPos(c2)
					}
				}
				if bad == "" {
					c.Ok("no-full-close-after-forward-copy", key, p.InstrPos(call), "no full Close follows the copy (write side only, or left to the handler's exit)"+in.at)
				} else {
					c.Violate("no-full-close-after-forward-copy", key, p.InstrPos(call), "when the client stops sending, the copier fully closes a leg ("+bad+")"+in.at+": the backend's reply to what it just received can no longer be relayed; close the write side only")
				}
			}
		}
	}
}
