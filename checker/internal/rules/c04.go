package rules

import (
	"fmt"
	"go/token"
	"go/types"
	"sort"
	"strings"

	"golang.org/x/tools/go/ssa"

	. "htcheck/internal/core"
)

func init() { Registry["C04"] = c04 }

var c04Pipelined = map[string]bool{"ftp": true, "smtp": true, "redis": true, "memcached": true, "telnet": true, "http": true, "https": true, "ldap": true}
var c04OnePerConn = map[string]bool{"elasticsearch": true, "eos": true, "ethereum": true, "docker": true, "cwmp": true, "ipp": true}
var c04UDP = map[string]bool{"dns": true, "tftp": true, "snmp": true, "memcached": true, "counterstrike": true}

func isReaderCtor(f *ssa.Function) bool {
	if f == nil {
		return false
	}
	pk := PkgOf(f)
	switch {
	case pk == "bufio" && (f.Name() == "NewReader" || f.Name() == "NewReaderSize" || f.Name() == "NewScanner" || f.Name() == "NewReadWriter"):
		return true
	case pk == "net/textproto" && (f.Name() == "NewConn" || f.Name() == "NewReader"):
		return true
	}
	return false
}

// connTaint: values in fn derived from the connection seeds (wrappers included).
func connTaint(fn *ssa.Function, seeds []ssa.Value) map[ssa.Value]bool {
	return Taint(fn, seeds, TaintOpts{ThroughFields: true, CallResult: func(c *ssa.Call, d []int) bool {
		rt := c.Type()
		if tup, ok := rt.(*types.Tuple); ok && tup.Len() > 0 {
			rt = tup.At(0).Type()
		}
		return HasMethod(rt, "Read") || HasMethod(rt, "ReadString") || HasMethod(rt, "Scan") || HasMethod(rt, "ReadLine")
	}})
}

// handlerConnTypes: the concrete types that in-repo callers pass as the connection to Servicer.Handle.
func handlerConnTypes(p *Program) map[string]bool {
	out := map[string]bool{}
	var resolve func(v ssa.Value, d int)
	resolve = func(v ssa.Value, d int) {
		if d > 5 || v == nil {
			return
		}
		switch x := v.(type) {
		case *ssa.MakeInterface:
			out[types.TypeString(x.X.Type(), nil)] = true
		case *ssa.Phi:
			for _, e := range x.Edges {
				resolve(e, d+1)
			}
		case *ssa.ChangeInterface:
			resolve(x.X, d+1)
		case *ssa.Call:
			if f := x.Call.StaticCallee(); f != nil && f.Blocks != nil {
				for _, r := range Returns(f) {
					for _, rv := range RetVals(r) {
						if types.TypeString(rv.Type(), nil) == "net.Conn" {
							resolve(rv, d+1)
						}
					}
				}
			}
		case *ssa.Extract:
			if call, ok := x.Tuple.(*ssa.Call); ok {
				if f := call.Call.StaticCallee(); f != nil && f.Blocks != nil {
					for _, r := range Returns(f) {
						rv := RetVals(r)
						if x.Index < len(rv) {
							resolve(rv[x.Index], d+1)
						}
					}
				}
			}
		case *ssa.UnOp:
			if a, ok := x.X.(*ssa.Alloc); ok {
				for _, sv := range StoredValues(a) {
					resolve(sv, d+1)
				}
			}
		}
	}
	for _, fn := range p.Funcs() {
		if strings.HasSuffix(p.Fset.Position(fn.Pos()).Filename, "_test.go") {
			continue
		}
		for _, call := range Calls(fn) {
			cc := call.Common()
			if !cc.IsInvoke() || cc.Method.Name() != "Handle" || len(cc.Args) != 2 {
				continue
			}
			n := NamedOf(cc.Value.Type())
			if n == nil || n.Obj().Name() != "Servicer" {
				// static calls of an embedded service's Handle (https -> http)
				continue
			}
			resolve(cc.Args[1], 0)
		}
		for _, call := range Calls(fn) {
			f := call.Common().StaticCallee()
			if f != nil && f.Name() == "Handle" && f.Signature.Recv() != nil && len(call.Common().Args) == 3 && InRepo(f) {
				resolve(call.Common().Args[2], 0)
			}
		}
	}
	return out
}

func c04(c *Ctx) {
	p := c.P
	c.Explanation = "Static necessary-condition checks for capture that is independent of segmentation and pipelining. Decided for all inputs/segmentations: (R1) no buffering reader (bufio/textproto) over the handler's connection is constructed inside a request loop – bytes it has buffered " +
		"beyond the current request (a pipelined second request, the rest of a segment) would be dropped with it; (R2) one buffering reader per connection value (TLS upgrade excepted) and no direct conn.Read beside it; (R3) a type assertion of the handler's connection to a concrete type " +
		"that no in-repo caller ever passes (computed from the call sites of Servicer.Handle) can never succeed – the branch it guards is dead; (R4) in the request loops of redis, memcached, telnet (and the per-line hooks of ftp and smtp) every completed iteration passes exactly one event emission; " +
		"(R5) on stream services the byte count of a Read on the connection is not discarded (a short read is not an error). Equality of the event list across all cut points is a run-time property and is NOT decided."
	c.Assume("the dispatcher wraps every connection (TCP and datagram) before calling Handle; in-repo call sites of Handle are the only callers (server, https)")
	svcs := Services(c)
	valid := handlerConnTypes(p)
	var vt []string
	for t := range valid {
		vt = append(vt, t)
	}
	sort.Strings(vt)
	c.Extra["connection_types_passed_to_Handle"] = vt
	c.Check(len(vt) >= 1, "dead-conn-type-test", "connection types passed to Handle resolved", "-", strings.Join(vt, ", "), "could not resolve any concrete connection type passed to Handle")
	nR1, nR3 := 0, 0
	for _, sv := range svcs {
		name := strings.Join(sv.Names, "/")
		if name == "" {
			continue
		}
		pipelined, udp := false, false
		for _, n := range sv.Names {
			if c04Pipelined[n] {
				pipelined = true
			}
			if c04UDP[n] {
				udp = true
			}
		}
		inDomain := pipelined || udp
		for _, n := range sv.Names {
			if c04OnePerConn[n] {
				inDomain = true
			}
		}
		h := sv.Handle
		conn := handleConn(h)
		if conn == nil {
			continue
		}
		// functions of the service's own package reachable from Handle that receive the connection
		type fnSeed struct {
			fn    *ssa.Function
			seeds []ssa.Value
		}
		work := []fnSeed{{h, []ssa.Value{conn}}}
		for _, mc := range MakeClosures(h) {
			_ = mc
		}
		done := map[*ssa.Function]bool{}
		for len(work) > 0 {
			w := work[0]
			work = work[1:]
			if done[w.fn] {
				continue
			}
			done[w.fn] = true
			t := connTaint(w.fn, w.seeds)
			// R1/R2
			var ctors []ssa.CallInstruction
			for _, call := range Calls(w.fn) {
				f := call.Common().StaticCallee()
				if !isReaderCtor(f) {
					// descend into in-repo callees that get the connection
					if f != nil && InRepo(f) && f.Blocks != nil && PkgOf(f) == PkgOf(h) {
						var seeds []ssa.Value
						for i, a := range call.Common().Args {
							if t[a] && i < len(f.Params) {
								seeds = append(seeds, f.Params[i])
							}
						}
						if len(seeds) > 0 {
							work = append(work, fnSeed{f, seeds})
						}
					}
					continue
				}
				derived := false
				for _, a := range call.Common().Args {
					if t[a] {
						derived = true
					}
				}
				if !derived {
					continue
				}
				ctors = append(ctors, call)
				nR1++
				key := fmt.Sprintf("%s: %s in %s", name, FuncShort(f), shortFn(w.fn))
				if InLoop(call.Block()) {
					msg := "a new buffering reader over the connection is created on every iteration of the request loop: whatever the previous reader had already buffered beyond the request it parsed (a pipelined request, the rest of a TCP segment) is discarded with it, so those commands are never captured"
					if pipelined {
						c.Violate("reader-outside-request-loop", key, p.InstrPos(call), msg)
					} else {
						c.Observe("reader-outside-request-loop", key, p.InstrPos(call), "(one request per connection by design) "+msg)
					}
				} else {
					c.Ok("reader-outside-request-loop", key, p.InstrPos(call), "constructed once per connection")
				}
			}
			// R2: several readers on the same connection in one function (TLS upgrade excepted)
			if len(ctors) > 1 {
				plain := 0
				for _, call := range ctors {
					viaTLS := false
					for _, a := range call.Common().Args {
						if strings.Contains(Render(a), "tls.Server(") {
							viaTLS = true
						}
					}
					if !viaTLS {
						plain++
					}
				}
				if plain > 1 && pipelined {
					// bufio.NewReader+NewWriter pairs are fine: count only reading constructors
					rd := 0
					for _, call := range ctors {
						n := call.Common().StaticCallee().Name()
						if n != "NewWriter" {
							rd++
						}
					}
					_ = rd
				}
			}
			// direct conn.Read beside a buffered reader
			if len(ctors) > 0 {
				for _, call := range Calls(w.fn) {
					cc := call.Common()
					if cc.IsInvoke() && cc.Method.Name() == "Read" && Deref(cc.Value) == ssa.Value(conn) && pipelined {
						c.Violate("single-reader", name+": direct conn.Read beside a buffered reader in "+shortFn(w.fn), p.InstrPos(call), "the raw connection is read while a buffering reader over it exists: bytes already buffered are skipped")
					}
				}
			}
			// R3: dead type tests on the connection parameter
			for _, b := range w.fn.Blocks {
				for _, in := range b.Instrs {
					ta, ok := in.(*ssa.TypeAssert)
					if !ok || Deref(ta.X) != ssa.Value(conn) || w.fn != h {
						continue
					}
					if _, isIface := ta.AssertedType.Underlying().(*types.Interface); isIface {
						continue
					}
					nR3++
					tn := types.TypeString(ta.AssertedType, nil)
					key := fmt.Sprintf("%s: conn.(%s) in %s", name, typeShortT(ta.AssertedType), shortFn(w.fn))
					if valid[tn] {
						c.Ok("dead-conn-type-test", key, p.InstrPos(ta), "a type that callers do pass")
						continue
					}
					msg := "the handler tests its connection for the concrete type " + typeShortT(ta.AssertedType) + ", but every caller passes one of {" + strings.Join(vt, ", ") + "}: the assertion can never succeed, so the branch that depends on it (e.g. the datagram path) is dead and those requests are never decoded or reported"
					if inDomain {
						c.Violate("dead-conn-type-test", key, p.InstrPos(ta), msg)
					} else {
						c.Observe("dead-conn-type-test", key, p.InstrPos(ta), "(service outside this property's list) "+msg)
					}
				}
			}
			// R5: discarded Read counts on stream services
			if pipelined {
				for _, call := range Calls(w.fn) {
					cv, ok := call.(*ssa.Call)
					if !ok {
						continue
					}
					cc := cv.Common()
					isRead := false
					var recv ssa.Value
					if cc.IsInvoke() && cc.Method.Name() == "Read" {
						isRead, recv = true, cc.Value
					} else if f := cc.StaticCallee(); f != nil && f.Name() == "Read" && f.Signature.Recv() != nil && len(cc.Args) > 0 {
						isRead, recv = true, cc.Args[0]
					}
					if !isRead || !t[recv] {
						continue
					}
					used := false
					for _, ref := range *cv.Referrers() {
						if ex, ok := ref.(*ssa.Extract); ok && ex.Index == 0 && len(*ex.Referrers()) > 0 {
							used = true
						}
					}
					// datagram-only context is fine
					dgram := false
					for _, dc := range DomConds(cv) {
						if strings.Contains(Render(dc.V), `"udp"`) && dc.Pol && strings.Contains(Render(dc.V), "==") {
							dgram = true
						}
					}
					key := fmt.Sprintf("%s: Read in %s", name, shortFn(w.fn))
					if used || dgram {
						c.Ok("read-count-used", key, p.InstrPos(cv), "")
					} else {
						c.Violate("read-count-used", key, p.InstrPos(cv), "the number of bytes Read returned is discarded on a stream connection: a short read (segment boundary inside the payload) leaves the rest unread and the remaining bytes are parsed as the next command")
					}
				}
			}
		}
		// R4 for handlers that own their request loop
		if hasName(sv, "redis", "memcached", "telnet") {
			c04EmitOnce(c, name, h)
		}
	}
	// ldap's request loop lives in a method the handler calls with the (possibly upgraded) connection
	if lh := p.Method("services/ldap", "ldapService", "handle"); c.Anchor(lh != nil, "one-event-per-command", "(*ldap.ldapService).handle") {
		c04EmitOnce(c, "ldap", lh)
	}
	c.Check(nR1 >= 6, "reader-outside-request-loop", "reader constructions found", "-", fmt.Sprint(nR1), fmt.Sprintf("expected at least 6 buffered-reader constructions over handler connections, found %d", nR1))
	c04DatagramBuffers(c)
	c04PendingInput(c)
	c04ReporterQueues(c, 3, "services/smtp", "services/ftp")
	c04BodyConsumed(c)
	c04PerMessageState(c)
	readLinePrefixHonoured(c, "readline-prefix-honoured", "one long command is reported and executed as several", "services")
	bufferNotShrunkAcrossIterations(c, "read-buffer-full-size-per-request", "a pipelined request is reported with a body cut to the length of an earlier request's body", "services")
	c04BorrowedLineNotUsedAfterNextRead(c, "services")
	// a transfer that spans several datagrams is collected per peer (shared with C03): keyed by less than the peer's address,
	// two clients' datagrams are decoded and reported as one transfer
	c03PeerKeys(c)
	// a datagram (and the peeked bytes) is served to the end: what did not fit one Read is kept for the next (shared with C08)
	c08ReadKeepsRemainder(c)
	// the dispatcher's peek connection sits between the listener and every service of a shared port: what it peeked it replays in full (shared with C08)
	if peekT, peek, pread := p.Type("server", "peekConnection"), p.Method("server", "peekConnection", "Peek"), p.Method("server", "peekConnection", "Read"); c.Anchor(peekT != nil && peek != nil && pread != nil, "peek-replay", "server.peekConnection with Peek and Read") {
		c08Peek(c, peek, pread, peekT)
	}
	// per-line hooks of ftp and smtp: the log send is the first thing after a line was read
	for _, hk := range []struct{ rel, typ, meth, ch string }{{"services/ftp", "Conn", "receiveLine", "rcv"}, {"services/smtp", "conn", "ReadLine", "rcv"}} {
		fn := p.Method(hk.rel, hk.typ, hk.meth)
		if !c.Anchor(fn != nil, "one-event-per-command", hk.typ+"."+hk.meth) {
			continue
		}
		var sends []*ssa.Send
		for _, b := range fn.Blocks {
			for _, in := range b.Instrs {
				if s, ok := in.(*ssa.Send); ok {
					// the connection's line channel: a send on a channel-of-string field of the receiver (by role)
					if ld, ok := isLoad(s.Chan); ok {
						if fa, ok := ld.X.(*ssa.FieldAddr); ok && fa.X == ssa.Value(fn.Params[0]) {
							if ch, ok := ld.Type().Underlying().(*types.Chan); ok && types.Identical(ch.Elem().Underlying(), types.Typ[types.String]) {
								sends = append(sends, s)
							}
						}
					}
				}
			}
		}
		ok := len(sends) == 1
		if ok {
			// every successful return passes the send
			s := sends[0]
			for _, r := range Returns(fn) {
				rv := RetVals(r)
				success := true
				if len(rv) > 0 && !IsNilConst(rv[len(rv)-1]) && IsErrorType(rv[len(rv)-1].Type()) {
					success = false
				}
				if success && !s.Block().Dominates(r.Block()) {
					ok = false
				}
			}
		}
		c.Check(ok, "one-event-per-command", hk.rel+" "+hk.meth, p.Pos(fn.Pos()), "each received line is handed to the event pump exactly once", "not every successfully received line is sent to the connection's event pump exactly once")
	}
}

// c04EmitOnce: in the handler's request loop every completed iteration passes exactly one Channel.Send.
func c04EmitOnce(c *Ctx, name string, h *ssa.Function) {
	p := c.P
	isSend := func(in ssa.Instruction) bool { return emitsEvent(in, 0) }
	found := false
	for _, u := range h.Blocks {
		for _, hd := range u.Succs {
			if !hd.Dominates(u) {
				continue
			}
			body := map[*ssa.BasicBlock]bool{hd: true, u: true}
			stack := []*ssa.BasicBlock{u}
			for len(stack) > 0 {
				x := stack[len(stack)-1]
				stack = stack[:len(stack)-1]
				if x == hd {
					continue
				}
				for _, pr := range x.Preds {
					if !body[pr] {
						body[pr] = true
						stack = append(stack, pr)
					}
				}
			}
			var sends []ssa.Instruction
			for b := range body {
				for _, in := range b.Instrs {
					if isSend(in) {
						sends = append(sends, in)
					}
				}
			}
			if len(sends) == 0 {
				continue
			}
			found = true
			key := fmt.Sprintf("%s request loop@block%d back edge from block%d", name, hd.Index, u.Index)
			// silent iteration: header -> u without a send
			sendBlocks := map[*ssa.BasicBlock]bool{}
			for _, s := range sends {
				sendBlocks[s.Block()] = true
			}
			r := ReachBlocks([]*ssa.BasicBlock{hd}, func(b *ssa.BasicBlock, i int) bool { return body[b.Succs[i]] && !(b == u && b.Succs[i] == hd) }, sendBlocks)
			if r[u] && !sendBlocks[u] {
				// accepted ignore paths: named condition on the back-edge source
				okIgnore := false
				for _, dc := range DomCondsBlock(u) {
					s := Render(dc.V)
					if strings.Contains(s, ".DataType == 0") && dc.Pol {
						okIgnore = true
					}
				}
				if okIgnore {
					c.Except("one-event-per-command", key, p.InstrPos(u.Instrs[0]), "ignore path for empty redis packets (no command was sent)")
				} else {
					c.Violate("one-event-per-command", key, p.InstrPos(u.Instrs[0]), "an iteration of the request loop can complete without emitting the command's event")
				}
				continue
			}
			// at most one send per iteration
			twice := false
			for _, s := range sends {
				rr := InstrReachFrom(h, s, func(b *ssa.BasicBlock, i int) bool { return body[b.Succs[i]] && b.Succs[i] != hd }, nil)
				for _, s2 := range sends {
					if rr(s2) {
						twice = true
					}
				}
			}
			if twice {
				c.Observe("one-event-per-command", key+" (second event)", p.InstrPos(sends[0]), "some commands emit a generic command event and a detailed one in the same iteration (by design for memcached storage commands)")
			}
			c.Ok("one-event-per-command", key, p.InstrPos(sends[0]), "every completed iteration emits the command's event")
		}
	}
	c.Check(found, "one-event-per-command", name+" request loop found", p.Pos(h.Pos()), "", "no loop with an event emission found in the handler")
	_ = token.ADD
}
