package rules

import (
	"fmt"
	"go/token"
	"go/types"
	"sort"
	"strings"

	"golang.org/x/tools/go/ssa"

	. "htcheck/internal/core"
)

func init() { Registry["C03"] = c03 }

var c03Stateful = []string{"ldap", "ftp", "smtp", "telnet", "redis", "memcached", "http", "tftp"}

// cutType: shared values of these types are intended cross-connection plumbing (event pipeline, directors, loggers,
// synchronisation, the per-source rate limiter of C10) and are not tracked further.
func cutType(t types.Type) bool {
	n := NamedOf(t)
	if n == nil || n.Obj().Pkg() == nil {
		return false
	}
	pk, nm := n.Obj().Pkg().Path(), n.Obj().Name()
	switch {
	case pk == ModPath+"/pushers" && nm == "Channel":
		return true
	case pk == ModPath+"/director":
		return true
	case strings.HasSuffix(pk, "go-logging"):
		return true
	case pk == "sync" || pk == "sync/atomic":
		return true
	case pk == ModPath+"/services" && nm == "Limiter":
		return true
	case pk == "crypto/tls" && nm == "Config", pk == "crypto/tls" && nm == "Certificate":
		return true // read-only key material
	}
	return false
}

func isRefType(t types.Type) bool {
	switch t.Underlying().(type) {
	case *types.Pointer, *types.Map, *types.Chan, *types.Slice, *types.Interface, *types.Signature:
		return true
	}
	return false
}

type sharedState struct {
	p        *Program
	fns      map[*ssa.Function]bool
	shared   map[ssa.Value]bool
	fields   map[string]bool        // "<Type>#<idx>" holds a shared reference
	carries  map[ssa.Value]bool     // struct values copied out of shared memory (their reference fields still point into it)
	objs     map[ssa.Value]*objFact // private objects (by pointer value) into which such a struct value was copied
	why      map[ssa.Value]string
	changed  bool
	closures map[*ssa.Function][]*ssa.MakeClosure
	// fieldObjs: "<Type>#<idx>" of a private object's pointer field -> facts about the private object stored there
	// (conn.server = &copyOfSharedServer: the copy's reference fields still point into shared memory)
	fieldObjs map[string]*objFact
}

// objFact: what is known about a private object that received a by-value copy of shared state.
type objFact struct {
	holds  map[string]ssa.Instruction // field path -> the store that copied the struct there ("" = the whole object)
	killed map[string]bool            // field paths re-initialised with private values before the object was handed on (parameters only)
	param  bool
}

// pathOf splits an address into its root pointer and the field path from it.
func pathOf(addr ssa.Value) (ssa.Value, string) {
	var parts []string
	for {
		fa, ok := addr.(*ssa.FieldAddr)
		if !ok {
			break
		}
		parts = append([]string{fieldNameOf(fa)}, parts...)
		addr = fa.X
	}
	return addr, strings.Join(parts, ".")
}

func pathPrefix(p, q string) bool { return p == "" || p == q || strings.HasPrefix(q, p+".") }

func before(a, b ssa.Instruction) bool {
	if a.Block() == b.Block() {
		return instrIdx(a) < instrIdx(b)
	}
	return a.Block().Dominates(b.Block())
}

// sharedVia: is the reference loaded at `at` from root.path still a reference into shared memory?
func (s *sharedState) sharedVia(root ssa.Value, path string, at ssa.Instruction) bool {
	f := s.objs[root]
	if f == nil {
		return false
	}
	var copyStore ssa.Instruction
	found := false
	for hp, st := range f.holds {
		if pathPrefix(hp, path) {
			found, copyStore = true, st
		}
	}
	if !found {
		return false
	}
	for kp := range f.killed {
		if pathPrefix(kp, path) {
			return false
		}
	}
	// re-initialised in this function after the copy and before the use
	for _, kp := range s.killsBefore(root, copyStore, at) {
		if pathPrefix(kp, path) {
			return false
		}
	}
	return true
}

// killsBefore: field paths of root overwritten with private values after copyStore and before `at`.
func (s *sharedState) killsBefore(root ssa.Value, copyStore, at ssa.Instruction) []string {
	var out []string
	fn := at.Parent()
	for _, b := range fn.Blocks {
		for _, in := range b.Instrs {
			st, ok := in.(*ssa.Store)
			if !ok || s.shared[st.Val] || s.carries[st.Val] {
				continue
			}
			r, pth := pathOf(st.Addr)
			if r != root || pth == "" {
				continue
			}
			if copyStore != nil && copyStore.Parent() == fn && !before(copyStore, st) {
				continue
			}
			if before(st, at) {
				out = append(out, pth)
			}
		}
	}
	return out
}

func fieldKey(fa *ssa.FieldAddr) string {
	n := NamedOf(fa.X.Type())
	if n == nil {
		return ""
	}
	return n.String() + "#" + fmt.Sprint(fa.Field)
}

func (s *sharedState) mark(v ssa.Value, why string) {
	if v == nil || s.shared[v] {
		return
	}
	if cutType(v.Type()) {
		return
	}
	s.shared[v] = true
	s.why[v] = why
	s.changed = true
}

// passObj hands the facts about object a (argument of call) to the callee's parameter.
func (s *sharedState) passObj(of *objFact, a ssa.Value, call ssa.Instruction, param ssa.Value) {
	killed := map[string]bool{}
	for k := range of.killed {
		killed[k] = true
	}
	for _, st := range of.holds {
		for _, k := range s.killsBefore(a, st, call) {
			killed[k] = true
		}
	}
	pf := s.objs[param]
	if pf == nil {
		pf = &objFact{holds: map[string]ssa.Instruction{}, killed: killed, param: true}
		s.objs[param] = pf
		s.changed = true
	} else {
		// several call sites: a path stays re-initialised only if every caller re-initialised it
		for k := range pf.killed {
			if !killed[k] {
				delete(pf.killed, k)
				s.changed = true
			}
		}
	}
	for hp := range of.holds {
		if _, ok := pf.holds[hp]; !ok {
			pf.holds[hp] = nil
			s.changed = true
		}
	}
}

// passField: like passObj, for a pointer to the object stored into field k of a private object.
func (s *sharedState) passField(of *objFact, a ssa.Value, store ssa.Instruction, k string) {
	killed := map[string]bool{}
	for kk := range of.killed {
		killed[kk] = true
	}
	for _, st := range of.holds {
		for _, kk := range s.killsBefore(a, st, store) {
			killed[kk] = true
		}
	}
	if s.fieldObjs == nil {
		s.fieldObjs = map[string]*objFact{}
	}
	pf := s.fieldObjs[k]
	if pf == nil {
		pf = &objFact{holds: map[string]ssa.Instruction{}, killed: killed, param: true}
		s.fieldObjs[k] = pf
		s.changed = true
	} else {
		for kk := range pf.killed {
			if !killed[kk] {
				delete(pf.killed, kk)
				s.changed = true
			}
		}
	}
	for hp := range of.holds {
		if _, ok := pf.holds[hp]; !ok {
			pf.holds[hp] = nil
			s.changed = true
		}
	}
}

// sharedReceiverFor: the interface value v is shared; can the shared part of it be a value of callee f's receiver type?
// v may merge a shared value of one concrete type (a package-level default) with a private value of another.
func (s *sharedState) sharedReceiverFor(v ssa.Value, f *ssa.Function, depth int) bool {
	if depth > 6 || f.Signature.Recv() == nil {
		return true
	}
	switch x := v.(type) {
	case *ssa.Phi:
		for _, e := range x.Edges {
			if s.shared[e] && s.sharedReceiverFor(e, f, depth+1) {
				return true
			}
		}
		return false
	case *ssa.MakeInterface:
		return types.Identical(x.X.Type(), f.Signature.Recv().Type())
	case *ssa.ChangeInterface:
		return s.sharedReceiverFor(x.X, f, depth+1)
	}
	return true
}

func (s *sharedState) run() {
	for s.changed {
		s.changed = false
		for fn := range s.fns {
			for _, b := range fn.Blocks {
				for _, in := range b.Instrs {
					switch x := in.(type) {
					case *ssa.FieldAddr:
						if s.shared[x.X] {
							s.mark(x, "field of "+s.why[x.X])
						}
					case *ssa.IndexAddr:
						if s.shared[x.X] {
							s.mark(x, "element of "+s.why[x.X])
						}
					case *ssa.UnOp:
						if x.Op != token.MUL {
							continue
						}
						// load
						if s.shared[x.X] && isRefType(x.Type()) {
							s.mark(x, "loaded from "+s.why[x.X])
						}
						if _, isStruct := x.Type().Underlying().(*types.Struct); isStruct && !s.carries[x] && !cutType(x.Type()) {
							r, pth := pathOf(x.X)
							if s.shared[x.X] || s.sharedVia(r, pth, x) {
								s.carries[x] = true // a by-value copy: its slices, maps and pointers still refer to the shared original's memory
								s.changed = true
							}
						}
						if isRefType(x.Type()) && !s.shared[x] {
							if r, pth := pathOf(x.X); s.sharedVia(r, pth, x) {
								s.mark(x, "reference inside a by-value copy of shared state (."+pth+")")
							}
						}
						if fa, ok := x.X.(*ssa.FieldAddr); ok && isRefType(x.Type()) && !s.shared[x] {
							if of := s.fieldObjs[fieldKey(fa)]; of != nil && s.objs[x] != of {
								s.objs[x] = of
								s.changed = true
							}
						}
						if fa, ok := x.X.(*ssa.FieldAddr); ok && isRefType(x.Type()) && s.fields[fieldKey(fa)] {
							s.mark(x, "field "+fieldKey(fa)+" holds a shared reference")
						}
						if g, ok := x.X.(*ssa.Global); ok && isRefType(x.Type()) && strings.HasPrefix(g.Pkg.Pkg.Path(), ModPath+"/services") {
							s.mark(x, "package variable "+g.Name())
						}
					case *ssa.Phi:
						for _, e := range x.Edges {
							if s.shared[e] {
								s.mark(x, s.why[e])
							}
						}
					case *ssa.ChangeType:
						if s.shared[x.X] {
							s.mark(x, s.why[x.X])
						}
					case *ssa.ChangeInterface:
						if s.shared[x.X] {
							s.mark(x, s.why[x.X])
						}
					case *ssa.MakeInterface:
						if s.shared[x.X] {
							s.mark(x, s.why[x.X])
						}
					case *ssa.TypeAssert:
						if s.shared[x.X] {
							s.mark(x, s.why[x.X])
						}
					case *ssa.Extract:
						if s.shared[x.Tuple] {
							if _, isTA := x.Tuple.(*ssa.TypeAssert); isTA && x.Index == 0 {
								s.mark(x, s.why[x.Tuple])
							}
						}
					case *ssa.Slice:
						if s.shared[x.X] {
							s.mark(x, s.why[x.X])
						}
					case *ssa.Store:
						if s.carries[x.Val] {
							r, pth := pathOf(x.Addr)
							if !s.shared[r] {
								f := s.objs[r]
								if f == nil {
									f = &objFact{holds: map[string]ssa.Instruction{}, killed: map[string]bool{}}
									s.objs[r] = f
								}
								if _, ok := f.holds[pth]; !ok {
									f.holds[pth] = x
									s.changed = true
								}
							}
						}
						// a pointer to a private object that holds a by-value copy of shared state is kept in a field of another
						// private object: whoever loads that field later has the same object in hand
						if of := s.objs[x.Val]; of != nil && !s.shared[x.Val] {
							if fa, ok := x.Addr.(*ssa.FieldAddr); ok && !s.shared[fa.X] {
								if k := fieldKey(fa); k != "" {
									s.passField(of, x.Val, x, k)
								}
							}
						}
						if s.shared[x.Val] && isRefType(x.Val.Type()) {
							if fa, ok := x.Addr.(*ssa.FieldAddr); ok {
								if k := fieldKey(fa); k != "" && !s.fields[k] {
									s.fields[k] = true
									s.changed = true
								}
							} else if a, ok := x.Addr.(*ssa.Alloc); ok {
								s.mark(a, s.why[x.Val])
							}
						}
					case *ssa.MakeClosure:
						fn2, _ := x.Fn.(*ssa.Function)
						if fn2 == nil {
							continue
						}
						for i, bnd := range x.Bindings {
							if s.shared[bnd] && i < len(fn2.FreeVars) {
								s.mark(fn2.FreeVars[i], s.why[bnd])
							}
						}
					case ssa.CallInstruction:
						cc := x.Common()
						var callees []*ssa.Function
						if f := cc.StaticCallee(); f != nil {
							callees = []*ssa.Function{f}
						} else if cc.IsInvoke() {
							// the call graph's (VTA) targets for this very site; class-hierarchy dispatch only when it knows none
							callees = Callees(s.p.VTA(), x)
							if len(callees) == 0 {
								callees = calleesOf(s.p, x)
							}
						} else if mc, ok := cc.Value.(*ssa.MakeClosure); ok {
							if f, ok := mc.Fn.(*ssa.Function); ok {
								callees = []*ssa.Function{f}
							}
						}
						for _, f := range callees {
							if !s.fns[f] {
								continue
							}
							args := cc.Args
							off := 0
							if cc.IsInvoke() {
								off = 1
								if s.shared[cc.Value] && len(f.Params) > 0 && s.sharedReceiverFor(cc.Value, f, 0) {
									s.mark(f.Params[0], s.why[cc.Value])
								}
							}
							for i, a := range args {
								if s.shared[a] && i+off < len(f.Params) {
									s.mark(f.Params[i+off], s.why[a])
								}
								if of := s.objs[a]; of != nil && i+off < len(f.Params) && !cc.IsInvoke() {
									s.passObj(of, a, x, f.Params[i+off])
								}
							}
							// shared results
							if v, ok := x.(ssa.Value); ok && isRefType(v.Type()) {
								for _, r := range Returns(f) {
									rv := RetVals(r)
									if len(rv) == 1 && s.shared[rv[0]] {
										s.mark(v, s.why[rv[0]])
									}
								}
							}
						}
					}
				}
			}
		}
	}
}

func c03(c *Ctx) {
	p := c.P
	c.Explanation = "Static isolation check for all interleavings and histories: one Servicer value serves every connection, so per-connection state must not live in memory reachable from it. A forward may-alias analysis marks as shared the receiver of Handle, " +
		"package-level variables of the service packages and everything loaded from them (inter-procedural over the VTA reach of each Handle, through fields (field-based), closures, parameters, results, interface dispatch; cut at the event pipeline, directors, loggers, " +
		"sync primitives, TLS key material and the per-source limiter). In handler-reachable code of the eight stateful services it is a violation to (1) store through a shared address into a struct field or global, (2) send/receive/range/select on a shared channel, " +
		"(3) call a mutating method on a shared stateful library object (bufio, bytes.Buffer, textproto, net.Conn); keyed maps are allowed (locking is C01's). Event addresses: every event.SourceAddr/DestinationAddr argument in the service packages is RemoteAddr()/LocalAddr() " +
		"(not swapped) of a connection value that is not shared. Cross-talk through the OS or through libraries is not decided."
	c.Assume("the server builds one Servicer per configured service and calls Handle concurrently (server/honeytrap.go)")
	svcs := Services(c)
	g := p.VTA()
	stateful := map[string]bool{}
	for _, n := range c03Stateful {
		stateful[n] = false
	}
	nsinks := 0
	for _, sv := range svcs {
		listed := false
		for _, n := range sv.Names {
			if _, ok := stateful[n]; ok {
				stateful[n] = true
				listed = true
			}
		}
		reach, _ := handleReach(g, sv.Handle)
		fns := map[*ssa.Function]bool{}
		servicer := p.Iface("services", "Servicer")
		for fn := range reach {
			rp := RelPkg(PkgOf(fn))
			if !(strings.HasPrefix(rp, "services") && !strings.HasPrefix(rp, "services/ja3") || rp == "listener") {
				continue
			}
			// the call graph conflates function values of library callbacks (e.g. tls.Config.GetCertificate): methods and
			// closures of *another* service type are not this handler's code
			root := fn
			for root.Parent() != nil {
				root = root.Parent()
			}
			if root.Signature.Recv() != nil && servicer != nil {
				if n := NamedOf(root.Signature.Recv().Type()); n != nil && n != sv.Type && Implements(n, servicer) {
					// embedded services (https embeds http) stay
					embedded := false
					if st, ok := sv.Type.Underlying().(*types.Struct); ok {
						for i := 0; i < st.NumFields(); i++ {
							if st.Field(i).Embedded() && NamedOf(st.Field(i).Type()) == n {
								embedded = true
							}
						}
					}
					if !embedded {
						continue
					}
				}
			}
			fns[fn] = true
		}
		st := &sharedState{p: p, fns: fns, shared: map[ssa.Value]bool{}, fields: map[string]bool{}, why: map[ssa.Value]string{}, carries: map[ssa.Value]bool{}, objs: map[ssa.Value]*objFact{}}
		st.changed = true
		st.shared[sv.Handle.Params[0]] = true
		st.why[sv.Handle.Params[0]] = "the service object " + TypeKey(sv.Type)
		// closures that exist before any connection (created outside handler-reachable code, e.g. request handlers
		// built by the constructor) captured their variables when the service was built: those are shared
		for fn := range fns {
			if fn.Parent() == nil || len(fn.FreeVars) == 0 {
				continue
			}
			createdInside := false
			for _, mc := range MakeClosures(fn.Parent()) {
				if mc.Fn == fn && fns[fn.Parent()] {
					createdInside = true
				}
			}
			if !createdInside {
				for _, fv := range fn.FreeVars {
					if !cutType(fv.Type()) {
						st.shared[fv] = true
						st.why[fv] = "variable " + fv.Name() + " captured by a closure built when the service was constructed"
					}
				}
			}
		}
		st.run()
		name := strings.Join(sv.Names, "/")
		if name == "" {
			name = TypeKey(sv.Type)
		}
		report := func(rule, key string, in ssa.Instruction, detail string) {
			nsinks++
			if listed {
				c.Violate(rule, name+": "+key, p.InstrPos(in), detail)
			} else {
				c.Observe(rule, name+": "+key, p.InstrPos(in), "(service outside the property's list) "+detail)
			}
		}
		var ordered []*ssa.Function
		for fn := range fns {
			ordered = append(ordered, fn)
		}
		sort.Slice(ordered, func(i, j int) bool { return ordered[i].String() < ordered[j].String() })
		clean := true
		for _, fn := range ordered {
			for _, b := range fn.Blocks {
				for _, in := range b.Instrs {
					switch x := in.(type) {
					case *ssa.Store:
						var target string
						switch a := x.Addr.(type) {
						case *ssa.FieldAddr:
							if !st.shared[a.X] && !st.shared[a] {
								continue
							}
							if !st.shared[a.X] {
								continue
							}
							n := NamedOf(a.X.Type())
							tn := "?"
							if n != nil {
								tn = TypeKey(n)
							}
							if n != nil && cutType(n) {
								continue
							}
							target = tn + "." + fieldNameOf(a)
						case *ssa.Global:
							if !strings.HasPrefix(a.Pkg.Pkg.Path(), ModPath+"/services") {
								continue
							}
							target = "var " + a.Name()
						case *ssa.IndexAddr:
							if !st.shared[a.X] {
								continue
							}
							target = "an element of " + RenderN(a.X, 3)
						default:
							continue
						}
						clean = false
						report("no-shared-state-write", "store to "+target+" in "+shortFn(fn), x, "handler-reachable code writes "+target+", which lives in memory shared by all connections of the service ("+st.why[baseOf(x.Addr)]+"): another connection open at the same time (or the next one) reads or overwrites this connection's state")
					case *ssa.Send:
						if st.shared[x.Chan] {
							clean = false
							report("no-shared-channel", "send on "+RenderN(x.Chan, 3)+" in "+shortFn(fn), x, "a value is sent on a channel shared by all connections ("+st.why[x.Chan]+"): whichever connection's goroutine receives first gets it")
						}
					case *ssa.UnOp:
						if x.Op == token.ARROW && st.shared[x.X] {
							clean = false
							report("no-shared-channel", "receive from "+RenderN(x.X, 3)+" in "+shortFn(fn), x, "a goroutine of this connection receives from a channel shared by all connections ("+st.why[x.X]+"): it takes messages that belong to other connections and records them under its own address")
						}
					case *ssa.Range:
						if _, isChan := x.X.Type().Underlying().(*types.Chan); isChan && st.shared[x.X] {
							clean = false
							report("no-shared-channel", "range over "+RenderN(x.X, 3)+" in "+shortFn(fn), x, "a goroutine of this connection ranges over a channel shared by all connections ("+st.why[x.X]+")")
						}
					case *ssa.Select:
						for _, stt := range x.States {
							if st.shared[stt.Chan] {
								clean = false
								report("no-shared-channel", "select on "+RenderN(stt.Chan, 3)+" in "+shortFn(fn), x, "a goroutine of this connection selects on a channel shared by all connections ("+st.why[stt.Chan]+")")
							}
						}
					case *ssa.Call:
						cc := x.Common()
						if bi, ok := cc.Value.(*ssa.Builtin); ok && bi.Name() == "append" && len(cc.Args) == 2 && st.shared[cc.Args[0]] {
							clean = false
							report("no-shared-state-write", "append to "+RenderN(cc.Args[0], 3)+" in "+shortFn(fn), x, "handler-reachable code appends to a slice whose backing array is shared by all connections ("+st.why[cc.Args[0]]+"): while spare capacity remains the elements are written in place, so connections overwrite each other's entries")
							continue
						}
						f := cc.StaticCallee()
						if f == nil || InRepo(f) || f.Signature.Recv() == nil || len(cc.Args) == 0 || !st.shared[cc.Args[0]] {
							continue
						}
						rt := RecvTypeName(f)
						pk := PkgOf(f)
						statefulLib := (pk == "bufio") || (pk == "bytes" && rt == "Buffer") || (pk == "strings" && rt == "Builder") || pk == "net/textproto"
						if statefulLib {
							clean = false
							report("no-shared-stateful-object", FuncShort(f)+" on shared object in "+shortFn(fn), x, "a stateful library object reachable from the shared service ("+st.why[cc.Args[0]]+") is used by per-connection code")
						}
					}
				}
			}
		}
		if clean && listed {
			c.Ok("no-shared-state-write", name+": handler reach", p.Pos(sv.Handle.Pos()), fmt.Sprintf("%d functions analysed, no write/channel use through shared memory", len(fns)))
		}
	}
	for n, ok := range stateful {
		c.Check(ok, "service-present", n, "-", "", "stateful service named by the property is not registered")
	}
	c03EventAddrs(c)
	c03PeerKeys(c)
	c04DatagramBuffers(c)
	pooledObjectsReset(c, "pooled-object-reset", "services", "listener", "server")
	c03LimiterState(c)
	c03MemoKeyExact(c)
	servicesPayloadIsWhatWasRead(c, "payload-bounded-by-read-count", "when fewer bytes arrived than that bound the payload's tail is what the buffer held before – with a recycled buffer, bytes of another client's request", "services")
	// a lock of the shared service object that one client's input leaves held (a panic inside a critical section whose Unlock
	// is not deferred – the dispatcher recovers) decides what every later client gets (shared with C09/C01)
	c09LockRelease(c)
	c03SharedLockNotHeldAcrossClientIO(c)
	// the goroutine that serves a connection works on that connection: no goroutine started in a loop of the listeners or
	// the server reads a variable the loop assigns again (shared with C08)
	c08ListenerOwnVariables(c)
	releasedMemoryNotRetained(c, "released-memory-not-retained", "what one connection receives or reports then depends on another connection that is open at the same time", "services", "listener", "server")
}

func baseOf(addr ssa.Value) ssa.Value {
	for {
		switch a := addr.(type) {
		case *ssa.FieldAddr:
			return a.X
		case *ssa.IndexAddr:
			addr = a.X
		default:
			return addr
		}
	}
}

// c03EventAddrs: role pairing and origin of event addresses.
func c03EventAddrs(c *Ctx) {
	p := c.P
	nsrc, ndst := 0, 0
	for _, fn := range p.FuncsIn("services") {
		if strings.HasPrefix(RelPkg(PkgOf(fn)), "services/ja3") {
			continue
		}
		for _, call := range Calls(fn) {
			f := call.Common().StaticCallee()
			if f == nil || PkgOf(f) != eventPath {
				continue
			}
			var want string
			switch f.Name() {
			case "SourceAddr":
				want = "RemoteAddr"
				nsrc++
			case "DestinationAddr":
				want = "LocalAddr"
				ndst++
			default:
				continue
			}
			arg := call.Common().Args[0]
			ac, ok := arg.(*ssa.Call)
			key := shortFn(fn) + " " + f.Name()
			if !ok || !ac.Call.IsInvoke() {
				c.Violate("event-address-role", key, p.InstrPos(call), "the event address is not taken from a connection's "+want+"(): "+RenderN(arg, 3))
				continue
			}
			m := ac.Call.Method.Name()
			if m != want {
				c.Violate("event-address-role", key, p.InstrPos(call), "event."+f.Name()+" is fed "+m+"(): source and destination of the event are swapped")
				continue
			}
			// the connection: a parameter / captured variable of net.Conn or ssh.ConnMetadata type – not a field of a shared object
			recv := Deref(ac.Call.Value)
			origin := "?"
			switch r := recv.(type) {
			case *ssa.Parameter:
				origin = "parameter"
			case *ssa.FreeVar:
				origin = "captured"
			case *ssa.UnOp:
				if _, ok := r.X.(*ssa.FreeVar); ok {
					origin = "captured"
				} else if fa, ok := r.X.(*ssa.FieldAddr); ok {
					origin = "field " + fieldNameOf(fa)
				}
			case *ssa.Call, *ssa.Extract, *ssa.Phi, *ssa.MakeInterface, *ssa.TypeAssert:
				origin = "local"
			}
			if strings.HasPrefix(origin, "field") {
				// a field of a per-connection object is fine; of the service object it is not: service types implement Servicer
				ld := recv.(*ssa.UnOp)
				fa := ld.X.(*ssa.FieldAddr)
				if n := NamedOf(fa.X.Type()); n != nil {
					if iface := p.Iface("services", "Servicer"); iface != nil && Implements(n, iface) {
						c.Violate("event-address-role", key, p.InstrPos(call), "the event's address comes from a connection stored in the shared service object ("+TypeKey(n)+"."+fieldNameOf(fa)+"): with two connections open it names the wrong client")
						continue
					}
				}
			}
			c.Ok("event-address-role", key, p.InstrPos(call), want+"() of a "+origin+" connection")
		}
	}
	c.Check(nsrc >= 60 && ndst >= 60, "event-address-role", "call sites found", "-", fmt.Sprintf("%d SourceAddr / %d DestinationAddr", nsrc, ndst), fmt.Sprintf("expected at least 60 SourceAddr and 60 DestinationAddr call sites under services/, found %d/%d", nsrc, ndst))
}
