package rules

import (
	"go/token"

	. "htcheck/internal/core"

	"golang.org/x/tools/go/ssa"
)

// c14NewStateInFrontOfTimeWait (rule new-state-before-time-wait): StateTable.Get returns the lowest-index entry that
// matches the four-tuple and does not look at the connection state. A reconnect from the same port pair therefore
// reaches its new state only if that state sits at a lower index than a TIME-WAIT leftover of the old connection. Add
// guarantees it by taking the FIRST slot that is free or in TIME-WAIT: the store for a TIME-WAIT slot is made in the
// scan iteration that finds it. Remembering the slot and using it only when no free one was found puts the new state
// behind the stale one – every segment after the SYN finds the old state and is never acknowledged.
func c14NewStateInFrontOfTimeWait(c *Ctx) {
	const rule = "new-state-before-time-wait"
	c.Explanation += " StateTable.Add takes a TIME-WAIT slot in the scan iteration that finds it (Get returns the first match whatever its state)."
	p := c.P
	add := p.Method(canaryRel, "StateTable", "Add")
	get := p.Method(canaryRel, "StateTable", "Get")
	if !c.Anchor(add != nil && get != nil && len(add.Params) >= 2, rule, "(*StateTable).Add and Get") {
		return
	}
	isStateLoad := func(v ssa.Value) bool {
		ld, ok := v.(*ssa.UnOp)
		if !ok || ld.Op != token.MUL {
			return false
		}
		fa, ok := ld.X.(*ssa.FieldAddr)
		return ok && fieldNameOf(fa) == "State"
	}
	for _, b := range get.Blocks {
		for _, in := range b.Instrs {
			if v, ok := in.(ssa.Value); ok && isStateLoad(v) {
				c.Observe(rule, "Get looks at the connection state", p.InstrPos(in), "the lookup distinguishes states itself: the order of slots is not what decides")
				return
			}
		}
	}
	newState := add.Params[1]
	loops := Loops(add)
	n := 0
	for _, b := range add.Blocks {
		if len(b.Instrs) == 0 {
			continue
		}
		iff, ok := b.Instrs[len(b.Instrs)-1].(*ssa.If)
		if !ok {
			continue
		}
		atom, pol0 := condAtom(iff.Cond)
		// `if st.slotFree(i)`: the test sits in a predicate of the package; which edge means "TIME-WAIT" is not derived, it
		// is enough that one edge of the branch stores the new state in this iteration
		if hc, isCall := atom.(*ssa.Call); isCall {
			if hf := hc.Call.StaticCallee(); hf != nil && InRepo(hf) && hf.Blocks != nil && testsTimeWait(p, hf, isStateLoad) {
				n++
				var loop *Loop
				for _, l := range loops {
					if l.Blocks[b] && (loop == nil || len(l.Blocks) < len(loop.Blocks)) {
						loop = l
					}
				}
				found := false
				if loop != nil {
					for _, succ := range b.Succs {
						for rb := range ReachBlocks([]*ssa.BasicBlock{succ}, nil, map[*ssa.BasicBlock]bool{loop.Header: true}) {
							for _, in := range rb.Instrs {
								if st, ok := in.(*ssa.Store); ok && st.Val == ssa.Value(newState) {
									if _, isIA := st.Addr.(*ssa.IndexAddr); isIA {
										found = true
									}
								}
							}
						}
					}
				}
				c.Check(found, rule, "Add: slot in TIME-WAIT (via "+shortFn(hf)+")", p.InstrPos(iff), "taken in the iteration that finds it", "a slot in TIME-WAIT is not taken in the scan iteration that finds it: when a free slot exists the new state goes behind the TIME-WAIT leftover of the same port pair, and Get – which returns the first match whatever its state – hands every later segment of the new connection to the old state")
			}
			continue
		}
		bo, ok := atom.(*ssa.BinOp)
		if !ok || (bo.Op != token.EQL && bo.Op != token.NEQ) {
			continue
		}
		var k ssa.Value
		switch {
		case isStateLoad(bo.X):
			k = bo.Y
		case isStateLoad(bo.Y):
			k = bo.X
		default:
			continue
		}
		if !isTimeWaitConst(p, k) {
			continue
		}
		n++
		eqIdx := 0
		if (bo.Op == token.EQL) != pol0 {
			eqIdx = 1
		}
		var loop *Loop
		for _, l := range loops {
			if l.Blocks[b] && (loop == nil || len(l.Blocks) < len(loop.Blocks)) {
				loop = l
			}
		}
		found := false
		if loop != nil {
			blocked := map[*ssa.BasicBlock]bool{loop.Header: true}
			for rb := range ReachBlocks([]*ssa.BasicBlock{b.Succs[eqIdx]}, nil, blocked) {
				for _, in := range rb.Instrs {
					if st, ok := in.(*ssa.Store); ok && st.Val == ssa.Value(newState) {
						if _, isIA := st.Addr.(*ssa.IndexAddr); isIA {
							found = true
						}
					}
				}
			}
		}
		c.Check(found, rule, "Add: slot in TIME-WAIT", p.InstrPos(iff), "taken in the iteration that finds it", "a slot in TIME-WAIT is not taken in the scan iteration that finds it: when a free slot exists the new state goes behind the TIME-WAIT leftover of the same port pair, and Get – which returns the first match whatever its state – hands every later segment of the new connection to the old state: the data is not acknowledged, the FIN is not answered, nothing is reported")
	}
	c.Floor(rule, 1, "the TIME-WAIT test of StateTable.Add")
}

// isTimeWaitConst: k equals the package constant SocketTimeWait.
func isTimeWaitConst(p *Program, k ssa.Value) bool {
	kc, ok := k.(*ssa.Const)
	if !ok || kc.Value == nil {
		return false
	}
	pkg := p.Pkg(canaryRel)
	if pkg == nil {
		return false
	}
	if m, ok := pkg.Members["SocketTimeWait"].(*ssa.NamedConst); ok && m.Value != nil && m.Value.Value != nil {
		return m.Value.Value.ExactString() == kc.Value.ExactString()
	}
	return false
}

// testsTimeWait: h compares a connection state with SocketTimeWait.
func testsTimeWait(p *Program, h *ssa.Function, isStateLoad func(ssa.Value) bool) bool {
	for _, b := range h.Blocks {
		for _, in := range b.Instrs {
			bo, ok := in.(*ssa.BinOp)
			if !ok || (bo.Op != token.EQL && bo.Op != token.NEQ) {
				continue
			}
			if (isStateLoad(bo.X) && isTimeWaitConst(p, bo.Y)) || (isStateLoad(bo.Y) && isTimeWaitConst(p, bo.X)) {
				return true
			}
		}
	}
	return false
}
