package rules

import (
	"strings"

	. "htcheck/internal/core"

	"golang.org/x/tools/go/ssa"
)

// c20FrameTrimmed: a probe only knocks when its transport header parses, and the UDP parser accepts a datagram only
// when the bytes it is handed are exactly as long as its length field says. Frames off the wire are padded (60-byte
// Ethernet minimum), so the IPv4 parser must cut its payload at the datagram's total-length field – handing on
// everything after the header lets the padding through and every short UDP probe is dropped before it can knock.
func c20FrameTrimmed(c *Ctx) {
	c.Explanation += " The IPv4 payload handed to the transport parsers is cut at the total-length field."
	p := c.P
	const rule = "payload-cut-at-ip-length"
	um := p.Method(canaryRel+"/ipv4", "Header", "Unmarshal")
	if !c.Anchor(um != nil, rule, "ipv4.(*Header).Unmarshal") {
		return
	}
	// the total-length field: the Header field assigned from bytes 2..4 of the datagram
	totalFields := map[string]bool{}
	for _, b := range um.Blocks {
		for _, in := range b.Instrs {
			if st, ok := in.(*ssa.Store); ok {
				if fa, ok := st.Addr.(*ssa.FieldAddr); ok && strings.Contains(Render(st.Val), "[2:4]") {
					totalFields[fieldNameOf(fa)] = true
				}
			}
		}
	}
	if !c.Anchor(len(totalFields) > 0, rule, "the header field read from bytes 2..4 (total length)") {
		return
	}
	isTotal := func(v ssa.Value) bool {
		for i := 0; i < 4; i++ {
			switch x := v.(type) {
			case *ssa.Convert:
				v = x.X
				continue
			case *ssa.UnOp:
				if fa, ok := x.X.(*ssa.FieldAddr); ok && totalFields[fieldNameOf(fa)] {
					return true
				}
			}
			break
		}
		return strings.Contains(Render(v), "[2:4]")
	}
	n := 0
	for _, b := range um.Blocks {
		for _, in := range b.Instrs {
			st, ok := in.(*ssa.Store)
			if !ok || !isByteSlice(st.Val.Type()) {
				continue
			}
			fa, ok := st.Addr.(*ssa.FieldAddr)
			if !ok || fieldNameOf(fa) != "Payload" {
				continue
			}
			n++
			cut := false
			v := st.Val
			for i := 0; i < 6; i++ {
				sl, ok := v.(*ssa.Slice)
				if !ok {
					break
				}
				if sl.High != nil && isTotal(sl.High) {
					cut = true
				}
				v = sl.X
				if ld, ok := v.(*ssa.UnOp); ok { // b = b[:total] kept in a local cell
					if a, ok := ld.X.(*ssa.Alloc); ok {
						for _, sv := range StoredValues(a) {
							if s2, ok := sv.(*ssa.Slice); ok && s2.High != nil && isTotal(s2.High) {
								cut = true
							}
						}
					}
				}
			}
			c.Check(cut, rule, "ipv4 Header.Payload", p.InstrPos(st), "ends at the datagram's total length", "the payload handed to the transport parsers (`"+RenderN(st.Val, 3)+"`) is not cut at the IPv4 total-length field: link-layer padding stays attached, udp.Unmarshal's exact-length test then rejects every UDP probe shorter than the padding threshold and those ports never appear in the port-scan event")
		}
	}
	c.Floor(rule, 1, "the Payload store of ipv4.(*Header).Unmarshal")
	// premise: the UDP parser insists on the exact length (if it stops doing so the rule above is merely conservative)
	if uu := p.Func(canaryRel+"/udp", "Unmarshal"); uu != nil {
		exact := false
		for _, b := range uu.Blocks {
			for _, in := range b.Instrs {
				if bo, ok := in.(*ssa.BinOp); ok && strings.Contains(Render(bo), "len(p0)") && strings.Contains(Render(bo), "Length") {
					exact = true
				}
			}
		}
		if exact {
			c.Ok(rule, "udp.Unmarshal compares len(data) with its length field (premise)", p.Pos(uu.Pos()), "exact-length test present")
		} else {
			c.Observe(rule, "udp.Unmarshal compares len(data) with its length field (premise)", p.Pos(uu.Pos()), "no exact-length test found any more: padding would be tolerated by the UDP parser")
		}
	}
}
