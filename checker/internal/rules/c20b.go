package rules

import (
	"fmt"
	"go/token"
	"go/types"
	"strings"

	. "htcheck/internal/core"

	"golang.org/x/tools/go/ssa"
)

// c20FrameTrimmed: a probe only knocks when its transport header parses, and the UDP parser accepts a datagram only
// when the bytes it is handed are exactly as long as its length field says. Frames off the wire are padded (60-byte
// Ethernet minimum), so the IPv4 parser must cut its payload at the datagram's total-length field – handing on
// everything after the header lets the padding through and every short UDP probe is dropped before it can knock.
func c20FrameTrimmed(c *Ctx) {
	c.Explanation += " The IPv4 payload handed to the transport parsers is cut at the total-length field."
	p := c.P
	const rule = "payload-cut-at-ip-length"
	um := p.Method(canaryRel+"/ipv4", "Header", "Unmarshal")
	if !c.Anchor(um != nil, rule, "ipv4.(*Header).Unmarshal") {
		return
	}
	// the total-length field: the Header field assigned from bytes 2..4 of the datagram
	totalFields := map[string]bool{}
	for _, b := range um.Blocks {
		for _, in := range b.Instrs {
			if st, ok := in.(*ssa.Store); ok {
				if fa, ok := st.Addr.(*ssa.FieldAddr); ok && strings.Contains(Render(st.Val), "[2:4]") {
					totalFields[fieldNameOf(fa)] = true
				}
			}
		}
	}
	if !c.Anchor(len(totalFields) > 0, rule, "the header field read from bytes 2..4 (total length)") {
		return
	}
	isTotal := func(v ssa.Value) bool {
		for i := 0; i < 4; i++ {
			switch x := v.(type) {
			case *ssa.Convert:
				v = x.X
				continue
			case *ssa.UnOp:
				if fa, ok := x.X.(*ssa.FieldAddr); ok && totalFields[fieldNameOf(fa)] {
					return true
				}
			}
			break
		}
		return strings.Contains(Render(v), "[2:4]")
	}
	n := 0
	for _, b := range um.Blocks {
		for _, in := range b.Instrs {
			st, ok := in.(*ssa.Store)
			if !ok || !isByteSlice(st.Val.Type()) {
				continue
			}
			fa, ok := st.Addr.(*ssa.FieldAddr)
			if !ok || fieldNameOf(fa) != "Payload" {
				continue
			}
			n++
			cut := false
			v := st.Val
			for i := 0; i < 6; i++ {
				sl, ok := v.(*ssa.Slice)
				if !ok {
					break
				}
				if sl.High != nil && isTotal(sl.High) {
					cut = true
				}
				v = sl.X
				if ld, ok := v.(*ssa.UnOp); ok { // b = b[:total] kept in a local cell
					if a, ok := ld.X.(*ssa.Alloc); ok {
						for _, sv := range StoredValues(a) {
							if s2, ok := sv.(*ssa.Slice); ok && s2.High != nil && isTotal(s2.High) {
								cut = true
							}
						}
					}
				}
			}
			c.Check(cut, rule, "ipv4 Header.Payload", p.InstrPos(st), "ends at the datagram's total length", "the payload handed to the transport parsers (`"+RenderN(st.Val, 3)+"`) is not cut at the IPv4 total-length field: link-layer padding stays attached, udp.Unmarshal's exact-length test then rejects every UDP probe shorter than the padding threshold and those ports never appear in the port-scan event")
		}
	}
	c.Floor(rule, 1, "the Payload store of ipv4.(*Header).Unmarshal")
	// premise: the UDP parser insists on the exact length (if it stops doing so the rule above is merely conservative)
	if uu := p.Func(canaryRel+"/udp", "Unmarshal"); uu != nil {
		exact := false
		for _, b := range uu.Blocks {
			for _, in := range b.Instrs {
				if bo, ok := in.(*ssa.BinOp); ok && strings.Contains(Render(bo), "len(p0)") && strings.Contains(Render(bo), "Length") {
					exact = true
				}
			}
		}
		if exact {
			c.Ok(rule, "udp.Unmarshal compares len(data) with its length field (premise)", p.Pos(uu.Pos()), "exact-length test present")
		} else {
			c.Observe(rule, "udp.Unmarshal compares len(data) with its length field (premise)", p.Pos(uu.Pos()), "no exact-length test found any more: padding would be tolerated by the UDP parser")
		}
	}
}

// c20ReportWhenQuiet: a group is reported (and removed) once, after its burst has ended. Two shapes guarantee that:
// (a) the reporting arm of the detector's select waits on a time.After(…) made anew in every iteration, so it only fires
// after that long without ANY knock – every group is quiet then; or (b) every path to the report passes the group's own
// inactivity test (Last + d is not after now). A periodic ticker combined with a path that skips the inactivity test
// (the "more than 100 probes" shortcut) reports a burst while it is still going on and reports its remainder again later.
func c20ReportWhenQuiet(c *Ctx) {
	p := c.P
	const rule = "report-only-when-quiet"
	kd := p.Method(canaryRel, "Canary", "knockDetector")
	if kd == nil {
		return // anchored by the detector rule
	}
	fns := append([]*ssa.Function{kd}, Anon(kd)...)
	// (a) an idle timer: a select arm receiving from time.After(...) called in the loop
	idle := false
	var where ssa.Instruction
	for _, fn := range fns {
		for _, b := range fn.Blocks {
			for _, in := range b.Instrs {
				sel, ok := in.(*ssa.Select)
				if !ok {
					continue
				}
				for _, st := range sel.States {
					if st.Send != nil {
						continue
					}
					if call, ok := st.Chan.(*ssa.Call); ok && CalleeIs(call, "time", "After") && InLoop(call.Block()) && sameLoop(call.Block(), sel.Block()) {
						idle = true
						where = sel
					}
					// the same with an explicit timer made anew in every iteration: t := time.NewTimer(d) … case <-t.C
					if tm := timerOfC(st.Chan); tm != nil {
						if ti, ok := tm.(ssa.Instruction); ok && InLoop(ti.Block()) && sameLoop(ti.Block(), sel.Block()) {
							idle = true
							where = sel
						}
					}
				}
			}
		}
	}
	if idle {
		c.Ok(rule, "knockDetector report arm", p.InstrPos(where), "fires only after a full interval without any knock (time.After re-armed by every iteration)")
		return
	}
	// (b) every report is behind the group's inactivity test
	n := 0
	for _, fn := range fns {
		for _, b := range fn.Blocks {
			for _, in := range b.Instrs {
				if !emitsEvent(in, 1) {
					continue
				}
				n++
				quiet := false
				for _, dc := range DomConds(in) {
					call, pol := condCall(dc)
					if call != nil && !pol && MethodIs(call.Call.StaticCallee(), "time", "Time", "After") {
						quiet = true
					}
					if call != nil && pol && MethodIs(call.Call.StaticCallee(), "time", "Time", "Before") {
						quiet = true
					}
				}
				c.Check(quiet, rule, fmt.Sprintf("%s report #%d", shortFn(fn), n), p.InstrPos(in), "behind the group's inactivity test", "the detector reports on a periodic tick, and this report can be reached without the group's inactivity test (Last+interval not after now) having held: a burst that is still going on is reported and removed, and its remaining probes are reported again as a second scan")
			}
		}
	}
	c.Check(n > 0, rule, "knockDetector reports", p.Pos(kd.Pos()), "", "no report site found in the detector")
}

// c20FrameObjectsPerFrame: the handlers of the receive loop keep what they were given – handleUDP builds the knock record
// and the event in a goroutine of its own from the frame and IP header it was passed. Those objects therefore belong to
// one frame: every pointer the loop hands to a handle* method is produced inside the loop's iteration (a Parse call or an
// allocation in the loop body). Decoding every frame into one object that lives outside the loop lets the next frame
// overwrite the addresses a handler goroutine is still reading: a probe is then booked under the next frame's source.
func c20FrameObjectsPerFrame(c *Ctx) {
	p := c.P
	const rule = "frame-objects-per-frame"
	n := 0
	for _, fn := range p.FuncsIn(canaryRel) {
		if fn.Blocks == nil {
			continue
		}
		for _, call := range Calls(fn) {
			hf := call.Common().StaticCallee()
			if hf == nil || !strings.HasPrefix(hf.Name(), "handle") || hf.Signature.Recv() == nil || NamedOf(hf.Signature.Recv().Type()) == nil || NamedOf(hf.Signature.Recv().Type()).Obj().Name() != "Canary" {
				continue
			}
			// the per-frame dispatch may live in a method the loop calls once per frame: what that method produces itself is
			// per frame as well
			perCall := false
			if !InLoop(call.Block()) {
				for _, g := range p.FuncsIn(canaryRel) {
					for _, c2 := range Calls(g) {
						if c2.Common().StaticCallee() == fn && InLoop(c2.Block()) {
							perCall = true
						}
					}
				}
				if !perCall {
					continue
				}
			}
			inIter := func(b *ssa.BasicBlock) bool { return perCall || InLoop(b) }
			for ai, a := range call.Common().Args {
				if ai == 0 {
					continue
				}
				pt, isPtr := a.Type().Underlying().(*types.Pointer)
				if !isPtr {
					continue
				}
				if _, isStruct := pt.Elem().Underlying().(*types.Struct); !isStruct {
					continue
				}
				n++
				key := fmt.Sprintf("%s passes %s to %s", shortFn(fn), typeShortT(a.Type()), hf.Name())
				bad := ""
				for _, lf := range leaves(a) {
					switch x := lf.(type) {
					case *ssa.Alloc:
						if !inIter(x.Block()) || x.Parent() != fn {
							bad = "an object allocated outside the loop (" + p.InstrPos(x) + ")"
						}
					case *ssa.Call:
						if !inIter(x.Block()) {
							bad = "the result of a call outside the loop (" + p.InstrPos(x) + ")"
						}
					case *ssa.Parameter:
						bad = "a parameter of " + shortFn(fn) + " (its origin is not followed)"
					case *ssa.Extract:
						if in, isI := x.Tuple.(ssa.Instruction); isI && !inIter(in.Block()) {
							bad = "the result of a call outside the loop (" + p.InstrPos(in) + ")"
						}
					default:
						if fv, isFV := lf.(*ssa.FreeVar); isFV {
							bad = "the captured variable " + fv.Name() + " (declared outside the receive loop's goroutine)"
						} else if ld, isLd := lf.(*ssa.UnOp); isLd && ld.Op == token.MUL {
							if fv, isFV := ld.X.(*ssa.FreeVar); isFV {
								bad = "the captured variable " + fv.Name() + " (declared outside the receive loop's goroutine)"
							}
						}
					}
				}
				c.Check(bad == "", rule, key, p.InstrPos(call), "a value produced in this iteration of the loop", "the handler is handed "+bad+": it is the same object for every frame, and the handlers keep what they are given (handleUDP builds the knock record in a goroutine of its own), so the next frame overwrites the addresses of a probe that is still being recorded – its port is reported under another source")
			}
		}
	}
	c.Floor(rule, 4, "ethernet frame and IP header handed to handleTCP/handleUDP/handleICMP")
}

// c20StateAddOnlyFull: a SYN is counted as a probe after its state was entered into the table; handleTCP returns before
// the knock when StateTable.Add fails. Add may therefore refuse a new state only for want of a free slot – an error
// return of Add that depends on an existing entry (a look-up with Get, the state or age of what it found) turns a second
// probe with the same port pair, or a later burst from the same source ports, into a probe that is never reported.
func c20StateAddOnlyFull(c *Ctx) {
	p := c.P
	const rule = "state-add-refuses-only-when-full"
	add := p.Method(canaryRel, "StateTable", "Add")
	get := p.Method(canaryRel, "StateTable", "Get")
	if !c.Anchor(add != nil && add.Blocks != nil, rule, "(*canary.StateTable).Add") {
		return
	}
	var usesGet func(v ssa.Value, depth int, seen map[ssa.Value]bool) bool
	usesGet = func(v ssa.Value, depth int, seen map[ssa.Value]bool) bool {
		if v == nil || depth > 8 || seen[v] {
			return false
		}
		seen[v] = true
		if call, ok := v.(*ssa.Call); ok && get != nil && call.Call.StaticCallee() == get {
			return true
		}
		if in, ok := v.(ssa.Instruction); ok {
			for _, op := range in.Operands(nil) {
				if op != nil && *op != nil && usesGet(*op, depth+1, seen) {
					return true
				}
			}
		}
		return false
	}
	n := 0
	for i, r := range Returns(add) {
		rv := RetVals(r)
		if len(rv) != 1 || IsNilConst(rv[0]) {
			continue
		}
		n++
		bad := ""
		for _, dc := range DomConds(r) {
			if usesGet(dc.V, 0, map[ssa.Value]bool{}) {
				bad = RenderN(dc.V, 3)
			}
		}
		c.Check(bad == "", rule, fmt.Sprintf("StateTable.Add error return[%d]", i), p.InstrPos(r), "refused only after the scan found no free slot", "Add refuses the new state under a condition on an existing entry (`"+bad+"`): handleTCP returns on that error before the SYN is queued as a knock, so a probe whose port pair matches an entry that is still in the table – a second burst from the same source ports, or a port equal to the scanner's source port – is never reported")
	}
	c.Floor(rule, 1, "the table-full return of Add")
}
