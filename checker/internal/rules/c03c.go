package rules

import (
	"fmt"
	"go/token"
	"go/types"
	"sort"
	"strings"

	. "htcheck/internal/core"

	"golang.org/x/tools/go/ssa"
)

// lossyString: string functions that map different inputs to the same output.
var lossyString = map[string]bool{"ToLower": true, "ToUpper": true, "Title": true, "ToTitle": true, "TrimSpace": true, "Trim": true, "TrimLeft": true, "TrimRight": true,
	"TrimPrefix": true, "TrimSuffix": true, "TrimFunc": true, "Fields": true, "Split": true, "SplitN": true, "Map": true, "Replace": true, "ReplaceAll": true, "EqualFold": true}

// c03MemoKeyExact (rule shared-memo-key-exact): something computed from a client's input and kept in a map of the
// shared service object is handed to later connections that present the same key. The key must therefore determine
// the stored value: when the value is computed from a client-derived input x and the key is a many-to-one function of
// that same x (case folding, trimming, truncation), a later client whose input differs from the first one's but folds
// to the same key is answered with what was computed for the other client's input.
func c03MemoKeyExact(c *Ctx) {
	const rule = "shared-memo-key-exact"
	c.Explanation += " Entries kept in maps of the shared service object are not stored under a many-to-one function of an input their value is computed from."
	p := c.P
	svcT := map[*types.Named]bool{}
	for _, s := range Services(c) {
		svcT[s.Type] = true
	}
	onService := func(m ssa.Value) bool {
		r := c15Root(m)
		for i := 0; i < 4; i++ {
			if u, ok := r.(*ssa.UnOp); ok && u.Op == token.MUL {
				r = u.X
			}
			if fa, ok := r.(*ssa.FieldAddr); ok {
				if n := NamedOf(fa.X.Type()); n != nil && svcT[n] {
					return true
				}
				r = fa.X
				continue
			}
			break
		}
		return false
	}
	// inputs(v): the non-receiver parameters (and free variables) v is computed from, through calls' arguments
	inputs := func(fn *ssa.Function, v ssa.Value, stopAt ...ssa.Value) map[ssa.Value]bool {
		out := map[ssa.Value]bool{}
		seen := map[ssa.Value]bool{}
		// what is computed from the folded key itself is determined by the key
		for _, sa := range stopAt {
			seen[sa] = true
		}
		var rec func(v ssa.Value, d int)
		rec = func(v ssa.Value, d int) {
			if v == nil || seen[v] || d > 12 {
				return
			}
			seen[v] = true
			switch x := v.(type) {
			case *ssa.Parameter:
				if n := NamedOf(x.Type()); n != nil && svcT[n] {
					return
				}
				out[x] = true
			case *ssa.Phi:
				for _, e := range x.Edges {
					rec(e, d+1)
				}
			case *ssa.Call:
				for _, a := range x.Call.Args {
					rec(a, d+1)
				}
				if x.Call.IsInvoke() {
					rec(x.Call.Value, d+1)
				}
			case *ssa.Extract:
				rec(x.Tuple, d+1)
			case *ssa.BinOp:
				rec(x.X, d+1)
				rec(x.Y, d+1)
			case *ssa.UnOp:
				if a, ok := x.X.(*ssa.Alloc); ok && x.Op == token.MUL {
					for _, sv := range StoredValues(a) {
						rec(sv, d+1)
					}
					return
				}
				rec(x.X, d+1)
			case *ssa.Convert:
				rec(x.X, d+1)
			case *ssa.ChangeType:
				rec(x.X, d+1)
			case *ssa.MakeInterface:
				rec(x.X, d+1)
			case *ssa.Slice:
				rec(x.X, d+1)
			case *ssa.TypeAssert:
				rec(x.X, d+1)
			case *ssa.Lookup:
				rec(x.X, d+1)
				rec(x.Index, d+1)
			case *ssa.Index:
				rec(x.X, d+1)
			case *ssa.IndexAddr:
				rec(x.X, d+1)
			case *ssa.FieldAddr, *ssa.Field:
				// state of an object: not an input of this call
			}
		}
		rec(v, 0)
		return out
	}
	// lossyOf(key): (x, how) when key = lossy(x)
	var lossyOf func(k ssa.Value, d int) (ssa.Value, string)
	lossyOf = func(k ssa.Value, d int) (ssa.Value, string) {
		if d > 6 {
			return nil, ""
		}
		switch x := k.(type) {
		case *ssa.Call:
			if f := x.Call.StaticCallee(); f != nil && (PkgOf(f) == "strings" || PkgOf(f) == "bytes") && lossyString[f.Name()] && len(x.Call.Args) > 0 {
				return x.Call.Args[0], PkgOf(f) + "." + f.Name()
			}
		case *ssa.Slice:
			if x.Low != nil || x.High != nil {
				return x.X, "a sub-slice"
			}
		case *ssa.Convert:
			return lossyOf(x.X, d+1)
		case *ssa.ChangeType:
			return lossyOf(x.X, d+1)
		case *ssa.Phi:
			for _, e := range x.Edges {
				if v, h := lossyOf(e, d+1); v != nil {
					return v, h
				}
			}
		}
		return nil, ""
	}
	n := 0
	var fns []*ssa.Function
	for _, fn := range p.FuncsIn("services") {
		fns = append(fns, fn)
	}
	sort.Slice(fns, func(i, j int) bool { return fns[i].String() < fns[j].String() })
	for _, fn := range fns {
		for _, b := range fn.Blocks {
			for _, in := range b.Instrs {
				mu, ok := in.(*ssa.MapUpdate)
				if !ok || !onService(mu.Map) {
					continue
				}
				n++
				key := shortFn(fn) + " stores into " + RenderN(mu.Map, 2)
				x, how := lossyOf(mu.Key, 0)
				if x == nil {
					c.Ok(rule, key, p.InstrPos(mu), "the key is not a many-to-one function of an input")
					continue
				}
				// the value must not be computed from what the key folded
				xin := inputs(fn, x)
				xin[x] = true
				vin := inputs(fn, mu.Value, mu.Key, Unwrap(mu.Key))
				var shared []string
				for v := range vin {
					if xin[v] {
						shared = append(shared, v.Name())
					}
				}
				sort.Strings(shared)
				c.Check(len(shared) == 0, rule, key, p.InstrPos(mu), "the value does not depend on what the key folds",
					fmt.Sprintf("the entry is stored under %s of `%s`, but the stored value is computed from the unfolded input (%s): a later client whose input only folds to the same key is answered with what was computed for another client's input", how, RenderN(x, 2), strings.Join(shared, ", ")))
			}
		}
	}
	c.Ok(rule, "map stores on shared service objects", "-", fmt.Sprintf("%d examined", n))
}
