package rules

import (
	"fmt"
	"go/token"
	"go/types"
	"strings"

	"golang.org/x/tools/go/ssa"

	. "htcheck/internal/core"
)

// phiLeaves expands phis (bounded) into the list of (value, incoming edge) leaves.
type phiLeaf struct {
	v          ssa.Value
	pred, succ *ssa.BasicBlock // the edge on which v flows into the outermost phi chain (nil when v is not via a phi)
}

func phiLeaves(v ssa.Value) []phiLeaf {
	var out []phiLeaf
	seen := map[ssa.Value]bool{}
	var walk func(v ssa.Value, pred, succ *ssa.BasicBlock, d int)
	walk = func(v ssa.Value, pred, succ *ssa.BasicBlock, d int) {
		if ph, ok := v.(*ssa.Phi); ok && d < 6 && !seen[v] {
			seen[v] = true
			for i, e := range ph.Edges {
				walk(e, ph.Block().Preds[i], ph.Block(), d+1)
			}
			return
		}
		out = append(out, phiLeaf{v, pred, succ})
	}
	walk(v, nil, nil, 0)
	return out
}

// condsOnLeaf: the branch conditions known to hold when the leaf's value is selected.
func condsOnLeaf(l phiLeaf, at ssa.Instruction) []Cond {
	if l.pred == nil {
		return DomConds(at)
	}
	return append(DomCondsBlock(l.pred), EdgeConds(l.pred, l.succ)...)
}

// ---------- the forward director

func c15Forward(c *Ctx) {
	p := c.P
	dial := p.Method("director/forward", "forwardDirector", "Dial")
	if !c.Anchor(dial != nil, "forward-dial-target", "(*forward.forwardDirector).Dial") {
		return
	}
	d := dial.Params[0]
	conn := dial.Params[1]
	isHostLoad := func(v ssa.Value) bool {
		x, ok := isFieldLoadNamed(v, "Host")
		return ok && x == ssa.Value(d)
	}
	// split = net.SplitHostPort(d.Host)
	splitOf := func(v ssa.Value, idx int, conds []Cond) (bool, string) {
		ex, ok := v.(*ssa.Extract)
		if !ok || ex.Index != idx {
			return false, ""
		}
		call, ok := ex.Tuple.(*ssa.Call)
		if !ok || !CalleeIs(call, "net", "SplitHostPort") || !isHostLoad(call.Call.Args[0]) {
			return false, ""
		}
		// only when the split succeeded
		for _, dc := range conds {
			x, y, ok := eqCond(dc)
			if !ok {
				continue
			}
			if IsNilConst(y) {
				if e, ok := x.(*ssa.Extract); ok && e.Tuple == ex.Tuple && e.Index == 2 {
					return true, ""
				}
			}
		}
		return false, "the host/port split of the configured host is used without testing that the split succeeded"
	}
	portOfConn := func(v ssa.Value) (string, bool) {
		call, ok := v.(*ssa.Call)
		if !ok {
			return "", false
		}
		var portV ssa.Value
		switch {
		case CalleeIs(call, "fmt", "Sprintf"):
			if f, _ := ConstString(call.Call.Args[0]); f != "%d" {
				return "", false
			}
			va := variadicArgs(call.Call.Args[1])
			if len(va) != 1 {
				return "", false
			}
			portV = Unwrap(va[0])
		case CalleeIs(call, "strconv", "Itoa"):
			portV = call.Call.Args[0]
		case CalleeIs(call, "strconv", "FormatInt"), CalleeIs(call, "strconv", "FormatUint"):
			if base, isK := ConstInt(call.Call.Args[1]); !isK || base != 10 {
				return "", false
			}
			portV = call.Call.Args[0]
			if cv, isCv := portV.(*ssa.Convert); isCv {
				portV = cv.X
			}
		default:
			return "", false
		}
		x, ok := isFieldLoadNamed(portV, "Port")
		if !ok {
			return "", false
		}
		ex, ok := x.(*ssa.Extract)
		if !ok || ex.Index != 0 {
			return "", false
		}
		ta, ok := ex.Tuple.(*ssa.TypeAssert)
		if !ok {
			return "", false
		}
		la, ok := ta.X.(*ssa.Call)
		if !ok || !la.Call.IsInvoke() || la.Call.Method.Name() != "LocalAddr" || la.Call.Value != ssa.Value(conn) {
			return "", false
		}
		switch types.TypeString(ta.AssertedType, nil) {
		case "*net.TCPAddr":
			return "tcp", true
		case "*net.UDPAddr":
			return "udp", true
		}
		return "", false
	}
	nSink := 0
	for _, fn := range p.FuncsIn("director/forward") {
		for _, call := range Calls(fn) {
			f := call.Common().StaticCallee()
			if !isOutboundSink(f) {
				continue
			}
			nSink++
			key := fmt.Sprintf("%s in %s", FuncShort(f), shortFn(fn))
			if fn != dial || !FuncIs(f, "net", "Dial") || len(call.Common().Args) != 2 {
				c.Violate("forward-dial-target", key, p.InstrPos(call), "the forward director opens a connection outside Dial's single net.Dial(protocol, JoinHostPort(host, port))")
				continue
			}
			args := call.Common().Args
			jh, ok := args[1].(*ssa.Call)
			if !ok || !CalleeIs(jh, "net", "JoinHostPort") {
				c.Violate("forward-dial-target", key, p.InstrPos(call), "the dialled address is not net.JoinHostPort(host, port): "+Render(args[1]))
				continue
			}
			bad := ""
			// host leaves
			for _, l := range phiLeaves(jh.Call.Args[0]) {
				if isHostLoad(l.v) {
					continue
				}
				if ok, why := splitOf(l.v, 0, condsOnLeaf(l, jh)); ok {
					continue
				} else if why != "" {
					bad = why
				} else {
					bad = "the dialled host can be " + Render(l.v) + ", which is neither the configured Host nor its host part"
				}
			}
			// port leaves, with the protocol chosen on the same edge
			protoByPred := map[*ssa.BasicBlock]string{}
			for _, l := range phiLeaves(args[0]) {
				k, ok := ConstString(l.v)
				if !ok || l.pred == nil {
					bad = "the protocol is not a constant chosen per address type: " + Render(l.v)
					continue
				}
				protoByPred[l.pred] = k
			}
			for _, l := range phiLeaves(jh.Call.Args[1]) {
				if ok, why := splitOf(l.v, 1, condsOnLeaf(l, jh)); ok {
					continue
				} else if why != "" {
					bad = why
					continue
				}
				netw, ok := portOfConn(l.v)
				if !ok {
					bad = "the dialled port can be " + Render(l.v) + ", which is neither the port this connection arrived on nor the configured port"
					continue
				}
				// the same arm must choose the matching protocol
				if blk := l.v.(*ssa.Call).Block(); protoByPred[blk] != netw {
					bad = fmt.Sprintf("the %s arm (port from a %s address) selects protocol %q", netw, netw, protoByPred[blk])
				}
			}
			if bad != "" {
				c.Violate("forward-dial-target", key, p.InstrPos(call), bad)
			} else {
				c.Ok("forward-dial-target", key, p.InstrPos(call), "net.Dial(tcp|udp by local address type, JoinHostPort(Host or its host part, this connection's local port or the configured port))")
			}
		}
	}
	c.Check(nSink >= 1, "forward-dial-target", "net.Dial site found", p.Pos(dial.Pos()), "", "the forward director no longer dials")
	// statelessness: Dial reads only Host and writes nothing; nothing in the package writes Host
	n := NamedOf(d.Type())
	for _, fn := range p.FuncsIn("director/forward") {
		for _, b := range fn.Blocks {
			for _, in := range b.Instrs {
				fa, ok := in.(*ssa.FieldAddr)
				if !ok || NamedOf(fa.X.Type()) != n {
					continue
				}
				name := fieldNameOf(fa)
				stored := false
				for _, r := range *fa.Referrers() {
					if s, ok := r.(*ssa.Store); ok && s.Addr == ssa.Value(fa) {
						stored = true
					}
				}
				key := fmt.Sprintf("forwardDirector.%s in %s", name, shortFn(fn))
				inDial := false
				for f := fn; f != nil; f = f.Parent() {
					if f == dial {
						inDial = true
					}
				}
				switch {
				case inDial && name != "Host":
					c.Violate("forward-stateless", key, p.InstrPos(fa), "Dial consults state other than the configured Host: a target derived on one call (a cached port, a memoised address) would be reused for connections that arrived on other ports")
				case inDial && stored:
					c.Violate("forward-stateless", key, p.InstrPos(fa), "Dial writes the director's state")
				case name == "Host" && stored:
					c.Violate("forward-stateless", key, p.InstrPos(fa), "the configured Host is overwritten outside configuration decoding")
				default:
					c.Ok("forward-stateless", key, p.InstrPos(fa), "")
				}
			}
		}
	}
	c.Floor("forward-stateless", 1, "Dial reads d.Host")
}

// ---------- the configured director reaches the service

func c15Wiring(c *Ctx) {
	p := c.P
	wd := p.Func("services", "WithDirector")
	if c.Anchor(wd != nil && len(wd.AnonFuncs) == 1, "director-wiring", "services.WithDirector and its closure") {
		cl := wd.AnonFuncs[0]
		n := 0
		for _, call := range Calls(cl) {
			cc := call.Common()
			if !cc.IsInvoke() || cc.Method.Name() != "SetDirector" {
				continue
			}
			n++
			ok := len(cc.Args) == 1 && c15Root(cc.Args[0]) == ssa.Value(wd.Params[0])
			c.Check(ok, "director-wiring", "WithDirector: SetDirector argument", p.InstrPos(call), "the director given to WithDirector", "WithDirector installs something other than the director it was given: "+Render(cc.Args[0]))
		}
		c.Check(n == 1, "director-wiring", "WithDirector calls SetDirector once", p.Pos(cl.Pos()), "", fmt.Sprintf("found %d SetDirector calls", n))
	}
	// server: WithDirector(directors[x.Director])
	found := 0
	for _, fn := range p.FuncsIn("server") {
		for _, call := range Calls(fn) {
			if !CalleeIs(call, ModPath+"/services", "WithDirector") {
				continue
			}
			found++
			arg := call.Common().Args[0]
			ok := false
			detail := Render(arg)
			if ex, isE := arg.(*ssa.Extract); isE && ex.Index == 0 {
				if lk, isL := ex.Tuple.(*ssa.Lookup); isL {
					if _, isField := isFieldLoadNamed(lk.Index, "Director"); isField {
						// guarded by the lookup's ok
						for _, dc := range DomConds(call) {
							if e2, isE2 := dc.V.(*ssa.Extract); isE2 && e2.Tuple == ex.Tuple && e2.Index == 1 && dc.Pol {
								ok = true
							}
						}
						// and the map only ever receives constructed directors under their configuration key
						if m, isLd := isLoad(lk.X); isLd {
							_ = m
						}
					}
				}
			}
			c.Check(ok, "director-wiring", "server: WithDirector argument in "+shortFn(fn), p.InstrPos(call), "directors[<service's configured director name>] when present", "the service is not given the director its configuration names: "+detail)
		}
	}
	c.Check(found >= 1, "director-wiring", "server passes WithDirector", "-", fmt.Sprint(found), "the server no longer hands the configured director to services")
	_ = token.ADD
	_ = strings.Join
}
