package rules

import (
	"go/token"

	. "htcheck/internal/core"

	"golang.org/x/tools/go/ssa"
)

// c07PositionIsFileSize (rule position-is-file-size): rotateFile decides when to rotate from rotateFile.pos, so pos has
// to be the size of the file at hand: the end offset when an existing file is taken over (Seek(0, io.SeekEnd) or
// Stat().Size()), zero for a file the function has just created in place of a renamed/missing one, and after that
// advanced by what was written. Started at the current offset of a freshly opened descriptor (always 0) a file
// continued from an earlier run grows to its old size plus the maximum before it rotates.
func c07PositionIsFileSize(c *Ctx) {
	const rule = "position-is-file-size"
	c.Explanation += " The size counter of the rotating file starts at the end offset of the file taken over."
	p := c.P
	rfT := p.Type(fileRel, "rotateFile")
	if !c.Anchor(rfT != nil, rule, "file.rotateFile") {
		return
	}
	endOffset := func(v ssa.Value) bool {
		for _, lf := range leaves(v) {
			ok := false
			switch x := lf.(type) {
			case *ssa.Extract:
				if call, isC := x.Tuple.(*ssa.Call); isC && x.Index == 0 && MethodIs(call.Call.StaticCallee(), "os", "File", "Seek") && len(call.Call.Args) == 3 {
					off, okO := ConstInt(call.Call.Args[1])
					wh, okW := ConstInt(call.Call.Args[2])
					ok = okO && okW && off == 0 && wh == 2
				}
			case *ssa.Call:
				if x.Call.IsInvoke() && x.Call.Method.Name() == "Size" {
					ok = true
				}
			}
			if !ok {
				return false
			}
		}
		return true
	}
	// the size counter by role: the field of rotateFile that some method advances by adding to its own value
	posField := -1
	for _, fn := range p.FuncsIn(fileRel) {
		for _, b := range fn.Blocks {
			for _, in := range b.Instrs {
				st, ok := in.(*ssa.Store)
				if !ok {
					continue
				}
				fa, ok := st.Addr.(*ssa.FieldAddr)
				if !ok || NamedOf(fa.X.Type()) != rfT {
					continue
				}
				if bo, isB := st.Val.(*ssa.BinOp); isB && bo.Op == token.ADD {
					if ld, isL := bo.X.(*ssa.UnOp); isL && ld.Op == token.MUL {
						if fa2, isFA := ld.X.(*ssa.FieldAddr); isFA && fa2.Field == fa.Field && NamedOf(fa2.X.Type()) == rfT {
							posField = fa.Field
						}
					}
				}
			}
		}
	}
	if !c.Anchor(posField >= 0, rule, "the size counter of rotateFile (a field advanced by what was written)") {
		return
	}
	var endOffsetAt func(v ssa.Value, d int) bool
	endOffsetAt = func(v ssa.Value, d int) bool {
		if endOffset(v) {
			return true
		}
		// handed to a constructor helper: judged at its call sites
		par, ok := Unwrap(v).(*ssa.Parameter)
		if !ok || d > 2 {
			return false
		}
		idx, sites := paramIdx(par), 0
		for _, g := range p.FuncsIn(fileRel) {
			for _, call := range Calls(g) {
				if call.Common().StaticCallee() != par.Parent() || idx < 0 || idx >= len(call.Common().Args) {
					continue
				}
				sites++
				if !endOffsetAt(call.Common().Args[idx], d+1) {
					return false
				}
			}
		}
		return sites > 0
	}
	n := 0
	for _, fn := range p.FuncsIn(fileRel) {
		constructs := false
		for _, b := range fn.Blocks {
			for _, in := range b.Instrs {
				if a, ok := in.(*ssa.Alloc); ok && a.Heap && NamedOf(a.Type()) == rfT {
					constructs = true
				}
			}
		}
		for _, b := range fn.Blocks {
			for _, in := range b.Instrs {
				st, ok := in.(*ssa.Store)
				if !ok {
					continue
				}
				fa, ok := st.Addr.(*ssa.FieldAddr)
				if !ok || NamedOf(fa.X.Type()) != rfT || fa.Field != posField {
					continue
				}
				n++
				key := shortFn(fn) + " sets the size counter of rotateFile"
				if bo, isB := st.Val.(*ssa.BinOp); isB && bo.Op == token.ADD {
					c.Ok(rule, key+" (advance)", p.InstrPos(st), "advanced by a count")
					continue
				}
				if k, isC := ConstInt(st.Val); isC && k == 0 && !constructs {
					c.Ok(rule, key+" (new file)", p.InstrPos(st), "zero for the file this function opens in place of the renamed or missing one")
					continue
				}
				c.Check(endOffsetAt(st.Val, 0), rule, key, p.InstrPos(st), "the end offset of the file taken over", "the size the rotation decision works with starts at `"+RenderN(st.Val, 3)+"`, which is not the end offset of the file taken over (Seek(0, io.SeekEnd) or Stat().Size()): a file continued from an earlier run is counted from zero and grows to its old size plus the maximum before it rotates")
			}
		}
	}
	c.Floor(rule, 3, "constructor, reopen, Write advances")
}
