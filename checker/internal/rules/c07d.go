package rules

import (
	"go/token"

	. "htcheck/internal/core"

	"golang.org/x/tools/go/ssa"
)

// c07PositionIsFileSize (rule position-is-file-size): rotateFile decides when to rotate from rotateFile.pos, so pos has
// to be the size of the file at hand: the end offset when an existing file is taken over (Seek(0, io.SeekEnd) or
// Stat().Size()), zero for a file the function has just created in place of a renamed/missing one, and after that
// advanced by what was written. Started at the current offset of a freshly opened descriptor (always 0) a file
// continued from an earlier run grows to its old size plus the maximum before it rotates.
func c07PositionIsFileSize(c *Ctx) {
	const rule = "position-is-file-size"
	p := c.P
	rfT := p.Type(fileRel, "rotateFile")
	if !c.Anchor(rfT != nil, rule, "file.rotateFile") {
		return
	}
	endOffset := func(v ssa.Value) bool {
		for _, lf := range leaves(v) {
			ok := false
			switch x := lf.(type) {
			case *ssa.Extract:
				if call, isC := x.Tuple.(*ssa.Call); isC && x.Index == 0 && MethodIs(call.Call.StaticCallee(), "os", "File", "Seek") && len(call.Call.Args) == 3 {
					off, okO := ConstInt(call.Call.Args[1])
					wh, okW := ConstInt(call.Call.Args[2])
					ok = okO && okW && off == 0 && wh == 2
				}
			case *ssa.Call:
				if x.Call.IsInvoke() && x.Call.Method.Name() == "Size" {
					ok = true
				}
			}
			if !ok {
				return false
			}
		}
		return true
	}
	n := 0
	for _, fn := range p.FuncsIn(fileRel) {
		constructs := false
		for _, b := range fn.Blocks {
			for _, in := range b.Instrs {
				if a, ok := in.(*ssa.Alloc); ok && a.Heap && NamedOf(a.Type()) == rfT {
					constructs = true
				}
			}
		}
		for _, b := range fn.Blocks {
			for _, in := range b.Instrs {
				st, ok := in.(*ssa.Store)
				if !ok {
					continue
				}
				fa, ok := st.Addr.(*ssa.FieldAddr)
				if !ok || NamedOf(fa.X.Type()) != rfT || fieldNameOf(fa) != "pos" {
					continue
				}
				n++
				key := shortFn(fn) + " sets rotateFile.pos"
				if bo, isB := st.Val.(*ssa.BinOp); isB && bo.Op == token.ADD {
					c.Ok(rule, key+" (advance)", p.InstrPos(st), "advanced by a count")
					continue
				}
				if k, isC := ConstInt(st.Val); isC && k == 0 && !constructs {
					c.Ok(rule, key+" (new file)", p.InstrPos(st), "zero for the file this function opens in place of the renamed or missing one")
					continue
				}
				c.Check(endOffset(st.Val), rule, key, p.InstrPos(st), "the end offset of the file taken over", "the size the rotation decision works with starts at `"+RenderN(st.Val, 3)+"`, which is not the end offset of the file taken over (Seek(0, io.SeekEnd) or Stat().Size()): a file continued from an earlier run is counted from zero and grows to its old size plus the maximum before it rotates")
			}
		}
	}
	c.Floor(rule, 3, "constructor, reopen, Write advances")
}
