package rules

import (
	"fmt"
	"go/constant"
	"go/token"
	"go/types"
	"sort"
	"strings"

	"golang.org/x/tools/go/ssa"

	. "htcheck/internal/core"
)

func init() { Registry["C11"] = c11 }

const fsRel = "services/filesystem"

func isPathPkg(f *ssa.Function, name string) bool {
	if f == nil || f.Name() != name {
		return false
	}
	pk := PkgOf(f)
	return pk == "path" || pk == "path/filepath"
}

type c11State struct {
	helperDepth int
	c           *Ctx
	htfs        *types.Named
	cwdIdx      int
	rootIdx     int
	cwdOK       bool
	rp          *ssa.Function
	memoRC      map[ssa.Value]int // 0 unknown, 1 in progress, 2 true, 3 false
	whyNot      map[ssa.Value]string
}

// rootedClean: v is an absolute, cleaned path (no ".." element can remain: a rooted path cleaned lexically never rises above "/").
func (s *c11State) rootedClean(v ssa.Value) bool {
	switch s.memoRC[v] {
	case 1:
		return true // optimistic on cycles (phi webs)
	case 2:
		return true
	case 3:
		return false
	}
	s.memoRC[v] = 1
	ok := s.rc(v)
	if ok {
		s.memoRC[v] = 2
	} else {
		s.memoRC[v] = 3
	}
	return ok
}

func (s *c11State) rc(v ssa.Value) bool {
	switch x := v.(type) {
	case *ssa.Const:
		if x.Value != nil && x.Value.Kind() == constant.String {
			str := constant.StringVal(x.Value)
			if str == "/" {
				return true
			}
			s.whyNot[v] = "constant " + fmt.Sprintf("%q", str) + " is not the root"
		}
		return false
	case *ssa.Convert:
		// string(filepath.Separator)
		if k, ok := x.X.(*ssa.Const); ok && k.Value != nil {
			if n, ok := ConstInt(k); ok && n == '/' {
				return true
			}
		}
		s.whyNot[v] = "conversion " + Render(v)
		return false
	case *ssa.Phi:
		for _, e := range x.Edges {
			if !s.rootedClean(e) {
				s.whyNot[v] = "merge includes " + RenderN(e, 3) + ": " + s.whyNot[e]
				return false
			}
		}
		return true
	case *ssa.Call:
		f := x.Call.StaticCallee()
		switch {
		case isPathPkg(f, "Join"):
			// variadic: first element decides
			first := firstVariadic(x.Call.Args[0])
			if first != nil && s.rootedClean(first) {
				return true
			}
			s.whyNot[v] = "Join whose first element is not a rooted clean path: " + RenderN(first, 3)
			if first != nil && s.whyNot[first] != "" {
				s.whyNot[v] += " (" + s.whyNot[first] + ")"
			}
			return false
		case isPathPkg(f, "ToSlash") || isPathPkg(f, "FromSlash"):
			if s.rootedClean(x.Call.Args[0]) {
				return true
			}
			s.whyNot[v] = s.whyNot[x.Call.Args[0]]
			return false
		case isPathPkg(f, "Clean"):
			arg := x.Call.Args[0]
			for _, dc := range DomConds(x) {
				if pc, ok := dc.V.(*ssa.Call); ok && dc.Pol && len(pc.Call.Args) >= 1 && pc.Call.Args[0] == arg {
					pf := pc.Call.StaticCallee()
					if isPathPkg(pf, "IsAbs") {
						return true
					}
					if pf != nil && FuncIs(pf, "strings", "HasPrefix") {
						if pre, _ := ConstString(pc.Call.Args[1]); pre == "/" {
							return true
						}
					}
				}
			}
			s.whyNot[v] = "Clean of a path that is not known to be absolute at this point (a relative `..` survives Clean)"
			return false
		}
		// a helper of the filesystem (virtualPath(path)): rooted clean when every value it returns is
		if f != nil && InRepo(f) && f.Blocks != nil && f != s.rp && s.helperDepth < 2 && len(Returns(f)) > 0 {
			s.helperDepth++
			all := true
			for _, r := range Returns(f) {
				rv := RetVals(r)
				if len(rv) != 1 || !s.rootedClean(rv[0]) {
					all = false
					if len(rv) == 1 {
						s.whyNot[v] = "in " + FuncShort(f) + ": " + s.whyNot[rv[0]]
					}
				}
			}
			s.helperDepth--
			if all {
				return true
			}
			return false
		}
		s.whyNot[v] = "result of " + calleeLabel(x)
		return false
	case *ssa.UnOp:
		if x.Op == token.MUL {
			if fa, ok := x.X.(*ssa.FieldAddr); ok && NamedOf(fa.X.Type()) == s.htfs && fa.Field == s.cwdIdx {
				if s.cwdOK {
					return true
				}
				s.whyNot[v] = "Htfs.cwd, whose field invariant (only rooted clean values are stored) does not hold"
				return false
			}
			if a, ok := x.X.(*ssa.Alloc); ok {
				all := true
				for _, sv := range StoredValues(a) {
					if !s.rootedClean(sv) {
						all = false
						s.whyNot[v] = s.whyNot[sv]
					}
				}
				return all && len(StoredValues(a)) > 0
			}
		}
		s.whyNot[v] = "load " + RenderN(v, 3)
		return false
	}
	// the parameter of an unexported setter of the filesystem (setCwd(dir)): what every call site passes
	if pr, ok := v.(*ssa.Parameter); ok && s.helperDepth < 2 {
		fn := pr.Parent()
		if fn != nil && InRepo(fn) && !token.IsExported(fn.Name()) && RelPkg(PkgOf(fn)) == fsRel {
			idx := paramIdx(pr)
			n, all := 0, true
			s.helperDepth++
			for _, g := range s.c.P.Funcs() {
				for _, cl := range Calls(g) {
					if cl.Common().StaticCallee() != fn || idx < 0 || idx >= len(cl.Common().Args) {
						continue
					}
					n++
					if !s.rootedClean(cl.Common().Args[idx]) {
						all = false
						s.whyNot[v] = "as passed by " + shortFn(g) + ": " + s.whyNot[cl.Common().Args[idx]]
					}
				}
			}
			s.helperDepth--
			if n > 0 && all {
				return true
			}
			if n > 0 {
				return false
			}
		}
	}
	s.whyNot[v] = fmt.Sprintf("%T %s", v, RenderN(v, 3))
	return false
}

func firstVariadic(v ssa.Value) ssa.Value {
	sl, ok := v.(*ssa.Slice)
	if !ok {
		return nil
	}
	a, ok := sl.X.(*ssa.Alloc)
	if !ok {
		return nil
	}
	for _, ref := range *a.Referrers() {
		if ia, ok := ref.(*ssa.IndexAddr); ok {
			if k, ok := ConstInt(ia.Index); ok && k == 0 {
				for _, r2 := range *ia.Referrers() {
					if st, ok := r2.(*ssa.Store); ok {
						return st.Val
					}
				}
			}
		}
	}
	return nil
}

func variadicArgs(v ssa.Value) []ssa.Value {
	sl, ok := v.(*ssa.Slice)
	if !ok {
		return nil
	}
	a, ok := sl.X.(*ssa.Alloc)
	if !ok {
		return nil
	}
	m := map[int64]ssa.Value{}
	var mx int64 = -1
	for _, ref := range *a.Referrers() {
		if ia, ok := ref.(*ssa.IndexAddr); ok {
			if k, ok := ConstInt(ia.Index); ok {
				for _, r2 := range *ia.Referrers() {
					if st, ok := r2.(*ssa.Store); ok {
						m[k] = st.Val
						if k > mx {
							mx = k
						}
					}
				}
			}
		}
	}
	out := make([]ssa.Value, mx+1)
	for k, v := range m {
		out[k] = v
	}
	return out
}

// contained: v = Join(f.root, x) with x rooted clean.
func (s *c11State) contained(v ssa.Value) (bool, string) {
	switch x := v.(type) {
	case *ssa.Phi:
		for _, e := range x.Edges {
			if ok, why := s.contained(e); !ok {
				return false, why
			}
		}
		return true, ""
	case *ssa.Call:
		f := x.Call.StaticCallee()
		if f == s.rp && s.rp != nil {
			return true, ""
		}
		if f != nil && f.Synthetic != "" && f.Name() == "RealPath" && throughWrapper(f) == s.rp {
			return true, ""
		}
		if s.realPathLike(f, 0) {
			return true, ""
		}
		if isPathPkg(f, "Join") {
			args := variadicArgs(x.Call.Args[0])
			if len(args) == 2 {
				if ld, ok := args[0].(*ssa.UnOp); ok && ld.Op == token.MUL {
					if fa, ok := ld.X.(*ssa.FieldAddr); ok && NamedOf(fa.X.Type()) == s.htfs && fa.Field == s.rootIdx {
						if s.rootedClean(args[1]) {
							return true, ""
						}
						return false, "joined under the root but the joined part may contain `..` that rises above it: " + s.whyNot[args[1]]
					}
				}
			}
			return false, "Join that is not Join(f.root, <rooted clean path>): " + RenderN(x, 4)
		}
		return false, "result of " + calleeLabel(x) + " is not a RealPath"
	case *ssa.UnOp:
		if a, ok := x.X.(*ssa.Alloc); ok && x.Op == token.MUL {
			for _, sv := range StoredValues(a) {
				if ok, why := s.contained(sv); !ok {
					return false, why
				}
			}
			return len(StoredValues(a)) > 0, "uninitialised"
		}
	}
	return false, "`" + RenderN(v, 3) + "` does not come from RealPath"
}

func c11(c *Ctx) {
	p := c.P
	c.Explanation = "Static containment proof by abstract interpretation over string values (all path strings, all directory histories): a value is RootedClean if it is \"/\", Clean(p) under IsAbs(p), Join(<RootedClean>, …), a load of " +
		"Htfs.cwd (field invariant: every store to Htfs.cwd in the program stores a RootedClean value), or a merge of such; Contained = Join(f.root, <RootedClean>). Axiom: a rooted path cleaned lexically has no `..` element, so " +
		"Join(root, it) is lexically under root. Obligations: every return of (*Htfs).RealPath is Contained; every path argument of an os / io/ioutil / filepath.Walk call in the methods of ftp.Fs and filesystem.Htfs is Contained " +
		"(comes from RealPath); every Driver method is enumerated and its path parameters flow only into RealPath; the directory reported to the client is the RootedClean field; Htfs.root is written only by the constructor. " +
		"Symlinks are outside the property (assumed absent)."
	c.Assume("path/filepath.Join and Clean implement lexical cleaning as documented (axiom); the root contains no symlink leaving it (property's own assumption)")
	s := &c11State{c: c, memoRC: map[ssa.Value]int{}, whyNot: map[ssa.Value]string{}}
	s.htfs = p.Type(fsRel, "Htfs")
	s.rp = p.Method(fsRel, "Htfs", "RealPath")
	if !c.Anchor(s.htfs != nil && s.rp != nil, "containment", "filesystem.Htfs and RealPath") {
		return
	}
	st := s.htfs.Underlying().(*types.Struct)
	s.cwdIdx, s.rootIdx = -1, -1
	for i := 0; i < st.NumFields(); i++ {
		switch st.Field(i).Name() {
		case "cwd":
			s.cwdIdx = i
		case "root":
			s.rootIdx = i
		}
	}
	// after a rename: by role. root = the field RealPath joins the client's path under (first argument of its last Join),
	// cwd = the field the Cwd() accessor returns
	if s.rootIdx < 0 {
		for _, call := range Calls(s.rp) {
			if f := call.Common().StaticCallee(); f != nil && f.Name() == "Join" && PkgOf(f) == "path/filepath" && len(call.Common().Args) == 1 {
				// variadic: the first element of the argument slice
				if sl, ok := call.Common().Args[0].(*ssa.Slice); ok {
					if al, ok := sl.X.(*ssa.Alloc); ok {
						for _, ref := range *al.Referrers() {
							ia, ok := ref.(*ssa.IndexAddr)
							if !ok {
								continue
							}
							if k, isK := ConstInt(ia.Index); !isK || k != 0 {
								continue
							}
							for _, r2 := range *ia.Referrers() {
								if st, isSt := r2.(*ssa.Store); isSt {
									if ld, isLd := st.Val.(*ssa.UnOp); isLd {
										if fa, isFA := ld.X.(*ssa.FieldAddr); isFA && fa.X == ssa.Value(s.rp.Params[0]) {
											s.rootIdx = fa.Field
										}
									}
								}
							}
						}
					}
				}
			}
		}
	}
	if s.cwdIdx < 0 {
		if cw := p.Method(fsRel, "Htfs", "Cwd"); cw != nil && cw.Blocks != nil {
			for _, r := range Returns(cw) {
				if ld, isLd := RetVals(r)[0].(*ssa.UnOp); isLd {
					if fa, isFA := ld.X.(*ssa.FieldAddr); isFA && fa.X == ssa.Value(cw.Params[0]) {
						s.cwdIdx = fa.Field
					}
				}
			}
		}
	}
	if !c.Anchor(s.cwdIdx >= 0 && s.rootIdx >= 0, "containment", "fields Htfs.cwd / Htfs.root") {
		return
	}
	// field invariant for cwd (assume, then verify every store under the assumption: inductive)
	s.cwdOK = true
	var cwdStores, rootStores []*ssa.Store
	for _, fn := range p.Funcs() {
		for _, b := range fn.Blocks {
			for _, in := range b.Instrs {
				st, ok := in.(*ssa.Store)
				if !ok {
					continue
				}
				fa, ok := st.Addr.(*ssa.FieldAddr)
				if !ok || NamedOf(fa.X.Type()) != s.htfs {
					continue
				}
				switch fa.Field {
				case s.cwdIdx:
					cwdStores = append(cwdStores, st)
				case s.rootIdx:
					rootStores = append(rootStores, st)
				}
			}
		}
	}
	// every filesystem object is built with a root: a zero-value Htfs has the empty root, for which RealPath returns the
	// client's (cleaned) path as a host path
	nAlloc := 0
	for _, fn := range p.Funcs() {
		if fn.Blocks == nil || !InRepo(fn) || strings.HasSuffix(p.Fset.Position(fn.Pos()).Filename, "_test.go") {
			continue
		}
		for _, b := range fn.Blocks {
			for _, in := range b.Instrs {
				a, ok := in.(*ssa.Alloc)
				if !ok || NamedOf(a.Type().(*types.Pointer).Elem()) != s.htfs {
					continue
				}
				if _, isPtr := a.Type().(*types.Pointer).Elem().(*types.Pointer); isPtr {
					continue
				}
				nAlloc++
				rooted := false
				for _, st := range rootStores {
					if fa, okFA := st.Addr.(*ssa.FieldAddr); okFA && fa.X == ssa.Value(a) {
						rooted = true
					}
				}
				// a whole-struct copy of another filesystem (`c := *f`)
				for _, ref := range *a.Referrers() {
					if st, isSt := ref.(*ssa.Store); isSt && st.Addr == ssa.Value(a) {
						rooted = true
					}
				}
				c.Check(rooted, "fs-object-rooted", shortFn(fn)+" builds an Htfs", p.InstrPos(a), "built with a root", "a filesystem object is created without a root (zero value): RealPath then joins the client's path to the empty string, so every absolute path a client sends names that path on the host – the whole host file system is listed, read, written and deleted through the service")
			}
		}
	}
	c.Floor("fs-object-rooted", 1, "the constructors of filesystem.Htfs")
	inv := true
	for _, st := range cwdStores {
		key := shortFn(st.Parent()) + " stores Htfs.cwd"
		ok := s.rootedClean(st.Val)
		if !ok {
			inv = false
		}
		c.Check(ok, "cwd-invariant", key, p.InstrPos(st), "stores a rooted clean path: "+RenderN(st.Val, 4), "the working directory is set to a value that is not a rooted clean path ("+s.whyNot[st.Val]+"): a later relative path with `..` can climb above the root because Join(cwd, path) is only safe for a rooted cwd")
	}
	c.Floor("cwd-invariant", 2, "constructor and ChangeDir")
	if !inv {
		// the invariant failed: everything that relied on it must be re-evaluated without it
		s.cwdOK = false
		s.memoRC = map[ssa.Value]int{}
	}
	for _, st := range rootStores {
		fn := st.Parent()
		isCtor := fn.Name() == "New" && RelPkg(PkgOf(fn)) == fsRel
		copies := false
		if ld, ok := st.Val.(*ssa.UnOp); ok && ld.Op == token.MUL {
			if fa, ok := ld.X.(*ssa.FieldAddr); ok && NamedOf(fa.X.Type()) == s.htfs && fa.Field == s.rootIdx {
				copies = true // a clone keeps the root of the filesystem it was made from
			}
		}
		// a helper that builds a NEW filesystem object from a root handed to it: every caller must pass the constructor's
		// root or another filesystem's root
		if !isCtor && !copies {
			if pr, isP := st.Val.(*ssa.Parameter); isP {
				if fa, okFA := st.Addr.(*ssa.FieldAddr); okFA {
					if _, fresh := fa.X.(*ssa.Alloc); fresh {
						idx := paramIdx(pr)
						nSites, good := 0, true
						for _, g := range p.Funcs() {
							for _, call := range Calls(g) {
								if call.Common().StaticCallee() != fn || idx >= len(call.Common().Args) {
									continue
								}
								nSites++
								a := call.Common().Args[idx]
								fromRoot := false
								if ld, ok := a.(*ssa.UnOp); ok && ld.Op == token.MUL {
									if fa2, ok := ld.X.(*ssa.FieldAddr); ok && NamedOf(fa2.X.Type()) == s.htfs && fa2.Field == s.rootIdx {
										fromRoot = true
									}
								}
								inCtor := g.Name() == "New" && RelPkg(PkgOf(g)) == fsRel
								if !fromRoot && !inCtor {
									good = false
								}
							}
						}
						copies = good && nSites > 0
					}
				}
			}
		}
		c.Check(isCtor || copies, "root-immutable", shortFn(fn)+" stores Htfs.root", p.InstrPos(st), "root set by the constructor (or copied unchanged into a clone)", "the filesystem root is written outside the constructor with a value that is not another filesystem's root")
	}
	// RealPath summary
	for i, r := range Returns(s.rp) {
		ok, why := s.contained(RetVals(r)[0])
		c.Check(ok, "realpath-contained", fmt.Sprintf("RealPath return[%d]", i), p.InstrPos(r), "Join(root, <rooted clean>)", "RealPath can return a path that is not lexically under the root: "+why)
	}
	// Cwd()/CurDir() report the field
	for _, m := range []struct{ rel, typ, name string }{{fsRel, "Htfs", "Cwd"}, {"services/ftp", "Fs", "CurDir"}} {
		fn := p.Method(m.rel, m.typ, m.name)
		if !c.Anchor(fn != nil, "reported-dir", m.typ+"."+m.name) {
			continue
		}
		for _, r := range Returns(fn) {
			v := RetVals(r)[0]
			ok := s.rootedClean(v)
			if !ok {
				if call, isC := v.(*ssa.Call); isC {
					if f := call.Call.StaticCallee(); f != nil && throughWrapper(f) == p.Method(fsRel, "Htfs", "Cwd") {
						ok = true
					}
				}
			}
			c.Check(ok, "reported-dir", m.typ+"."+m.name, p.InstrPos(r), "reports the rooted clean working directory", "the directory reported to the client is not the rooted clean working directory: "+RenderN(v, 3))
		}
	}
	// sinks
	fsT := p.Type("services/ftp", "Fs")
	nsinks := 0
	for _, fn := range p.Funcs() {
		rt := ""
		if fn.Signature.Recv() != nil {
			if n := NamedOf(fn.Signature.Recv().Type()); n == s.htfs || (fsT != nil && n == fsT) {
				rt = n.Obj().Name()
			}
		}
		rel := RelPkg(PkgOf(fn))
		if rt == "" && rel != "services/ftp" {
			continue
		}
		if rt == "" && rel == "services/ftp" {
			// other ftp code must not touch the file system by path at all
			for _, call := range Calls(fn) {
				f := call.Common().StaticCallee()
				if f == nil {
					continue
				}
				if idxs := fsPathParams(f); len(idxs) > 0 {
					nsinks++
					// a helper of the driver: the path is the helper's own parameter and every caller passes a contained path
					okHelper := true
					for _, ai := range idxs {
						if ai >= len(call.Common().Args) {
							continue
						}
						pr, isP := call.Common().Args[ai].(*ssa.Parameter)
						if !isP {
							okHelper = false
							continue
						}
						pi, nSites := paramIdx(pr), 0
						for _, g := range p.Funcs() {
							for _, c2 := range Calls(g) {
								if c2.Common().StaticCallee() != fn || pi >= len(c2.Common().Args) {
									continue
								}
								nSites++
								if okC, _ := s.contained(c2.Common().Args[pi]); !okC {
									okHelper = false
								}
							}
						}
						if nSites == 0 {
							okHelper = false
						}
					}
					if okHelper {
						c.Ok("fs-sink-contained", shortFn(fn)+" calls "+FuncShort(f), p.InstrPos(call), "helper of the driver: every caller passes a RealPath result")
					} else {
						c.Violate("fs-sink-contained", shortFn(fn)+" calls "+FuncShort(f), p.InstrPos(call), "file-system access by path outside the driver: FTP code must reach the file system only through Driver methods (which map paths through RealPath)")
					}
				}
			}
			continue
		}
		for _, call := range Calls(fn) {
			f := call.Common().StaticCallee()
			if f == nil {
				continue
			}
			for _, ai := range fsPathParams(f) {
				if ai >= len(call.Common().Args) {
					continue
				}
				nsinks++
				arg := call.Common().Args[ai]
				ok, why := s.contained(arg)
				key := fmt.Sprintf("%s %s arg%d", shortFn(fn), FuncShort(f), ai)
				c.Check(ok, "fs-sink-contained", key, p.InstrPos(call), "path comes from RealPath", "a file-system call receives a path that is not the result of RealPath ("+why+"): an FTP client can name files outside the service's root")
			}
		}
	}
	c.Floor("fs-sink-contained", 14, "15 path arguments in ftpfs.go + htfs.go ChangeDir")
	// Driver methods enumerated: path params flow only into RealPath
	drv := p.Iface("services/ftp", "Driver")
	if c.Anchor(drv != nil && fsT != nil, "driver-methods", "ftp.Driver / ftp.Fs") {
		var names []string
		for i := 0; i < drv.NumMethods(); i++ {
			names = append(names, drv.Method(i).Name())
		}
		sort.Strings(names)
		n := 0
		for _, name := range names {
			fn := p.Method("services/ftp", "Fs", name)
			if fn == nil {
				fn = p.Method(fsRel, "Htfs", name)
			}
			if fn == nil || fn.Blocks == nil {
				continue
			}
			for pi, par := range fn.Params {
				if pi == 0 || !types.Identical(par.Type().Underlying(), types.Typ[types.String]) {
					continue
				}
				n++
				bad := ""
				for _, ref := range *par.Referrers() {
					switch u := ref.(type) {
					case *ssa.Call:
						f := u.Call.StaticCallee()
						if f != nil && (f == s.rp || throughWrapper(f) == s.rp || s.realPathLike(f, 0)) {
							continue
						}
						if f != nil && f.Name() == fn.Name() {
							// delegation to the embedded filesystem's method of the same name
							g := throughWrapper(f)
							if g != fn && NamedOf(g.Signature.Recv().Type()) == s.htfs {
								continue
							}
							if g == fn {
								continue // self-recursion is C01's finding, not a containment issue
							}
						}
						if f != nil && (FuncIs(f, "fmt", "Errorf") || FuncIs(f, "fmt", "Sprintf")) {
							continue
						}
						bad = "passed to " + calleeLabel(u)
					case *ssa.DebugRef:
					case *ssa.MakeInterface:
						// only for formatting into an error message
						for _, r2 := range *u.Referrers() {
							if st, ok := r2.(*ssa.Store); ok {
								_ = st
								continue
							}
							bad = "escapes as interface"
						}
					default:
						bad = fmt.Sprintf("used by %T", ref)
					}
				}
				c.Check(bad == "", "driver-methods", fmt.Sprintf("Fs.%s param %d", name, pi), p.Pos(fn.Pos()), "the client's path is only ever mapped through RealPath", "a client-supplied path is "+bad+" instead of being mapped through RealPath")
			}
		}
		c.Check(n >= 10, "driver-methods", "path parameters enumerated", "-", fmt.Sprint(n), fmt.Sprintf("expected at least 10 path parameters over the Driver methods, found %d", n))
	}
	_ = strings.Contains
}

// fsPathParams: argument positions of file-system functions that take a path.
func fsPathParams(f *ssa.Function) []int {
	pk := PkgOf(f)
	if f.Signature.Recv() != nil {
		return nil
	}
	switch pk {
	case "os":
		switch f.Name() {
		case "Open", "OpenFile", "Create", "Lstat", "Stat", "Remove", "RemoveAll", "Mkdir", "MkdirAll", "Chmod", "Chown", "Chtimes", "Truncate", "ReadFile", "WriteFile", "ReadDir", "Readlink", "Lchown":
			return []int{0}
		case "Rename", "Link", "Symlink":
			return []int{0, 1}
		}
	case "io/ioutil":
		switch f.Name() {
		case "ReadFile", "WriteFile", "ReadDir", "TempFile", "TempDir":
			return []int{0}
		}
	case "path/filepath":
		switch f.Name() {
		case "Walk", "WalkDir", "Glob", "EvalSymlinks":
			return []int{0}
		}
	}
	return nil
}

// realPathLike: f is a pass-through of RealPath – an in-repo function every return of which is RealPath (or another
// pass-through) applied to one of f's own string parameters unchanged (e.g. `func (ftp *Fs) hostPath(p string) string
// { return ftp.Htfs.RealPath(p) }`).
func (s *c11State) realPathLike(f *ssa.Function, depth int) bool {
	if f == nil || depth > 2 || f.Blocks == nil || !InRepo(f) || s.rp == nil {
		return false
	}
	rets := Returns(f)
	if len(rets) == 0 {
		return false
	}
	for _, r := range rets {
		rv := RetVals(r)
		if len(rv) != 1 {
			return false
		}
		call, ok := rv[0].(*ssa.Call)
		if !ok {
			return false
		}
		g := call.Call.StaticCallee()
		if g == nil {
			return false
		}
		if !(g == s.rp || throughWrapper(g) == s.rp || s.realPathLike(g, depth+1)) {
			return false
		}
		passes := false
		for _, a := range call.Call.Args {
			if pr, isP := a.(*ssa.Parameter); isP && pr.Parent() == f && types.Identical(pr.Type().Underlying(), types.Typ[types.String]) {
				passes = true
			}
		}
		if !passes {
			return false
		}
	}
	return true
}
