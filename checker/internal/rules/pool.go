package rules

import (
	"fmt"
	"go/token"
	"go/types"
	"sort"
	"strings"

	"golang.org/x/tools/go/ssa"

	. "htcheck/internal/core"
)

// releasedMemoryNotRetained: memory that is handed back for reuse must not stay reachable from what the function hands on.
// Two kinds of recycled memory are followed:
//
//	(a) a value given to sync.Pool.Put, directly, deferred, or through a release helper (a method whose body Puts its
//	    receiver or parameter);
//	(b) the bytes of a long-lived bytes.Buffer (a field, not a local) that the same package Resets/Truncates for reuse.
//
// From such a root the analysis follows re-slices, fields, methods that return part of the object (Bytes()), wrappers that
// keep their argument (bytes.NewBuffer), local cells, struct literals, and in-repo callees that store the argument in an
// object they were given (the object then counts as holding the memory). It is a violation when such a value is returned,
// sent on a channel, handed to a goroutine (argument or captured variable) or stored in a field of an object that
// outlives the call – after the release another connection's data is written into the same memory, so one client's
// reply, event or dispatch decision is made from another client's bytes.
func releasedMemoryNotRetained(c *Ctx, rule, consequence string, rels ...string) {
	p := c.P
	var fns []*ssa.Function
	for _, fn := range p.FuncsIn(rels...) {
		if fn.Blocks == nil || strings.HasSuffix(p.Fset.Position(fn.Pos()).Filename, "_test.go") || strings.HasPrefix(RelPkg(PkgOf(fn)), "services/ja3") {
			continue
		}
		fns = append(fns, fn)
	}
	sort.Slice(fns, func(i, j int) bool { return fns[i].String() < fns[j].String() })
	isPut := func(call ssa.CallInstruction) (ssa.Value, bool) {
		if MethodIs(call.Common().StaticCallee(), "sync", "Pool", "Put") && len(call.Common().Args) == 2 {
			return Unwrap(call.Common().Args[1]), true
		}
		return nil, false
	}
	// release helpers: in-repo functions that Put (something rooted at) one of their parameters
	helpers := map[*ssa.Function]int{}
	for _, fn := range p.Funcs() {
		if fn.Blocks == nil || !InRepo(fn) {
			continue
		}
		for _, call := range Calls(fn) {
			v, ok := isPut(call)
			if !ok {
				continue
			}
			if pr, isP := addrBase(v).(*ssa.Parameter); isP && pr.Parent() == fn {
				helpers[fn] = paramIdx(pr)
			}
		}
	}
	// reused long-lived buffers: fields of type bytes.Buffer on which the package calls Reset/Truncate
	reused := map[string]bool{} // "<pkg>.<Type>#<field idx>"
	bufFieldKey := func(v ssa.Value) string {
		fa, ok := v.(*ssa.FieldAddr)
		if !ok {
			return ""
		}
		n := NamedOf(fa.X.Type())
		if n == nil {
			return ""
		}
		return fmt.Sprintf("%s#%d", n.String(), fa.Field)
	}
	for _, fn := range fns {
		for _, call := range Calls(fn) {
			f := call.Common().StaticCallee()
			if f != nil && (MethodIs(f, "bytes", "Buffer", "Reset") || MethodIs(f, "bytes", "Buffer", "Truncate")) && len(call.Common().Args) >= 1 {
				if k := bufFieldKey(call.Common().Args[0]); k != "" {
					reused[k] = true
				}
			}
		}
	}
	isRef := func(t types.Type) bool {
		switch t.Underlying().(type) {
		case *types.Pointer, *types.Slice, *types.Map, *types.Interface, *types.Chan:
			return true
		}
		return false
	}
	// retains(f, i): in-repo f stores something derived from parameter i into a field of another parameter j (returns j), or
	// returns something derived from parameter i (returns -2); -1 otherwise
	type ret struct {
		into    []int
		returns bool
	}
	memo := map[string]ret{}
	var retains func(f *ssa.Function, i, depth int) ret
	retains = func(f *ssa.Function, i, depth int) ret {
		key := fmt.Sprintf("%p#%d", f, i)
		if r, ok := memo[key]; ok {
			return r
		}
		memo[key] = ret{}
		var out ret
		if f == nil || f.Blocks == nil || !InRepo(f) || i >= len(f.Params) || depth > 2 {
			return out
		}
		d := map[ssa.Value]bool{f.Params[i]: true}
		for changed := true; changed; {
			changed = false
			for _, b := range f.Blocks {
				for _, in := range b.Instrs {
					v, isV := in.(ssa.Value)
					if !isV || d[v] {
						continue
					}
					switch x := in.(type) {
					case *ssa.Slice:
						if d[x.X] {
							d[v] = true
							changed = true
						}
					case *ssa.Phi:
						for _, e := range x.Edges {
							if d[e] {
								d[v] = true
								changed = true
							}
						}
					case *ssa.MakeInterface:
						if d[x.X] {
							d[v] = true
							changed = true
						}
					case *ssa.ChangeType:
						if d[x.X] {
							d[v] = true
							changed = true
						}
					}
				}
			}
		}
		for _, b := range f.Blocks {
			for _, in := range b.Instrs {
				switch x := in.(type) {
				case *ssa.Store:
					if !d[x.Val] {
						continue
					}
					if pr, isP := addrBase(x.Addr).(*ssa.Parameter); isP && pr.Parent() == f {
						if _, isFA := x.Addr.(*ssa.FieldAddr); isFA {
							out.into = append(out.into, paramIdx(pr))
						}
					}
				case *ssa.Return:
					for _, rv := range RetVals(x) {
						if d[rv] {
							out.returns = true
						}
					}
				}
			}
		}
		memo[key] = out
		return out
	}
	nRoots := 0
	for _, fn := range fns {
		type root struct {
			v        ssa.Value
			at       ssa.Instruction
			deferred bool
			what     string
		}
		var roots []root
		for _, call := range Calls(fn) {
			_, isDefer := call.(*ssa.Defer)
			if v, ok := isPut(call); ok {
				roots = append(roots, root{v, call, isDefer, "handed back to a sync.Pool"})
				continue
			}
			if hf := call.Common().StaticCallee(); hf != nil {
				if idx, isH := helpers[hf]; isH && idx < len(call.Common().Args) && hf != fn {
					roots = append(roots, root{Unwrap(call.Common().Args[idx]), call, isDefer, "released through " + FuncShort(hf)})
				}
			}
			// (b) Bytes() of a reused long-lived buffer
			if f := call.Common().StaticCallee(); f != nil && MethodIs(f, "bytes", "Buffer", "Bytes") && len(call.Common().Args) == 1 {
				if k := bufFieldKey(call.Common().Args[0]); k != "" && reused[k] {
					if v, isV := call.(ssa.Value); isV {
						roots = append(roots, root{v, call, true, "the bytes of a buffer the object keeps and resets for the next call"})
					}
				}
			}
		}
		for _, r := range roots {
			nRoots++
			key := fmt.Sprintf("%s: %s", shortFn(fn), RenderN(r.v, 2))
			d := map[ssa.Value]bool{r.v: true}
			// a value loaded from a cell: the cell holds it as well
			if ld, ok := r.v.(*ssa.UnOp); ok && ld.Op == token.MUL {
				if a, isA := ld.X.(*ssa.Alloc); isA {
					d[a] = true
				}
			}
			for changed := true; changed; {
				changed = false
				mark := func(v ssa.Value) {
					if v != nil && !d[v] {
						d[v] = true
						changed = true
					}
				}
				for _, b := range fn.Blocks {
					for _, in := range b.Instrs {
						switch x := in.(type) {
						case *ssa.Slice:
							if d[x.X] {
								mark(x)
							}
						case *ssa.Phi:
							for _, e := range x.Edges {
								if d[e] {
									mark(x)
								}
							}
						case *ssa.MakeInterface:
							if d[x.X] {
								mark(x)
							}
						case *ssa.ChangeType:
							if d[x.X] {
								mark(x)
							}
						case *ssa.ChangeInterface:
							if d[x.X] {
								mark(x)
							}
						case *ssa.TypeAssert:
							if d[x.X] {
								mark(x)
							}
						case *ssa.Extract:
							if d[x.Tuple] && isRef(x.Type()) {
								mark(x)
							}
						case *ssa.FieldAddr:
							if d[x.X] {
								mark(x) // a pointer into the recycled object
							}
						case *ssa.IndexAddr:
							if d[x.X] && isRef(x.Type().(*types.Pointer).Elem()) {
								mark(x)
							}
						case *ssa.UnOp:
							if x.Op == token.MUL && d[x.X] {
								if _, isAlloc := x.X.(*ssa.Alloc); isAlloc || isRef(x.Type()) {
									mark(x)
								} else if _, isStruct := x.Type().Underlying().(*types.Struct); isStruct {
									mark(x)
								}
							}
						case *ssa.Store:
							if !d[x.Val] {
								continue
							}
							switch a := x.Addr.(type) {
							case *ssa.Alloc:
								mark(a)
							case *ssa.FieldAddr:
								if al, ok := addrBase(a).(*ssa.Alloc); ok {
									mark(al) // a struct literal / local object that now holds the memory
								}
							case *ssa.IndexAddr:
								if al, ok := addrBase(a).(*ssa.Alloc); ok {
									mark(al)
								}
							}
						case *ssa.Call:
							cc := x.Call
							f := cc.StaticCallee()
							if bi, isB := cc.Value.(*ssa.Builtin); isB {
								if bi.Name() == "append" && len(cc.Args) > 0 && d[cc.Args[0]] {
									mark(x)
								}
								continue
							}
							// methods of the recycled object that hand out part of it
							if f != nil && f.Signature.Recv() != nil && len(cc.Args) > 0 && d[cc.Args[0]] && isRef(x.Type()) && !IsErrorType(x.Type()) {
								mark(x)
							}
							if cc.IsInvoke() && d[cc.Value] && isRef(x.Type()) && !IsErrorType(x.Type()) {
								mark(x)
							}
							// wrappers that keep their argument
							if f != nil && !InRepo(f) && (FuncIs(f, "bytes", "NewBuffer") || FuncIs(f, "bytes", "NewReader") || FuncIs(f, "bufio", "NewReader") || FuncIs(f, "bufio", "NewWriter") || FuncIs(f, "bytes", "TrimSuffix") || FuncIs(f, "bytes", "TrimPrefix") || FuncIs(f, "bytes", "TrimSpace") || FuncIs(f, "bytes", "TrimRight") || FuncIs(f, "bytes", "TrimLeft") || FuncIs(f, "bytes", "Trim") || FuncIs(f, "bytes", "Fields") || FuncIs(f, "bytes", "Split")) {
								if len(cc.Args) > 0 && d[cc.Args[0]] {
									mark(x)
								}
							}
							// in-repo callees: keep the argument in another argument's object, or return it
							if f != nil && InRepo(f) && f.Blocks != nil {
								for ai, a := range cc.Args {
									if !d[a] {
										continue
									}
									rr := retains(f, ai, 0)
									if rr.returns && isRef(x.Type()) {
										mark(x)
									}
									for _, j := range rr.into {
										if j >= 0 && j < len(cc.Args) && j != ai {
											mark(cc.Args[j])
											if ld, ok := cc.Args[j].(*ssa.UnOp); ok && ld.Op == token.MUL {
												mark(ld.X)
											}
										}
									}
								}
							}
						}
					}
				}
			}
			var reach func(ssa.Instruction) bool
			if !r.deferred {
				reach = InstrReachFrom(fn, r.at, nil, nil)
			}
			bad := ""
			for _, b := range fn.Blocks {
				for _, in := range b.Instrs {
					if in == r.at {
						continue
					}
					live := r.deferred || reach(in)
					switch x := in.(type) {
					case *ssa.Return:
						if !live {
							continue
						}
						for _, rv := range RetVals(x) {
							if d[rv] && isRef(rv.Type()) {
								bad = "it (or memory inside it) is returned at " + p.InstrPos(x) + ": " + RenderN(rv, 2)
							}
						}
					case *ssa.Send:
						if d[x.X] {
							bad = "it is sent on a channel at " + p.InstrPos(x)
						}
					case *ssa.Go:
						for _, a := range x.Call.Args {
							if d[a] {
								bad = "it is handed to the goroutine started at " + p.InstrPos(x)
							}
						}
						if mc, ok := x.Call.Value.(*ssa.MakeClosure); ok {
							for _, bnd := range mc.Bindings {
								if d[bnd] {
									bad = "the goroutine started at " + p.InstrPos(x) + " captures it"
								}
							}
						}
					case *ssa.Store:
						if !d[x.Val] {
							continue
						}
						if fa, ok := x.Addr.(*ssa.FieldAddr); ok {
							switch rt := addrBase(fa).(type) {
							case *ssa.Parameter, *ssa.FreeVar, *ssa.Global:
								if !d[rt] {
									bad = "it is stored in " + RenderN(fa, 2) + " at " + p.InstrPos(x) + ", which outlives the call"
								}
							}
						}
						if g, ok := x.Addr.(*ssa.Global); ok {
							bad = "it is stored in the package variable " + g.Name() + " at " + p.InstrPos(x)
						}
					}
				}
			}
			c.Check(bad == "", rule, key, p.InstrPos(r.at), "nothing that is handed on still points into the recycled memory",
				"this value is "+r.what+", yet "+bad+". The next user of the recycled memory overwrites it while the earlier holder still reads it: "+consequence)
		}
	}
	if nRoots == 0 {
		c.Ok(rule, "no recycled memory in "+strings.Join(rels, ", "), "-", "nothing is handed to a sync.Pool and no long-lived buffer is reset for reuse there today; the rule arms itself on the first such site")
	}
}

// addrBase: the object an address points into – field and element selections stripped, then copies/cells looked through.
func addrBase(v ssa.Value) ssa.Value {
	for i := 0; i < 16; i++ {
		switch x := v.(type) {
		case *ssa.FieldAddr:
			v = x.X
		case *ssa.IndexAddr:
			v = x.X
		default:
			return c15Root(v)
		}
	}
	return v
}
