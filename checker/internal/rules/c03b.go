package rules

import (
	"fmt"
	"go/token"
	"go/types"
	"strings"

	"golang.org/x/tools/go/ssa"

	. "htcheck/internal/core"
)

// completePeerKey: k identifies the peer completely: the Addr itself or its String() (address and port, both families).
func completePeerKey(k ssa.Value, conn *ssa.Parameter, depth int) (bool, bool) { // (derived from the peer address, complete)
	if depth > 6 {
		return false, false
	}
	switch x := k.(type) {
	case *ssa.Call:
		cc := x.Common()
		if cc.IsInvoke() && cc.Method.Name() == "String" {
			if ra, ok := cc.Value.(*ssa.Call); ok && ra.Call.IsInvoke() && ra.Call.Method.Name() == "RemoteAddr" {
				return true, c15Root(ra.Call.Value) == ssa.Value(conn)
			}
		}
		if cc.IsInvoke() && cc.Method.Name() == "RemoteAddr" {
			return true, c15Root(cc.Value) == ssa.Value(conn)
		}
		// the local address is the same for every client of the port: a table keyed by it has one slot for all of them
		if cc.IsInvoke() && cc.Method.Name() == "LocalAddr" && c15Root(cc.Value) == ssa.Value(conn) {
			return true, false
		}
		// anything computed from the remote address by a helper: derived, completeness unknown
		for _, a := range cc.Args {
			if d, _ := completePeerKey(a, conn, depth+1); d {
				return true, false
			}
		}
		if cc.IsInvoke() {
			if d, _ := completePeerKey(cc.Value, conn, depth+1); d {
				return true, false
			}
		}
	case *ssa.MakeInterface:
		return completePeerKey(x.X, conn, depth+1)
	case *ssa.ChangeInterface:
		return completePeerKey(x.X, conn, depth+1)
	case *ssa.Phi:
		der, comp := false, true
		for _, e := range x.Edges {
			d, cpl := completePeerKey(e, conn, depth+1)
			der = der || d
			comp = comp && cpl
		}
		return der, der && comp
	case *ssa.UnOp, *ssa.Extract, *ssa.Field, *ssa.FieldAddr, *ssa.Convert, *ssa.TypeAssert, *ssa.BinOp, *ssa.Slice:
		for _, op := range k.(ssa.Instruction).Operands(nil) {
			if *op == nil {
				continue
			}
			if d, _ := completePeerKey(*op, conn, depth+1); d {
				return true, false
			}
		}
	}
	return false, false
}

// c03PeerKeys: state that a service keeps per peer in a map of the shared service object (tftp's pending uploads) is keyed
// by the peer. Two different peers must never map to one key: the rule accepts the keys that are complete by construction
// (conn.RemoteAddr() itself or its String(): address family, address and port) and rejects any other value computed from
// the remote address (a truncated IP, the port alone, a hash), for which injectivity cannot be established.
func c03PeerKeys(c *Ctx) {
	p := c.P
	n := 0
	for _, sv := range Services(c) {
		listed := false
		for _, nm := range sv.Names {
			for _, s := range c03Stateful {
				if nm == s {
					listed = true
				}
			}
		}
		if !listed {
			continue
		}
		conn := handleConn(sv.Handle)
		if conn == nil {
			continue
		}
		name := strings.Join(sv.Names, "/")
		for _, b := range sv.Handle.Blocks {
			for _, in := range b.Instrs {
				var m, k ssa.Value
				switch x := in.(type) {
				case *ssa.MapUpdate:
					m, k = x.Map, x.Key
				case *ssa.Lookup:
					if _, isMap := x.X.Type().Underlying().(*types.Map); isMap {
						m, k = x.X, x.Index
					}
				case *ssa.Call:
					if bi, ok := x.Call.Value.(*ssa.Builtin); ok && bi.Name() == "delete" {
						m, k = x.Call.Args[0], x.Call.Args[1]
					}
				}
				if m == nil {
					continue
				}
				fname, ok := "", false
				if ld, isLd := isLoad(m); isLd {
					if fa, isFA := ld.X.(*ssa.FieldAddr); isFA && c15Root(fa.X) == ssa.Value(sv.Handle.Params[0]) {
						fname, ok = fieldNameOf(fa), true
					}
				}
				if !ok {
					continue
				}
				derived, complete := completePeerKey(k, conn, 0)
				if !derived {
					continue
				}
				n++
				key := fmt.Sprintf("%s: key of %s.%s #%d", name, TypeKey(sv.Type), fname, n)
				c.Check(complete, "per-peer-key-complete", key, p.InstrPos(in), "conn.RemoteAddr() or its String()", "per-peer state in the shared service object is keyed by a value computed from the connection's addresses ("+RenderN(k, 4)+") that is not the remote address itself or its String(): peers whose addresses differ only in the part the key drops (bytes of a 16-byte IP) – or, for a key made from the LOCAL address, all peers of the port – share one entry, so one client's transfer is completed, answered and reported under the other's")
			}
		}
	}
	if n == 0 {
		c.Observe("per-peer-key-complete", "peer-keyed shared maps found", "-", "no map of a shared service object is indexed by a value computed from the remote address inside a Handle method (the table may have moved behind helper methods; nothing to decide here)")
	}
}

// c03LimiterState: the per-source limiter is one object per service, used by every handler goroutine at once. The
// shared-memory analysis does not look inside it (its per-source buckets live in a sync.Map, keyed by the peer), so its
// own methods are checked here: outside its constructor no method stores to a plain field of the limiter unless it holds
// a mutex of the limiter. A spare bucket kept in a field and swapped on use is handed to two new peers at once when their
// first datagrams arrive together; the two then share one allowance for good.
func c03LimiterState(c *Ctx) {
	p := c.P
	const rule = "limiter-state-synchronised"
	lt := p.Type("services", "Limiter")
	if !c.Anchor(lt != nil, rule, "services.Limiter") {
		return
	}
	n := 0
	for _, fn := range p.FuncsIn("services") {
		if fn.Blocks == nil || fn.Signature.Recv() == nil || NamedOf(fn.Signature.Recv().Type()) != lt {
			continue
		}
		n++
		bad := ""
		for _, b := range fn.Blocks {
			for _, in := range b.Instrs {
				st, ok := in.(*ssa.Store)
				if !ok {
					continue
				}
				fa, ok := st.Addr.(*ssa.FieldAddr)
				if !ok || NamedOf(fa.X.Type()) != lt {
					continue
				}
				held, _ := c01HeldAt(fn, st, true, func(mu ssa.Value) bool {
					f2, isFA := mu.(*ssa.FieldAddr)
					return isFA && NamedOf(f2.X.Type()) == lt
				})
				if !held {
					bad = "field " + fieldNameOf(fa) + " is assigned at " + p.InstrPos(st) + " without a mutex of the limiter held"
				}
			}
		}
		c.Check(bad == "", rule, shortFn(fn), p.Pos(fn.Pos()), "writes no unsynchronised field of the shared limiter", bad+": every handler goroutine of the service runs this method at once, so two peers whose first datagrams arrive together can be given the same bucket object and share one allowance from then on")
	}
	c.Floor(rule, 1, "(*Limiter).Allow")
}

// c03SharedLockNotHeldAcrossClientIO: a mutex that several sessions share by design (a *sync.Mutex handed from one
// object to its clones, or a mutex of the shared service object) may be held for the service's own bookkeeping, not while
// data is pulled from a client: `io.Copy(file, dataConn)` under such a lock runs at the pace of that client, without a
// deadline, and every other session that needs the lock gets no reply until the upload ends. Flagged: a function of the
// service packages that takes a lock through a pointer-typed mutex field (directly or through a Lock helper of the
// object) with the release deferred, and then reads to the end from a reader it was handed as a parameter.
func c03SharedLockNotHeldAcrossClientIO(c *Ctx) {
	p := c.P
	const rule = "shared-lock-not-across-client-io"
	// lock helpers: in-repo methods whose body locks a pointer-typed mutex field of the receiver
	ptrMutexLock := func(call ssa.CallInstruction) bool {
		f := call.Common().StaticCallee()
		if f == nil || PkgOf(f) != "sync" || (f.Name() != "Lock" && f.Name() != "RLock") || len(call.Common().Args) == 0 {
			return false
		}
		// receiver is a loaded pointer field (x.mu where mu is *sync.Mutex), not the address of an embedded value
		ld, ok := call.Common().Args[0].(*ssa.UnOp)
		if !ok || ld.Op != token.MUL {
			return false
		}
		_, isFA := ld.X.(*ssa.FieldAddr)
		return isFA
	}
	helpers := map[*ssa.Function]bool{}
	for _, fn := range p.FuncsIn("services") {
		if fn.Blocks == nil || fn.Signature.Recv() == nil {
			continue
		}
		for _, call := range Calls(fn) {
			if _, isDefer := call.(*ssa.Defer); !isDefer && ptrMutexLock(call) {
				hasUnlock := false
				for _, c2 := range Calls(fn) {
					if f2 := c2.Common().StaticCallee(); f2 != nil && PkgOf(f2) == "sync" && (f2.Name() == "Unlock" || f2.Name() == "RUnlock") {
						hasUnlock = true
					}
				}
				if !hasUnlock {
					helpers[fn] = true // returns with the lock held
				}
			}
		}
	}
	n := 0
	for _, fn := range p.FuncsIn("services") {
		if fn.Blocks == nil || strings.HasPrefix(RelPkg(PkgOf(fn)), "services/ja3") || strings.HasSuffix(p.Fset.Position(fn.Pos()).Filename, "_test.go") {
			continue
		}
		var acq ssa.Instruction
		for _, call := range Calls(fn) {
			if _, isDefer := call.(*ssa.Defer); isDefer {
				continue
			}
			if ptrMutexLock(call) || helpers[call.Common().StaticCallee()] {
				acq = call
			}
		}
		if acq == nil || helpers[fn] {
			continue
		}
		// the release is deferred (held to the end of the function)
		deferred := false
		for _, call := range Calls(fn) {
			if _, isDefer := call.(*ssa.Defer); isDefer {
				f := call.Common().StaticCallee()
				if f != nil && (f.Name() == "Unlock" || f.Name() == "RUnlock") {
					deferred = true
				}
			}
		}
		if !deferred {
			continue
		}
		n++
		bad := ""
		for _, call := range Calls(fn) {
			f := call.Common().StaticCallee()
			if f == nil || !before(acq, call) {
				continue
			}
			srcIdx := -1
			switch {
			case FuncIs(f, "io", "Copy"), FuncIs(f, "io", "CopyN"), FuncIs(f, "io", "CopyBuffer"):
				srcIdx = 1
			case FuncIs(f, "io/ioutil", "ReadAll"), FuncIs(f, "io", "ReadAll"), FuncIs(f, "io", "ReadFull"):
				srcIdx = 0
			}
			if srcIdx < 0 || srcIdx >= len(call.Common().Args) {
				continue
			}
			if pr, isP := c15Root(call.Common().Args[srcIdx]).(*ssa.Parameter); isP && pr.Parent() == fn {
				bad = FuncShort(f) + " from the parameter " + pr.Name() + " at " + p.InstrPos(call)
			}
		}
		c.Check(bad == "", rule, shortFn(fn), p.InstrPos(acq), "no read-to-the-end from a handed-in reader while the shared lock is held", "this function takes a lock that sessions share (a mutex reached through a pointer field) and, still holding it, runs "+bad+": the transfer is paced by that client, has no deadline, and every other session that needs the lock is answered only when it ends")
	}
	if n == 0 {
		c.Ok(rule, "services", "-", "no function of the service packages holds a pointer-shared mutex to its end today; the rule arms itself on the first one")
	}
}
