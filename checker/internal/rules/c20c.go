package rules

import (
	"fmt"
	"go/token"
	"go/types"

	. "htcheck/internal/core"

	"golang.org/x/tools/go/ssa"
)

// c20DecoderByDestination (rule decoder-by-destination-port): a datagram is a probe of the port it is addressed TO. The
// raw listener hands it to a protocol decoder instead of queueing a knock only when that destination port has a
// decoder. A decoder table consulted with the SOURCE port as well takes every probe sent from port 53/123/161/… out of
// port-scan detection, whatever port it was aimed at (nmap -g 53).
func c20DecoderByDestination(c *Ctx) {
	const rule = "decoder-by-destination-port"
	c.Explanation += " Decoder tables are consulted with the destination port only."
	p := c.P
	isDecoderTable := func(t types.Type) bool {
		m, ok := t.Underlying().(*types.Map)
		if !ok {
			return false
		}
		if b, ok := m.Key().Underlying().(*types.Basic); !ok || b.Kind() != types.Uint16 {
			return false
		}
		_, isF := m.Elem().Underlying().(*types.Signature)
		return isF
	}
	var fieldOf func(v ssa.Value, d int) []string
	fieldOf = func(v ssa.Value, d int) []string {
		if d > 4 {
			return []string{"?"}
		}
		switch x := v.(type) {
		case *ssa.UnOp:
			if x.Op == token.MUL {
				if fa, ok := x.X.(*ssa.FieldAddr); ok {
					return []string{fieldNameOf(fa)}
				}
			}
		case *ssa.Phi:
			var out []string
			for _, e := range x.Edges {
				out = append(out, fieldOf(e, d+1)...)
			}
			return out
		case *ssa.Parameter:
			var out []string
			fn := x.Parent()
			idx := paramIdx(x)
			for _, g := range p.FuncsIn(canaryRel) {
				for _, call := range Calls(g) {
					if call.Common().StaticCallee() == fn && idx >= 0 && idx < len(call.Common().Args) {
						out = append(out, fieldOf(call.Common().Args[idx], d+1)...)
					}
				}
			}
			if len(out) == 0 {
				return []string{"?"}
			}
			return out
		}
		return []string{"?"}
	}
	n := 0
	for _, fn := range p.FuncsIn(canaryRel) {
		for _, b := range fn.Blocks {
			for _, in := range b.Instrs {
				lk, ok := in.(*ssa.Lookup)
				if !ok || !isDecoderTable(lk.X.Type()) {
					continue
				}
				n++
				bad := ""
				for _, f := range fieldOf(lk.Index, 0) {
					if f != "Destination" {
						bad = f
					}
				}
				c.Check(bad == "", rule, fmt.Sprintf("%s decoder lookup #%d", shortFn(fn), n), p.InstrPos(lk), "keyed by the datagram's destination port", "the decoder table is consulted with `"+RenderN(lk.Index, 3)+"` (field "+bad+"), not with the destination port alone: a probe sent FROM a port that has a decoder is decoded instead of being queued as a knock, so a scan with a fixed well-known source port is not reported")
			}
		}
	}
	c.Ok(rule, "decoder table lookups", "-", fmt.Sprintf("%d examined", n))
}
