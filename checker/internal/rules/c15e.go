package rules

import (
	"fmt"
	"go/token"
	"go/types"

	"golang.org/x/tools/go/ssa"

	. "htcheck/internal/core"
)

// allFuncs: fn and every function literal nested in it.
func allFuncs(fn *ssa.Function) []*ssa.Function {
	out := []*ssa.Function{fn}
	for _, a := range fn.AnonFuncs {
		out = append(out, allFuncs(a)...)
	}
	return out
}

// cellStores: every value stored into local cell a by its function or the closures that capture it.
func cellStores(a *ssa.Alloc) []ssa.Value {
	var out []ssa.Value
	var visit func(cell ssa.Value)
	visit = func(cell ssa.Value) {
		for _, r := range *cell.Referrers() {
			switch x := r.(type) {
			case *ssa.Store:
				if x.Addr == cell {
					out = append(out, x.Val)
				}
			case *ssa.MakeClosure:
				if fn, ok := x.Fn.(*ssa.Function); ok {
					for i, b := range x.Bindings {
						if b == cell && i < len(fn.FreeVars) {
							visit(fn.FreeVars[i])
						}
					}
				}
			}
		}
	}
	visit(a)
	return out
}

func cellOfLoad(v ssa.Value) *ssa.Alloc {
	ld, ok := isLoad(v)
	if !ok {
		return nil
	}
	cell := ld.X
	for i := 0; i < 4; i++ {
		fv, ok := cell.(*ssa.FreeVar)
		if !ok {
			break
		}
		b := freeVarBinding(fv)
		if b == nil {
			break
		}
		cell = b
	}
	a, _ := cell.(*ssa.Alloc)
	return a
}

func c15SSH(c *Ctx, pxs []*c15Proxier) {
	p := c.P
	var px *c15Proxier
	for _, q := range pxs {
		if PkgOf(q.sv.Handle) == ModPath+"/services/ssh" {
			px = q
		}
	}
	if !c.Anchor(px != nil, "ssh-credentials", "the ssh proxy service") {
		return
	}
	h := px.sv.Handle
	// the handler, its function literals and the helpers of the package it calls (closures may have become methods)
	fns := allFuncs(h)
	{
		seenF := map[*ssa.Function]bool{}
		for _, f := range fns {
			seenF[f] = true
		}
		for _, f := range px.reach {
			for _, g := range allFuncs(f) {
				if !seenF[g] {
					seenF[g] = true
					fns = append(fns, g)
				}
			}
		}
	}

	// ----- A. credentials
	var ncc *ssa.Call
	var cb *ssa.Function
	for _, fn := range fns {
		for _, call := range Calls(fn) {
			if CalleeIs(call, "golang.org/x/crypto/ssh", "NewClientConn") {
				ncc, _ = call.(*ssa.Call)
				cb = fn
			}
		}
	}
	if c.Anchor(ncc != nil && len(cb.Params) == 2, "ssh-credentials", "ssh.NewClientConn inside the password callback") {
		pos := p.InstrPos(ncc)
		c.Check(px.leg(ncc.Call.Args[0], 0) == legBackend, "ssh-credentials", "backend ssh client runs over the dialled connection", pos, "", "the backend SSH handshake does not run over the connection the director dialled: "+Render(ncc.Call.Args[0]))
		cfg, _ := ncc.Call.Args[2].(*ssa.Alloc)
		// the configuration may be built by a helper from its arguments (backendClientConfig(cm.User(), string(password)))
		subst := func(v ssa.Value) ssa.Value { return v }
		if hc, isCall := ncc.Call.Args[2].(*ssa.Call); isCall && cfg == nil {
			if hf := hc.Call.StaticCallee(); hf != nil && InRepo(hf) && hf.Blocks != nil && len(Returns(hf)) == 1 {
				if a, isA := RetVals(Returns(hf)[0])[0].(*ssa.Alloc); isA {
					cfg = a
					subst = func(v ssa.Value) ssa.Value {
						if pr, ok := v.(*ssa.Parameter); ok && pr.Parent() == hf {
							if i := paramIdx(pr); i >= 0 && i < len(hc.Call.Args) {
								return hc.Call.Args[i]
							}
						}
						return v
					}
				}
			}
		}
		userOK, authOK := false, false
		if cfg != nil {
			for _, r := range *cfg.Referrers() {
				fa, ok := r.(*ssa.FieldAddr)
				if !ok {
					continue
				}
				for _, r2 := range *fa.Referrers() {
					st, ok := r2.(*ssa.Store)
					if !ok || st.Addr != ssa.Value(fa) {
						continue
					}
					switch fieldNameOf(fa) {
					case "User":
						if uc, ok := subst(st.Val).(*ssa.Call); ok && uc.Call.IsInvoke() && uc.Call.Method.Name() == "User" && uc.Call.Value == ssa.Value(cb.Params[0]) {
							userOK = true
						} else {
							userOK = false
						}
					case "Auth":
						els := variadicArgs(st.Val)
						if len(els) == 1 {
							if pc, ok := els[0].(*ssa.Call); ok && CalleeIs(pc, "golang.org/x/crypto/ssh", "Password") {
								if cv, ok := subst(pc.Call.Args[0]).(*ssa.Convert); ok && cv.X == ssa.Value(cb.Params[1]) {
									authOK = true
								}
							}
						}
					}
				}
			}
		}
		c.Check(userOK, "ssh-credentials", "backend login user", pos, "the user name the client presented (cm.User())", "the backend login does not use the user name the client presented")
		c.Check(authOK, "ssh-credentials", "backend login password", pos, "exactly the password the client presented", "the backend login does not use exactly the password the client presented")
		// the callback accepts iff the backend accepted
		var dialErr, nccErr ssa.Value
		for _, r := range *ncc.Referrers() {
			if ex, ok := r.(*ssa.Extract); ok && ex.Index == 3 {
				nccErr = ex
			}
		}
		if ex, ok := c15Root(ncc.Call.Args[0]).(*ssa.Extract); ok {
			for _, r := range *ex.Tuple.Referrers() {
				if e2, ok := r.(*ssa.Extract); ok && e2.Index == 1 {
					dialErr = e2
				}
			}
		}
		okRet := true
		for _, r := range Returns(cb) {
			rv := RetVals(r)
			e := rv[len(rv)-1]
			if e != dialErr && e != nccErr {
				okRet = false
			}
		}
		c.Check(okRet && nccErr != nil, "ssh-credentials", "client is accepted iff the backend login succeeded", p.Pos(cb.Pos()), "every return of the callback yields the dial or backend-handshake error", "the password callback can accept or reject independently of the backend's answer")
	}
	// the `client` cell only ever holds the client over that handshake
	var open *ssa.Call
	for _, call := range Calls(h) {
		if cc := call.Common(); cc.IsInvoke() && cc.Method.Name() == "OpenChannel" {
			open, _ = call.(*ssa.Call)
		}
	}
	if c.Anchor(open != nil, "ssh-channel-relay", "OpenChannel on the backend client") {
		okClient := false
		if x, ok := isFieldLoadNamed(open.Call.Value, "Conn"); ok {
			if a := cellOfLoad(x); a != nil {
				vals := cellStores(a)
				okClient = len(vals) >= 1
				for _, v := range vals {
					nc, ok := v.(*ssa.Call)
					if !ok || !CalleeIs(nc, "golang.org/x/crypto/ssh", "NewClient") {
						okClient = false
						continue
					}
					ex, ok := nc.Call.Args[0].(*ssa.Extract)
					if !ok || ex.Tuple != ssa.Value(ncc) {
						okClient = false
					}
				}
			}
		}
		c.Check(okClient, "ssh-channel-relay", "channels are opened on the backend session of this connection", p.InstrPos(open), "client = ssh.NewClient over the dialled connection's handshake", "OpenChannel is not invoked on the SSH client built over this connection's backend handshake")
		// arguments: type and extra data of the very channel request being served
		a0, ok0 := open.Call.Args[0].(*ssa.Call)
		a1, ok1 := open.Call.Args[1].(*ssa.Call)
		argsOK := ok0 && ok1 && a0.Call.IsInvoke() && a1.Call.IsInvoke() && a0.Call.Method.Name() == "ChannelType" && a1.Call.Method.Name() == "ExtraData" && a0.Call.Value == a1.Call.Value
		var nc ssa.Value
		if argsOK {
			nc = a0.Call.Value
			// nc is received from the server connection's channel stream
			argsOK = false
			if ex, ok := nc.(*ssa.Extract); ok && ex.Index == 0 {
				if rcv, ok := ex.Tuple.(*ssa.UnOp); ok && rcv.Op == token.ARROW {
					if ce, ok := rcv.X.(*ssa.Extract); ok && ce.Index == 1 {
						if sc, ok := ce.Tuple.(*ssa.Call); ok && CalleeIs(sc, "golang.org/x/crypto/ssh", "NewServerConn") && px.leg(sc.Call.Args[0], 0) == legClient {
							argsOK = true
						}
					}
				}
			}
		}
		c.Check(argsOK, "ssh-channel-relay", "backend channel mirrors the client's channel request", p.InstrPos(open), "OpenChannel(newChannel.ChannelType(), newChannel.ExtraData())", "the backend channel is not opened with the type and extra data of the client's channel request")
		// the accepted channel is the same request's
		for _, call := range Calls(h) {
			if cc := call.Common(); cc.IsInvoke() && cc.Method.Name() == "Accept" {
				c.Check(nc != nil && cc.Value == nc, "ssh-channel-relay", "accepted channel belongs to the same request", p.InstrPos(call), "", "Accept is called on a different channel request than the one mirrored to the backend")
			}
		}
	}

	// ----- C. requests
	nReq := 0
	dirs := map[[2]int]int{}
	for _, fn := range fns {
		for _, call := range Calls(fn) {
			cc := call.Common()
			if !cc.IsInvoke() || cc.Method.Name() != "SendRequest" || len(cc.Args) != 3 {
				continue
			}
			nReq++
			key := "SendRequest in " + shortFn(fn)
			var req ssa.Value
			ok := true
			for i, name := range []string{"Type", "WantReply", "Payload"} {
				x, isF := isFieldLoadNamed(cc.Args[i], name)
				if !isF || (req != nil && x != req) {
					ok = false
					break
				}
				req = x
			}
			var inParam *ssa.Parameter
			if ok {
				ok = false
				if ex, isE := req.(*ssa.Extract); isE && ex.Index == 0 {
					if rcv, isR := ex.Tuple.(*ssa.UnOp); isR && rcv.Op == token.ARROW {
						if pr, isP := rcv.X.(*ssa.Parameter); isP {
							inParam, ok = pr, true
						}
					}
				}
			}
			c.Check(ok, "ssh-request-relay", key+": forwarded unchanged", p.InstrPos(call), "SendRequest(req.Type, req.WantReply, req.Payload) of the received request", "the forwarded request is not built from the type, want-reply flag and payload of the request just received")
			dstParam, _ := cc.Value.(*ssa.Parameter)
			// the reply carries the peer's answer
			nRep := 0
			for _, c2 := range Calls(fn) {
				if f := c2.Common().StaticCallee(); f != nil && f.Name() == "Reply" && PkgOf(f) == "golang.org/x/crypto/ssh" {
					nRep++
					a := c2.Common().Args
					okR := a[0] == req
					if ex, isE := a[1].(*ssa.Extract); !isE || ex.Index != 0 || ex.Tuple != call.Value() {
						okR = false
					}
					c.Check(okR, "ssh-request-relay", key+": reply carries the peer's answer", p.InstrPos(c2), "req.Reply(<result of SendRequest>, …)", "the reply to the requester is not the answer the other side gave")
				}
			}
			c.Check(nRep == 1, "ssh-request-relay", key+": one reply per request", p.Pos(fn.Pos()), "", fmt.Sprintf("%d Reply calls", nRep))
			// recorded: every path from the forward to the next receive / return passes an event (the forward's own failure excepted)
			errV := errOf(call)
			allow := func(b *ssa.BasicBlock, i int) bool {
				iff, isIf := b.Instrs[len(b.Instrs)-1].(*ssa.If)
				if !isIf || errV == nil {
					return true
				}
				bo, isB := iff.Cond.(*ssa.BinOp)
				if !isB || (bo.X != errV && bo.Y != errV) {
					return true
				}
				return i != 0
			}
			reach := InstrReachFrom(fn, call, allow, isChannelSend)
			rec := !reach(call)
			for _, r := range Returns(fn) {
				if reach(r) {
					rec = false
				}
			}
			c.Check(rec, "relay-recorded", "ssh-proxy: "+key, p.InstrPos(call), "every forwarded request passes an event emission before the next one is read", "a request can be forwarded to the peer without any event being emitted for it")
			// call sites: requests of one side go to the channel of the other
			if inParam == nil || dstParam == nil {
				continue
			}
			for _, g := range fns {
				for _, site := range Calls(g) {
					sc := site.Common()
					ii, di := paramIdx(inParam), paramIdx(dstParam)
					if sc.IsInvoke() || c15FuncOf(sc.Value) != fn || ii < 0 || di < 0 || ii >= len(sc.Args) || di >= len(sc.Args) {
						continue
					}
					from, to := px.leg(sc.Args[ii], 0), px.leg(sc.Args[di], 0)
					dirs[[2]int{from, to}]++
					okS := from != legUnknown && to == otherLeg(from)
					c.Check(okS, "ssh-request-relay", fmt.Sprintf("request pump %s → %s", legName(from), legName(to)), p.InstrPos(site), "", "a request pump does not connect one side's request stream to the other side's channel")
				}
			}
		}
	}
	c.Check(nReq >= 1 && dirs[[2]int{legClient, legBackend}] == 1 && dirs[[2]int{legBackend, legClient}] == 1, "ssh-request-relay", "one request pump per direction", p.Pos(h.Pos()), "", fmt.Sprintf("expected exactly one request pump per direction, found %v", dirs))

	// ----- D. data
	cdirs := map[[2]int]int{}
	for _, fn := range fns {
		for _, call := range Calls(fn) {
			if !CalleeIs(call, "io", "Copy") {
				continue
			}
			dp, ok1 := c15Root(call.Common().Args[0]).(*ssa.Parameter)
			sp, ok2 := c15Root(call.Common().Args[1]).(*ssa.Parameter)
			if !c.Check(ok1 && ok2 && dp.Parent() == fn && sp.Parent() == fn && dp != sp, "ssh-data-relay", "io.Copy in "+shortFn(fn), p.InstrPos(call), "copies its source parameter to its destination parameter", "the channel copier does not copy its source to its destination") {
				continue
			}
			di, si := paramIdx(dp), paramIdx(sp)
			for _, g := range fns {
				for _, site := range Calls(g) {
					sc := site.Common()
					if sc.IsInvoke() || c15FuncOf(sc.Value) != fn || len(sc.Args) <= di || len(sc.Args) <= si {
						continue
					}
					to, from := px.leg(sc.Args[di], 0), px.leg(sc.Args[si], 0)
					cdirs[[2]int{from, to}]++
					c.Check(from != legUnknown && to == otherLeg(from), "ssh-data-relay", fmt.Sprintf("data pump %s → %s", legName(from), legName(to)), p.InstrPos(site), "", "a data pump does not connect one side's channel to the other side's")
				}
			}
		}
	}
	c.Check(cdirs[[2]int{legClient, legBackend}] == 1 && cdirs[[2]int{legBackend, legClient}] == 1, "ssh-data-relay", "one data pump per direction", p.Pos(h.Pos()), "", fmt.Sprintf("expected exactly one data pump per direction, found %v", cdirs))

	// ----- E. the recorder passes bytes through
	for _, m := range []string{"Read", "Write"} {
		fn := p.Method("services/ssh", "TypeWriterReadWriteCloser", m)
		if !c.Anchor(fn != nil, "ssh-recorder-passthrough", "TypeWriterReadWriteCloser."+m) {
			continue
		}
		buf := fn.Params[1]
		var inner *ssa.Call
		bad := ""
		for _, call := range Calls(fn) {
			cc := call.Common()
			if cc.IsInvoke() && cc.Method.Name() == m && len(cc.Args) == 1 && cc.Args[0] == ssa.Value(buf) {
				if _, isEmb := isFieldLoadNamed(cc.Value, "ReadWriteCloser"); isEmb {
					if inner != nil {
						bad = "the wrapped stream's " + m + " is called more than once per call"
					}
					inner, _ = call.(*ssa.Call)
					continue
				}
			}
			for _, a := range cc.Args {
				if a == ssa.Value(buf) {
					bad = "the caller's buffer is handed to " + calleeLabel(call) + ", which may modify it"
				}
			}
		}
		for _, r := range *buf.Referrers() {
			if ia, ok := r.(*ssa.IndexAddr); ok {
				for _, r2 := range *ia.Referrers() {
					if st, ok := r2.(*ssa.Store); ok && st.Addr == ssa.Value(ia) {
						bad = "the recorder writes into the relayed buffer at " + p.InstrPos(st)
					}
				}
			}
		}
		if bad == "" {
			// re-slices of the buffer (p[:n]) handed on or filtered in place
			if w := writesThroughSlice(p, fn, buf, inner, 0); w != "" {
				bad = "the recorder modifies the relayed buffer: " + w
			}
		}
		if inner == nil && bad == "" {
			bad = "the wrapped stream's " + m + " is not called with the caller's buffer"
		}
		if bad == "" {
			for _, r := range Returns(fn) {
				rv := RetVals(r)
				for i, v := range rv {
					ex, ok := v.(*ssa.Extract)
					if !ok || ex.Tuple != ssa.Value(inner) || ex.Index != i {
						bad = "the count/error returned is not the wrapped stream's (" + Render(v) + ")"
					}
				}
			}
		}
		c.Check(bad == "", "ssh-recorder-passthrough", "TypeWriterReadWriteCloser."+m, p.Pos(fn.Pos()), "returns the wrapped stream's result for the caller's untouched buffer", bad+": relayed channel data would differ from what the backend sent")
	}

	// ----- F. the session event carries the recording of the relayed stream
	nRec := 0
	for _, call := range Calls(h) {
		if !CalleeIs(call, ModPath+"/event", "New") {
			continue
		}
		cv, _ := call.(*ssa.Call)
		if cv == nil {
			continue
		}
		v, ok := eventOptions(cv)["ssh.recording"]
		if !ok {
			continue
		}
		nRec++
		okR := false
		if sc, isC := Unwrap(v).(*ssa.Call); isC {
			if f := sc.Call.StaticCallee(); f != nil && f.Name() == "String" && len(sc.Call.Args) == 1 {
				// the recorder must be the source of the backend→client pump
				rec := sc.Call.Args[0]
				for _, site := range Calls(h) {
					for _, a := range site.Common().Args {
						if c15Root(a) == rec && !site.Common().IsInvoke() && c15FuncOf(site.Common().Value) != nil {
							okR = true
						}
					}
				}
			}
		}
		c.Check(okR, "ssh-recording", "ssh.recording option", p.InstrPos(call), "String() of the recorder the backend→client data is pumped through", "the session event's recording is not taken from the recorder that the relayed data passes through")
	}
	c.Check(nRec == 1, "ssh-recording", "session event has a recording", p.Pos(h.Pos()), "", fmt.Sprintf("%d events with ssh.recording", nRec))
	_ = types.Typ
}

// c15FuncOf: the function a call value denotes (function, closure, or a local holding one closure).
func c15FuncOf(v ssa.Value) *ssa.Function {
	switch x := c15Root(v).(type) {
	case *ssa.Function:
		return x
	case *ssa.MakeClosure:
		f, _ := x.Fn.(*ssa.Function)
		return f
	}
	return nil
}

func paramIdx(pr *ssa.Parameter) int {
	for i, q := range pr.Parent().Params {
		if q == pr {
			return i
		}
	}
	return -1
}
