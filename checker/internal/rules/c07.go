package rules

import (
	"fmt"
	"go/token"
	"go/types"
	"strings"

	"golang.org/x/tools/go/ssa"

	. "htcheck/internal/core"
)

func init() { Registry["C07"] = c07 }

const fileRel = "pushers/file"

func c07(c *Ctx) {
	c.Explanation = "Static necessary-condition checks of the file channel for all line-length sequences, rotation moments and faults. Decided: (1) sending cannot block forever – the single goroutine receiving from the " +
		"unbuffered request channel is started on every successful construction and each of its returns is dominated by the channel-closed outcome of the receive; (2) rotation never overwrites – the new name given to os.Rename " +
		"is dominated by a failed existence probe (os.Stat/Lstat error) of that same name; (3) a vanished path is re-opened – every file write in rotateFile.Write is reachable only through a successful stat probe or the reopen call; " +
		"(4) no byte of a batch is dropped – every re-slice p = p[a:] advances by exactly the length of a prefix that was handed to the file's Write (or by one more under p[a-1]=='\\n'); (5) splits happen only at line boundaries – " +
		"every prefix written inside the rotation loop ends right after a newline found by (Last)IndexByte(…,'\\n')+1 (or is empty / guarded by p[j]=='\\n'). " +
		"NOT decided (run-time arithmetic): exactly-once across all boundary alignments, the size bound, flush timing."
	c.Assume("os.Rename/os.Lstat/os.File.Write behave as documented; one writer goroutine per FileBackend")
	c07Sender(c)
	c07Rotate(c)
	c07Write(c)
	c07WholeLineBatches(c)
	c07NewFileAfterSplit(c)
	c07PositionIsFileSize(c)
	c07DescriptorKept(c)
}

func c07Sender(c *Ctx) {
	p := c.P
	fb := p.Type(fileRel, "FileBackend")
	newFn := p.Func(fileRel, "New")
	if !c.Anchor(fb != nil && newFn != nil, "sender-never-blocks", "file.FileBackend / file.New") {
		return
	}
	// the request channel: the backend's only channel-typed field
	reqField := fieldByType(fb, func(t types.Type) bool { _, isChan := t.Underlying().(*types.Chan); return isChan })
	if !c.Anchor(reqField != "", "sender-never-blocks", "FileBackend's channel field") {
		return
	}
	isReq := func(v ssa.Value) bool {
		_, ok := isFieldLoadNamed(v, reqField)
		return ok
	}
	// consumers: functions receiving from .request
	var consumers []*ssa.Function
	type recvSite struct {
		fn  *ssa.Function
		okV func(dc Cond) bool // recognises "channel closed" condition
		in  ssa.Instruction
	}
	var sites []recvSite
	for _, fn := range p.FuncsIn(fileRel) {
		for _, b := range fn.Blocks {
			for _, in := range b.Instrs {
				switch x := in.(type) {
				case *ssa.Select:
					for i, st := range x.States {
						if st.Dir == 2 /* types.RecvOnly */ && isReq(st.Chan) {
							idx := i
							sel := x
							sites = append(sites, recvSite{fn: fn, in: x, okV: func(dc Cond) bool {
								// recvOk extract (#1) false, with the select index == idx on the path is implied by reading ok of that case
								if ex, ok := dc.V.(*ssa.Extract); ok && ex.Tuple == ssa.Value(sel) && ex.Index == 1 && !dc.Pol {
									_ = idx
									return true
								}
								return false
							}})
							consumers = append(consumers, fn)
						}
					}
				case *ssa.UnOp:
					if x.Op == token.ARROW && isReq(x.X) {
						u := x
						sites = append(sites, recvSite{fn: fn, in: x, okV: func(dc Cond) bool {
							if ex, ok := dc.V.(*ssa.Extract); ok && ex.Tuple == ssa.Value(u) && ex.Index == 1 && !dc.Pol {
								return true
							}
							return false
						}})
						consumers = append(consumers, fn)
					}
				}
			}
		}
	}
	if !c.Check(len(sites) == 1, "sender-never-blocks", "single consumer of the request channel", p.Pos(newFn.Pos()), "", fmt.Sprintf("expected exactly one receive site on FileBackend.request, found %d", len(sites))) {
		return
	}
	s := sites[0]
	for i, r := range Returns(s.fn) {
		ok := false
		for _, dc := range DomConds(r) {
			if s.okV(dc) {
				ok = true
			}
		}
		c.Check(ok, "sender-never-blocks", fmt.Sprintf("%s return[%d]", shortFn(s.fn), i), p.InstrPos(r), "returns only after the request channel was closed", "the only goroutine that receives from the unbuffered request channel can return while the channel is still open (e.g. after a failed open): every later Send blocks forever")
	}
	// the receive is in a loop
	c.Check(InLoop(s.in.Block()), "sender-never-blocks", "consumer loops", p.InstrPos(s.in), "", "the consumer receives only once")
	// the consumer waits nowhere else: any other blocking channel operation in its loop (a bare receive from a timer that
	// may have been stopped and drained, a send) can park the only receiver of the unbuffered request channel for good
	nwait := 0
	for _, b := range s.fn.Blocks {
		if !InLoop(b) {
			continue
		}
		for _, in := range b.Instrs {
			if in == s.in {
				continue
			}
			what := ""
			switch x := in.(type) {
			case *ssa.UnOp:
				if x.Op == token.ARROW {
					// the drain of a reused timer (`if !t.Stop() { <-t.C }`) completes iff a value is still to come
					if tm := timerOfC(x.X); tm != nil && timerLiveAt(s.fn, tm, x) {
						c.Ok("sender-never-blocks", fmt.Sprintf("%s drains its timer at %s", shortFn(s.fn), p.InstrPos(x)), p.InstrPos(x), "on every path to this receive the timer is armed or has fired without having been drained")
						continue
					}
					what = "receives from " + RenderN(x.X, 2)
				}
			case *ssa.Send:
				what = "sends on " + RenderN(x.Chan, 2)
			case *ssa.Select:
				if x.Blocking {
					what = "selects without the request channel"
				}
			}
			if what != "" {
				nwait++
				c.Violate("sender-never-blocks", fmt.Sprintf("%s waits elsewhere #%d", shortFn(s.fn), nwait), p.InstrPos(in), "besides its select on the request channel the writer goroutine "+what+" and blocks there: on a path where nothing can complete that operation (e.g. a timer that was stopped and drained and is not re-armed) it never returns to the request channel and every later Send blocks forever")
			}
		}
	}
	if nwait == 0 {
		c.Ok("sender-never-blocks", shortFn(s.fn)+" waits only on the request channel's select", p.InstrPos(s.in), "no other blocking channel operation in the writer loop")
	}
	// started on every successful New: a `go consumer` dominates each return with a non-nil channel
	var goes []*ssa.Go
	for _, call := range Calls(newFn) {
		if g, ok := call.(*ssa.Go); ok && g.Call.StaticCallee() == s.fn {
			goes = append(goes, g)
		}
	}
	for i, r := range Returns(newFn) {
		if IsNilConst(RetVals(r)[0]) {
			continue
		}
		ok := false
		for _, g := range goes {
			if g.Block().Dominates(r.Block()) {
				ok = true
			}
		}
		c.Check(ok, "sender-never-blocks", fmt.Sprintf("New return[%d] starts the writer", i), p.InstrPos(r), "", "New can return a channel without having started the goroutine that drains it")
	}
	// senders: plain sends on request are fine given the consumer never exits; a send in a select with default would drop events
	for _, fn := range p.FuncsIn(fileRel) {
		for _, b := range fn.Blocks {
			for _, in := range b.Instrs {
				if sel, ok := in.(*ssa.Select); ok {
					for _, st := range sel.States {
						if st.Dir == 1 /* SendOnly */ && isReq(st.Chan) && !sel.Blocking {
							c.Violate("sender-never-blocks", shortFn(fn)+" non-blocking send", p.InstrPos(sel), "events are dropped when the writer is busy (select with default on the request channel)")
						}
					}
				}
			}
		}
	}
}

// probedAbsent: at instruction `at` it is known that an os.Stat/Lstat of exactly the name v has just failed.
func probedAbsent(v ssa.Value, at ssa.Instruction) bool {
	for _, dc := range DomConds(at) {
		// the probe behind a predicate: `for exists(name) { name = … }` – exists(name) is known false here
		if hc, pol := condCall(dc); hc != nil && !pol && len(hc.Call.Args) == 1 && hc.Call.Args[0] == v && existsPredicate(hc.Call.StaticCallee()) {
			return true
		}
		b, isB := dc.V.(*ssa.BinOp)
		var errV ssa.Value
		probeFailed := false
		if isB && IsNilConst(b.Y) {
			errV = b.X
			probeFailed = (b.Op == token.NEQ && dc.Pol) || (b.Op == token.EQL && !dc.Pol)
		} else if pc, isC := dc.V.(*ssa.Call); isC && FuncIs(pc.Call.StaticCallee(), "os", "IsNotExist") && dc.Pol {
			errV = pc.Call.Args[0]
			probeFailed = true
		}
		if !probeFailed || errV == nil {
			continue
		}
		ex, isE := errV.(*ssa.Extract)
		if !isE || ex.Index != 1 {
			continue
		}
		probe, isC := ex.Tuple.(*ssa.Call)
		if !isC {
			continue
		}
		pf := probe.Call.StaticCallee()
		if pf == nil || !(FuncIs(pf, "os", "Stat") || FuncIs(pf, "os", "Lstat")) {
			continue
		}
		if probe.Call.Args[0] == v {
			return true
		}
	}
	return false
}

func c07Rotate(c *Ctx) {
	p := c.P
	n := 0
	for _, fn := range p.FuncsIn(fileRel) {
		for _, call := range Calls(fn) {
			f := call.Common().StaticCallee()
			if f == nil || !FuncIs(f, "os", "Rename") {
				continue
			}
			n++
			newName := call.Common().Args[1]
			ok := probedAbsent(newName, call)
			if !ok {
				// the name may come from a helper: then every value the helper returns must have just failed its probe there
				if hc, isC := newName.(*ssa.Call); isC {
					if hf := hc.Call.StaticCallee(); hf != nil && InRepo(hf) && hf.Blocks != nil && len(Returns(hf)) > 0 {
						ok = true
						for _, r := range Returns(hf) {
							rv := RetVals(r)
							if len(rv) != 1 || !probedAbsent(rv[0], r) {
								ok = false
							}
						}
					}
				}
			}
			c.Check(ok, "rotated-name-unique", shortFn(fn)+" os.Rename target", p.InstrPos(call), "rename only onto a name whose existence probe just failed", "the active log file is renamed onto a name that was not probed for existence (`"+RenderN(newName, 3)+"`): a name built from a second-resolution timestamp repeats when two rotations fall into the same second and the earlier rotated file is overwritten")
			c.Check(Render(call.Common().Args[0]) == "p0.path", "rotated-name-unique", shortFn(fn)+" os.Rename source", p.InstrPos(call), "", "the file renamed away is not the active log path")
		}
	}
	c.Check(n == 1, "rotated-name-unique", "rename sites", "-", "", fmt.Sprintf("expected one os.Rename in the file channel, found %d", n))
	// rotate reopens the path afterwards (fresh file, pos reset)
	rot := p.Method(fileRel, "rotateFile", "rotate")
	reopen := p.Method(fileRel, "rotateFile", "reopen")
	if c.Anchor(rot != nil && reopen != nil, "rotated-name-unique", "rotateFile.rotate/reopen") {
		ok := false
		for _, r := range Returns(rot) {
			if call, isC := RetVals(r)[0].(*ssa.Call); isC && call.Call.StaticCallee() == reopen {
				ok = true
			}
		}
		c.Check(ok, "rotate-reopens", "rotate ends with reopen", p.Pos(rot.Pos()), "", "rotate does not continue with a freshly opened file")
		// the written-bytes counter: the integer field Write advances (field += n), whatever it is called
		posField := "pos"
		if wr := p.Method(fileRel, "rotateFile", "Write"); wr != nil {
			for _, b := range wr.Blocks {
				for _, in := range b.Instrs {
					if st, isS := in.(*ssa.Store); isS {
						if fa, isF := st.Addr.(*ssa.FieldAddr); isF && fa.X == ssa.Value(wr.Params[0]) {
							if bo, isB := st.Val.(*ssa.BinOp); isB && bo.Op == token.ADD {
								if _, same := isFieldLoadNamed(bo.X, fieldNameOf(fa)); same {
									posField = fieldNameOf(fa)
								}
							}
						}
					}
				}
			}
		}
		posReset := false
		for _, b := range reopen.Blocks {
			for _, in := range b.Instrs {
				if st, isS := in.(*ssa.Store); isS {
					if fa, isF := st.Addr.(*ssa.FieldAddr); isF && fieldNameOf(fa) == posField {
						if k, isC := ConstInt(st.Val); isC && k == 0 {
							posReset = true
						}
					}
				}
			}
		}
		c.Check(posReset, "rotate-reopens", "reopen resets the position", p.Pos(reopen.Pos()), "", "reopen does not reset the written-bytes counter")
	}
}

func c07Write(c *Ctx) {
	p := c.P
	w := p.Method(fileRel, "rotateFile", "Write")
	if !c.Anchor(w != nil, "write", "(*file.rotateFile).Write") {
		return
	}
	par := w.Params[1]
	// values that are (suffixes of) the batch: phi web over par and Slices with High==nil
	isBatch := map[ssa.Value]bool{par: true}
	changed := true
	for changed {
		changed = false
		for _, b := range w.Blocks {
			for _, in := range b.Instrs {
				switch x := in.(type) {
				case *ssa.Phi:
					if !isBatch[x] {
						for _, e := range x.Edges {
							if isBatch[e] {
								isBatch[x] = true
								changed = true
							}
						}
					}
				case *ssa.Slice:
					if !isBatch[x] && isBatch[x.X] && x.High == nil && x.Max == nil {
						isBatch[x] = true
						changed = true
					}
				}
			}
		}
	}
	// file writes
	type fw struct {
		call *ssa.Call
		base ssa.Value
		high ssa.Value // nil = whole
	}
	var writes []fw
	for _, call := range Calls(w) {
		cv, ok := call.(*ssa.Call)
		if !ok || !MethodIs(cv.Call.StaticCallee(), "os", "File", "Write") {
			continue
		}
		arg := cv.Call.Args[1]
		if sl, ok := arg.(*ssa.Slice); ok && isBatch[sl.X] && sl.Low == nil {
			writes = append(writes, fw{cv, sl.X, sl.High})
		} else if isBatch[arg] {
			writes = append(writes, fw{cv, arg, nil})
		} else {
			c.Violate("no-dropped-bytes", "file write of foreign bytes", p.InstrPos(cv), "a file write does not write a prefix of the batch: "+Render(arg))
		}
	}
	c.Check(len(writes) >= 1, "no-dropped-bytes", "file writes found", p.Pos(w.Pos()), "", "no file write in rotateFile.Write")
	// (3) reopen path
	var stat, reopen *ssa.Call
	for _, call := range Calls(w) {
		cv, ok := call.(*ssa.Call)
		if !ok {
			continue
		}
		f := cv.Call.StaticCallee()
		if f == nil {
			continue
		}
		if f.Name() == "checkStat" || FuncIs(f, "os", "Stat") || FuncIs(f, "os", "Lstat") {
			stat = cv
		}
		if f.Name() == "reopen" {
			reopen = cv
		}
	}
	if c.Check(stat != nil && reopen != nil, "reopen-when-missing", "stat probe and reopen present", p.Pos(w.Pos()), "", "rotateFile.Write no longer probes the path / reopens it") {
		// delete the edge "stat err == nil"; stop at reopen; no file write may be reachable
		allow := func(b *ssa.BasicBlock, i int) bool {
			if len(b.Instrs) == 0 {
				return true
			}
			iff, ok := b.Instrs[len(b.Instrs)-1].(*ssa.If)
			if !ok {
				return true
			}
			atom, pol0 := condAtom(iff.Cond)
			bo, ok := atom.(*ssa.BinOp)
			if !ok || !IsNilConst(bo.Y) {
				return true
			}
			ex, ok := bo.X.(*ssa.Extract)
			if !ok || ex.Tuple != ssa.Value(stat) {
				return true
			}
			okIdx := 0 // edge on which err == nil
			if (bo.Op == token.EQL) != pol0 {
				okIdx = 1
			}
			return i != okIdx
		}
		reach := InstrReach(w, allow, func(in ssa.Instruction) bool { return in == ssa.Instruction(reopen) })
		for i, fwr := range writes {
			c.Check(!reach(fwr.call), "reopen-when-missing", fmt.Sprintf("file write[%d]", i), p.InstrPos(fwr.call), "reachable only via a successful stat or reopen()", "a write to the file handle is reachable although the path's stat failed and reopen was not called: events go to an unlinked file")
		}
		// reopen's error aborts
		okErr := false
		for _, r := range Returns(w) {
			if RetVals(r)[1] == ssa.Value(reopen) {
				okErr = true
			}
		}
		c.Check(okErr, "reopen-when-missing", "reopen error returned", p.InstrPos(reopen), "", "a failed reopen is ignored")
	}
	// (4) re-slices
	nres := 0
	for _, b := range w.Blocks {
		for _, in := range b.Instrs {
			sl, ok := in.(*ssa.Slice)
			if !ok || !isBatch[sl.X] || sl.Low == nil || sl.High != nil {
				continue
			}
			nres++
			key := fmt.Sprintf("advance[%d] %s", nres, RenderN(sl.Low, 3))
			okAdv := false
			why := "the batch is advanced by `" + RenderN(sl.Low, 4) + "`, which is not the length of a prefix handed to the file"
			for _, fwr := range writes {
				if fwr.base != sl.X || !fwr.call.Block().Dominates(sl.Block()) {
					continue
				}
				if fwr.high != nil && fwr.high == sl.Low {
					okAdv = true
				}
				// advance by the count the file reported
				if ex, isE := sl.Low.(*ssa.Extract); isE && ex.Tuple == ssa.Value(fwr.call) && ex.Index == 0 {
					okAdv = true
				}
				// advance by high+1 only if p[high] is a newline
				if bo, isB := sl.Low.(*ssa.BinOp); isB && bo.Op == token.ADD && fwr.high != nil && bo.X == fwr.high {
					if k, _ := ConstInt(bo.Y); k == 1 {
						nl := false
						for _, dc := range DomConds(sl) {
							x, y, isEq := eqCond(dc)
							if !isEq {
								continue
							}
							if k2, _ := ConstInt(y); k2 == '\n' {
								if ld, isL := isLoad(x); isL {
									if ia, isI := ld.X.(*ssa.IndexAddr); isI && ia.Index == fwr.high {
										nl = true
									}
								}
							}
						}
						if !nl {
							if okNI, _ := newlineIndexOf(fwr.high, fwr.base, sl); okNI {
								nl = true
							}
						}
						if nl {
							okAdv = true
						} else {
							why = "the batch is advanced one byte past the written prefix without that byte being known to be the newline: when no newline was found the first byte of the next line is dropped and the line is no longer parseable"
						}
					}
				}
			}
			c.Check(okAdv, "no-dropped-bytes", key, p.InstrPos(sl), "advances by exactly what was written", why)
		}
	}
	// (5) split at line boundaries: prefixes written inside the loop
	for i, fwr := range writes {
		if fwr.high == nil {
			continue
		}
		key := fmt.Sprintf("split[%d] %s", i, RenderN(fwr.high, 3))
		okB := true
		var bad string
		for _, lf := range leaves(fwr.high) {
			if k, isC := ConstInt(lf); isC && k == 0 {
				continue
			}
			if bo, isB := lf.(*ssa.BinOp); isB && bo.Op == token.ADD {
				if k, _ := ConstInt(bo.Y); k == 1 {
					if call, isC := bo.X.(*ssa.Call); isC {
						f := call.Call.StaticCallee()
						if f != nil && (FuncIs(f, "bytes", "LastIndexByte") || FuncIs(f, "bytes", "IndexByte")) {
							if nl, _ := ConstInt(call.Call.Args[1]); nl == '\n' {
								// searched in (a prefix of) the same batch
								arg := call.Call.Args[0]
								if s2, isS := arg.(*ssa.Slice); isS {
									arg = s2.X
								}
								if arg == fwr.base {
									continue
								}
							}
						}
					}
				}
			}
			// guarded by p[high]=='\n'
			guard := false
			for _, dc := range DomConds(fwr.call) {
				x, y, isEq := eqCond(dc)
				if isEq {
					if k2, _ := ConstInt(y); k2 == '\n' {
						if ld, isL := isLoad(x); isL {
							if ia, isI := ld.X.(*ssa.IndexAddr); isI && ia.Index == fwr.high {
								guard = true
							}
						}
					}
				}
			}
			if guard {
				continue
			}
			okB = false
			bad = Render(lf)
		}
		if !okB {
			if okNI, _ := newlineIndexOf(fwr.high, fwr.base, fwr.call); okNI {
				okB = true
			}
		}
		c.Check(okB, "split-at-line-boundary", key, p.InstrPos(fwr.call), "prefix ends right after a newline (or is empty)", "a prefix of the batch is written before rotating whose end `"+bad+"` is not known to be a line boundary: a JSON line is cut in two across files")
	}
	_ = strings.Contains
}

// newlineIndexOf decides whether value j is, on every path, the index of a newline byte inside batch `base`:
// each phi leaf must be bytes.IndexByte/LastIndexByte(<prefix of base>, '\n') and the edge through which it
// arrives (or the use site, for a non-phi value) must be dominated by the failure of `leaf < 0`.
func newlineIndexOf(j ssa.Value, base ssa.Value, use ssa.Instruction) (bool, string) {
	nonNeg := func(conds []Cond, v ssa.Value) bool {
		for _, dc := range conds {
			b, ok := dc.V.(*ssa.BinOp)
			if !ok || b.X != v {
				continue
			}
			k, isC := ConstInt(b.Y)
			if !isC {
				continue
			}
			switch {
			case b.Op == token.LSS && k == 0 && !dc.Pol, b.Op == token.GEQ && k == 0 && dc.Pol, b.Op == token.GTR && k == -1 && dc.Pol, b.Op == token.EQL && k == -1 && !dc.Pol, b.Op == token.NEQ && k == -1 && dc.Pol:
				return true
			}
		}
		return false
	}
	isSearch := func(v ssa.Value) bool {
		call, ok := v.(*ssa.Call)
		if !ok {
			return false
		}
		f := call.Call.StaticCallee()
		if f == nil || !(FuncIs(f, "bytes", "LastIndexByte") || FuncIs(f, "bytes", "IndexByte")) {
			return false
		}
		if nl, _ := ConstInt(call.Call.Args[1]); nl != 10 {
			return false
		}
		arg := call.Call.Args[0]
		if s2, ok := arg.(*ssa.Slice); ok && s2.Low == nil {
			arg = s2.X
		}
		return arg == base
	}
	seen := map[*ssa.Phi]bool{}
	var walk func(v ssa.Value, conds []Cond) (bool, string)
	// allSearches: every leaf of a merged index is a newline search in this batch (then "the merged value is >= 0" says
	// that whichever search produced it found a newline)
	var allSearches func(v ssa.Value, d int) bool
	allSearches = func(v ssa.Value, d int) bool {
		if ph, ok := v.(*ssa.Phi); ok && d < 6 {
			for _, e := range ph.Edges {
				if !allSearches(e, d+1) {
					return false
				}
			}
			return true
		}
		return isSearch(v)
	}
	walk = func(v ssa.Value, conds []Cond) (bool, string) {
		if ph, ok := v.(*ssa.Phi); ok {
			if seen[ph] {
				return true, ""
			}
			seen[ph] = true
			// `if j < 0 { j = IndexByte(p, '\n') }; if j < 0 { break }`: the test is made on the merged value
			if nonNeg(conds, ph) && allSearches(ph, 0) {
				return true, ""
			}
			for i, e := range ph.Edges {
				if ok, why := walk(e, EdgeConds(ph.Block().Preds[i], ph.Block())); !ok {
					return false, why
				}
			}
			return true, ""
		}
		if !isSearch(v) {
			return false, "`" + RenderN(v, 3) + "` is not the position of a newline found in the batch"
		}
		if !nonNeg(conds, v) {
			return false, "the search result `" + RenderN(v, 3) + "` can be -1 (no newline found) on this path"
		}
		return true, ""
	}
	return walk(j, DomConds(use))
}

// existsPredicate: f(name) bool is `_, err := os.Lstat(name); return err == nil` (or Stat): true iff the name exists.
func existsPredicate(f *ssa.Function) bool {
	if f == nil || !InRepo(f) || f.Blocks == nil || len(f.Params) != 1 {
		return false
	}
	var probe *ssa.Call
	for _, call := range Calls(f) {
		cal := call.Common().StaticCallee()
		if FuncIs(cal, "os", "Lstat") || FuncIs(cal, "os", "Stat") {
			if cv, ok := call.(*ssa.Call); ok && cv.Call.Args[0] == ssa.Value(f.Params[0]) {
				probe = cv
			}
		}
	}
	if probe == nil || len(Returns(f)) == 0 {
		return false
	}
	for _, r := range Returns(f) {
		bo, ok := RetVals(r)[0].(*ssa.BinOp)
		if !ok || bo.Op != token.EQL || !IsNilConst(bo.Y) {
			return false
		}
		ex, ok := bo.X.(*ssa.Extract)
		if !ok || ex.Tuple != ssa.Value(probe) || ex.Index != 1 {
			return false
		}
	}
	return true
}

// timerOfC: v is t.C of a *time.Timer value t created in the function; returns t.
func timerOfC(v ssa.Value) ssa.Value {
	ld, ok := v.(*ssa.UnOp)
	if !ok {
		return nil
	}
	fa, ok := ld.X.(*ssa.FieldAddr)
	if !ok || fieldNameOf(fa) != "C" {
		return nil
	}
	if call, ok := fa.X.(*ssa.Call); ok && CalleeIs(call, "time", "NewTimer") {
		return call
	}
	return nil
}

// timerLiveAt: typestate of a reused timer over the function's CFG. A timer is LIVE (armed, or fired with its value still
// in the channel) or DEAD (stopped, or fired and drained: no value will ever arrive). NewTimer/Reset make it live; a
// receive from t.C (bare or as the chosen select case) and a Stop that returned true make it dead; a Stop that returned
// false leaves it as it was. The receive at `at` completes iff DEAD is not a possible state there.
func timerLiveAt(fn *ssa.Function, tm ssa.Value, at *ssa.UnOp) bool {
	const live, dead = 1, 2
	isT := func(v ssa.Value) bool { return v == tm }
	in := map[*ssa.BasicBlock]int{}
	var start *ssa.BasicBlock
	if ti, ok := tm.(ssa.Instruction); ok {
		start = ti.Block()
	}
	if start == nil {
		return false
	}
	// state at the end of a block given the state at its start; also reports the state right before `at`
	atState := -1
	run := func(b *ssa.BasicBlock, st int) int {
		for _, ins := range b.Instrs {
			if ins == ssa.Instruction(at) {
				atState |= 0
				if atState < 0 {
					atState = 0
				}
				atState |= st
			}
			switch x := ins.(type) {
			case *ssa.Call:
				if x == tm {
					st = live
				}
				if f := x.Call.StaticCallee(); f != nil && len(x.Call.Args) > 0 && isT(x.Call.Args[0]) {
					switch {
					case MethodIs(f, "time", "Timer", "Reset"):
						st = live
					}
				}
			case *ssa.UnOp:
				if x.Op == token.ARROW && timerOfC(x.X) == tm {
					st = dead
				}
			}
		}
		return st
	}
	work := []*ssa.BasicBlock{start}
	in[start] = 0
	for len(work) > 0 {
		b := work[0]
		work = work[1:]
		out := run(b, in[b])
		for i, sc := range b.Succs {
			v := out
			if iff, ok := b.Instrs[len(b.Instrs)-1].(*ssa.If); ok {
				atom, pol := condAtom(iff.Cond)
				takenTrue := (i == 0) == pol // the atom is true on this edge
				// Stop() result
				if call, ok := atom.(*ssa.Call); ok && len(call.Call.Args) > 0 && isT(call.Call.Args[0]) && MethodIs(call.Call.StaticCallee(), "time", "Timer", "Stop") {
					if takenTrue {
						v = dead
					}
				}
				// select index == k where case k receives from t.C
				if bo, ok := atom.(*ssa.BinOp); ok && bo.Op == token.EQL {
					if ex, ok := bo.X.(*ssa.Extract); ok && ex.Index == 0 {
						if sel, ok := ex.Tuple.(*ssa.Select); ok {
							if k, isC := ConstInt(bo.Y); isC && int(k) < len(sel.States) && sel.States[k].Send == nil && timerOfC(sel.States[k].Chan) == tm && takenTrue {
								v = dead
							}
						}
					}
				}
			}
			if in[sc]|v != in[sc] || (in[sc] == 0 && v == 0 && sc != start && !hasKey(in, sc)) {
				in[sc] |= v
				work = append(work, sc)
			}
		}
	}
	return atState >= 0 && atState&dead == 0 && atState&live != 0
}

func hasKey(m map[*ssa.BasicBlock]int, k *ssa.BasicBlock) bool { _, ok := m[k]; return ok }
