// Package rules: one file per property; each rule enumerates obligations over the resolved program.
package rules

import (
	"go/token"
	"go/types"
	"sort"
	"strings"

	"golang.org/x/tools/go/ssa"

	. "htcheck/internal/core"
)

// Rule is a property check.
type Rule func(c *Ctx)

// Registry maps property ids to rules.
var Registry = map[string]Rule{}

// Service describes one Servicer implementation.
type Service struct {
	Type   *types.Named
	Handle *ssa.Function
	Names  []string // registry keys whose constructor returns this type
}

// Services enumerates every in-repo named type that implements services.Servicer and has a Handle body,
// with the registry names under which it is registered (from services.Register call sites).
func Services(c *Ctx) []Service {
	p := c.P
	iface := p.Iface("services", "Servicer")
	if !c.Anchor(iface != nil, "services", "interface services.Servicer") {
		return nil
	}
	// constructor -> registry key
	ctorNames := map[*ssa.Function][]string{}
	for _, fn := range p.Funcs() {
		for _, call := range Calls(fn) {
			cal := call.Common().StaticCallee()
			if cal == nil || !FuncIs(cal, ModPath+"/services", "Register") || len(call.Common().Args) != 2 {
				continue
			}
			key, ok := ConstString(call.Common().Args[0])
			if !ok {
				continue
			}
			switch f := Unwrap(call.Common().Args[1]).(type) {
			case *ssa.Function:
				ctorNames[f] = append(ctorNames[f], key)
			case *ssa.MakeClosure:
				if ff, ok := f.Fn.(*ssa.Function); ok {
					ctorNames[ff] = append(ctorNames[ff], key)
				}
			}
		}
	}
	// type -> names: the concrete types a constructor converts to Servicer
	typeNames := map[*types.Named][]string{}
	for ctor, names := range ctorNames {
		for _, b := range ctor.Blocks {
			for _, in := range b.Instrs {
				if mi, ok := in.(*ssa.MakeInterface); ok {
					if n := NamedOf(mi.X.Type()); n != nil && Implements(n, iface) {
						typeNames[n] = append(typeNames[n], names...)
					}
				}
			}
		}
	}
	var out []Service
	for _, n := range p.NamedTypes() {
		if _, isIface := n.Underlying().(*types.Interface); isIface {
			continue
		}
		if !Implements(n, iface) {
			continue
		}
		pk := n.Obj().Pkg()
		h := p.Method(RelPkg(pk.Path()), n.Obj().Name(), "Handle")
		if h == nil || h.Blocks == nil {
			continue
		}
		names := typeNames[n]
		sort.Strings(names)
		names = uniq(names)
		out = append(out, Service{Type: n, Handle: h, Names: names})
	}
	return out
}

func uniq(s []string) []string {
	var out []string
	for i, x := range s {
		if i == 0 || x != s[i-1] {
			out = append(out, x)
		}
	}
	return out
}

// TypeKey renders pkgrel.Type.
func TypeKey(n *types.Named) string {
	if n.Obj().Pkg() == nil {
		return n.Obj().Name()
	}
	r := RelPkg(n.Obj().Pkg().Path())
	if r == "" {
		return n.Obj().Name()
	}
	return r + "." + n.Obj().Name()
}

// handleConn returns Handle's conn parameter (the net.Conn one).
func handleConn(h *ssa.Function) *ssa.Parameter {
	for _, p := range h.Params {
		if n, ok := p.Type().(*types.Named); ok && n.Obj().Name() == "Conn" && n.Obj().Pkg() != nil && n.Obj().Pkg().Path() == "net" {
			return p
		}
	}
	return nil
}

func hasName(s Service, names ...string) bool {
	for _, a := range s.Names {
		for _, b := range names {
			if a == b {
				return true
			}
		}
	}
	return false
}

// isWriterOnlyIface: an interface type that has Write but not Read (io.Writer-like).
func isWriterOnlyIface(t types.Type) bool {
	it, ok := t.Underlying().(*types.Interface)
	if !ok {
		return false
	}
	hasW, hasR := false, false
	for i := 0; i < it.NumMethods(); i++ {
		switch it.Method(i).Name() {
		case "Write":
			hasW = true
		case "Read":
			hasR = true
		}
	}
	return hasW && !hasR
}

// fieldOfType returns the index of the first field of struct n whose type is *pkgPath.typeName, or -1.
func fieldOfType(n *types.Named, pkgPath, typeName string) int {
	st, ok := n.Underlying().(*types.Struct)
	if !ok {
		return -1
	}
	for i := 0; i < st.NumFields(); i++ {
		if fn := NamedOf(st.Field(i).Type()); fn != nil && fn.Obj().Name() == typeName && fn.Obj().Pkg() != nil && fn.Obj().Pkg().Path() == pkgPath {
			return i
		}
	}
	return -1
}

func shortFn(fn *ssa.Function) string { return strings.ReplaceAll(FnName(fn), "honeytrap/", "") }

// closureFreeSeeds: for closure fn created in parent where tainted(parentValue), the free vars bound to tainted values.
func closureFreeSeeds(mc *ssa.MakeClosure, tainted map[ssa.Value]bool) []ssa.Value {
	var seeds []ssa.Value
	for fv, b := range ClosureBindings(mc) {
		if tainted[b] {
			seeds = append(seeds, fv)
		}
	}
	return seeds
}

// fieldByType returns the name of the unique field of struct type nt whose type satisfies pred ("" when none or several):
// rules find their subject fields by role (the subscriber list, the request channel, the mutex) so that renaming an
// unexported field does not raise an alarm.
func fieldByType(nt *types.Named, pred func(types.Type) bool) string {
	if nt == nil {
		return ""
	}
	st, ok := nt.Underlying().(*types.Struct)
	if !ok {
		return ""
	}
	name, n := "", 0
	for i := 0; i < st.NumFields(); i++ {
		if pred(st.Field(i).Type()) {
			name = st.Field(i).Name()
			n++
		}
	}
	if n != 1 {
		return ""
	}
	return name
}

func isSliceOfNamed(t types.Type, elemName string) bool {
	sl, ok := t.Underlying().(*types.Slice)
	if !ok {
		return false
	}
	e := sl.Elem()
	if pt, ok := e.Underlying().(*types.Pointer); ok {
		e = pt.Elem()
	}
	n := NamedOf(e)
	return n != nil && n.Obj().Name() == elemName
}

func isByteSlice(t types.Type) bool {
	sl, ok := t.Underlying().(*types.Slice)
	if !ok {
		return false
	}
	b, ok := sl.Elem().Underlying().(*types.Basic)
	return ok && b.Kind() == types.Uint8
}

func isMutexType(t types.Type) bool {
	n := NamedOf(t)
	return n != nil && n.Obj().Pkg() != nil && n.Obj().Pkg().Path() == "sync" && (n.Obj().Name() == "Mutex" || n.Obj().Name() == "RWMutex")
}

// emitsEvent: the instruction is a pushers.Channel.Send, or a call of an in-repo function on every return path of which
// one executes (helpers such as reportCommand(conn, cmd) extracted from a handler).
func emitsEvent(in ssa.Instruction, depth int) bool {
	if isChannelSend(in) {
		return true
	}
	call, ok := in.(ssa.CallInstruction)
	if !ok || depth > 2 {
		return false
	}
	f := call.Common().StaticCallee()
	if f == nil || !InRepo(f) || f.Blocks == nil {
		return false
	}
	for _, b := range f.Blocks {
		for _, x := range b.Instrs {
			if !emitsEvent(x, depth+1) {
				continue
			}
			all := true
			for _, r := range Returns(f) {
				if !b.Dominates(r.Block()) {
					all = false
				}
			}
			if all {
				return true
			}
		}
	}
	return false
}

// caseConstsInto: when every way into block b is the true edge of a comparison `v == k` with a constant (the arms of a
// switch with several values per case), returns the compared value and the constants; ok=false otherwise.
func caseConstsInto(b *ssa.BasicBlock) (ssa.Value, []int64, bool) {
	var subject ssa.Value
	var ks []int64
	if len(b.Preds) == 0 {
		return nil, nil, false
	}
	for _, pr := range b.Preds {
		if len(pr.Instrs) == 0 {
			return nil, nil, false
		}
		iff, ok := pr.Instrs[len(pr.Instrs)-1].(*ssa.If)
		if !ok || pr.Succs[0] != b || pr.Succs[1] == b {
			return nil, nil, false
		}
		bo, ok := iff.Cond.(*ssa.BinOp)
		if !ok || bo.Op != token.EQL {
			return nil, nil, false
		}
		x, y := bo.X, bo.Y
		if _, isK := ConstInt(x); isK {
			x, y = y, x
		}
		k, isK := ConstInt(y)
		if !isK || (subject != nil && subject != x) {
			return nil, nil, false
		}
		subject = x
		ks = append(ks, k)
	}
	return subject, ks, true
}

func init() {
	// unexported types: the methods they declare (a leading ! excludes a type that declares that method)
	TypeHints["server.peekConnection"] = []string{"Peek", "Read"}
	TypeHints["server.timeoutConn"] = []string{"Read", "Write", "!Peek"}
	TypeHints["storage.badgeStorage"] = []string{"Get", "Set"}
	TypeHints["pushers/file.rotateFile"] = []string{"rotate", "reopen", "Write"}
	TypeHints["listener/agent.conn2"] = []string{"send", "receive"}
	TypeHints["listener/agent.agentConnection"] = []string{"Read", "Write", "receive"}
	TypeHints["pushers.tokenChannel"] = []string{"Send", "!matches"}
	TypeHints["services/ssh.sshSimulatorService"] = []string{"Handle", "SetChannel", "!SetDirector"}
	// unexported package-level functions: their signature
	FuncHints["server.compareAddr"] = "func(net.Addr, net.Addr) bool"
}

// flagAlternatives: a decision taken through a boolean flag (`accepted := false; for … { if match { accepted = true; break } };
// if accepted {…}`) is known at the test only as "the flag is true". Each constant edge of the flag's phi that carries the
// tested outcome is one way of getting there; the conditions of that edge are what held. Returns one condition list per
// way (just conds when no flag is involved).
func flagAlternatives(conds []Cond) [][]Cond {
	for i, dc := range conds {
		ph, ok := dc.V.(*ssa.Phi)
		if !ok {
			continue
		}
		if b, isB := ph.Type().Underlying().(*types.Basic); !isB || b.Kind() != types.Bool {
			continue
		}
		var alts [][]Cond
		usable := true
		for _, l := range phiLeaves(ph) {
			k, isK := l.v.(*ssa.Const)
			if !isK || k.Value == nil || l.pred == nil {
				usable = false
				break
			}
			if (k.Value.String() == "true") != dc.Pol {
				continue
			}
			rest := append(append([]Cond(nil), conds[:i]...), conds[i+1:]...)
			alt := append(rest, append(DomCondsBlock(l.pred), EdgeConds(l.pred, l.succ)...)...)
			alts = append(alts, alt)
		}
		if usable && len(alts) > 0 {
			var out [][]Cond
			for _, a := range alts {
				out = append(out, flagAlternatives(a)...)
			}
			return out
		}
	}
	return [][]Cond{conds}
}

// goOrdinal numbers the go statements of fn in source order (1-based), for stable obligation keys.
func goOrdinal(fn *ssa.Function, gi *ssa.Go) int {
	var all []*ssa.Go
	for _, b := range fn.Blocks {
		for _, in := range b.Instrs {
			if g, ok := in.(*ssa.Go); ok {
				all = append(all, g)
			}
		}
	}
	sort.Slice(all, func(i, j int) bool { return all[i].Pos() < all[j].Pos() })
	for i, g := range all {
		if g == gi {
			return i + 1
		}
	}
	return 0
}

// isChannelType: the pushers.Channel interface.
func isChannelType(t types.Type) bool {
	n := NamedOf(t)
	return n != nil && n.Obj().Pkg() != nil && strings.HasSuffix(n.Obj().Pkg().Path(), "/pushers") && n.Obj().Name() == "Channel"
}

type chanField struct {
	owner *types.Named
	name  string
}

// channelFieldsWritten: the pushers.Channel fields the SetChannel method the server calls on *T (through embedding,
// if promoted) stores its argument into.
func channelFieldsWritten(p *Program, t *types.Named) (map[chanField]bool, *ssa.Function) {
	ms := p.SSA.MethodSets.MethodSet(types.NewPointer(t))
	var sel *types.Selection
	for i := 0; i < ms.Len(); i++ {
		if ms.At(i).Obj().Name() == "SetChannel" {
			sel = ms.At(i)
		}
	}
	if sel == nil {
		return nil, nil
	}
	decl := p.SSA.FuncValue(sel.Obj().(*types.Func))
	out := map[chanField]bool{}
	if decl == nil || decl.Blocks == nil {
		return out, decl
	}
	for _, b := range decl.Blocks {
		for _, in := range b.Instrs {
			st, ok := in.(*ssa.Store)
			if !ok {
				continue
			}
			if fa, ok := st.Addr.(*ssa.FieldAddr); ok && isChannelType(st.Val.Type()) {
				if o := NamedOf(fa.X.Type()); o != nil {
					out[chanField{o, fieldNameOf(fa)}] = true
				}
			}
		}
	}
	return out, decl
}

// embedsOrIs: t is owner or embeds it (transitively, by value or pointer).
func embedsOrIs(t, owner *types.Named, depth int) bool {
	if t.Obj() == owner.Obj() {
		return true
	}
	st, ok := t.Underlying().(*types.Struct)
	if !ok || depth <= 0 {
		return false
	}
	for i := 0; i < st.NumFields(); i++ {
		f := st.Field(i)
		if f.Embedded() {
			if n := NamedOf(f.Type()); n != nil && embedsOrIs(n, owner, depth-1) {
				return true
			}
		}
	}
	return false
}

// channelWired checks, for service type t, that every pushers.Channel field of t (or of a struct t embeds) that
// Handle-reachable methods of those types read is one the effective SetChannel writes.
func channelWired(c *Ctx, rule string, svc Service) {
	p := c.P
	written, setter := channelFieldsWritten(p, svc.Type)
	key := TypeKey(svc.Type)
	if setter == nil {
		c.Undecided(rule, key+" SetChannel", p.Pos(svc.Handle.Pos()), "no SetChannel in the method set")
		return
	}
	reach, _ := handleReach(p.VTA(), svc.Handle)
	var fns []*ssa.Function
	for fn := range reach {
		fns = append(fns, fn)
	}
	sort.Slice(fns, func(i, j int) bool { return fns[i].String() < fns[j].String() })
	seen := map[chanField]bool{}
	for _, fn := range fns {
		for _, b := range fn.Blocks {
			for _, in := range b.Instrs {
				ld, ok := in.(*ssa.UnOp)
				if !ok || !isChannelType(ld.Type()) {
					continue
				}
				fa, ok := ld.X.(*ssa.FieldAddr)
				if !ok {
					continue
				}
				o := NamedOf(fa.X.Type())
				if o == nil || !embedsOrIs(svc.Type, o, 3) {
					continue
				}
				cf := chanField{o, fieldNameOf(fa)}
				if seen[cf] {
					continue
				}
				seen[cf] = true
				c.Check(written[cf], rule, key+" reads "+TypeKey(o)+"."+cf.name, p.InstrPos(ld), "set by "+shortFn(setter), "events are sent on "+TypeKey(o)+"."+cf.name+", but the SetChannel the server calls on "+key+" ("+shortFn(setter)+") never sets that field (a field/method of the outer type shadows the embedded one): the channel is nil, the first Send panics and none of these events is ever delivered")
			}
		}
	}
}

// portTableField: the Honeytrap field that maps a listening address to its services (map[net.Addr][]*ServiceMap), by type.
func portTableField(p *Program) string {
	ht := p.Type("server", "Honeytrap")
	if ht == nil {
		return "ports"
	}
	f := fieldByType(ht, func(t types.Type) bool {
		m, ok := t.Underlying().(*types.Map)
		if !ok {
			return false
		}
		kn := NamedOf(m.Key())
		return kn != nil && kn.Obj().Pkg() != nil && kn.Obj().Pkg().Path() == "net" && kn.Obj().Name() == "Addr"
	})
	if f == "" {
		return "ports"
	}
	return f
}

// pooledObjectsReset: an object of an in-repo struct type taken from a sync.Pool carries whatever its previous user left
// in it. In handler-reachable code of the given packages every field of such an object must be assigned again (or the
// whole object overwritten) in the function that takes it from the pool; a field that is not is state leaking from an
// earlier connection into this one (a login, a pending user name, a rename source, a restart offset).
func pooledObjectsReset(c *Ctx, rule string, relPrefixes ...string) {
	p := c.P
	for _, fn := range p.FuncsIn(relPrefixes...) {
		for _, call := range Calls(fn) {
			cv, ok := call.(*ssa.Call)
			if !ok || !MethodIs(cv.Call.StaticCallee(), "sync", "Pool", "Get") {
				continue
			}
			for _, ref := range *cv.Referrers() {
				ta, ok := ref.(*ssa.TypeAssert)
				if !ok {
					continue
				}
				var obj ssa.Value = ta
				if ta.CommaOk {
					for _, r2 := range *ta.Referrers() {
						if ex, ok := r2.(*ssa.Extract); ok && ex.Index == 0 {
							obj = ex
						}
					}
				}
				pt, ok := ta.AssertedType.(*types.Pointer)
				if !ok {
					continue
				}
				nt := NamedOf(pt.Elem())
				if nt == nil || nt.Obj().Pkg() == nil || !strings.HasPrefix(nt.Obj().Pkg().Path(), ModPath) {
					continue
				}
				st, ok := nt.Underlying().(*types.Struct)
				if !ok {
					continue
				}
				assigned := map[string]bool{}
				whole := false
				if obj.Referrers() != nil {
					for _, r2 := range *obj.Referrers() {
						switch x := r2.(type) {
						case *ssa.FieldAddr:
							for _, r3 := range *x.Referrers() {
								if s3, ok := r3.(*ssa.Store); ok && s3.Addr == ssa.Value(x) {
									assigned[fieldNameOf(x)] = true
								}
								// an embedded value with a Reset of its own: enc.Reset() = (*bytes.Buffer).Reset(&enc.Buffer), before use or before the Put
								if rc, ok := r3.(ssa.CallInstruction); ok {
									if f := rc.Common().StaticCallee(); f != nil && f.Name() == "Reset" && len(rc.Common().Args) > 0 && rc.Common().Args[0] == ssa.Value(x) {
										assigned[fieldNameOf(x)] = true
									}
								}
								// a buffered reader/writer kept and re-pointed: c.controlReader.Reset(conn)
								if ld, ok := r3.(*ssa.UnOp); ok && ld.Referrers() != nil {
									for _, r4 := range *ld.Referrers() {
										if rc, ok := r4.(ssa.CallInstruction); ok {
											if f := rc.Common().StaticCallee(); f != nil && f.Name() == "Reset" && len(rc.Common().Args) > 0 && rc.Common().Args[0] == ssa.Value(ld) {
												assigned[fieldNameOf(x)] = true
											}
										}
									}
								}
							}
						case *ssa.Store:
							if x.Addr == obj {
								whole = true
							}
						}
					}
				}
				// fields (re)set by a method the object is handed to right away (m.unmarshal(data)): stores to receiver fields in
				// blocks that every successful return of that method has passed
				if obj.Referrers() != nil {
					for _, r2 := range *obj.Referrers() {
						call, ok := r2.(*ssa.Call)
						if !ok || len(call.Call.Args) == 0 || call.Call.Args[0] != obj {
							continue
						}
						hf := call.Call.StaticCallee()
						if hf == nil || !InRepo(hf) || hf.Blocks == nil || len(hf.Params) == 0 {
							continue
						}
						var okRets []*ssa.Return
						for _, r := range Returns(hf) {
							rv := RetVals(r)
							if len(rv) > 0 {
								if k, isK := rv[0].(*ssa.Const); isK && k.Value != nil && k.Value.String() == "false" {
									continue
								}
							}
							okRets = append(okRets, r)
						}
						for _, b := range hf.Blocks {
							domAll := len(okRets) > 0
							for _, r := range okRets {
								if !b.Dominates(r.Block()) {
									domAll = false
								}
							}
							if !domAll {
								continue
							}
							for _, in := range b.Instrs {
								if s3, ok := in.(*ssa.Store); ok {
									if fa, ok := s3.Addr.(*ssa.FieldAddr); ok && fa.X == ssa.Value(hf.Params[0]) {
										assigned[fieldNameOf(fa)] = true
									}
								}
							}
						}
					}
				}
				// cleaned on the way in: every Put on the same pool, anywhere, is preceded in its function by a Reset of the object
				// (or of an embedded value) it puts back – objects then come out of the pool clean, like new ones
				if g, isG := cv.Call.Args[0].(*ssa.Global); isG {
					nPut, allReset := 0, true
					resetFields := map[string]bool{}
					for _, pf := range p.Funcs() {
						for _, pc := range Calls(pf) {
							if !MethodIs(pc.Common().StaticCallee(), "sync", "Pool", "Put") || len(pc.Common().Args) != 2 || pc.Common().Args[0] != ssa.Value(g) {
								continue
							}
							nPut++
							v := Unwrap(pc.Common().Args[1])
							found := false
							for _, rc := range Calls(pf) {
								f := rc.Common().StaticCallee()
								if f == nil || f.Name() != "Reset" || len(rc.Common().Args) == 0 || !before(rc, pc) {
									continue
								}
								a0 := rc.Common().Args[0]
								if a0 == v {
									found = true
									resetFields["*"] = true
								}
								if fa, isFA := a0.(*ssa.FieldAddr); isFA && fa.X == v {
									found = true
									resetFields[fieldNameOf(fa)] = true
								}
							}
							if !found {
								allReset = false
							}
						}
					}
					if nPut > 0 && allReset {
						for k := range resetFields {
							if k == "*" {
								whole = true
							}
							assigned[k] = true
						}
					}
				}
				var missing []string
				for i := 0; i < st.NumFields() && !whole; i++ {
					f := st.Field(i)
					if !assigned[f.Name()] && !isMutexType(f.Type()) {
						missing = append(missing, f.Name())
					}
				}
				key := shortFn(fn) + " takes a " + nt.Obj().Name() + " from a sync.Pool"
				c.Check(len(missing) == 0, rule, key, p.InstrPos(cv), "every field is assigned again before use", "the recycled "+nt.Obj().Name()+" keeps the previous user's "+strings.Join(missing, ", ")+": whatever its previous user left there (a login, a pending user name, lists parsed from an earlier message) carries over into this use")
			}
		}
	}
}

// splitPartOf recognises v as the part before (idx 0) or after (idx 1) the separator of src, in either spelling:
// strings.Split(src, sep)[idx], or src[:i] / src[i+1:] with i = strings.Index(src, sep) / strings.IndexByte(src, sep[0]).
func splitPartOf(v ssa.Value) (src ssa.Value, sep string, idx int, ok bool) {
	if ld, isLd := isLoad(v); isLd {
		if ia, isIA := ld.X.(*ssa.IndexAddr); isIA {
			if n, isC := ConstInt(ia.Index); isC && (n == 0 || n == 1) {
				if call, isCall := ia.X.(*ssa.Call); isCall && FuncIs(call.Call.StaticCallee(), "strings", "Split") {
					if s, isS := ConstString(call.Call.Args[1]); isS {
						return call.Call.Args[0], s, int(n), true
					}
				}
			}
		}
	}
	sl, isSl := v.(*ssa.Slice)
	if !isSl {
		return nil, "", 0, false
	}
	indexOf := func(i ssa.Value) (string, bool) {
		call, isCall := i.(*ssa.Call)
		if !isCall || len(call.Call.Args) != 2 || call.Call.Args[0] != sl.X {
			return "", false
		}
		switch {
		case FuncIs(call.Call.StaticCallee(), "strings", "Index"):
			s, isS := ConstString(call.Call.Args[1])
			return s, isS && len(s) == 1
		case FuncIs(call.Call.StaticCallee(), "strings", "IndexByte"), FuncIs(call.Call.StaticCallee(), "strings", "IndexRune"):
			if k, isC := ConstInt(call.Call.Args[1]); isC && k > 0 && k < 128 {
				return string(rune(k)), true
			}
		}
		return "", false
	}
	if sl.Low == nil && sl.High != nil {
		if s, isI := indexOf(sl.High); isI {
			return sl.X, s, 0, true
		}
	}
	if sl.High == nil && sl.Low != nil {
		if bo, isB := sl.Low.(*ssa.BinOp); isB && bo.Op == token.ADD {
			if one, isC := ConstInt(bo.Y); isC && one == 1 {
				if s, isI := indexOf(bo.X); isI {
					return sl.X, s, 1, true
				}
			}
		}
	}
	return nil, "", 0, false
}

// exactlyTwoParts: the condition says that src consists of exactly two sep-separated parts:
// len(strings.Split(src, sep)) == 2, or strings.Count(src, sep) == 1.
func exactlyTwoParts(dc Cond) (src ssa.Value, sep string, ok bool) {
	b, isB := dc.V.(*ssa.BinOp)
	if !isB {
		return nil, "", false
	}
	holds := func(k int64) bool {
		n, isC := ConstInt(b.Y)
		return isC && n == k && ((b.Op == token.EQL && dc.Pol) || (b.Op == token.NEQ && !dc.Pol))
	}
	call, isCall := b.X.(*ssa.Call)
	if !isCall {
		return nil, "", false
	}
	if bi, isBi := call.Call.Value.(*ssa.Builtin); isBi && bi.Name() == "len" && holds(2) {
		if sp, isSp := call.Call.Args[0].(*ssa.Call); isSp && FuncIs(sp.Call.StaticCallee(), "strings", "Split") {
			if s, isS := ConstString(sp.Call.Args[1]); isS {
				return sp.Call.Args[0], s, true
			}
		}
	}
	if FuncIs(call.Call.StaticCallee(), "strings", "Count") && holds(1) {
		if s, isS := ConstString(call.Call.Args[1]); isS && len(s) == 1 {
			return call.Call.Args[0], s, true
		}
	}
	return nil, "", false
}
