package rules

import (
	"fmt"
	"go/types"
	"sort"
	"strings"

	"golang.org/x/tools/go/ssa"

	. "htcheck/internal/core"
)

func otherLeg(l int) int {
	switch l {
	case legClient:
		return legBackend
	case legBackend:
		return legClient
	}
	return legUnknown
}

// networkContext: "udp"/"tcp" when the instruction is dominated by a comparison of an address's Network() with that constant.
func networkContext(in ssa.Instruction) string {
	for _, dc := range DomConds(in) {
		x, y, ok := eqCond(dc)
		if !ok {
			continue
		}
		for _, pr := range [][2]ssa.Value{{x, y}, {y, x}} {
			k, isK := ConstString(pr[1])
			if !isK {
				continue
			}
			if call, isC := pr[0].(*ssa.Call); isC && call.Call.IsInvoke() && call.Call.Method.Name() == "Network" {
				return k
			}
		}
	}
	return ""
}

// readCall: a Read on a stream-like receiver (invoke or static method); returns the receiver and the buffer.
func readCall(call ssa.CallInstruction) (recv, buf ssa.Value, ok bool) {
	cc := call.Common()
	if cc.IsInvoke() && cc.Method.Name() == "Read" && len(cc.Args) == 1 {
		return cc.Value, cc.Args[0], true
	}
	if f := cc.StaticCallee(); f != nil && f.Name() == "Read" && f.Signature.Recv() != nil && len(cc.Args) == 2 {
		return cc.Args[0], cc.Args[1], true
	}
	return nil, nil, false
}

// completeRead: io.ReadFull / io.ReadAtLeast (reader, buffer)
func completeRead(call ssa.CallInstruction) (recv, buf ssa.Value, ok bool) {
	if CalleeIs(call, "io", "ReadFull") || CalleeIs(call, "io", "ReadAtLeast") {
		return call.Common().Args[0], call.Common().Args[1], true
	}
	return nil, nil, false
}

// bufBase: the storage a byte-slice expression is cut from.
func bufBase(v ssa.Value) ssa.Value {
	for i := 0; i < 8; i++ {
		switch x := v.(type) {
		case *ssa.Slice:
			v = x.X
		default:
			return c15Root(v)
		}
	}
	return v
}

// ---------- readers, connection-type tests, bare reads

func c15Readers(c *Ctx, px *c15Proxier, valid map[string]bool) {
	p := c.P
	var vt []string
	for t := range valid {
		vt = append(vt, t)
	}
	sort.Strings(vt)
	for _, fn := range px.reach {
		for _, call := range Calls(fn) {
			f := call.Common().StaticCallee()
			if isReaderCtor(f) {
				leg := px.wrapperLeg(call.Common(), 0)
				if leg == legUnknown {
					continue
				}
				key := fmt.Sprintf("%s: %s over the %s leg in %s", px.name, FuncShort(f), legName(leg), shortFn(fn))
				if InLoop(call.Block()) {
					c.Violate("reader-per-leg", key, p.InstrPos(call), "a new buffering reader over the "+legName(leg)+" connection is created on every iteration of the relay loop: what the previous reader had buffered beyond the message it parsed (a pipelined request, the start of the next reply) is dropped and never relayed")
				} else {
					c.Ok("reader-per-leg", key, p.InstrPos(call), "constructed once per connection")
				}
				continue
			}
			recv, _, isRead := readCall(call)
			if !isRead {
				continue
			}
			leg := px.leg(recv, 0)
			if leg == legUnknown {
				if pr, isP := c15Root(recv).(*ssa.Parameter); !isP || pr.Parent() == px.sv.Handle {
					continue
				}
			}
			key := fmt.Sprintf("%s: Read on the %s leg in %s", px.name, legName(leg), shortFn(fn))
			switch {
			case networkContext(call) == "udp":
				c.Ok("single-read-on-stream", key+" (datagram)", p.InstrPos(call), "one Read is one datagram")
			case InLoop(call.Block()):
				c.Ok("single-read-on-stream", key+" (loop)", p.InstrPos(call), "read in a loop")
			default:
				c.Violate("single-read-on-stream", key, p.InstrPos(call), "a single Read on a stream connection is taken to be the whole message: when the peer's bytes arrive in more than one segment only the first part is relayed")
			}
		}
		if fn != px.sv.Handle {
			continue
		}
		for _, b := range fn.Blocks {
			for _, in := range b.Instrs {
				ta, ok := in.(*ssa.TypeAssert)
				if !ok || c15Root(ta.X) != ssa.Value(px.conn) {
					continue
				}
				if _, isIface := ta.AssertedType.Underlying().(*types.Interface); isIface {
					continue
				}
				tn := types.TypeString(ta.AssertedType, nil)
				key := fmt.Sprintf("%s: conn.(%s) in %s", px.name, typeShortT(ta.AssertedType), shortFn(fn))
				if valid[tn] {
					c.Ok("dead-conn-type-test", key, p.InstrPos(ta), "a type the dispatcher passes")
				} else {
					c.Violate("dead-conn-type-test", key, p.InstrPos(ta), "the proxy tests its connection for the concrete type "+typeShortT(ta.AssertedType)+", but every caller passes one of {"+strings.Join(vt, ", ")+"}: the assertion never succeeds, so the relaying branch behind it is dead and nothing reaches the backend")
				}
			}
		}
	}
}

// ---------- relay writes

type c15Write struct {
	fn      *ssa.Function
	call    ssa.CallInstruction
	dst     int
	src     int
	payload ssa.Value // byte slice written (nil for object/stream forms)
	errVal  ssa.Value // the write's own error result
	what    string
}

func (px *c15Proxier) writerLeg(w ssa.Value) int {
	if l := px.leg(w, 0); l != legUnknown {
		return l
	}
	// io.MultiWriter(a, b...): the leg among its arguments
	if call, ok := c15Root(w).(*ssa.Call); ok && CalleeIs(call, "io", "MultiWriter") {
		leg := legUnknown
		for _, a := range variadicArgs(call.Call.Args[0]) {
			if l := px.leg(a, 0); l != legUnknown {
				if leg != legUnknown && leg != l {
					return legUnknown
				}
				leg = l
			}
		}
		return leg
	}
	return legUnknown
}

func errOf(call ssa.CallInstruction) ssa.Value {
	v, ok := call.(*ssa.Call)
	if !ok {
		return nil
	}
	if IsErrorType(v.Type()) {
		return v
	}
	if tup, ok := v.Type().(*types.Tuple); ok {
		for _, r := range *v.Referrers() {
			if ex, ok := r.(*ssa.Extract); ok && ex.Index == tup.Len()-1 && IsErrorType(ex.Type()) {
				return ex
			}
		}
	}
	return nil
}

func (px *c15Proxier) writes() []c15Write {
	var out []c15Write
	for _, fn := range px.reach {
		for _, call := range Calls(fn) {
			cc := call.Common()
			f := cc.StaticCallee()
			switch {
			case cc.IsInvoke() && cc.Method.Name() == "Write" && len(cc.Args) == 1:
				dst := px.leg(cc.Value, 0)
				if dst == legUnknown {
					continue
				}
				w := c15Write{fn: fn, call: call, dst: dst, payload: cc.Args[0], errVal: errOf(call), what: "Write"}
				w.src = px.payloadLeg(cc.Args[0])
				out = append(out, w)
			case f != nil && PkgOf(f) == "io" && (f.Name() == "Copy" || f.Name() == "CopyN" || f.Name() == "CopyBuffer"):
				dst := px.writerLeg(cc.Args[0])
				src := px.leg(cc.Args[1], 0)
				if dst == legUnknown && src == legUnknown {
					continue
				}
				out = append(out, c15Write{fn: fn, call: call, dst: dst, src: src, errVal: errOf(call), what: "io." + f.Name()})
			case f != nil && PkgOf(f) == "net/http" && f.Name() == "Write" && len(cc.Args) == 2:
				dst := px.writerLeg(cc.Args[1])
				src := legUnknown
				if ex, ok := c15Root(cc.Args[0]).(*ssa.Extract); ok && ex.Index == 0 {
					if rc, ok := ex.Tuple.(*ssa.Call); ok && (CalleeIs(rc, "net/http", "ReadRequest") || CalleeIs(rc, "net/http", "ReadResponse")) {
						src = px.leg(rc.Call.Args[0], 0)
					}
				}
				out = append(out, c15Write{fn: fn, call: call, dst: dst, src: src, errVal: errOf(call), what: FuncShort(f)})
			}
		}
	}
	return out
}

// payloadLeg: the leg the written bytes were read from.
func (px *c15Proxier) payloadLeg(v ssa.Value) int {
	// msg returned by a reading helper / wrapper
	if l := px.leg(v, 0); l != legUnknown {
		return l
	}
	sl, ok := v.(*ssa.Slice)
	if !ok || sl.High == nil {
		return legUnknown
	}
	// buf[:n] with n the count of a Read into the same buffer
	ex, ok := sl.High.(*ssa.Extract)
	if !ok || ex.Index != 0 {
		return legUnknown
	}
	rc, ok := ex.Tuple.(*ssa.Call)
	if !ok {
		return legUnknown
	}
	recv, buf, isRead := readCall(rc)
	if !isRead {
		recv, buf, isRead = completeRead(rc)
	}
	if !isRead || bufBase(buf) != bufBase(v) {
		return legUnknown
	}
	if lo, isK := ConstInt(sl.Low); sl.Low != nil && !(isK && lo == 0) {
		return legUnknown
	}
	return px.leg(recv, 0)
}

func isChannelSend(in ssa.Instruction) bool {
	call, ok := in.(ssa.CallInstruction)
	if !ok {
		return false
	}
	cc := call.Common()
	if !cc.IsInvoke() || cc.Method.Name() != "Send" {
		return false
	}
	n := NamedOf(cc.Value.Type())
	return n != nil && n.Obj().Name() == "Channel"
}

// recordsEvent: a Channel.Send, or a call of a service helper every return of which is dominated by one.
func (px *c15Proxier) recordsEvent(in ssa.Instruction) bool {
	if isChannelSend(in) {
		return true
	}
	call, ok := in.(ssa.CallInstruction)
	if !ok {
		return false
	}
	f := call.Common().StaticCallee()
	if f == nil || f.Blocks == nil {
		return false
	}
	inReach := false
	for _, g := range px.reach {
		if g == f {
			inReach = true
		}
	}
	if !inReach {
		return false
	}
	for _, b := range f.Blocks {
		for _, x := range b.Instrs {
			if !isChannelSend(x) {
				continue
			}
			all := true
			for _, r := range Returns(f) {
				if !b.Dominates(r.Block()) {
					all = false
				}
			}
			if all {
				return true
			}
		}
	}
	return false
}

func c15Relay(c *Ctx, px *c15Proxier) {
	p := c.P
	ws := px.writes()
	seq := map[string]int{}
	for _, w := range ws {
		base := fmt.Sprintf("%s: %s to the %s leg in %s", px.name, w.what, legName(w.dst), shortFn(w.fn))
		seq[base]++
		key := fmt.Sprintf("%s #%d", base, seq[base])
		// crossing
		switch {
		case w.dst == legUnknown:
			c.Violate("relay-crossing", key, p.InstrPos(w.call), "data read from the "+legName(w.src)+" leg is written to something that is neither the client nor the dialled backend connection")
		case w.src == legUnknown:
			c.Violate("relay-crossing", key, p.InstrPos(w.call), "what is written to the "+legName(w.dst)+" leg cannot be traced to bytes read from the "+legName(otherLeg(w.dst))+" leg (a stale count, another buffer, or locally produced content): "+Render(w.call.Common().Args[len(w.call.Common().Args)-1]))
		case w.src == w.dst:
			c.Violate("relay-crossing", key, p.InstrPos(w.call), "bytes read from the "+legName(w.src)+" leg are written back to the same leg instead of being relayed")
		default:
			c.Ok("relay-crossing", key, p.InstrPos(w.call), "from the "+legName(w.src)+" leg")
		}
		if w.dst != legBackend {
			continue
		}
		// not gated on decoding the client's bytes
		gated := ""
		for _, dc := range DomConds(w.call) {
			b, ok := dc.V.(*ssa.BinOp)
			if !ok {
				continue
			}
			for _, e := range []ssa.Value{b.X, b.Y} {
				if !IsErrorType(e.Type()) {
					continue
				}
				var k *ssa.Call
				switch x := e.(type) {
				case *ssa.Extract:
					k, _ = x.Tuple.(*ssa.Call)
				case *ssa.Call:
					k = x
				}
				if k == nil || isDirectorDial(k) {
					continue
				}
				if _, _, isRead := readCall(k); isRead {
					continue
				}
				if _, _, isRead := completeRead(k); isRead {
					continue
				}
				if px.wrapperLeg(k.Common(), 0) != legUnknown {
					continue // I/O helper on one of the legs
				}
				if kf := k.Common().StaticCallee(); kf != nil && PkgOf(kf) == "net/http" {
					continue // the HTTP proxy parses by design
				}
				if w.payload == nil {
					continue
				}
				for _, a := range k.Common().Args {
					if _, isSlice := a.Type().Underlying().(*types.Slice); isSlice && bufBase(a) == bufBase(w.payload) {
						gated = calleeLabel(k)
					}
				}
			}
		}
		if gated != "" {
			c.Violate("relay-not-gated-on-parse", key, p.InstrPos(w.call), "the client's bytes are relayed only if "+gated+" decodes them: requests the proxy cannot parse never reach the backend")
		} else {
			c.Ok("relay-not-gated-on-parse", key, p.InstrPos(w.call), "")
		}
		// recorded
		recorded := false
		for _, b := range w.fn.Blocks {
			for _, in := range b.Instrs {
				if px.recordsEvent(in) && b.Dominates(w.call.Block()) && (b != w.call.Block() || instrIdx(in) < instrIdx(w.call)) {
					recorded = true
				}
			}
		}
		// a copier closure started after the event was emitted (or its emission deferred) in the enclosing function
		if !recorded && w.fn.Parent() != nil {
			for _, mc := range MakeClosures(w.fn.Parent()) {
				if mc.Fn != w.fn {
					continue
				}
				for _, b := range w.fn.Parent().Blocks {
					for _, in := range b.Instrs {
						if px.recordsEvent(in) && before(in, mc) {
							recorded = true
						}
					}
				}
			}
		}
		if !recorded {
			allow := func(b *ssa.BasicBlock, i int) bool {
				iff, ok := b.Instrs[len(b.Instrs)-1].(*ssa.If)
				if !ok || w.errVal == nil {
					return true
				}
				bo, ok := iff.Cond.(*ssa.BinOp)
				if !ok || (bo.X != w.errVal && bo.Y != w.errVal) {
					return true
				}
				// the write's own failure exits
				s := b.Succs[i]
				if _, isRet := s.Instrs[len(s.Instrs)-1].(*ssa.Return); isRet && i == 0 {
					return false
				}
				return true
			}
			reach := InstrReachFrom(w.fn, w.call, allow, px.recordsEvent)
			recorded = true
			for _, r := range Returns(w.fn) {
				if reach(r) {
					recorded = false
				}
			}
			// or the next iteration starts without an event
			if recorded && InLoop(w.call.Block()) && reach(w.call) {
				recorded = false
			}
		}
		if recorded {
			c.Ok("relay-recorded", key, p.InstrPos(w.call), "an event emission dominates the relay or lies on every path after it")
		} else {
			c.Violate("relay-recorded", key, p.InstrPos(w.call), "a request can be relayed to the backend on a path that emits no event for it")
		}
	}
	c.Check(len(ws) >= 2 || px.name == "ssh-proxy", "relay-crossing", px.name+": relay writes found", p.Pos(px.sv.Handle.Pos()), fmt.Sprint(len(ws)), "fewer than two relay writes (one per direction) found in the proxy")
}

// ---------- events are attributed to the client

func c15Events(c *Ctx, px *c15Proxier) {
	p := c.P
	nNew, nSrc := 0, 0
	for _, fn := range px.reach {
		for _, call := range Calls(fn) {
			f := call.Common().StaticCallee()
			if f == nil || PkgOf(f) != ModPath+"/event" {
				continue
			}
			if f.Name() == "New" {
				nNew++
				continue
			}
			want := ""
			switch f.Name() {
			case "SourceAddr", "RemoteAddr":
				want = "RemoteAddr"
			case "DestinationAddr":
				want = "LocalAddr"
			default:
				continue
			}
			arg := call.Common().Args[0]
			if sc, ok := arg.(*ssa.Call); ok && sc.Call.IsInvoke() && sc.Call.Method.Name() == "String" {
				arg = sc.Call.Value
			}
			key := fmt.Sprintf("%s: event.%s in %s", px.name, f.Name(), shortFn(fn))
			// an event-building helper that is handed the address: judged with what its (single kind of) caller passes
			if par, isPar := arg.(*ssa.Parameter); isPar {
				idx := paramIdx(par)
				var cand ssa.Value
				for _, g := range px.reach {
					for _, c2 := range Calls(g) {
						if c2.Common().StaticCallee() == fn && idx >= 0 && idx < len(c2.Common().Args) {
							cand = c2.Common().Args[idx]
						}
					}
				}
				if cand != nil {
					arg = cand
					if sc, ok := arg.(*ssa.Call); ok && sc.Call.IsInvoke() && sc.Call.Method.Name() == "String" {
						arg = sc.Call.Value
					}
				}
			}
			ac, ok := arg.(*ssa.Call)
			if !ok || !ac.Call.IsInvoke() {
				c.Violate("event-attribution", key, p.InstrPos(call), "the event address is not taken from a connection: "+Render(arg))
				continue
			}
			leg := px.leg(ac.Call.Value, 0)
			if leg == legUnknown {
				// the ssh server connection's metadata describes the client
				if n := NamedOf(ac.Call.Value.Type()); n != nil && n.Obj().Name() == "ConnMetadata" {
					leg = legClient
				}
			}
			switch {
			case leg != legClient:
				c.Violate("event-attribution", key, p.InstrPos(call), "the event's "+f.Name()+" is taken from the "+legName(leg)+" connection, not from the client's: "+Render(arg))
			case ac.Call.Method.Name() != want:
				c.Violate("event-attribution", key, p.InstrPos(call), "the event's "+f.Name()+" is the client's "+ac.Call.Method.Name()+"(), want "+want+"()")
			default:
				if want == "RemoteAddr" {
					nSrc++
				}
				c.Ok("event-attribution", key, p.InstrPos(call), "client."+want+"()")
			}
		}
	}
	c.Check(nNew >= 1 && nSrc >= 1, "event-attribution", px.name+": events carry the client's address", p.Pos(px.sv.Handle.Pos()), fmt.Sprintf("%d events, %d source attributions", nNew, nSrc), "the proxy builds no event attributed to the client")
}
