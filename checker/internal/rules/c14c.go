package rules

import (
	"fmt"
	"go/constant"
	"go/token"
	"go/types"
	"strings"

	. "htcheck/internal/core"

	"golang.org/x/tools/go/ssa"
)

// c14FinAnswered decides the "answers a FIN" clause on the state machine's shape, by abstract interpretation of
// handleTCP over the finite set of connection states:
//   - a forward data-flow computes, per program point, the set of values State.State can have (stores of constants set
//     it, `state.State == K` branches refine it); handleTCP holds the state's mutex throughout and no callee writes the
//     field (both re-checked), so the set is exact up to path-insensitive joins;
//   - for every state K in which a peer's FIN is expected (ESTABLISHED, FIN-WAIT-1, FIN-WAIT-2) a pass started with
//     {K} where handleTCP has taken the state's mutex, for a segment with FIN and ACK set and SYN/RST clear (flag
//     tests are resolved, everything else is explored both ways), requires every path to the function's exits to
//     advance RCV.NXT by one and then call send() with the ACK bit;
//   - while the FIN bit is known set RCV.NXT is never assigned a value that drops the segment's payload.
func c14FinAnswered(c *Ctx, htcp, send *ssa.Function) {
	c.Explanation += " (3) answers a FIN: abstract interpretation of handleTCP over the finite set of connection states (mutex held, no foreign writer, flag tests resolved for FIN|ACK) – from ESTABLISHED, FIN-WAIT-1 and FIN-WAIT-2 every path advances RCV.NXT by one and then sends with the ACK bit; under FIN RCV.NXT is never rewound over the payload."
	p := c.P
	const rule = "fin-answered"
	stT := p.Type(canaryRel, "State")
	if !c.Anchor(stT != nil, rule, "type canary.State") {
		return
	}
	// the state field: a field of State whose type is a named integer with package constants
	stateField, enumT := "", (*types.Named)(nil)
	sst, _ := stT.Underlying().(*types.Struct)
	for i := 0; sst != nil && i < sst.NumFields(); i++ {
		if n := NamedOf(sst.Field(i).Type()); n != nil && n.Obj().Name() == "SocketState" {
			stateField, enumT = sst.Field(i).Name(), n
		}
	}
	if !c.Anchor(stateField != "", rule, "State's SocketState field") {
		return
	}
	names := map[int64]string{}
	byName := map[string]int64{}
	sc := enumT.Obj().Pkg().Scope()
	for _, nm := range sc.Names() {
		if k, ok := sc.Lookup(nm).(*types.Const); ok && types.Identical(k.Type(), enumT) {
			if v, ok := constant.Int64Val(k.Val()); ok && v >= 0 && v < 63 {
				names[v] = nm
				byName[nm] = v
			}
		}
	}
	var all uint64
	for v := range names {
		all |= 1 << uint(v)
	}
	expect := []string{"SocketEstablished", "SocketFinWait1", "SocketFinWait2"}
	for _, e := range expect {
		if _, ok := byName[e]; !ok {
			c.Anchor(false, rule, "constant "+e)
			return
		}
	}
	isStateAddr := func(v ssa.Value) bool {
		fa, ok := v.(*ssa.FieldAddr)
		return ok && fieldNameOf(fa) == stateField && NamedOf(fa.X.Type()) != nil && NamedOf(fa.X.Type()).Obj() == stT.Obj()
	}
	isField := func(v ssa.Value, owner, name string) bool {
		ld, ok := v.(*ssa.UnOp)
		if !ok {
			return false
		}
		fa, ok := ld.X.(*ssa.FieldAddr)
		return ok && fieldNameOf(fa) == name && NamedOf(fa.X.Type()) != nil && NamedOf(fa.X.Type()).Obj().Name() == owner
	}
	// ---- premises: mutex held, no foreign writer
	holds := false
	var lockCall ssa.Instruction
	for _, call := range Calls(htcp) {
		if cl, ok := call.(*ssa.Call); ok && lockCall == nil {
			if f := cl.Call.StaticCallee(); f != nil && MethodIs(f, "sync", "Mutex", "Lock") && len(cl.Call.Args) == 1 {
				if fa, ok := cl.Call.Args[0].(*ssa.FieldAddr); ok && NamedOf(fa.X.Type()) != nil && NamedOf(fa.X.Type()).Obj() == stT.Obj() {
					lockCall = cl
				}
			}
		}
		if d, ok := call.(*ssa.Defer); ok {
			if f := d.Call.StaticCallee(); f != nil && MethodIs(f, "sync", "Mutex", "Unlock") && len(d.Call.Args) == 1 {
				if fa, ok := d.Call.Args[0].(*ssa.FieldAddr); ok && NamedOf(fa.X.Type()) != nil && NamedOf(fa.X.Type()).Obj() == stT.Obj() {
					holds = true
				}
			}
		}
	}
	holds = holds && lockCall != nil
	c.Check(holds, rule, "handleTCP holds the state's mutex to its end (premise)", p.Pos(htcp.Pos()), "defer state.m.Unlock()", "handleTCP no longer keeps the connection state's mutex until it returns: the state can change between its tests (premise of the state analysis)")
	reach := unprotectedReachAll(p, htcp)
	for fn := range reach {
		if fn == htcp {
			continue
		}
		for _, b := range fn.Blocks {
			for _, in := range b.Instrs {
				if st, ok := in.(*ssa.Store); ok && isStateAddr(st.Addr) {
					// a state object the callee has just created (NewState result, literal) is not the one handleTCP looked up
					if fa, ok := st.Addr.(*ssa.FieldAddr); ok {
						fresh := false
						switch x := fa.X.(type) {
						case *ssa.Alloc:
							fresh = x.Heap
						case *ssa.Call:
							if f := x.Call.StaticCallee(); f != nil && f.Name() == "NewState" {
								fresh = true
							}
						}
						if fresh {
							continue
						}
					}
					c.Violate(rule, "callee writes the connection state: "+shortFn(fn), p.InstrPos(st), "a function called from handleTCP changes State."+stateField+" behind the state machine's back (premise of the state analysis)")
				}
			}
		}
	}
	// ---- pass 1: possible states per block entry
	stateStoreAfter := func(b *ssa.BasicBlock, from int) bool {
		for i := from; i < len(b.Instrs); i++ {
			if st, ok := b.Instrs[i].(*ssa.Store); ok && isStateAddr(st.Addr) {
				return true
			}
		}
		return false
	}
	idxOf := func(in ssa.Instruction) int {
		for i, x := range in.Block().Instrs {
			if x == in {
				return i
			}
		}
		return -1
	}
	// loadFresh: the load's value still equals the field when control leaves block `at`
	loadFresh := func(ld *ssa.UnOp, at *ssa.BasicBlock) bool {
		lb := ld.Block()
		if stateStoreAfter(lb, idxOf(ld)+1) {
			return false
		}
		if lb == at {
			return true
		}
		if !lb.Dominates(at) {
			return false
		}
		// blocks strictly between: reachable from lb's successors and reaching `at`
		fwd := ReachBlocks(lb.Succs, nil, nil)
		for _, b := range htcp.Blocks {
			if b == lb || !fwd[b] {
				continue
			}
			if b != at && !ReachBlocks(b.Succs, nil, nil)[at] {
				continue
			}
			if stateStoreAfter(b, 0) {
				return false
			}
		}
		return true
	}
	// edge refinement for `state.State ==/!= K`
	refine := func(b *ssa.BasicBlock, succIdx int, cur uint64) uint64 {
		if len(b.Instrs) == 0 {
			return cur
		}
		iff, ok := b.Instrs[len(b.Instrs)-1].(*ssa.If)
		if !ok {
			return cur
		}
		bo, ok := iff.Cond.(*ssa.BinOp)
		if !ok || (bo.Op != token.EQL && bo.Op != token.NEQ) {
			return cur
		}
		ld, ok := bo.X.(*ssa.UnOp)
		kv := bo.Y
		if !ok || !isStateAddr(ld.X) {
			ld, ok = bo.Y.(*ssa.UnOp)
			kv = bo.X
			if !ok || !isStateAddr(ld.X) {
				return cur
			}
		}
		k, isC := ConstInt(kv)
		if !isC || k < 0 || k >= 63 || !loadFresh(ld, b) {
			return cur
		}
		eq := (bo.Op == token.EQL) == (succIdx == 0)
		if eq {
			return cur & (1 << uint(k))
		}
		return cur &^ (1 << uint(k))
	}
	transfer := func(b *ssa.BasicBlock, cur uint64, visit func(in ssa.Instruction, cur uint64)) uint64 {
		for _, in := range b.Instrs {
			if visit != nil {
				visit(in, cur)
			}
			if st, ok := in.(*ssa.Store); ok && isStateAddr(st.Addr) {
				if k, isC := ConstInt(st.Val); isC && k >= 0 && k < 63 {
					cur = 1 << uint(k)
				} else {
					cur = all
				}
			}
		}
		return cur
	}
	in1 := map[*ssa.BasicBlock]uint64{htcp.Blocks[0]: all}
	work := []*ssa.BasicBlock{htcp.Blocks[0]}
	for len(work) > 0 {
		b := work[0]
		work = work[1:]
		out := transfer(b, in1[b], nil)
		for i, s := range b.Succs {
			v := refine(b, i, out)
			if v == 0 {
				continue
			}
			if in1[s]|v != in1[s] {
				in1[s] |= v
				work = append(work, s)
			}
		}
	}
	// ---- the flag tests
	flagOf := func(v ssa.Value) (int64, bool) {
		switch x := v.(type) {
		case *ssa.Call: // hdr.HasFlag(tcp.X)
			if f := x.Call.StaticCallee(); f != nil && f.Name() == "HasFlag" && len(x.Call.Args) == 2 {
				return ConstInt(x.Call.Args[1])
			}
		case *ssa.BinOp: // hdr.Ctrl & X == X   (X is a single bit, so  != X, == 0, != 0 forms are read as well)
			if x.Op != token.EQL && x.Op != token.NEQ {
				return 0, false
			}
			and, ok := x.X.(*ssa.BinOp)
			k1, ok1 := ConstInt(x.Y)
			if !ok || !ok1 || and.Op != token.AND {
				return 0, false
			}
			k2, ok2 := ConstInt(and.Y)
			if ok2 && (k2 == k1 || k1 == 0) && k2 > 0 && k2&(k2-1) == 0 && isField(and.X, "Header", "Ctrl") {
				return k2, true
			}
		}
		return 0, false
	}
	// flagPol: does the condition value being true mean "flag set"?
	flagPol := func(v ssa.Value) bool {
		x, ok := v.(*ssa.BinOp)
		if !ok {
			return true
		}
		k1, _ := ConstInt(x.Y)
		set := x.Op == token.EQL
		if k1 == 0 {
			set = !set
		}
		return set
	}
	// the segment under consideration: FIN and ACK set, SYN and RST clear, anything else open
	assumed := map[int64]bool{1: true, 16: true, 2: false, 4: false}
	evalCond := func(v ssa.Value) (known, val bool) {
		atom, pol := condAtom(v)
		if fl, ok := flagOf(atom); ok {
			if a, ok := assumed[fl]; ok {
				return true, a == (pol == flagPol(atom))
			}
		}
		return false, false
	}
	type st2 struct {
		set       uint64
		adv, sent bool
	}
	var finTests []*ssa.If
	for _, fb := range htcp.Blocks {
		if len(fb.Instrs) == 0 {
			continue
		}
		if iff, ok := fb.Instrs[len(fb.Instrs)-1].(*ssa.If); ok {
			atom, _ := condAtom(iff.Cond)
			if fl, ok := flagOf(atom); ok && fl == 1 {
				finTests = append(finTests, iff)
			}
		}
	}
	c.Check(len(finTests) >= 1, rule, "FIN test in handleTCP", p.Pos(htcp.Pos()), "", "no test of the FIN bit found in handleTCP")
	if lockCall != nil {
		for _, e := range expect {
			k := byName[e]
			in2 := map[*ssa.BasicBlock]*st2{}
			start := lockCall.Block()
			in2[start] = &st2{set: 1 << uint(k)}
			w2 := []*ssa.BasicBlock{start}
			bad := ""
			first := true
			for len(w2) > 0 {
				b := w2[0]
				w2 = w2[1:]
				cur := *in2[b]
				from := 0
				if first {
					from = idxOf(lockCall)
					first = false
				}
				for _, in := range b.Instrs[from:] {
					switch x := in.(type) {
					case *ssa.Store:
						if isStateAddr(x.Addr) {
							if kk, isC := ConstInt(x.Val); isC && kk >= 0 && kk < 63 {
								cur.set = 1 << uint(kk)
							} else {
								cur.set = all
							}
						} else if fa, ok := x.Addr.(*ssa.FieldAddr); ok && fieldNameOf(fa) == "RecvNext" {
							if bo, ok := x.Val.(*ssa.BinOp); ok && bo.Op == token.ADD && isField(bo.X, "State", "RecvNext") {
								if one, ok := ConstInt(bo.Y); ok && one == 1 {
									cur.adv = true
								}
							}
						}
					case ssa.CallInstruction:
						if x.Common().StaticCallee() == send && len(x.Common().Args) == 4 {
							if fl, ok := ConstInt(x.Common().Args[3]); ok && fl&16 != 0 && cur.adv {
								cur.sent = true
							}
						}
					case *ssa.Return:
						if !cur.sent && bad == "" {
							bad = p.InstrPos(x)
						}
					}
				}
				for i, s := range b.Succs {
					if iff, ok := b.Instrs[len(b.Instrs)-1].(*ssa.If); ok {
						if known, val := evalCond(iff.Cond); known && (i == 0) != val {
							continue
						}
					}
					v := refine(b, i, cur.set)
					if v == 0 {
						continue
					}
					n := &st2{set: v, adv: cur.adv, sent: cur.sent}
					old := in2[s]
					if old == nil {
						in2[s] = n
						w2 = append(w2, s)
						continue
					}
					m := st2{set: old.set | n.set, adv: old.adv && n.adv, sent: old.sent && n.sent}
					if m != *old {
						*old = m
						w2 = append(w2, s)
					}
				}
			}
			key := fmt.Sprintf("FIN|ACK arriving in %s", e)
			c.Check(bad == "", rule, key, p.InstrPos(lockCall), "every path advances RCV.NXT over the FIN and sends a segment with the ACK bit", "for a FIN|ACK segment that finds the connection in "+e+", a path to the return at "+bad+" does not both advance RCV.NXT by one and send an acknowledgment afterwards: the peer's FIN is never answered (it keeps retransmitting it)")
		}
	}
	// while FIN is known set, RCV.NXT is not rewound over the segment's payload
	for _, iff := range finTests {
		fb := iff.Block()
		atom, pol := condAtom(iff.Cond)
		tIdx := 0
		if pol != flagPol(atom) {
			tIdx = 1
		}
		for _, b := range htcp.Blocks {
			if b == fb || !fb.Succs[tIdx].Dominates(b) || len(fb.Succs[tIdx].Preds) != 1 {
				continue
			}
			for _, in := range b.Instrs {
				x, ok := in.(*ssa.Store)
				if !ok {
					continue
				}
				fa, ok := x.Addr.(*ssa.FieldAddr)
				if !ok || fieldNameOf(fa) != "RecvNext" {
					continue
				}
				s := RenderN(x.Val, 6)
				okv := strings.Contains(s, "RecvNext") || (strings.Contains(s, "SeqNum") && strings.Contains(s, "len(") && strings.Contains(s, "Payload"))
				c.Check(okv, rule, "RCV.NXT under FIN: "+s, p.InstrPos(x), "relative to RCV.NXT, or SEG.SEQ plus the segment's payload length", "with the FIN bit set RCV.NXT is assigned `"+s+"`, which drops the advance over the segment's own payload: a FIN that rides on the last data segment is acknowledged with seq+1 and takes back the acknowledgment of that data")
			}
		}
	}
	c.Floor(rule, 5, "mutex premise, FIN test, ESTABLISHED / FIN-WAIT-1 / FIN-WAIT-2 arrivals")
	_ = in1
}

// unprotectedReachAll: in-repo functions reachable on the same goroutine (no `go` edges), regardless of recovers.
func unprotectedReachAll(p *Program, root *ssa.Function) map[*ssa.Function]bool {
	g := p.VTA()
	out := map[*ssa.Function]bool{root: true}
	queue := []*ssa.Function{root}
	for len(queue) > 0 {
		fn := queue[0]
		queue = queue[1:]
		n := g.Nodes[fn]
		if n == nil {
			continue
		}
		for _, e := range n.Out {
			if _, isGo := e.Site.(*ssa.Go); isGo {
				continue
			}
			cal := e.Callee.Func
			if cal == nil || !InRepo(cal) || cal.Blocks == nil || out[cal] {
				continue
			}
			out[cal] = true
			queue = append(queue, cal)
		}
	}
	return out
}

// c14PackedKeys: connection look-ups and frame fields combine an address, a port or a length into one integer by
// shifting and or-ing. A left shift performed on the narrow type and only then converted to the wide one
// (`uint64(x32<<16) | …`) silently drops the bits shifted out: two peers whose addresses differ only in those bits get the
// same key and share one connection state. Shifts must be done on the already widened value.
func c14PackedKeys(c *Ctx) {
	p := c.P
	const rule = "no-shift-before-widening"
	n, bad := 0, 0
	for _, fn := range p.FuncsIn(canaryRel) {
		for _, b := range fn.Blocks {
			for _, in := range b.Instrs {
				cv, ok := in.(*ssa.Convert)
				if !ok {
					continue
				}
				_, hiTo, okTo := intWidth(cv.Type())
				_, hiFrom, okFrom := intWidth(cv.X.Type())
				if !okTo || !okFrom || hiTo <= hiFrom {
					continue
				}
				sh, ok := cv.X.(*ssa.BinOp)
				if !ok || sh.Op != token.SHL {
					continue
				}
				k, isC := ConstInt(sh.Y)
				if !isC || k <= 0 {
					continue
				}
				n++
				// harmless when the shifted operand provably fits: it was itself widened from something k bits narrower
				fits := false
				if inner, ok := sh.X.(*ssa.Convert); ok {
					if _, hiIn, ok := intWidth(inner.X.Type()); ok && hiIn+int(k) <= hiFrom {
						fits = true
					}
				}
				if fits {
					c.Ok(rule, fmt.Sprintf("%s %s", shortFn(fn), RenderN(cv, 3)), p.InstrPos(cv), "the shifted value was widened from a type that leaves room for the shift")
					continue
				}
				bad++
				c.Violate(rule, fmt.Sprintf("%s %s", shortFn(fn), RenderN(cv, 3)), p.InstrPos(cv), fmt.Sprintf("a %d-bit value is shifted left by %d and only then converted to %d bits: the top %d bits are lost before the conversion, so values that differ only there (two peers' addresses) pack to the same key and are treated as one connection", hiFrom, k, hiTo, k))
			}
		}
	}
	if bad == 0 {
		c.Ok(rule, "listener/canary", "-", fmt.Sprintf("no narrow shift is widened afterwards (%d widening conversions of shifts looked at)", n))
	}
}

// intWidth: signedness and bit width of an integer type (int/uint counted as 64).
func intWidth(t types.Type) (signed bool, bits int, ok bool) {
	b, isB := t.Underlying().(*types.Basic)
	if !isB {
		return false, 0, false
	}
	switch b.Kind() {
	case types.Int8:
		return true, 8, true
	case types.Int16:
		return true, 16, true
	case types.Int32:
		return true, 32, true
	case types.Int64, types.Int:
		return true, 64, true
	case types.Uint8:
		return false, 8, true
	case types.Uint16:
		return false, 16, true
	case types.Uint32:
		return false, 32, true
	case types.Uint64, types.Uint, types.Uintptr:
		return false, 64, true
	}
	return false, 0, false
}

// c14FlushOnPush: a port handler does one Read and reports what it returned. Socket.Read parks until flush() signals it,
// so the moment of the flush decides what the event contains: text that was not pushed stays in the ring until a
// segment with PSH (or the FIN) arrives, and the single Read then returns everything up to and including the first
// pushed segment. Every flush() in the segment handler therefore sits under a test that the segment carries PSH or FIN.
// A test that is true for every segment (e.g. `Ctrl&PSH|FIN != 0`, which groups as (Ctrl&PSH)|FIN) wakes the handler
// on the first, unpushed segment: the payload ends before the first pushed segment.
func c14FlushOnPush(c *Ctx, htcp *ssa.Function) {
	p := c.P
	const rule = "flush-on-push-or-fin"
	const fin, psh = 1, 8
	// the flag constants by name, where the package still calls them that
	if pk := p.Pkg(canaryRel + "/tcp"); pk != nil {
		for name, want := range map[string]int64{"FIN": fin, "PSH": psh} {
			if k, ok := pk.Members[name].(*ssa.NamedConst); ok {
				if v, isInt := ConstInt(k.Value); isInt && v != want {
					c.Undecided(rule, "flag constant "+name, p.Pos(k.Pos()), fmt.Sprintf("tcp.%s is %d, the rule assumes %d", name, v, want))
					return
				}
			}
		}
	}
	isCtrl := func(v ssa.Value) bool {
		ld, ok := v.(*ssa.UnOp)
		if !ok {
			return false
		}
		fa, ok := ld.X.(*ssa.FieldAddr)
		return ok && fieldNameOf(fa) == "Ctrl"
	}
	// carries: the condition (with the polarity it holds at) implies that PSH or FIN is set in the segment
	carries := func(dc Cond) bool {
		atom, pol0 := condAtom(dc.V)
		pol := pol0 == dc.Pol
		switch x := atom.(type) {
		case *ssa.Call: // hdr.HasFlag(mask): all bits of mask set
			if f := x.Call.StaticCallee(); f != nil && f.Name() == "HasFlag" && len(x.Call.Args) == 2 {
				m, ok := ConstInt(x.Call.Args[1])
				return ok && pol && m&(fin|psh) != 0
			}
		case *ssa.BinOp:
			if x.Op != token.EQL && x.Op != token.NEQ {
				return false
			}
			and, ok := x.X.(*ssa.BinOp)
			k, okK := ConstInt(x.Y)
			if !ok || !okK || and.Op != token.AND || !isCtrl(and.X) {
				return false
			}
			m, okM := ConstInt(and.Y)
			if !okM || m <= 0 {
				return false
			}
			holdsEq := (x.Op == token.EQL) == pol // the comparison `Ctrl&m == k` holds
			switch {
			case k == m && holdsEq: // all bits of m set
				return m&(fin|psh) != 0
			case k == 0 && !holdsEq: // some bit of m set
				return m&^(fin|psh) == 0
			}
		}
		return false
	}
	// the segment handler and the helpers of the listener it hands the segment to (not the socket's own methods)
	scope := []*ssa.Function{htcp}
	seenFn := map[*ssa.Function]bool{htcp: true}
	for i := 0; i < len(scope) && i < 40; i++ {
		for _, call := range Calls(scope[i]) {
			hf := call.Common().StaticCallee()
			if hf == nil || seenFn[hf] || !InRepo(hf) || hf.Blocks == nil || PkgOf(hf) != ModPath+"/"+canaryRel {
				continue
			}
			if _, isGo := call.(*ssa.Go); isGo {
				continue
			}
			if r := hf.Signature.Recv(); r != nil {
				if n := NamedOf(r.Type()); n == nil || n.Obj().Name() != "Canary" {
					continue
				}
			}
			seenFn[hf] = true
			scope = append(scope, hf)
		}
	}
	var sites []ssa.CallInstruction
	for _, fn := range scope {
		for _, call := range Calls(fn) {
			sites = append(sites, call)
		}
	}
	// the wake-up: the method(s) of the socket that send on the channel its Read waits on (today: flush)
	wake := map[*ssa.Function]bool{}
	if rd := p.Method(canaryRel, "Socket", "Read"); rd != nil {
		isSocketMethod := func(fn *ssa.Function) bool {
			return fn != nil && fn.Blocks != nil && fn.Signature.Recv() != nil && NamedOf(fn.Signature.Recv().Type()) != nil && NamedOf(fn.Signature.Recv().Type()).Obj().Name() == "Socket"
		}
		// Read and the Socket helpers it calls (the wait may live in a helper)
		waiters := []*ssa.Function{rd}
		for i := 0; i < len(waiters) && i < 8; i++ {
			for _, call := range Calls(waiters[i]) {
				if hf := call.Common().StaticCallee(); isSocketMethod(hf) {
					dup := false
					for _, w := range waiters {
						if w == hf {
							dup = true
						}
					}
					if !dup {
						waiters = append(waiters, hf)
					}
				}
			}
		}
		isWaiter := map[*ssa.Function]bool{}
		for _, w := range waiters {
			isWaiter[w] = true
		}
		waitField := map[int]bool{}
		chanField := func(v ssa.Value) (int, bool) {
			ld, ok := v.(*ssa.UnOp)
			if !ok || ld.Op != token.MUL {
				return 0, false
			}
			fa, ok := ld.X.(*ssa.FieldAddr)
			if !ok || NamedOf(fa.X.Type()) == nil || NamedOf(fa.X.Type()).Obj().Name() != "Socket" {
				return 0, false
			}
			return fa.Field, true
		}
		for _, wfn := range waiters {
			for _, b := range wfn.Blocks {
				for _, in := range b.Instrs {
					switch x := in.(type) {
					case *ssa.Select:
						for _, st := range x.States {
							if st.Dir == types.RecvOnly {
								if fi, ok := chanField(st.Chan); ok {
									waitField[fi] = true
								}
							}
						}
					case *ssa.UnOp:
						if x.Op == token.ARROW {
							if fi, ok := chanField(x.X); ok {
								waitField[fi] = true
							}
						}
					}
				}
			}
		}
		for _, fn := range p.FuncsIn(canaryRel) {
			if isWaiter[fn] || !isSocketMethod(fn) {
				continue
			}
			for _, b := range fn.Blocks {
				for _, in := range b.Instrs {
					switch x := in.(type) {
					case *ssa.Select:
						for _, st := range x.States {
							if st.Dir == types.SendOnly {
								if fi, ok := chanField(st.Chan); ok && waitField[fi] {
									wake[fn] = true
								}
							}
						}
					case *ssa.Send:
						if fi, ok := chanField(x.Chan); ok && waitField[fi] {
							wake[fn] = true
						}
					}
				}
			}
		}
	}
	for changed := true; changed; {
		changed = false
		for _, fn := range p.FuncsIn(canaryRel) {
			if wake[fn] || fn.Blocks == nil || fn.Signature.Recv() == nil || NamedOf(fn.Signature.Recv().Type()) == nil || NamedOf(fn.Signature.Recv().Type()).Obj().Name() != "Socket" || fn.Name() == "Read" {
				continue
			}
			for _, call := range Calls(fn) {
				if _, isCall := call.(*ssa.Call); isCall && wake[call.Common().StaticCallee()] {
					wake[fn] = true
					changed = true
				}
			}
		}
	}
	if !c.Anchor(len(wake) >= 1, rule, "the socket method that wakes a parked Read (sends on the channel Socket.Read waits on)") {
		return
	}
	n := 0
	for _, call := range sites {
		f := call.Common().StaticCallee()
		if f == nil || !wake[f] {
			continue
		}
		if _, isDefer := call.(*ssa.Defer); isDefer {
			continue
		}
		n++
		ok := false
		for _, dc := range DomConds(call) {
			if carries(dc) {
				ok = true
			}
		}
		c.Check(ok, rule, fmt.Sprintf("%s flush #%d", shortFn(call.Parent()), n), p.InstrPos(call), "the handler is woken only by a segment that carries PSH or FIN",
			"this flush() is not under a test that the segment carries PSH or FIN (conditions on the way: "+fmt.Sprint(RenderConds(DomConds(call)))+"): the parked port handler is released by segments that were not pushed, its single Read returns the text so far and the reported payload ends before the client's first pushed segment")
	}
	c.Floor(rule, 2, "the PSH flush and the FIN flush of handleTCP")
}

// c14NextHopOfPeer: "every frame it emits is addressed back to the sender" holds at the link layer as well: the
// hardware address a reply is sent to is looked up in the ARP cache for the address the reply goes TO – the connection's
// source (State.SrcIP, iph.Src, bytes 16..19 of the outgoing IP header) – or for the gateway of the route that contains
// it. A lookup keyed by the connection's own/local address (State.DestIP, iph.Dst, NewState's dest) sends every reply to
// whoever owns that entry: neighbours on the local segment never see their SYN-ACK.
func c14NextHopOfPeer(c *Ctx) {
	p := c.P
	const rule = "next-hop-of-peer"
	get := p.Method(canaryRel, "ARPCache", "Get")
	if !c.Anchor(get != nil, rule, "(canary.ARPCache).Get") {
		return
	}
	// role of an address value: "peer", "local", "gateway", "" (unknown)
	var roleOf func(v ssa.Value, fn *ssa.Function, depth int) string
	roleOf = func(v ssa.Value, fn *ssa.Function, depth int) string {
		if depth > 5 {
			return ""
		}
		v = Unwrap(v)
		switch x := v.(type) {
		case *ssa.UnOp:
			if x.Op != token.MUL {
				return ""
			}
			if fa, ok := x.X.(*ssa.FieldAddr); ok {
				switch fieldNameOf(fa) {
				case "SrcIP", "Src":
					return "peer"
				case "DestIP", "Dst":
					return "local"
				case "Gateway":
					return "gateway"
				}
			}
			if a, ok := x.X.(*ssa.Alloc); ok {
				r := ""
				for _, sv := range StoredValues(a) {
					r2 := roleOf(sv, fn, depth+1)
					if r != "" && r2 != r {
						return ""
					}
					r = r2
				}
				return r
			}
		case *ssa.Call:
			// net.IPv4(data[16], data[17], data[18], data[19]) of the header just built: its destination
			if f := x.Call.StaticCallee(); f != nil && FuncIs(f, "net", "IPv4") && len(x.Call.Args) == 4 {
				idx := []int64{}
				for _, a := range x.Call.Args {
					if ld, ok := a.(*ssa.UnOp); ok {
						if ia, ok := ld.X.(*ssa.IndexAddr); ok {
							if k, isK := ConstInt(ia.Index); isK {
								idx = append(idx, k)
							}
						}
					}
				}
				if len(idx) == 4 && idx[0] == 16 && idx[3] == 19 {
					return "peer" // destination of the outgoing header = the connection's source
				}
				if len(idx) == 4 && idx[0] == 12 && idx[3] == 15 {
					return "local"
				}
			}
		case *ssa.Parameter:
			// what every call site passes
			idx := paramIdx(x)
			r := ""
			n := 0
			for _, g := range p.FuncsIn(canaryRel) {
				for _, cl := range Calls(g) {
					if cl.Common().StaticCallee() != x.Parent() || idx < 0 || idx >= len(cl.Common().Args) {
						continue
					}
					n++
					r2 := roleOf(cl.Common().Args[idx], g, depth+1)
					if r2 == "" || (r != "" && r2 != r) {
						return ""
					}
					r = r2
				}
			}
			if n > 0 {
				return r
			}
			// NewState(src, srcPort, dest, dstPort): by position at its call sites this was handled; by name as a last resort
			switch x.Name() {
			case "src":
				return "peer"
			case "dest", "dst":
				return "local"
			}
		case *ssa.Phi:
			r := ""
			for _, e := range x.Edges {
				r2 := roleOf(e, fn, depth+1)
				if r != "" && r2 != r {
					return ""
				}
				r = r2
			}
			return r
		}
		return ""
	}
	n := 0
	for _, fn := range p.FuncsIn(canaryRel) {
		if fn.Blocks == nil || strings.HasSuffix(p.Fset.Position(fn.Pos()).Filename, "_test.go") {
			continue
		}
		for _, call := range Calls(fn) {
			if call.Common().StaticCallee() != get || len(call.Common().Args) != 2 {
				continue
			}
			n++
			r := roleOf(call.Common().Args[1], fn, 0)
			key := fmt.Sprintf("%s ARP lookup #%d", shortFn(fn), n)
			switch r {
			case "peer", "gateway":
				c.Ok(rule, key, p.InstrPos(call), "looked up for the "+r+" address")
			case "local":
				c.Violate(rule, key, p.InstrPos(call), "the hardware address for a reply is looked up for the connection's LOCAL address ("+RenderN(call.Common().Args[1], 3)+") instead of the peer's: with a default route every reply to a neighbour on the local segment goes to the gateway's hardware address (without one nothing is sent at all), so the client never sees the SYN-ACK")
			default:
				c.Undecided(rule, key, p.InstrPos(call), "the address the ARP cache is asked for cannot be traced to the peer's address, a gateway or the local address: "+RenderN(call.Common().Args[1], 3))
			}
		}
	}
	c.Floor(rule, 2, "send: direct entry and gateway entry")
}
