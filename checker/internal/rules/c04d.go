package rules

import (
	"fmt"
	"go/types"

	. "htcheck/internal/core"

	"golang.org/x/tools/go/ssa"
)

// c04BorrowedLineNotUsedAfterNextRead (rule borrowed-line-not-used-after-read): (*bufio.Reader).ReadSlice and Peek and
// (*bufio.Scanner).Bytes hand out a window of the reader's own buffer that the next read may overwrite. A handler that
// reads more from the same reader (the data block that follows a command line) and then still uses the window, or
// byte slices cut from it (bytes.Split/Fields/Trim*, sub-slices), reports whatever the later read left there – and
// what that is depends on where the client's segments ended. Conversions to string copy and end the borrowing.
func c04BorrowedLineNotUsedAfterNextRead(c *Ctx, rels ...string) {
	const rule = "borrowed-line-not-used-after-read"
	c.Explanation += " Windows of a buffered reader's own buffer (ReadSlice/Peek/Scanner.Bytes) are not used after a later read from the same reader."
	p := c.P
	borrows := func(f *ssa.Function) bool {
		return MethodIs(f, "bufio", "Reader", "ReadSlice") || MethodIs(f, "bufio", "Reader", "Peek") || MethodIs(f, "bufio", "Scanner", "Bytes")
	}
	isByteish := func(t types.Type) bool {
		switch u := t.Underlying().(type) {
		case *types.Slice:
			if b, ok := u.Elem().Underlying().(*types.Basic); ok && b.Kind() == types.Byte {
				return true
			}
			if s2, ok := u.Elem().Underlying().(*types.Slice); ok {
				if b, ok := s2.Elem().Underlying().(*types.Basic); ok && b.Kind() == types.Byte {
					return true
				}
			}
		case *types.Tuple:
			return u.Len() > 0 && false
		}
		return false
	}
	n := 0
	for _, fn := range p.FuncsIn(rels...) {
		for _, call := range Calls(fn) {
			cv, ok := call.(*ssa.Call)
			if !ok {
				continue
			}
			f := cv.Call.StaticCallee()
			if f == nil || !borrows(f) || len(cv.Call.Args) == 0 {
				continue
			}
			n++
			rd := c15Root(cv.Call.Args[0])
			key := fmt.Sprintf("%s: %s", shortFn(fn), FuncShort(f))
			// the borrowed window and what is cut from it
			taint := map[ssa.Value]bool{}
			var add func(v ssa.Value)
			add = func(v ssa.Value) {
				if v == nil || taint[v] {
					return
				}
				taint[v] = true
				if v.Referrers() == nil {
					return
				}
				for _, r := range *v.Referrers() {
					switch x := r.(type) {
					case *ssa.Extract:
						if x.Index == 0 || isByteish(x.Type()) {
							if isByteish(x.Type()) {
								add(x)
							}
						}
					case *ssa.Slice:
						if x.X == v {
							add(x)
						}
					case *ssa.Phi:
						add(x)
					case *ssa.Call:
						if g := x.Call.StaticCallee(); g != nil && PkgOf(g) == "bytes" && isByteish(x.Type()) {
							for _, a := range x.Call.Args {
								if a == v {
									add(x)
								}
							}
						}
					case *ssa.IndexAddr:
						if x.X == v {
							add(x)
						}
					case *ssa.UnOp:
						if x.X == v && isByteish(x.Type()) {
							add(x)
						}
					case *ssa.Store:
						if x.Val == v {
							if a, ok := x.Addr.(*ssa.Alloc); ok {
								for _, ar := range *a.Referrers() {
									if ld, ok := ar.(*ssa.UnOp); ok {
										add(ld)
									}
								}
							}
						}
					}
				}
			}
			add(cv)
			// later reads from the same reader
			bad := ""
			for _, c2 := range Calls(fn) {
				if c2 == call {
					continue
				}
				cc := c2.Common()
				reads := false
				if g := cc.StaticCallee(); g != nil {
					if g.Signature.Recv() != nil && len(cc.Args) > 0 && c15Root(cc.Args[0]) == rd && PkgOf(g) == "bufio" {
						switch g.Name() {
						case "Buffered", "Size", "Reset":
						default:
							reads = true
						}
					}
					if PkgOf(g) == "io" {
						for _, a := range cc.Args {
							if c15Root(a) == rd {
								reads = true
							}
						}
					}
				}
				if !reads {
					continue
				}
				// c2 after the borrowing call, a use after c2, without passing the borrowing call again
				stopAtBorrow := func(in ssa.Instruction) bool { return in == ssa.Instruction(cv) }
				if !InstrReachFrom(fn, cv, nil, stopAtBorrow)(c2) {
					continue
				}
				after := InstrReachFrom(fn, c2, nil, stopAtBorrow)
				for _, b := range fn.Blocks {
					for _, in := range b.Instrs {
						if in == ssa.Instruction(cv) || in == c2.(ssa.Instruction) || !after(in) {
							continue
						}
						if _, isPhi := in.(*ssa.Phi); isPhi {
							continue
						}
						for _, op := range in.Operands(nil) {
							if *op != nil && taint[*op] {
								if _, isDbg := in.(*ssa.DebugRef); !isDbg && bad == "" {
									bad = fmt.Sprintf("%s is used at %s after the read at %s", RenderN(*op, 2), p.InstrPos(in), p.InstrPos(c2))
								}
							}
						}
					}
				}
			}
			c.Check(bad == "", rule, key, p.InstrPos(cv), "the window is not used after a later read from the same reader", "the bytes handed out here are a window of the reader's own buffer, and "+bad+": when that read had to refill the buffer – the client's segment ended right behind the line – the window holds the start of the following data, and the reported command/type are taken from it; the decoded fields depend on how the stream was cut")
		}
	}
	c.Ok(rule, "borrowed windows of buffered readers", "-", fmt.Sprintf("%d examined in %v", n, rels))
}
