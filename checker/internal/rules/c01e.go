package rules

import (
	"go/token"
	"go/types"

	. "htcheck/internal/core"

	"golang.org/x/tools/go/ssa"
)

// nilFuncListed: in fn (a function an unrecovered goroutine runs), a function value that can be nil – the nil constant
// or the result of an in-repo helper that returns nil on some path – is appended to a list that is handed to an in-repo
// function which calls every element without testing it. Calling the nil element panics outside any recover.
func nilFuncListed(p *Program, fn *ssa.Function) (out []panicSite) {
	isFuncT := func(t types.Type) bool {
		_, ok := t.Underlying().(*types.Signature)
		return ok
	}
	var nilable func(v ssa.Value, d int) string
	nilable = func(v ssa.Value, d int) string {
		if d > 3 {
			return ""
		}
		for _, lf := range leaves(v) {
			if IsNilConst(lf) {
				return "the nil constant"
			}
			if call, ok := lf.(*ssa.Call); ok {
				if h := call.Call.StaticCallee(); h != nil && InRepo(h) && h.Blocks != nil {
					for _, r := range Returns(h) {
						for _, rv := range RetVals(r) {
							if isFuncT(rv.Type()) {
								if w := nilable(rv, d+1); w != "" {
									return shortFn(h) + " (returns nil at " + p.InstrPos(r) + ")"
								}
							}
						}
					}
				}
			}
		}
		return ""
	}
	// callsElementsUnchecked: h calls elements of its parameter idx without a nil test
	callsElementsUnchecked := func(h *ssa.Function, idx int) ssa.Instruction {
		if h.Blocks == nil || idx >= len(h.Params) {
			return nil
		}
		par := h.Params[idx]
		isPar := func(v ssa.Value) bool {
			r := c15Root(v)
			if r == ssa.Value(par) {
				return true
			}
			if a, ok := r.(*ssa.Alloc); ok {
				for _, sv := range StoredValues(a) {
					if sv == ssa.Value(par) {
						return true
					}
				}
			}
			return false
		}
		var blocks []*ssa.BasicBlock
		for _, f := range append([]*ssa.Function{h}, Anon(h)...) {
			blocks = append(blocks, f.Blocks...)
		}
		for _, b := range blocks {
			for _, in := range b.Instrs {
				call, ok := in.(ssa.CallInstruction)
				if !ok || call.Common().IsInvoke() || call.Common().StaticCallee() != nil {
					continue
				}
				v := call.Common().Value
				ld, ok := v.(*ssa.UnOp)
				if !ok || ld.Op != token.MUL {
					continue
				}
				ia, ok := ld.X.(*ssa.IndexAddr)
				if !ok || !isPar(ia.X) {
					continue
				}
				guarded := false
				for _, dc := range DomConds(in) {
					if bo, ok := dc.V.(*ssa.BinOp); ok && (IsNilConst(bo.X) || IsNilConst(bo.Y)) {
						guarded = true
					}
				}
				if !guarded {
					return in
				}
			}
		}
		return nil
	}
	for _, b := range fn.Blocks {
		for _, in := range b.Instrs {
			ap, ok := in.(*ssa.Call)
			if !ok {
				continue
			}
			bi, ok := ap.Call.Value.(*ssa.Builtin)
			if !ok || bi.Name() != "append" || len(ap.Call.Args) != 2 {
				continue
			}
			sl, ok := ap.Type().Underlying().(*types.Slice)
			if !ok || !isFuncT(sl.Elem()) {
				continue
			}
			el := appendedElem(ap.Call.Args[1])
			if el == nil {
				continue
			}
			why := nilable(el, 0)
			if why == "" {
				continue
			}
			// where does the list go?
			seen := map[ssa.Value]bool{}
			var consumer ssa.Instruction
			var walk func(v ssa.Value)
			walk = func(v ssa.Value) {
				if seen[v] || v.Referrers() == nil || consumer != nil {
					return
				}
				seen[v] = true
				for _, r := range *v.Referrers() {
					switch x := r.(type) {
					case *ssa.Phi:
						walk(x)
					case *ssa.Call:
						if b2, ok := x.Call.Value.(*ssa.Builtin); ok && b2.Name() == "append" {
							walk(x)
							continue
						}
						if h := x.Call.StaticCallee(); h != nil && InRepo(h) {
							for i, a := range x.Call.Args {
								if a == v {
									if at := callsElementsUnchecked(h, i); at != nil {
										consumer = at
									}
								}
							}
						}
					case *ssa.Slice:
						walk(x)
					}
				}
			}
			walk(ap)
			if consumer == nil {
				continue
			}
			out = append(out, panicSite{"nil function value listed in " + shortFn(fn), p.InstrPos(ap),
				"a function value that can be nil (" + why + ") is appended to a list whose consumer " + shortFn(consumer.Parent()) + " calls every element without a nil test (" + p.InstrPos(consumer) + "), in a goroutine outside any recover: the input for which the nil is produced ends the process"})
		}
	}
	return out
}
