package rules

import (
	"fmt"
	"go/token"
	"go/types"
	"strings"

	"golang.org/x/tools/go/ssa"

	. "htcheck/internal/core"
)

func init() { Registry["C06"] = c06 }

const pushersPath = ModPath + "/pushers"

func isLenOf(v ssa.Value) (ssa.Value, bool) {
	call, ok := v.(*ssa.Call)
	if !ok {
		return nil, false
	}
	bi, ok := call.Call.Value.(*ssa.Builtin)
	if !ok || bi.Name() != "len" {
		return nil, false
	}
	return call.Call.Args[0], true
}

// loopOnlyConds: true if every dominating condition of `in` is a range-loop bound check (idx < len(x)) being true.
func loopOnlyConds(in ssa.Instruction) (bool, []string) {
	var extra []string
	for _, dc := range DomConds(in) {
		if b, ok := dc.V.(*ssa.BinOp); ok && b.Op == token.LSS && dc.Pol && isAscendingIndex(b.X) {
			if _, ok := isLenOf(b.Y); ok {
				continue
			}
		}
		s := Render(dc.V)
		if !dc.Pol {
			s = "!" + s
		}
		extra = append(extra, s)
	}
	return len(extra) == 0, extra
}

func c06(c *Ctx) {
	c.Explanation = "Static check of the routing mechanism, composed of five small functions plus the wiring in Run, for all configurations and events: " +
		"EventBus.Send delivers the same event to every subscriber in subscription order with no condition/early exit; Subscribe appends; filterChannel.Send reaches the inner Send " +
		"exactly when FilterFn(e) is true; tokenChannel.Send always forwards the event with the token applied; the regex filter closure returns true iff some compiled expression " +
		"matches e.Get(field) and false only after all were tried, with one compiled matcher per configured expression; in Run each configured (filter, channel name) pair subscribes " +
		"channels[name] wrapped by TokenChannel(hc.token), by a category filter iff the filter has categories, by a service filter iff it has services (key/field pairing checked), " +
		"unknown names are skipped, and the decoded filter struct is fresh for every filter entry. Does not decide regexp semantics, back-end delivery or cross-goroutine ordering."
	c.Assume("regexp.MatchString implements RE2 matching (trusted)")
	c.Assume("event.Apply(e, opts...) applies options to e and returns it (checked shape: range over opts calling each)")
	c06Bus(c)
	c06Channels(c)
	c06Regex(c)
	c06Wiring(c)
	c06FieldAccessor(c)
}

func c06Bus(c *Ctx) {
	p := c.P
	send := p.Method("pushers/eventbus", "EventBus", "Send")
	sub := p.Method("pushers/eventbus", "EventBus", "Subscribe")
	if !c.Anchor(send != nil && sub != nil, "bus-fanout", "(*eventbus.EventBus).Send/Subscribe") {
		return
	}
	// the subscriber list: the bus's only field that is a slice of channels
	subsField := fieldByType(p.Type("pushers/eventbus", "EventBus"), func(t types.Type) bool { return isSliceOfNamed(t, "Channel") })
	if !c.Anchor(subsField != "", "bus-fanout", "EventBus's slice-of-Channel field") {
		return
	}
	n := 0
	for _, call := range Calls(send) {
		cc := call.Common()
		if !cc.IsInvoke() || cc.Method.Name() != "Send" {
			continue
		}
		n++
		key := fmt.Sprintf("EventBus.Send delivery[%d]", n)
		elemOK := rangeElemOfField(cc.Value, subsField)
		c.Check(elemOK, "bus-fanout", key+" receiver", p.InstrPos(call), "each element of eb.subscribers in ascending order", "delivery target is not the range element of eb.subscribers in ascending order: "+Render(cc.Value))
		c.Check(len(cc.Args) == 1 && cc.Args[0] == ssa.Value(send.Params[1]), "bus-fanout", key+" event", p.InstrPos(call), "the event passed to the bus", "subscribers are not sent the event that was put on the bus")
		only, extra := loopOnlyConds(call)
		c.Check(only && InLoop(call.Block()), "bus-fanout", key+" unconditional", p.InstrPos(call), "no condition other than the loop bound", "delivery to a subscriber is conditional: "+strings.Join(extra, ", "))
		// no early exit: the loop body reaches the loop header again on every path (no return/break in body): from the body entry, every Return must be unreachable without leaving via the loop cond false edge
		for _, r := range Returns(send) {
			if InLoop(r.Block()) {
				c.Violate("bus-fanout", key+" no early exit", p.InstrPos(r), "a return inside the delivery loop skips later subscribers")
			}
			for _, dc := range DomConds(r) {
				_ = dc
			}
		}
		// the only way out of the loop is exhaustion: every return is dominated by (idx<len false)
		for i, r := range Returns(send) {
			ex := false
			for _, dc := range DomConds(r) {
				if b, ok := dc.V.(*ssa.BinOp); ok && b.Op == token.LSS && !dc.Pol && isAscendingIndex(b.X) {
					ex = true
				}
			}
			c.Check(ex, "bus-fanout", fmt.Sprintf("EventBus.Send return[%d] after exhaustion", i), p.InstrPos(r), "", "Send can return before every subscriber was served")
		}
	}
	c.Check(n == 1, "bus-fanout", "EventBus.Send single delivery site", p.Pos(send.Pos()), "", fmt.Sprintf("expected exactly one delivery call in the loop, found %d (an event must reach each subscriber once per subscription)", n))
	// Subscribe appends
	okSub := false
	for _, b := range sub.Blocks {
		for _, in := range b.Instrs {
			st, ok := in.(*ssa.Store)
			if !ok {
				continue
			}
			if fa, ok := st.Addr.(*ssa.FieldAddr); ok && fieldNameOf(fa) == subsField {
				if call, ok := st.Val.(*ssa.Call); ok {
					if bi, ok := call.Call.Value.(*ssa.Builtin); ok && bi.Name() == "append" {
						if _, ok := isFieldLoadNamed(call.Call.Args[0], subsField); ok && appendedElem(call.Call.Args[1]) == ssa.Value(sub.Params[1]) {
							okSub = b == sub.Blocks[0]
						}
					}
				}
			}
		}
	}
	c.Check(okSub, "bus-fanout", "EventBus.Subscribe appends", p.Pos(sub.Pos()), "subscribers = append(subscribers, channel) unconditionally", "Subscribe does not unconditionally append the given channel at the end of the subscriber list")
	// who may write subscribers
	for _, fn := range p.Funcs() {
		for _, b := range fn.Blocks {
			for _, in := range b.Instrs {
				if st, ok := in.(*ssa.Store); ok {
					if fa, ok := st.Addr.(*ssa.FieldAddr); ok && fieldNameOf(fa) == subsField && NamedOf(fa.X.Type()) != nil && NamedOf(fa.X.Type()).Obj().Name() == "EventBus" && fn != sub {
						c.Violate("bus-fanout", shortFn(fn)+" writes EventBus.subscribers", p.InstrPos(st), "the subscriber list is modified outside Subscribe")
					}
				}
			}
		}
	}
}

func c06Channels(c *Ctx) {
	p := c.P
	fs := p.Method("pushers", "filterChannel", "Send")
	ts := p.Method("pushers", "tokenChannel", "Send")
	if !c.Anchor(fs != nil && ts != nil, "filter-channel", "pushers.filterChannel.Send / tokenChannel.Send") {
		return
	}
	// filterChannel
	var inner []*ssa.Call
	var pred *ssa.Call
	for _, call := range Calls(fs) {
		cv, ok := call.(*ssa.Call)
		if !ok {
			continue
		}
		if cv.Call.IsInvoke() && cv.Call.Method.Name() == "Send" {
			inner = append(inner, cv)
		} else if cv.Call.StaticCallee() == nil && !cv.Call.IsInvoke() {
			if strings.HasSuffix(Render(cv.Call.Value), ".FilterFn") {
				pred = cv
			}
		}
	}
	if c.Check(len(inner) == 1 && pred != nil, "filter-channel", "filterChannel.Send shape", p.Pos(fs.Pos()), "one inner Send, one FilterFn call", "expected exactly one inner Send and one FilterFn call") {
		in := inner[0]
		c.Check(Render(in.Call.Value) == "p0.Channel" && in.Call.Args[0] == ssa.Value(fs.Params[1]), "filter-channel", "filterChannel inner Send", p.InstrPos(in), "wrapped channel receives the same event", "inner Send is not mc.Channel.Send(e)")
		c.Check(len(pred.Call.Args) == 1 && pred.Call.Args[0] == ssa.Value(fs.Params[1]) && Render(pred.Call.Value) == "p0.FilterFn", "filter-channel", "filterChannel predicate input", p.InstrPos(pred), "FilterFn(e)", "the predicate is not evaluated on the event being sent")
		guarded := false
		var others []string
		for _, dc := range DomConds(in) {
			if dc.V == ssa.Value(pred) && dc.Pol {
				guarded = true
			} else {
				others = append(others, Render(dc.V))
			}
		}
		c.Check(guarded && len(others) == 0, "filter-channel", "filterChannel admits iff predicate", p.InstrPos(in), "inner Send reached exactly when FilterFn(e) is true", "inner Send is not governed exactly by FilterFn(e)==true (guarded="+fmt.Sprint(guarded)+", other conditions: "+strings.Join(others, ", ")+")")
		c.Check(!InLoop(in.Block()), "filter-channel", "filterChannel delivers once", p.InstrPos(in), "", "inner Send sits in a loop")
	}
	// tokenChannel
	inner = nil
	for _, call := range Calls(ts) {
		if cv, ok := call.(*ssa.Call); ok && cv.Call.IsInvoke() && cv.Call.Method.Name() == "Send" {
			inner = append(inner, cv)
		}
	}
	if c.Check(len(inner) == 1, "token-channel", "tokenChannel.Send shape", p.Pos(ts.Pos()), "one inner Send", "expected exactly one inner Send") {
		in := inner[0]
		c.Check(in.Block() == ts.Blocks[0] && Render(in.Call.Value) == "p0.Channel", "token-channel", "tokenChannel forwards always", p.InstrPos(in), "unconditional mc.Channel.Send", "the event is not forwarded unconditionally to the wrapped channel")
		// argument: event.Apply(e, event.Token(mc.Token))
		okTok := false
		if ap, ok := in.Call.Args[0].(*ssa.Call); ok && FuncIs(ap.Call.StaticCallee(), ModPath+"/event", "Apply") && ap.Call.Args[0] == ssa.Value(ts.Params[1]) {
			if opt := appendedElem(ap.Call.Args[1]); opt != nil {
				if tc, ok := opt.(*ssa.Call); ok && FuncIs(tc.Call.StaticCallee(), ModPath+"/event", "Token") && Render(tc.Call.Args[0]) == "p0.Token" {
					okTok = true
				}
				// the option built once by the constructor and kept in a field: setToken = event.Token(token), with the same
				// token the channel is given, and written nowhere else
				if fname, isF := c06RecvField(opt, ts); isF {
					stores, good := 0, 0
					for _, fn := range p.FuncsIn("pushers") {
						for _, b := range fn.Blocks {
							for _, in2 := range b.Instrs {
								st, ok := in2.(*ssa.Store)
								if !ok {
									continue
								}
								fa, ok := st.Addr.(*ssa.FieldAddr)
								if !ok || fieldNameOf(fa) != fname || NamedOf(fa.X.Type()) == nil || NamedOf(fa.X.Type()).Obj().Name() != "tokenChannel" {
									continue
								}
								stores++
								if tc, ok := st.Val.(*ssa.Call); ok && FuncIs(tc.Call.StaticCallee(), ModPath+"/event", "Token") {
									if pr, isP := tc.Call.Args[0].(*ssa.Parameter); isP && pr.Parent() == fn {
										// the Token field of the same literal gets the same parameter (or there is no other token source)
										same := true
										for _, b2 := range fn.Blocks {
											for _, in3 := range b2.Instrs {
												if s3, ok := in3.(*ssa.Store); ok {
													if fa3, ok := s3.Addr.(*ssa.FieldAddr); ok && fa3.X == fa.X && fieldNameOf(fa3) == "Token" && s3.Val != ssa.Value(pr) {
														same = false
													}
												}
											}
										}
										if same {
											good++
										}
									}
								}
							}
						}
					}
					okTok = stores == 1 && good == 1
				}
			}
		}
		c.Check(okTok, "token-channel", "tokenChannel applies token", p.InstrPos(in), "event.Apply(e, event.Token(mc.Token))", "the forwarded event is not e with event.Token(mc.Token) applied: "+Render(in.Call.Args[0]))
	}
	// event.Token stores under "token"; event.Apply applies every option to e and returns e
	if tk := p.Func("event", "Token"); c.Anchor(tk != nil && len(tk.AnonFuncs) == 1, "token-channel", "event.Token") {
		cl := tk.AnonFuncs[0]
		ok := false
		for _, call := range Calls(cl) {
			if f := call.Common().StaticCallee(); f != nil && f.Name() == "Store" && len(call.Common().Args) == 3 {
				k, _ := ConstString(call.Common().Args[1])
				ok = k == "token" && strings.TrimPrefix(Render(call.Common().Args[2]), "*") == "fv:token" && call.Common().Args[0] == ssa.Value(cl.Params[0])
			}
		}
		c.Check(ok, "token-channel", "event.Token stores token", p.Pos(tk.Pos()), `m.Store("token", token)`, "event.Token does not store its argument under the key \"token\" of the event it is applied to")
	}
	if ap := p.Func("event", "Apply"); c.Anchor(ap != nil, "token-channel", "event.Apply") {
		okCall, okRet := false, true
		for _, call := range Calls(ap) {
			cc := call.Common()
			if cc.StaticCallee() == nil && !cc.IsInvoke() && len(cc.Args) == 1 && cc.Args[0] == ssa.Value(ap.Params[0]) {
				only := true
				for _, dc := range DomConds(call) {
					if b, ok := dc.V.(*ssa.BinOp); ok {
						if b.Op == token.LSS && dc.Pol && isAscendingIndex(b.X) {
							if _, ok := isLenOf(b.Y); ok {
								continue
							}
						}
						// `if o == nil { continue }`: a nil option cannot be applied; skipping it withholds nothing
						if (b.Op == token.NEQ && dc.Pol) || (b.Op == token.EQL && !dc.Pol) {
							if (IsNilConst(b.Y) && b.X == cc.Value) || (IsNilConst(b.X) && b.Y == cc.Value) {
								continue
							}
						}
					}
					only = false
				}
				if only && InLoop(call.Block()) {
					okCall = true
				}
			}
		}
		for _, r := range Returns(ap) {
			if RetVals(r)[0] != ssa.Value(ap.Params[0]) {
				okRet = false
			}
		}
		c.Check(okCall && okRet, "token-channel", "event.Apply applies all options", p.Pos(ap.Pos()), "every option applied to e; e returned", "event.Apply does not apply every option to e unconditionally and return e")
	}
}

func c06Regex(c *Ctx) {
	p := c.P
	rf := p.Func("pushers", "RegexFilterFunc")
	if !c.Anchor(rf != nil, "regex-any-of", "pushers.RegexFilterFunc") {
		return
	}
	// The filter handed back: a function literal capturing the field name and the compiled matchers (form A), or a method
	// value of a struct built here that holds them (form B). `cl` is the filter's body, `ev` its event parameter, isField /
	// isMatchers recognise the captured field name and matcher list inside it, `built` is the value RegexFilterFunc returns.
	var cl *ssa.Function
	var ev ssa.Value
	var built ssa.Value
	var isField, isMatchers func(v ssa.Value) bool
	matchersOK := false // the captured list is the one compiled in this call
	compiledHere := func(v ssa.Value) bool {
		v = Deref(v)
		if a, ok := v.(*ssa.Alloc); ok {
			for _, sv := range StoredValues(a) {
				v = sv
			}
		}
		switch x := v.(type) {
		case *ssa.MakeSlice:
			return true
		case *ssa.Call:
			// compileExpressions(expressions): a helper given this call's expression list
			hf := x.Call.StaticCallee()
			if hf != nil && InRepo(hf) && hf.Blocks != nil {
				for _, a := range x.Call.Args {
					if a == ssa.Value(rf.Params[1]) {
						return true
					}
				}
			}
		}
		return false
	}
	for _, mc := range MakeClosures(rf) {
		fn, _ := mc.Fn.(*ssa.Function)
		if fn == nil {
			continue
		}
		if fn.Parent() == rf {
			// form A
			bind := ClosureBindings(mc)
			var fieldFV, matchFV *ssa.FreeVar
			for fv, bv := range bind {
				d := Deref(bv)
				if d == ssa.Value(rf.Params[0]) {
					fieldFV = fv
				} else if a, ok := d.(*ssa.Alloc); ok {
					for _, sv := range StoredValues(a) {
						if sv == ssa.Value(rf.Params[0]) {
							fieldFV = fv
						}
					}
					if compiledHere(a) {
						matchFV = fv
					}
				} else if compiledHere(d) {
					matchFV = fv
				}
			}
			if fieldFV == nil || matchFV == nil {
				continue
			}
			isFV := func(v ssa.Value, fv *ssa.FreeVar) bool {
				if v == ssa.Value(fv) {
					return true
				}
				ld, ok := isLoad(v)
				return ok && ld.X == ssa.Value(fv)
			}
			cl, ev, built, matchersOK = fn, fn.Params[0], mc, true
			isField = func(v ssa.Value) bool { return isFV(v, fieldFV) }
			isMatchers = func(v ssa.Value) bool { return isFV(v, matchFV) }
		} else if strings.HasSuffix(fn.Name(), "$bound") && len(mc.Bindings) == 1 {
			// form B: rf.admits, a method value of &regexFilter{field: field, matchers: …} built in this call
			obj, ok := mc.Bindings[0].(*ssa.Alloc)
			if !ok {
				continue
			}
			var method *ssa.Function
			for _, call := range Calls(fn) {
				if m := call.Common().StaticCallee(); m != nil && InRepo(m) && m.Blocks != nil {
					method = m
				}
			}
			if method == nil || len(method.Params) != 2 {
				continue
			}
			fieldName, matchName := "", ""
			for _, r := range *obj.Referrers() {
				fa, ok := r.(*ssa.FieldAddr)
				if !ok {
					continue
				}
				for _, r2 := range *fa.Referrers() {
					st, ok := r2.(*ssa.Store)
					if !ok || st.Addr != ssa.Value(fa) {
						continue
					}
					if st.Val == ssa.Value(rf.Params[0]) {
						fieldName = fieldNameOf(fa)
					}
					if compiledHere(st.Val) {
						matchName = fieldNameOf(fa)
					}
				}
			}
			if fieldName == "" || matchName == "" {
				continue
			}
			recv := method.Params[0]
			isRecvField := func(v ssa.Value, name string) bool {
				ld, ok := isLoad(v)
				if !ok {
					return false
				}
				fa, ok := ld.X.(*ssa.FieldAddr)
				return ok && fa.X == ssa.Value(recv) && fieldNameOf(fa) == name
			}
			cl, ev, built, matchersOK = method, method.Params[1], mc, true
			isField = func(v ssa.Value) bool { return isRecvField(v, fieldName) }
			isMatchers = func(v ssa.Value) bool { return isRecvField(v, matchName) }
		}
	}
	if !c.Check(cl != nil && matchersOK, "regex-any-of", "closure captures field and matchers", p.Pos(rf.Pos()), "", "the filter RegexFilterFunc builds does not carry this call's field name and the matcher list compiled in this call") {
		return
	}
	// what is handed back is the filter built in THIS call for THIS field and THIS list: a filter taken from a cache keyed by
	// less than (field, list) makes a later filter match on an earlier filter's field
	for i, r := range Returns(rf) {
		fresh := true
		for _, lf := range leaves(RetVals(r)[0]) {
			if lf != built {
				fresh = false
			}
		}
		c.Check(fresh, "regex-any-of", fmt.Sprintf("RegexFilterFunc return[%d] is the filter built in this call", i), p.InstrPos(r), "", "RegexFilterFunc can hand back a filter that was not built in this call (`"+RenderN(RetVals(r)[0], 3)+"`): a filter remembered from an earlier call matches on that call's field and expressions, so what one channel's filter admits depends on which other filters were configured before it")
	}
	// the filter body only hands its three ingredients to a helper (`return matchesAny(matchers, e, field)`): the helper is judged
	if rets := Returns(cl); len(rets) == 1 {
		if hc, ok := RetVals(rets[0])[0].(*ssa.Call); ok {
			if hf := hc.Call.StaticCallee(); hf != nil && InRepo(hf) && hf.Blocks != nil && len(hf.Params) == len(hc.Call.Args) {
				mi, ei, fi := -1, -1, -1
				for ai, a := range hc.Call.Args {
					switch {
					case isMatchers(a):
						mi = ai
					case a == ev:
						ei = ai
					case isField(a):
						fi = ai
					}
				}
				if mi >= 0 && ei >= 0 && fi >= 0 {
					hm, hfield := ssa.Value(hf.Params[mi]), ssa.Value(hf.Params[fi])
					cl, ev = hf, hf.Params[ei]
					isMatchers = func(v ssa.Value) bool { return v == hm }
					isField = func(v ssa.Value) bool { return v == hfield }
				}
			}
		}
	}
	isMatcherElem := func(v ssa.Value) bool {
		ld, ok := isLoad(v)
		if !ok {
			return false
		}
		ia, ok := ld.X.(*ssa.IndexAddr)
		return ok && isAscendingIndex(ia.Index) && isMatchers(ia.X)
	}
	ntrue, nfalse := 0, 0
	for i, r := range Returns(cl) {
		k, ok := RetVals(r)[0].(*ssa.Const)
		key := fmt.Sprintf("filter closure return[%d]", i)
		if !ok {
			c.Violate("regex-any-of", key, p.InstrPos(r), "non-constant result: "+Render(RetVals(r)[0]))
			continue
		}
		conds := DomConds(r)
		if k.Value.String() == "true" {
			ntrue++
			good := false
			for _, dc := range conds {
				call, ok := dc.V.(*ssa.Call)
				if !ok || !dc.Pol || !MethodIs(call.Call.StaticCallee(), "regexp", "Regexp", "MatchString") {
					continue
				}
				if !isMatcherElem(call.Call.Args[0]) {
					continue
				}
				if g, ok := call.Call.Args[1].(*ssa.Call); ok && MethodIs(g.Call.StaticCallee(), ModPath+"/event", "Event", "Get") && g.Call.Args[0] == ev && isField(g.Call.Args[1]) {
					good = true
				}
			}
			c.Check(good, "regex-any-of", key+" admits on a match", p.InstrPos(r), "true under matcher.MatchString(e.Get(field))", "the filter admits an event without one of its compiled expressions matching e.Get(field): "+fmt.Sprint(RenderConds(conds)))
		} else {
			nfalse++
			ex := false
			for _, dc := range conds {
				if b, ok := dc.V.(*ssa.BinOp); ok && b.Op == token.LSS && !dc.Pol && isAscendingIndex(b.X) {
					if x, ok := isLenOf(b.Y); ok && isMatchers(x) {
						ex = true
					}
				}
			}
			// nothing to try at all: `if len(matchers) == 0 { return false }`
			for _, dc := range conds {
				if b, ok := dc.V.(*ssa.BinOp); ok {
					if x, isLen := isLenOf(b.X); isLen && isMatchers(x) {
						if k0, isC := ConstInt(b.Y); isC && k0 == 0 && ((b.Op == token.EQL && dc.Pol) || (b.Op == token.NEQ && !dc.Pol) || (b.Op == token.GTR && !dc.Pol)) {
							ex = true
						}
					}
				}
			}
			c.Check(ex && !InLoop(r.Block()), "regex-any-of", key+" rejects after all tried", p.InstrPos(r), "false only after every expression was tried", "the filter rejects before all expressions were tried (first-mismatch instead of any-of)")
		}
	}
	c.Check(ntrue == 1 && nfalse >= 1, "regex-any-of", "filter closure arms", p.Pos(cl.Pos()), "", fmt.Sprintf("expected one admitting and one rejecting return, found %d/%d", ntrue, nfalse))
	// compile loop: matchers[i] = MustCompile(expressions[i]); len(matchers)=len(expressions) – in RegexFilterFunc itself or in the
	// helper it hands the expression list to
	compFn, exprs := rf, ssa.Value(rf.Params[1])
	for _, call := range Calls(rf) {
		hf := call.Common().StaticCallee()
		if hf == nil || !InRepo(hf) || hf.Blocks == nil {
			continue
		}
		for ai, a := range call.Common().Args {
			if a == ssa.Value(rf.Params[1]) && ai < len(hf.Params) {
				compFn, exprs = hf, ssa.Value(hf.Params[ai])
			}
		}
	}
	okLen, okFill := false, false
	for _, b := range compFn.Blocks {
		for _, in := range b.Instrs {
			switch x := in.(type) {
			case *ssa.MakeSlice:
				if a, ok := isLenOf(x.Len); ok && a == exprs {
					okLen = true
				}
			case *ssa.Store:
				ia, ok := x.Addr.(*ssa.IndexAddr)
				if !ok {
					continue
				}
				if call, ok := x.Val.(*ssa.Call); ok && (FuncIs(call.Call.StaticCallee(), "regexp", "MustCompile") || FuncIs(call.Call.StaticCallee(), "regexp", "Compile")) {
					// argument = expressions[idx] with the same idx
					if ld, ok := isLoad(call.Call.Args[0]); ok {
						if ia2, ok := ld.X.(*ssa.IndexAddr); ok && ia2.X == exprs && ia2.Index == ia.Index && isAscendingIndex(ia.Index) {
							okFill = true
						}
					}
				}
			}
		}
	}
	c.Check(okLen && okFill, "regex-any-of", "one matcher per expression", p.Pos(compFn.Pos()), "matchers[i] = MustCompile(expressions[i]) for every i", "the compiled matcher list does not hold exactly one compiled matcher per configured expression at the same index")
}

func c06Wiring(c *Ctx) {
	p := c.P
	run := p.Method("server", "Honeytrap", "Run")
	if !c.Anchor(run != nil, "wiring", "(*server.Honeytrap).Run") {
		return
	}
	// Subscribe calls whose argument is built from the channels map
	n := 0
	for _, call := range Calls(run) {
		f := call.Common().StaticCallee()
		if f == nil || !MethodIs(f, ModPath+"/pushers/eventbus", "EventBus", "Subscribe") {
			continue
		}
		arg := call.Common().Args[1]
		// collect wrapper structure by walking phi/FilterChannel/TokenChannel
		type layer struct {
			kind  string // token|filter
			field string
			list  ssa.Value
			call  *ssa.Call
		}
		var chain []layer
		var base ssa.Value
		ok := true
		var problems []string
		cur := arg
		// the wrappers may be applied in a helper of the server package: descend into it and map its parameters back
		type frame struct {
			call *ssa.Call
			fn   *ssa.Function
		}
		var frames []frame
		subst := func(v ssa.Value) ssa.Value {
			for i := len(frames) - 1; i >= 0; i-- {
				pr, isP := v.(*ssa.Parameter)
				if !isP || pr.Parent() != frames[i].fn {
					break
				}
				idx := paramIdx(pr)
				if idx < 0 || idx >= len(frames[i].call.Call.Args) {
					break
				}
				v = frames[i].call.Call.Args[idx]
			}
			return v
		}
		for steps := 0; steps < 16 && cur != nil; steps++ {
			if pr, isP := cur.(*ssa.Parameter); isP && len(frames) > 0 && pr.Parent() == frames[len(frames)-1].fn {
				top := frames[len(frames)-1]
				frames = frames[:len(frames)-1]
				if idx := paramIdx(pr); idx >= 0 && idx < len(top.call.Call.Args) {
					cur = top.call.Call.Args[idx]
					continue
				}
			}
			switch x := cur.(type) {
			case *ssa.Phi:
				// a phi of (prev, FilterChannel(prev, ...)): the wrapped edge must be conditional on len(list)!=0
				var wrapped *ssa.Call
				var plain ssa.Value
				for _, e := range x.Edges {
					if cc, ok := e.(*ssa.Call); ok && FuncIs(cc.Call.StaticCallee(), pushersPath, "FilterChannel") {
						wrapped = cc
					} else {
						plain = e
					}
				}
				if wrapped == nil || plain == nil || len(x.Edges) != 2 || wrapped.Call.Args[0] != plain {
					ok = false
					problems = append(problems, "unrecognised merge: "+RenderN(x, 3))
					cur = nil
					break
				}
				rfc, okR := wrapped.Call.Args[1].(*ssa.Call)
				if !okR || !FuncIs(rfc.Call.StaticCallee(), pushersPath, "RegexFilterFunc") {
					ok = false
					problems = append(problems, "filter predicate is not RegexFilterFunc: "+Render(wrapped.Call.Args[1]))
					cur = nil
					break
				}
				fld, _ := ConstString(rfc.Call.Args[0])
				chain = append(chain, layer{"filter", fld, subst(rfc.Call.Args[1]), wrapped})
				// condition of the wrapping
				good := false
				for _, dc := range DomConds(wrapped) {
					if b, okb := dc.V.(*ssa.BinOp); okb {
						if lx, okl := isLenOf(b.X); okl && Render(lx) == Render(rfc.Call.Args[1]) {
							if n0, _ := ConstInt(b.Y); n0 == 0 && ((b.Op == token.NEQ && dc.Pol) || (b.Op == token.EQL && !dc.Pol) || (b.Op == token.GTR && dc.Pol)) {
								good = true
							}
						}
					}
				}
				// and it is the only condition separating the two phi edges: the plain edge's pred is the block that branches
				if !good {
					ok = false
					problems = append(problems, "the "+fld+" filter is not applied exactly when its expression list is non-empty")
				}
				cur = plain
			case *ssa.Call:
				switch {
				case FuncIs(x.Call.StaticCallee(), pushersPath, "TokenChannel"):
					chain = append(chain, layer{"token", "", x.Call.Args[1], x})
					base = subst(x.Call.Args[0])
					cur = nil
				case FuncIs(x.Call.StaticCallee(), pushersPath, "FilterChannel"):
					ok = false
					problems = append(problems, "a filter is applied unconditionally (an absent list must admit everything)")
					cur = nil
				default:
					if f := x.Call.StaticCallee(); f != nil && InRepo(f) && f.Blocks != nil && len(Returns(f)) == 1 && len(RetVals(Returns(f)[0])) == 1 && len(frames) < 3 {
						frames = append(frames, frame{x, f})
						cur = RetVals(Returns(f)[0])[0]
						break
					}
					ok = false
					problems = append(problems, "unexpected wrapper "+RenderN(x, 2))
					cur = nil
				}
			default:
				base = cur
				cur = nil
			}
		}
		// is this a filter-loop subscription (base from a map lookup)?
		ex, isEx := base.(*ssa.Extract)
		var lk *ssa.Lookup
		if isEx {
			lk, _ = ex.Tuple.(*ssa.Lookup)
		}
		if lk == nil {
			if len(chain) == 0 {
				// e.g. the default bus channel subscription: not a configured filter route
				c.Observe("wiring", "Run Subscribe of "+RenderN(arg, 2), p.InstrPos(call), "not built from the configured channels map")
				continue
			}
			c.Violate("wiring", "Run Subscribe base", p.InstrPos(call), "a wrapped channel is subscribed whose base is not channels[name]: "+Render(base))
			continue
		}
		n++
		key := fmt.Sprintf("Run filter subscription[%d]", n)
		// token layer
		hasTok := false
		var kinds []string
		for _, l := range chain {
			kinds = append(kinds, l.kind+":"+l.field)
			if l.kind == "token" {
				hasTok = Render(l.list) == "p0.token"
			}
		}
		c.Check(ok && hasTok, "wiring", key+" wrappers", p.InstrPos(call), "TokenChannel(channels[name], hc.token) + optional filters: "+strings.Join(kinds, " "), "subscription is not channels[name] wrapped by TokenChannel(hc.token) and the conditional filters: "+strings.Join(problems, "; ")+" ["+strings.Join(kinds, " ")+"]")
		// field pairing: "category" <-> .Categories, "service" <-> .Services, both present
		seen := map[string]bool{}
		var entryAlloc *ssa.Alloc
		for _, l := range chain {
			if l.kind != "filter" {
				continue
			}
			fa := ""
			if ld, ok := isLoad(l.list); ok {
				if f, ok := ld.X.(*ssa.FieldAddr); ok {
					fa = fieldNameOf(f)
					if a, ok := f.X.(*ssa.Alloc); ok {
						entryAlloc = a
					}
				}
			}
			want := map[string]string{"category": "Categories", "service": "Services"}[l.field]
			c.Check(want != "" && fa == want, "wiring", key+" "+l.field+" filter source", p.InstrPos(l.call), "event key \""+l.field+"\" filtered by this filter's ."+want, "event key \""+l.field+"\" is filtered by field `"+fa+"` (expected ."+want+")")
			seen[l.field] = true
		}
		c.Check(seen["category"] && seen["service"], "wiring", key+" both filters wired", p.InstrPos(call), "", "category and service filters are not both wired")
		// lookup guarded by ok; unknown names skipped (not break/return)
		guarded := false
		for _, dc := range DomConds(call) {
			if e2, ok := dc.V.(*ssa.Extract); ok && e2.Tuple == ssa.Value(lk) && e2.Index == 1 && dc.Pol {
				guarded = true
			}
		}
		c.Check(guarded, "wiring", key+" known channel only", p.InstrPos(call), "subscribed only when channels[name] exists", "Subscribe is reached for unknown channel names")
		nameOK := strings.Contains(Render(lk.Index), ".Channels[")
		c.Check(nameOK, "wiring", key+" names from filter", p.InstrPos(lk), "name ranges over this filter's channel list", "the looked-up name does not range over the filter's channel list: "+Render(lk.Index))
		if _, isMake := lk.X.(*ssa.MakeMap); !isMake {
			c.Violate("wiring", key+" channels map", p.InstrPos(lk), "lookup is not in the channels map built in Run")
		}
		// exactly one Subscribe per name iteration: not in an inner loop beyond names loop → the call's block is in a loop, and from after the call the call is not reachable without passing the Lookup again
		reach := InstrReachFrom(run, call, nil, func(in ssa.Instruction) bool { return in == ssa.Instruction(lk) })
		c.Check(!reach(call), "wiring", key+" once per (filter, name)", p.InstrPos(call), "", "Subscribe can execute more than once for one (filter, channel name)")
		// unknown name continues the scan
		for _, b := range run.Blocks {
			if len(b.Instrs) == 0 {
				continue
			}
			iff, okI := b.Instrs[len(b.Instrs)-1].(*ssa.If)
			if !okI {
				continue
			}
			atom, pol0 := condAtom(iff.Cond)
			e2, okE := atom.(*ssa.Extract)
			if !okE || e2.Tuple != ssa.Value(lk) || e2.Index != 1 {
				continue
			}
			miss := 1
			if !pol0 {
				miss = 0
			}
			r2 := ReachBlocks([]*ssa.BasicBlock{b.Succs[miss]}, nil, nil)
			c.Check(r2[lk.Block()], "wiring", key+" unknown name continues", p.InstrPos(iff), "", "an unknown channel name ends the processing of the remaining names/filters")
		}
		// fresh decoded struct per filter entry
		if c.Check(entryAlloc != nil, "wiring", key+" filter struct", p.InstrPos(call), "", "cannot identify the decoded filter struct") {
			c.Check(InLoop(entryAlloc.Block()) && entryAlloc.Heap, "wiring", key+" fresh struct per filter", p.InstrPos(entryAlloc), "decoded into a fresh zero struct for every [[filter]]", "the struct a [[filter]] is decoded into is allocated once outside the filter loop: keys absent from a later filter keep the previous filter's lists")
		}
	}
	c.Check(n == 1, "wiring", "Run filter subscription sites", p.Pos(run.Pos()), "", fmt.Sprintf("expected one configured-filter Subscribe site, found %d", n))
}

// c06RecvField: v is a load of a field of fn's receiver; returns the field name.
func c06RecvField(v ssa.Value, fn *ssa.Function) (string, bool) {
	ld, ok := isLoad(v)
	if !ok {
		return "", false
	}
	fa, ok := ld.X.(*ssa.FieldAddr)
	if !ok {
		return "", false
	}
	base := fa.X
	if a, isA := base.(*ssa.Alloc); isA {
		// value receiver spilled to a local
		for _, sv := range StoredValues(a) {
			base = sv
		}
	}
	if base != ssa.Value(fn.Params[0]) {
		return "", false
	}
	return fieldNameOf(fa), true
}

// c06FieldAccessor: the filter decides on e.Get(field). The admission rule is stated on the event's category/service
// string, with a missing or non-string value counting as the empty string: every value Get returns is the stored value
// asserted to string, or "". A textual rendering of other values (fmt.Sprint, string(bytes)) makes events with such
// values match expressions they must not match, and stop matching those that match the empty string.
func c06FieldAccessor(c *Ctx) {
	p := c.P
	const rule = "filter-field-string-or-empty"
	get := p.Method("event", "Event", "Get")
	if !c.Anchor(get != nil && get.Blocks != nil, rule, "(event.Event).Get") {
		return
	}
	var judge func(v ssa.Value, fn *ssa.Function, depth int) (bool, string)
	judge = func(v ssa.Value, fn *ssa.Function, depth int) (bool, string) {
		for _, lf := range leaves(v) {
			if s, ok := ConstString(lf); ok {
				if s == "" {
					continue
				}
				return false, fmt.Sprintf("the constant %q", s)
			}
			switch x := lf.(type) {
			case *ssa.Extract:
				if ta, ok := x.Tuple.(*ssa.TypeAssert); ok && x.Index == 0 && ta.CommaOk && types.TypeString(ta.AssertedType, nil) == "string" {
					continue
				}
			case *ssa.TypeAssert:
				if types.TypeString(x.AssertedType, nil) == "string" {
					continue
				}
			case *ssa.Call:
				// a helper of the same package judged the same way
				if hf := x.Call.StaticCallee(); hf != nil && InRepo(hf) && hf.Blocks != nil && depth < 2 && hf.Signature.Results().Len() == 1 {
					ok := true
					why := ""
					for _, r := range Returns(hf) {
						if o, w := judge(RetVals(r)[0], hf, depth+1); !o {
							ok, why = false, w
						}
					}
					if ok {
						continue
					}
					return false, why
				}
			}
			return false, RenderN(lf, 3)
		}
		return true, ""
	}
	for i, r := range Returns(get) {
		ok, why := judge(RetVals(r)[0], get, 0)
		c.Check(ok, rule, fmt.Sprintf("Event.Get return[%d]", i), p.InstrPos(r), "the stored value asserted to string, or the empty string",
			"Event.Get, on which the category/service filters decide, can return "+why+" for a value that is not a string: such an event is matched on a textual rendering instead of the empty string, so it is admitted by expressions it must not match and refused by those matching the empty string")
	}
	c.Floor(rule, 2, "the not-found/not-a-string arm and the string arm")
}
