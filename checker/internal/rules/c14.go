package rules

import (
	"fmt"
	"go/types"
	"regexp"
	"sort"
	"strings"

	"golang.org/x/tools/go/ssa"

	. "htcheck/internal/core"
)

func init() { Registry["C14"] = c14 }

// fieldStoresIn: field name -> rendered stored value, for stores into struct type tn (by name) inside fn.
func fieldStoresIn(fn *ssa.Function, tn string) map[string]string {
	out := map[string]string{}
	for _, b := range fn.Blocks {
		for _, in := range b.Instrs {
			st, ok := in.(*ssa.Store)
			if !ok {
				continue
			}
			fa, ok := st.Addr.(*ssa.FieldAddr)
			if !ok {
				continue
			}
			n := NamedOf(fa.X.Type())
			if n == nil || n.Obj().Name() != tn {
				continue
			}
			if _, isAlloc := fa.X.(*ssa.Alloc); !isAlloc {
				continue // only composite literals being built
			}
			out[fieldNameOf(fa)] = Render(st.Val)
		}
	}
	return out
}

// lockedAt: instruction `at` in fn is dominated by a Lock of a mutex rendered as muRender that is not released before it.
func lockedAt(fn *ssa.Function, at ssa.Instruction, muSuffix string) bool {
	for _, call := range Calls(fn) {
		f := call.Common().StaticCallee()
		if f == nil || !(f.Name() == "Lock" || f.Name() == "RLock") || PkgOf(f) != "sync" {
			continue
		}
		if _, isDefer := call.(*ssa.Defer); isDefer {
			continue
		}
		mu := Render(call.Common().Args[0])
		if !strings.HasSuffix(mu, muSuffix) {
			continue
		}
		if !(call.Block().Dominates(at.Block()) && (call.Block() != at.Block() || instrIdx(call) < instrIdx(at))) {
			continue
		}
		released := false
		for _, c2 := range Calls(fn) {
			f2 := c2.Common().StaticCallee()
			if _, isDefer := c2.(*ssa.Defer); isDefer || f2 == nil || !(f2.Name() == "Unlock" || f2.Name() == "RUnlock") || PkgOf(f2) != "sync" {
				continue
			}
			if !strings.HasSuffix(Render(c2.Common().Args[0]), muSuffix) {
				continue
			}
			afterLock := call.Block().Dominates(c2.Block()) && (c2.Block() != call.Block() || instrIdx(c2) > instrIdx(call))
			beforeAt := c2.Block().Dominates(at.Block()) && (c2.Block() != at.Block() || instrIdx(c2) < instrIdx(at))
			if afterLock && beforeAt {
				released = true
			}
		}
		if !released {
			return true
		}
	}
	return false
}

var c14ParamRe = regexp.MustCompile(`\bp[0-9]+\b`)

func c14(c *Ctx) {
	p := c.P
	c.Explanation = "Static check of two structural clauses of the raw TCP listener (SEQUENCE/ACK ARITHMETIC MODULO 2^32 AND CHECKSUM VALUES ARE RUN-TIME NUMERICS AND ARE NOT DECIDED): (1) every frame is addressed back to the sender and acknowledges the right counters – in send() the TCP header takes " +
		"Source<-state.DestPort, Destination<-state.SrcPort, SeqNum<-state.SendNext, AckNum<-state.RecvNext, the IPv4 header Src<-state.DestIP, Dst<-state.SrcIP, protocol 6; NewState stores (src, srcPort, dest, dstPort) in the fields of the same role and handleTCP calls it with the packet's " +
		"(Src, Source, Dst, Destination); in the listen arm RecvNext is set from the SYN's sequence number and incremented before the SYN|ACK is sent, SendNext starts at ISS+1; (2) simultaneous connections do not disturb each other through shared memory – a frozen, re-checked lock table: every use of the " +
		"transmit ring Canary.buffer is under Canary.m, every use of a socket's receive ring Socket.rbuffer is under the owning State.m (locally or in every caller); any other ring-buffer field in the package fails closed as unclassified."
	c.Assume("the ring buffer type (glycerine/rbuf) is not safe for concurrent use (its documentation); lock ownership is matched by field name")
	send := p.Method(canaryRel, "Canary", "send")
	htcp := p.Method(canaryRel, "Canary", "handleTCP")
	newState := p.Method(canaryRel, "Canary", "NewState")
	if !c.Anchor(send != nil && htcp != nil && newState != nil, "reply-addressing", "canary send / handleTCP / NewState") {
		return
	}
	c14SeqCompare(c)
	c14ChecksumFold(c)
	c14FinAnswered(c, htcp, send)
	c14PackedKeys(c)
	c14FlushOnPush(c, htcp)
	c14NextHopOfPeer(c)
	c14PayloadIsWhatWasRead(c)
	c14NewStateInFrontOfTimeWait(c)
	sharedScratchUnderLock(c, "shared-scratch-under-lock", send, "m", "two connections that answer at the same moment assemble their frames in the same memory, and the transmit ring gets frames with one peer's hardware address and the other's IP addresses, ports and checksums")
	// the port handler parks in Socket.Read until flush() signals it; the signal must not be lost when the handler is not parked yet (shared with C16)
	wakeupNotLost(c, canaryRel, "Socket.flush no longer signals the reader with a non-blocking send (rule needs re-anchoring)", "the pushed segment stays in the ring until the reader's 60 s timeout: the port handler's single Read returns nothing and the event is reported without the client's first pushed segment")
	// the payload the segment handler sees ends where the IP datagram ends, not where the Ethernet frame ends (shared with C20)
	c20FrameTrimmed(c)
	checksumOddOctetHigh(c, "checksum-odd-octet-high", "Odd-length segments with a non-zero last octet are dropped as corrupt or answered with a checksum the peer rejects.")
	releasedMemoryNotRetained(c, "released-memory-not-retained", "a connection's handler is chosen, or its event built, from the header of a later frame of another connection", "listener/canary")
	// ---- (1) roles in send()
	th := fieldStoresIn(send, "Header")
	// send() may delegate building the headers to helpers (buildPacket(state, payload, flags)): their literals count, with the
	// helper's parameters renamed to the arguments send passes
	for _, call := range Calls(send) {
		hf := call.Common().StaticCallee()
		if hf == nil || !InRepo(hf) || hf.Blocks == nil || PkgOf(hf) != PkgOf(send) || hf == send {
			continue
		}
		ren := map[string]string{}
		for ai, a := range call.Common().Args {
			if pr, ok := a.(*ssa.Parameter); ok && pr.Parent() == send && ai < len(hf.Params) {
				ren[fmt.Sprintf("p%d", ai)] = fmt.Sprintf("p%d", paramIdx(pr))
			}
		}
		for k, v := range fieldStoresIn(hf, "Header") {
			if _, dup := th[k]; dup {
				continue
			}
			v = c14ParamRe.ReplaceAllStringFunc(v, func(m string) string {
				if r, ok := ren[m]; ok {
					return r
				}
				return "q" + m[1:] // a helper parameter that is not one of send's parameters
			})
			th[k] = v
		}
	}
	// two Header types (tcp, ipv4) share the name: split by field presence
	want := map[string]string{"Source": "p1.DestPort", "Destination": "p1.SrcPort", "SeqNum": "p1.SendNext", "AckNum": "p1.RecvNext", "Src": "p1.DestIP", "Dst": "p1.SrcIP", "Ctrl": "p3", "Payload": "p2", "Protocol": "6"}
	var names []string
	for k := range want {
		names = append(names, k)
	}
	sort.Strings(names)
	for _, k := range names {
		got, ok := th[k]
		c.Check(ok && got == want[k], "reply-addressing", "send() header."+k, p.Pos(send.Pos()), "<- "+want[k], "the reply's "+k+" is filled from `"+got+"` instead of "+want[k]+": the frame is not addressed back to the sender / does not carry this connection's counters")
	}
	// NewState roles
	ns := fieldStoresIn(newState, "State")
	for k, w := range map[string]string{"SrcIP": "p1", "SrcPort": "p2", "DestIP": "p3", "DestPort": "p4"} {
		c.Check(ns[k] == w, "reply-addressing", "NewState."+k, p.Pos(newState.Pos()), "<- parameter "+w, "State."+k+" is initialised from "+ns[k])
	}
	for _, call := range Calls(htcp) {
		if call.Common().StaticCallee() == newState {
			a := call.Common().Args
			got := []string{Render(a[1]), Render(a[2]), Render(a[3]), Render(a[4])}
			ok := strings.HasSuffix(got[0], ".Src") && strings.HasSuffix(got[1], ".Source") && strings.HasSuffix(got[2], ".Dst") && strings.HasSuffix(got[3], ".Destination")
			c.Check(ok, "reply-addressing", "handleTCP NewState arguments", p.InstrPos(call), "(ip.Src, tcp.Source, ip.Dst, tcp.Destination)", "a new connection state is created with roles ("+strings.Join(got, ", ")+")")
		}
		if f := call.Common().StaticCallee(); f != nil && f.Name() == "Get" && RecvTypeName(f) == "StateTable" {
			a := call.Common().Args
			got := []string{Render(a[1]), Render(a[2]), Render(a[3]), Render(a[4])}
			ok := strings.HasSuffix(got[0], ".Src") && strings.HasSuffix(got[1], ".Dst") && strings.HasSuffix(got[2], ".Source") && strings.HasSuffix(got[3], ".Destination")
			c.Check(ok, "reply-addressing", "handleTCP StateTable.Get arguments", p.InstrPos(call), "(ip.Src, ip.Dst, tcp.Source, tcp.Destination)", "the connection state is looked up with roles ("+strings.Join(got, ", ")+")")
		}
	}
	// listen arm: the SYN|ACK send is preceded (same block) by RecvNext = hdr.SeqNum; RecvNext++ ; SendNext = ISS+1
	okSyn := false
	for _, call := range Calls(htcp) {
		if call.Common().StaticCallee() != send {
			continue
		}
		fl := Render(call.Common().Args[3])
		if !(strings.Contains(fl, "18") || (strings.Contains(fl, "2") && strings.Contains(fl, "16"))) { // SYN|ACK = 0x12
			continue
		}
		var seq []string
		for _, in := range call.Block().Instrs {
			if in == ssa.Instruction(call) {
				break
			}
			if st, ok := in.(*ssa.Store); ok {
				if fa, ok := st.Addr.(*ssa.FieldAddr); ok {
					seq = append(seq, fieldNameOf(fa)+"="+Render(st.Val))
				}
			}
		}
		s := strings.Join(seq, ";")
		hasRecv := false
		stage := 0
		for _, x := range seq {
			if strings.HasPrefix(x, "RecvNext=(") && strings.Contains(x, ".SeqNum + 1)") {
				hasRecv = true
			}
			// two-step form: RecvNext = hdr.SeqNum; RecvNext++
			if stage == 0 && strings.HasPrefix(x, "RecvNext=") && strings.HasSuffix(x, ".SeqNum") {
				stage = 1
			} else if stage == 1 && strings.HasPrefix(x, "RecvNext=(") && strings.HasSuffix(x, ".RecvNext + 1)") {
				hasRecv = true
			} else if strings.HasPrefix(x, "RecvNext=") {
				stage = 0
				if !strings.Contains(x, ".SeqNum + 1)") {
					hasRecv = false
				}
			}
		}
		hasSend := false
		for _, x := range seq {
			if strings.HasPrefix(x, "SendNext=(") && strings.Contains(x, "InitialSendSequenceNumber + 1)") {
				hasSend = true
			}
		}
		okSyn = true
		c.Check(hasRecv, "syn-ack-counters", "RecvNext before SYN|ACK", p.InstrPos(call), "RecvNext = SYN's sequence number + 1", "before the SYN|ACK is sent RecvNext is not set to the SYN's sequence number + 1: "+s)
		c.Check(hasSend, "syn-ack-counters", "SendNext before SYN|ACK", p.InstrPos(call), "SendNext = ISS + 1", "before the SYN|ACK is sent SendNext is not ISS + 1: "+s)
		// the listen-state guard
		guard := false
		for _, dc := range DomConds(call) {
			if strings.Contains(Render(dc.V), ".State == 1") && dc.Pol {
				guard = true
			}
		}
		c.Check(guard, "syn-ack-counters", "SYN|ACK only in LISTEN", p.InstrPos(call), "", "the SYN|ACK is sent outside the LISTEN state")
	}
	c.Check(okSyn, "syn-ack-counters", "SYN|ACK send site", p.Pos(htcp.Pos()), "", "no send(…, SYN|ACK) found in handleTCP")

	// ---- (2) lock table
	type entry struct {
		typ, field, mu string
	}
	table := []entry{{"Canary", "buffer", ".m"}, {"Socket", "rbuffer", ".m"}}
	inTable := func(tn, f string) *entry {
		for i := range table {
			if table[i].typ == tn && table[i].field == f {
				return &table[i]
			}
		}
		return nil
	}
	// every ring-buffer typed field in the package must be classified
	for _, n := range p.NamedTypes() {
		if n.Obj().Pkg() == nil || RelPkg(n.Obj().Pkg().Path()) != canaryRel {
			continue
		}
		st, ok := n.Underlying().(*types.Struct)
		if !ok {
			continue
		}
		for i := 0; i < st.NumFields(); i++ {
			if fn := NamedOf(st.Field(i).Type()); fn != nil && strings.Contains(fn.Obj().Name(), "RingBuf") {
				if inTable(n.Obj().Name(), st.Field(i).Name()) == nil {
					// unused fields are fine
					used := false
					for _, f := range p.FuncsIn(canaryRel) {
						for _, b := range f.Blocks {
							for _, in := range b.Instrs {
								if fa, ok := in.(*ssa.FieldAddr); ok && NamedOf(fa.X.Type()) == n && fieldNameOf(fa) == st.Field(i).Name() {
									for _, ref := range *fa.Referrers() {
										if ld, ok := ref.(*ssa.UnOp); ok && len(*ld.Referrers()) > 0 {
											used = true
										}
									}
								}
							}
						}
					}
					if used {
						c.Undecided("ring-locked", n.Obj().Name()+"."+st.Field(i).Name()+" unclassified", "-", "a ring buffer field that is used but has no entry in the lock table: decide which mutex guards it")
					}
				}
			}
		}
	}
	nacc := 0
	for _, fn := range p.FuncsIn(canaryRel) {
		for _, call := range Calls(fn) {
			f := call.Common().StaticCallee()
			if f == nil || f.Signature.Recv() == nil || len(call.Common().Args) == 0 {
				continue
			}
			if rn := NamedOf(f.Signature.Recv().Type()); rn == nil || !strings.Contains(rn.Obj().Name(), "RingBuf") {
				continue
			}
			ld, ok := isLoad(call.Common().Args[0])
			if !ok {
				continue
			}
			fa, ok := ld.X.(*ssa.FieldAddr)
			if !ok {
				continue
			}
			tn := ""
			if n := NamedOf(fa.X.Type()); n != nil {
				tn = n.Obj().Name()
			}
			e := inTable(tn, fieldNameOf(fa))
			if e == nil {
				continue
			}
			nacc++
			key := fmt.Sprintf("%s.%s %s in %s", tn, e.field, f.Name(), shortFn(fn))
			ok2 := lockedAt(fn, call, e.mu)
			how := "under a lock taken in this function"
			if !ok2 {
				// lock held by every caller (or, where a caller does not take it itself, by every caller of that caller)
				var heldByCallers func(f *ssa.Function, depth int) (int, bool)
				heldByCallers = func(f *ssa.Function, depth int) (int, bool) {
					callers := 0
					for _, g := range p.FuncsIn(canaryRel) {
						for _, c2 := range Calls(g) {
							if c2.Common().StaticCallee() != f {
								continue
							}
							if _, isGo := c2.(*ssa.Go); isGo {
								return callers, false
							}
							callers++
							if lockedAt(g, c2, e.mu) {
								continue
							}
							if depth <= 0 {
								return callers, false
							}
							if n, ok := heldByCallers(g, depth-1); !ok || n == 0 {
								return callers, false
							}
						}
					}
					return callers, true
				}
				if callers, all := heldByCallers(fn, 2); callers > 0 && all {
					ok2 = true
					how = fmt.Sprintf("under the lock held by all %d caller(s)", callers)
				}
			}
			c.Check(ok2, "ring-locked", key, p.InstrPos(call), how, tn+"."+e.field+" (a ring buffer that is not safe for concurrent use) is accessed by "+f.Name()+" without holding the "+e.typ+"/"+"State mutex: the receive loop and the connection handler goroutines touch it concurrently, so simultaneous connections corrupt each other's frames or payloads")
		}
	}
	// ring ownership: a ring belongs to one socket / the one listener for its whole life: the field is only ever
	// assigned a freshly allocated ring, and a ring loaded from the field is only used as a method receiver
	nown := 0
	for _, fn := range p.FuncsIn(canaryRel) {
		for _, b := range fn.Blocks {
			for _, in := range b.Instrs {
				switch x := in.(type) {
				case *ssa.Store:
					fa, ok := x.Addr.(*ssa.FieldAddr)
					if !ok {
						continue
					}
					tn := ""
					if n := NamedOf(fa.X.Type()); n != nil {
						tn = n.Obj().Name()
					}
					if inTable(tn, fieldNameOf(fa)) == nil {
						continue
					}
					nown++
					fresh := true
					for _, lf := range leaves(x.Val) {
						call, ok := lf.(*ssa.Call)
						if !ok || call.Call.StaticCallee() == nil || !strings.HasPrefix(call.Call.StaticCallee().Name(), "NewFixedSizeRingBuf") {
							fresh = false
						}
					}
					c.Check(fresh, "ring-ownership", fmt.Sprintf("%s.%s assigned in %s", tn, fieldNameOf(fa), shortFn(fn)), p.InstrPos(x), "a freshly allocated ring", "the ring buffer of a "+tn+" is taken from somewhere other than a fresh allocation ("+RenderN(x.Val, 3)+"): a recycled ring can still be written by the previous connection's late segments, so one connection's payload shows up in another's event")
				case *ssa.UnOp:
					fa, ok := x.X.(*ssa.FieldAddr)
					if !ok {
						continue
					}
					tn := ""
					if n := NamedOf(fa.X.Type()); n != nil {
						tn = n.Obj().Name()
					}
					if inTable(tn, fieldNameOf(fa)) == nil {
						continue
					}
					for _, ref := range *x.Referrers() {
						okUse := false
						switch u := ref.(type) {
						case *ssa.Call:
							if f := u.Call.StaticCallee(); f != nil && f.Signature.Recv() != nil && len(u.Call.Args) > 0 && u.Call.Args[0] == ssa.Value(x) {
								okUse = true
							}
						case *ssa.BinOp, *ssa.DebugRef:
							okUse = true // nil comparison
						}
						if !okUse {
							c.Violate("ring-ownership", fmt.Sprintf("%s.%s escapes in %s", tn, fieldNameOf(fa), shortFn(fn)), p.InstrPos(ref), "the ring buffer of a "+tn+" is handed on (sent, stored or passed) instead of being used in place: it can end up shared between connections")
						}
					}
				}
			}
		}
	}
	c.Check(nown >= 2, "ring-ownership", "ring assignments found", "-", fmt.Sprint(nown), fmt.Sprintf("expected the two ring allocations (listener, socket), found %d", nown))
	c.Floor("ring-locked", 6, "send x2, transmit x2, Socket.Read x2 (+Avail), Socket.write")
}
