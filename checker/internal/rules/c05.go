package rules

import (
	"fmt"
	"go/token"
	"go/types"
	"sort"
	"strings"

	"golang.org/x/tools/go/ssa"

	. "htcheck/internal/core"
)

func init() { Registry["C05"] = c05 }

const eventPath = ModPath + "/event"

// jsonSafe decides by structural recursion whether encoding/json can encode every value of type t.
// Returns "" if safe, else the reason. notes collects accepted-but-noteworthy constituents.
func jsonSafe(t types.Type, seen map[types.Type]bool, notes map[string]bool) string {
	if seen[t] {
		return ""
	}
	seen[t] = true
	defer delete(seen, t)
	// custom marshalers
	if n, ok := t.(*types.Named); ok {
		if HasMethod(n, "MarshalJSON") || HasMethod(n, "MarshalText") {
			notes["marshaler:"+typeShortT(n)] = true
			return ""
		}
	}
	if pt, ok := t.(*types.Pointer); ok {
		if n, ok := pt.Elem().(*types.Named); ok && (HasMethod(n, "MarshalJSON") || HasMethod(n, "MarshalText")) {
			notes["marshaler:"+typeShortT(n)] = true
			return ""
		}
	}
	switch u := t.Underlying().(type) {
	case *types.Basic:
		switch {
		case u.Info()&types.IsComplex != 0:
			return "complex number " + typeShortT(t)
		case u.Kind() == types.UnsafePointer:
			return "unsafe.Pointer"
		case u.Info()&types.IsFloat != 0:
			notes["float:"+typeShortT(t)] = true
		}
		return ""
	case *types.Pointer:
		return jsonSafe(u.Elem(), seen, notes)
	case *types.Slice:
		return jsonSafe(u.Elem(), seen, notes)
	case *types.Array:
		return jsonSafe(u.Elem(), seen, notes)
	case *types.Map:
		k := u.Key()
		kb, isB := k.Underlying().(*types.Basic)
		okKey := isB && (kb.Info()&types.IsString != 0 || kb.Info()&types.IsInteger != 0)
		if !okKey {
			if n, ok := k.(*types.Named); ok && HasMethod(n, "MarshalText") {
				okKey = true
			}
		}
		if !okKey {
			return "map key type " + typeShortT(k) + " is not string/integer/TextMarshaler"
		}
		return jsonSafe(u.Elem(), seen, notes)
	case *types.Struct:
		for i := 0; i < u.NumFields(); i++ {
			f := u.Field(i)
			if !f.Exported() && !f.Embedded() {
				continue
			}
			tag := reflectTag(u.Tag(i))
			if tag == "-" {
				continue
			}
			if r := jsonSafe(f.Type(), seen, notes); r != "" {
				return "field " + f.Name() + ": " + r
			}
		}
		return ""
	case *types.Interface:
		if IsErrorType(t) {
			notes["error-interface"] = true
			return ""
		}
		notes["dynamic:"+typeShortT(t)] = true
		return ""
	case *types.Chan:
		return "channel " + typeShortT(t)
	case *types.Signature:
		return "func " + typeShortT(t)
	case *types.Tuple:
		return "tuple"
	}
	return "unknown type " + typeShortT(t)
}

func typeShortT(t types.Type) string {
	return types.TypeString(t, func(p *types.Package) string { return p.Name() })
}

func reflectTag(tag string) string {
	i := strings.Index(tag, `json:"`)
	if i < 0 {
		return ""
	}
	s := tag[i+6:]
	if j := strings.Index(s, `"`); j >= 0 {
		s = s[:j]
	}
	if k := strings.Index(s, ","); k >= 0 {
		s = s[:k]
	}
	return s
}

type origin struct {
	kind string // type|dynamic
	t    types.Type
	desc string
}

// valueOrigins resolves the dynamic types that can reach interface value v.
func valueOrigins(p *Program, v ssa.Value, depth int, seen map[ssa.Value]bool) []origin {
	if v == nil || seen[v] {
		return nil
	}
	seen[v] = true
	if depth <= 0 {
		return []origin{{kind: "dynamic", desc: "depth limit at " + RenderN(v, 2)}}
	}
	rec := func(x ssa.Value) []origin { return valueOrigins(p, x, depth-1, seen) }
	if IsErrorType(v.Type()) {
		if _, isMI := v.(*ssa.MakeInterface); !isMI {
			return []origin{{kind: "type", t: v.Type()}}
		}
	}
	switch x := v.(type) {
	case *ssa.MakeInterface:
		return []origin{{kind: "type", t: x.X.Type()}}
	case *ssa.Const:
		return nil // nil interface
	case *ssa.Phi:
		var out []origin
		for _, e := range x.Edges {
			out = append(out, rec(e)...)
		}
		return out
	case *ssa.ChangeInterface:
		return rec(x.X)
	case *ssa.ChangeType:
		return rec(x.X)
	case *ssa.TypeAssert:
		if _, isI := x.AssertedType.Underlying().(*types.Interface); !isI {
			return []origin{{kind: "type", t: x.AssertedType}}
		}
		return rec(x.X)
	case *ssa.Extract:
		if ta, ok := x.Tuple.(*ssa.TypeAssert); ok && x.Index == 0 {
			return rec(ta)
		}
		if lk, ok := x.Tuple.(*ssa.Lookup); ok && x.Index == 0 {
			return rec(lk)
		}
		if call, ok := x.Tuple.(*ssa.Call); ok {
			return callOrigins(p, call, x.Index, depth, seen)
		}
		if nx, ok := x.Tuple.(*ssa.Next); ok {
			// range over a map: value = any value stored into that map
			if rg, ok := nx.Iter.(*ssa.Range); ok && x.Index == 2 {
				return mapValueOrigins(p, rg.X, depth, seen)
			}
		}
		return []origin{{kind: "dynamic", desc: "extract of " + RenderN(x.Tuple, 2)}}
	case *ssa.Lookup:
		return mapValueOrigins(p, x.X, depth, seen)
	case *ssa.Call:
		return callOrigins(p, x, 0, depth, seen)
	case *ssa.UnOp:
		if x.Op == token.MUL {
			if a, ok := x.X.(*ssa.Alloc); ok {
				var out []origin
				for _, sv := range StoredValues(a) {
					out = append(out, rec(sv)...)
				}
				// also stores from closures capturing the cell are not tracked: mark
				return out
			}
			if fv, ok := x.X.(*ssa.FreeVar); ok {
				if b := freeVarBinding(fv); b != nil {
					if a, ok := b.(*ssa.Alloc); ok {
						var out []origin
						for _, sv := range StoredValues(a) {
							out = append(out, rec(sv)...)
						}
						if len(out) > 0 {
							return out
						}
					}
				}
				return []origin{{kind: "dynamic", desc: "captured variable " + Render(x.X)}}
			}
			if fa, ok := x.X.(*ssa.FieldAddr); ok {
				return fieldOrigins(p, fa, depth, seen)
			}
			if ia, ok := x.X.(*ssa.IndexAddr); ok {
				return []origin{{kind: "dynamic", desc: "element of " + RenderN(ia.X, 2)}}
			}
		}
	case *ssa.Parameter:
		return paramOrigins(p, x, depth, seen)
	}
	return []origin{{kind: "dynamic", desc: fmt.Sprintf("%T %s", v, RenderN(v, 2))}}
}

func callOrigins(p *Program, call *ssa.Call, idx int, depth int, seen map[ssa.Value]bool) []origin {
	f := call.Call.StaticCallee()
	if f != nil && InRepo(f) && f.Blocks != nil {
		var out []origin
		for _, r := range Returns(f) {
			rv := RetVals(r)
			if idx < len(rv) {
				out = append(out, valueOrigins(p, rv[idx], depth-1, seen)...)
			}
		}
		return out
	}
	name := "dynamic call"
	if f != nil {
		name = FuncShort(f)
	} else if call.Call.IsInvoke() {
		name = "iface." + call.Call.Method.Name()
	}
	// values decoded by encoding/json (or similar decoders into interface{}) re-encode
	return []origin{{kind: "dynamic", desc: "result of " + name}}
}

// mapValueOrigins: all values stored by MapUpdate into the map value m (identity: same SSA value, or same field).
func mapValueOrigins(p *Program, m ssa.Value, depth int, seen map[ssa.Value]bool) []origin {
	var out []origin
	for {
		if ct, ok := m.(*ssa.ChangeType); ok {
			m = ct.X
			continue
		}
		break
	}
	// a map variable filled by a JSON decoder through its address
	if ld, ok := m.(*ssa.UnOp); ok && ld.Op == token.MUL {
		if a, ok := ld.X.(*ssa.Alloc); ok {
			for _, ref := range *a.Referrers() {
				if mi, ok := ref.(*ssa.MakeInterface); ok {
					for _, r2 := range *mi.Referrers() {
						if call, ok := r2.(ssa.CallInstruction); ok {
							if f := call.Common().StaticCallee(); f != nil && f.Object() != nil && f.Object().Pkg() != nil && f.Object().Pkg().Path() == "encoding/json" {
								return []origin{{kind: "type", t: types.Typ[types.String], desc: "json-born"}}
							}
						}
					}
				}
			}
			for _, sv := range StoredValues(a) {
				out = append(out, mapValueOrigins(p, sv, depth-1, seen)...)
			}
			if len(out) > 0 {
				return out
			}
		}
	}
	switch x := m.(type) {
	case *ssa.MakeMap, *ssa.Parameter, *ssa.Phi:
		found := false
		if seen[m] && depth < 5 {
			return nil
		}
		seen[m] = true
		for _, ref := range *m.Referrers() {
			if mu, ok := ref.(*ssa.MapUpdate); ok && mu.Map == m {
				found = true
				out = append(out, valueOrigins(p, mu.Value, depth-1, seen)...)
			}
			// the map handed to callees that fill it
			if call, ok := ref.(ssa.CallInstruction); ok && depth > 0 {
				for ai, a := range call.Common().Args {
					if Unwrap(a) != m {
						continue
					}
					for _, callee := range calleesOf(p, call) {
						pi := ai
						if call.Common().IsInvoke() {
							pi = ai + 1
						}
						if callee.Blocks == nil || pi >= len(callee.Params) {
							continue
						}
						if !InRepo(callee) {
							if o := callee.Object(); o != nil && o.Pkg() != nil && o.Pkg().Path() == "encoding/json" {
								out = append(out, origin{kind: "type", t: types.Typ[types.String], desc: "json-born"})
								found = true
							}
							continue
						}
						sub := mapValueOrigins(p, callee.Params[pi], depth-1, seen)
						for _, o := range sub {
							if o.kind == "dynamic" && strings.HasPrefix(o.desc, "map parameter") {
								continue
							}
							out = append(out, o)
						}
						found = true
					}
				}
			}
		}
		if par, ok := x.(*ssa.Parameter); ok && depth >= 4 {
			out = append(out, paramMapOrigins(p, par, depth, seen)...)
			found = true
		} else if ok {
			found = true
		}
		if !found {
			out = append(out, origin{kind: "dynamic", desc: "map " + RenderN(m, 2)})
		}
		return out
	case *ssa.UnOp:
		if fa, ok := x.X.(*ssa.FreeVar); ok {
			return []origin{{kind: "dynamic", desc: "captured map " + fa.Name()}}
		}
	}
	return []origin{{kind: "dynamic", desc: "map " + RenderN(m, 2)}}
}

// paramMapOrigins: a map parameter: values stored by callers before the call (static callers in repo).
func paramMapOrigins(p *Program, par *ssa.Parameter, depth int, seen map[ssa.Value]bool) []origin {
	var out []origin
	fn := par.Parent()
	idx := paramIndex2(par)
	n := 0
	for _, caller := range p.Funcs() {
		for _, call := range Calls(caller) {
			if call.Common().StaticCallee() != fn && !invokesMethod(call, fn) {
				continue
			}
			args := call.Common().Args
			ai := idx
			if call.Common().IsInvoke() {
				ai = idx - 1
			}
			if ai < 0 || ai >= len(args) {
				continue
			}
			n++
			out = append(out, mapValueOrigins(p, args[ai], depth-1, seen)...)
		}
	}
	if n == 0 {
		out = append(out, origin{kind: "dynamic", desc: "map parameter of " + FuncShort(fn) + " (no static callers)"})
	}
	return out
}

func invokesMethod(call ssa.CallInstruction, fn *ssa.Function) bool {
	cc := call.Common()
	if !cc.IsInvoke() || fn.Signature.Recv() == nil || cc.Method.Name() != fn.Name() {
		return false
	}
	it, ok := cc.Value.Type().Underlying().(*types.Interface)
	if !ok {
		return false
	}
	return types.Implements(fn.Signature.Recv().Type(), it)
}

func paramIndex2(par *ssa.Parameter) int {
	for i, q := range par.Parent().Params {
		if q == par {
			return i
		}
	}
	return -1
}

func paramOrigins(p *Program, par *ssa.Parameter, depth int, seen map[ssa.Value]bool) []origin {
	fn := par.Parent()
	idx := paramIndex2(par)
	var out []origin
	n := 0
	for _, caller := range p.Funcs() {
		for _, call := range Calls(caller) {
			if call.Common().StaticCallee() != fn {
				continue
			}
			args := call.Common().Args
			if idx >= len(args) {
				continue
			}
			n++
			out = append(out, valueOrigins(p, args[idx], depth-1, seen)...)
		}
	}
	if n == 0 {
		return []origin{{kind: "dynamic", desc: "parameter " + par.Name() + " of " + FuncShort(fn) + " (no static callers)"}}
	}
	return out
}

func fieldOrigins(p *Program, fa *ssa.FieldAddr, depth int, seen map[ssa.Value]bool) []origin {
	// field-based: every store to the same (struct type, field) in the repo
	n := NamedOf(fa.X.Type())
	if n == nil {
		return []origin{{kind: "dynamic", desc: "field " + Render(fa)}}
	}
	var out []origin
	cnt := 0
	for _, fn := range p.Funcs() {
		for _, b := range fn.Blocks {
			for _, in := range b.Instrs {
				st, ok := in.(*ssa.Store)
				if !ok {
					continue
				}
				f2, ok := st.Addr.(*ssa.FieldAddr)
				if !ok || f2.Field != fa.Field || NamedOf(f2.X.Type()) != n {
					continue
				}
				cnt++
				out = append(out, valueOrigins(p, st.Val, depth-1, seen)...)
			}
		}
	}
	if cnt == 0 {
		return []origin{{kind: "dynamic", desc: "field " + typeShortT(n) + "." + fieldNameOf(fa) + " (no stores; set by decoding?)"}}
	}
	return out
}

func c05(c *Ctx) {
	c.Explanation = "Static check of event fidelity for all inputs: (a) type-level serialisability – for every call of event.Custom / Event.Store / MergeFrom / CopyFrom in the repository the dynamic types that can " +
		"reach the interface{} argument are resolved (MakeInterface provenance through phis, locals, in-repo callees, callers, maps and fields) and checked JSON-encodable by structural recursion " +
		"(no chan/func/complex/unsafe.Pointer, map keys string/integer/TextMarshaler); origins that cannot be resolved to a type are listed and must be in the reviewed table; " +
		"(b) event.Payload stores string(data), hex.EncodeToString(data), len(data) of the same slice; (c) Source/DestinationAddr store IP.String() and Port of the asserted address under the keys of their own role in both " +
		"the TCP and UDP arm; (d) MergeFrom stores only under !Has(name), CopyFrom unconditionally; (e) MarshalJSON, ToMap and the channels' snapshot callbacks copy every string key (update guarded only by the key's " +
		"comma-ok string assertion, callback returns true on all paths), MarshalJSON returns json.Marshal of that fresh snapshot on every path, Store/Range/Has/Get go straight to the sync.Map. Run-time values (NaN) are not decided."
	c.Assume("encoding/json encodes every value of a structurally JSON-safe type (trusted); third-party MarshalJSON/MarshalText methods do not fail")
	c05Types(c)
	c05Payload(c)
	c05Addr(c)
	c05Merge(c)
	c05Snapshots(c)
	c05PooledBuffers(c)
	c05SerialisedUnmodified(c)
	// the file channel's serialised lines reach the rotating file in whole-line batches (shared with C07): a batch that
	// ends inside a line lets a rotation put the two halves of one event's JSON into two files
	bufferNotShrunkAcrossIterations(c, "read-buffer-full-size-per-request", "its payload, payload-hex and payload-length are those of a prefix no longer than the shortest earlier body (a GET followed by a POST records the POST with an empty payload)", "services")
	c07WholeLineBatches(c)
	releasedMemoryNotRetained(c, "released-memory-not-retained", "the document queued for one event is overwritten by the next event before it is published – invalid JSON or another event's keys", "pushers", "event")
}

// reviewed dynamic origins: (enclosing function substring, origin description substring) -> reason
var c05Reviewed = []struct{ fn, origin, why string }{
	{"telnetLuaService", "", "telnet-lua stores values produced by an operator-provided Lua script; the service is outside the property's service list"},
}

func c05Types(c *Ctx) {
	p := c.P
	type sink struct {
		call ssa.CallInstruction
		arg  ssa.Value
		what string
	}
	var sinks []sink
	for _, fn := range p.Funcs() {
		if PkgOf(fn) == eventPath {
			// the event package's own generic plumbing (Custom/MergeFrom/...) forwards its parameter; callers are the sinks
			if fn.Parent() != nil {
				switch fn.Parent().Name() {
				case "Custom", "MergeFrom", "CopyFrom":
					continue
				}
			}
		}
		for _, call := range Calls(fn) {
			f := call.Common().StaticCallee()
			if f == nil {
				continue
			}
			args := call.Common().Args
			switch {
			case FuncIs(f, eventPath, "Custom") && len(args) == 2:
				sinks = append(sinks, sink{call, args[1], "Custom"})
			case MethodIs(f, eventPath, "Event", "Store") && len(args) == 3:
				sinks = append(sinks, sink{call, args[2], "Store"})
			case (FuncIs(f, eventPath, "MergeFrom") || FuncIs(f, eventPath, "CopyFrom")) && len(args) == 1:
				sinks = append(sinks, sink{call, args[0], f.Name()})
			}
		}
	}
	typeNotes := map[string]bool{}
	nDyn := 0
	for _, s := range sinks {
		fn := s.call.Parent()
		key := shortFn(fn) + " " + s.what
		if k, ok := ConstString(s.call.Common().Args[0]); ok && s.what == "Custom" {
			key += " " + k
		} else if s.what == "Store" {
			if k, ok := ConstString(s.call.Common().Args[1]); ok {
				key += " " + k
			}
		}
		var origins []origin
		if s.what == "MergeFrom" || s.what == "CopyFrom" {
			origins = mapValueOrigins(p, s.arg, 5, map[ssa.Value]bool{})
		} else {
			origins = valueOrigins(p, s.arg, 6, map[ssa.Value]bool{})
		}
		bad := ""
		var dyn []string
		var tys []string
		// a time.Time only encodes for years 0..9999: one built from client-chosen numbers (time.Unix(n, 0), time.Date(…))
		// makes Marshal fail for the whole event
		if w := clientChosenTime(s.arg, 0); w != "" {
			bad = "time.Time from " + w + " (MarshalJSON rejects years outside 0..9999)"
		}
		for _, o := range origins {
			if o.kind == "type" {
				notes := map[string]bool{}
				if r := jsonSafe(o.t, map[types.Type]bool{}, notes); r != "" {
					bad = typeShortT(o.t) + ": " + r
				}
				for n := range notes {
					typeNotes[n] = true
					if strings.HasPrefix(n, "dynamic:") {
						dyn = append(dyn, "inside "+typeShortT(o.t)+" "+n)
					}
				}
				tys = append(tys, typeShortT(o.t))
			} else {
				dyn = append(dyn, o.desc)
			}
		}
		sort.Strings(tys)
		tys = uniq(tys)
		switch {
		case bad != "":
			c.Violate("event-value-serialisable", key, p.InstrPos(s.call), "a value of a type encoding/json cannot encode can be stored in an event: "+bad+" – json.Marshal fails for the whole event and the channel drops it")
		case len(dyn) > 0:
			nDyn++
			sort.Strings(dyn)
			dyn = uniq(dyn)
			reviewed := ""
			for _, r := range c05Reviewed {
				if strings.Contains(shortFn(fn), r.fn) {
					reviewed = r.why
				}
			}
			if reviewed == "" {
				c.Undecided("event-value-serialisable", key, p.InstrPos(s.call), "the value stored in the event cannot be resolved to concrete types ("+strings.Join(dyn, "; ")+"): its JSON-encodability is not decided; resolve it in the code or add the site to the reviewed table with a reason")
				continue
			}
			c.Observe("event-value-dynamic", key, p.InstrPos(s.call), "origins not resolved to a concrete type: "+strings.Join(dyn, "; ")+" | resolved: "+strings.Join(tys, ","))
			c.Ok("event-value-serialisable", key, p.InstrPos(s.call), "resolved types safe: "+strings.Join(tys, ",")+"; "+fmt.Sprint(len(dyn))+" dynamic origin(s) listed")
		default:
			c.Ok("event-value-serialisable", key, p.InstrPos(s.call), strings.Join(tys, ","))
		}
	}
	c.Floor("event-value-serialisable", 250, "≈ 325 textual sites on the pinned tree")
	var notes []string
	for n := range typeNotes {
		notes = append(notes, n)
	}
	sort.Strings(notes)
	c.Extra["accepted_type_notes"] = notes
	c.Extra["sinks_with_dynamic_origins"] = nDyn
}

func c05Payload(c *Ctx) {
	p := c.P
	pf := p.Func("event", "Payload")
	if !c.Anchor(pf != nil && len(pf.AnonFuncs) == 1, "payload-triple", "event.Payload and its option closure") {
		return
	}
	cl := pf.AnonFuncs[0]
	// D: the very slice handed to Payload (the closure's captured variable), never a re-slice or a copy of part of it
	isData := func(v ssa.Value) bool { return c15Root(v) == ssa.Value(pf.Params[0]) }
	isHexOfData := func(v ssa.Value, depth int) bool { return false }
	isHexOfData = func(v ssa.Value, depth int) bool {
		call, ok := v.(*ssa.Call)
		if !ok {
			return false
		}
		f := call.Call.StaticCallee()
		switch {
		case FuncIs(f, "encoding/hex", "EncodeToString"):
			return isData(call.Call.Args[0])
		case FuncIs(f, "fmt", "Sprintf"):
			if fs, _ := ConstString(call.Call.Args[0]); fs == "%x" {
				va := variadicArgs(call.Call.Args[1])
				return len(va) == 1 && isData(Unwrap(va[0]))
			}
		case f != nil && InRepo(f) && f.Blocks != nil && depth == 0 && len(call.Call.Args) == 1 && isData(call.Call.Args[0]):
			// a local spelling of EncodeToString: dst := make([]byte, hex.EncodedLen(len(p))); hex.Encode(dst, p); return string(dst)
			par := f.Params[0]
			var enc *ssa.Call
			for _, c2 := range Calls(f) {
				if FuncIs(c2.Common().StaticCallee(), "encoding/hex", "Encode") {
					enc, _ = c2.(*ssa.Call)
				}
			}
			if enc == nil || enc.Call.Args[1] != ssa.Value(par) {
				return false
			}
			ms, ok := enc.Call.Args[0].(*ssa.MakeSlice)
			if !ok {
				return false
			}
			el, ok := ms.Len.(*ssa.Call)
			if !ok || !FuncIs(el.Call.StaticCallee(), "encoding/hex", "EncodedLen") {
				return false
			}
			if lx, isLen := isLenOf(el.Call.Args[0]); !isLen || lx != ssa.Value(par) {
				return false
			}
			for _, r := range Returns(f) {
				cv, ok := RetVals(r)[0].(*ssa.Convert)
				if !ok || cv.X != ssa.Value(ms) {
					return false
				}
			}
			return true
		}
		return false
	}
	seen := map[string]bool{}
	for _, call := range Calls(cl) {
		f := call.Common().StaticCallee()
		if f == nil || f.Name() != "Store" {
			continue
		}
		k, _ := ConstString(call.Common().Args[1])
		v := Unwrap(call.Common().Args[2])
		okV, want := false, ""
		switch k {
		case "payload":
			cv, isCv := v.(*ssa.Convert)
			okV, want = isCv && isData(cv.X), "string(data)"
		case "payload-hex":
			okV, want = isHexOfData(v, 0), "hex.EncodeToString(data)"
		case "payload-length":
			lx, isLen := isLenOf(v)
			okV, want = isLen && isData(lx), "len(data)"
		default:
			c.Observe("payload-triple", "extra key "+k, p.InstrPos(call), RenderN(v, 3))
			continue
		}
		seen[k] = true
		if call.Block() != cl.Blocks[0] {
			okV = false
		}
		c.Check(okV, "payload-triple", k, p.InstrPos(call), "= "+want, "event key "+k+" is `"+RenderN(v, 4)+"`, expected "+want+" of the very slice received, stored unconditionally (no re-slicing/arithmetic)")
	}
	for _, k := range []string{"payload", "payload-hex", "payload-length"} {
		if !seen[k] {
			c.Violate("payload-triple", k, p.Pos(cl.Pos()), "event key "+k+" is no longer stored by event.Payload")
		}
	}
}

func isAllocOfParam(b ssa.Value, par *ssa.Parameter) bool {
	a, ok := b.(*ssa.Alloc)
	if !ok {
		return false
	}
	sv := StoredValues(a)
	return len(sv) == 1 && sv[0] == ssa.Value(par)
}

func c05Addr(c *Ctx) {
	p := c.P
	for _, role := range []struct{ fn, prefix string }{{"SourceAddr", "source"}, {"DestinationAddr", "destination"}} {
		f := p.Func("event", role.fn)
		if !c.Anchor(f != nil && len(f.AnonFuncs) == 1, "addr-roles", "event."+role.fn) {
			continue
		}
		cl := f.AnonFuncs[0]
		var addr ssa.Value
		if len(cl.FreeVars) > 0 {
			addr = cl.FreeVars[0]
			for _, fv := range cl.FreeVars {
				if n := NamedOf(fv.Type()); n != nil && n.Obj().Name() == "Addr" {
					addr = fv
				}
				if pt, ok := fv.Type().(*types.Pointer); ok {
					if n := NamedOf(pt.Elem()); n != nil && n.Obj().Name() == "Addr" {
						addr = fv
					}
				}
			}
		}
		nIP, nPort := 0, 0
		for _, call := range Calls(cl) {
			cal := call.Common().StaticCallee()
			if cal == nil || cal.Name() != "Store" {
				continue
			}
			k, _ := ConstString(call.Common().Args[1])
			v := Unwrap(call.Common().Args[2])
			key := role.fn + " stores " + k
			switch k {
			case role.prefix + "-ip":
				nIP++
				c.Check(addrPartOf(v, addr, "IP", 0), "addr-roles", key, p.InstrPos(call), "IP.String() of the (asserted) address given to "+role.fn, "key "+k+" is `"+RenderN(v, 4)+"`, not the textual IP of the address given to "+role.fn)
			case role.prefix + "-port":
				nPort++
				c.Check(addrPartOf(v, addr, "Port", 0), "addr-roles", key, p.InstrPos(call), "Port of the (asserted) address given to "+role.fn, "key "+k+" is `"+RenderN(v, 4)+"`, not the port of the address given to "+role.fn)
			default:
				c.Violate("addr-roles", role.fn+" foreign key "+k, p.InstrPos(call), role.fn+" writes key "+k+", which does not belong to its role")
			}
		}
		c.Check(nIP >= 1 && nPort >= 1, "addr-roles", role.fn+" stores both parts", p.Pos(cl.Pos()), fmt.Sprintf("%d ip / %d port stores", nIP, nPort), role.fn+" no longer stores both the "+role.prefix+"-ip and the "+role.prefix+"-port")
	}
}

// addrPartOf: v is IP.String() (part "IP") or Port (part "Port") of an assertion of the address `addr` (a value, a captured
// variable, or – through a helper such as splitAddr(addr) – the helper's own parameter on every successful return).
func addrPartOf(v, addr ssa.Value, part string, depth int) bool {
	if depth > 3 || addr == nil {
		return false
	}
	isAddr := func(x ssa.Value) bool {
		if x == addr || c15Root(x) == c15Root(addr) {
			return true
		}
		// the captured variable's cell: a load of it is the address
		if ld, ok := x.(*ssa.UnOp); ok && ld.Op == token.MUL && ld.X == addr {
			return true
		}
		return false
	}
	fieldOfAssert := func(x ssa.Value, field string) bool {
		base, ok := isFieldLoadNamed(x, field)
		if !ok {
			return false
		}
		if ex, isE := base.(*ssa.Extract); isE {
			base = ex.Tuple
		}
		ta, ok := base.(*ssa.TypeAssert)
		return ok && isAddr(ta.X)
	}
	switch x := v.(type) {
	case *ssa.Phi:
		for _, e := range x.Edges {
			if !addrPartOf(e, addr, part, depth+1) {
				return false
			}
		}
		return true
	case *ssa.Extract:
		hc, ok := x.Tuple.(*ssa.Call)
		if !ok {
			return false
		}
		hf := hc.Call.StaticCallee()
		if hf == nil || !InRepo(hf) || hf.Blocks == nil {
			return false
		}
		var hp ssa.Value
		for i, a := range hc.Call.Args {
			if isAddr(a) && i < len(hf.Params) {
				hp = hf.Params[i]
			}
		}
		if hp == nil {
			return false
		}
		n := 0
		for _, r := range Returns(hf) {
			rv := RetVals(r)
			if k, isK := rv[len(rv)-1].(*ssa.Const); isK && k.Value != nil && k.Value.String() == "false" {
				continue // the refusing return
			}
			n++
			if x.Index >= len(rv) || !addrPartOf(rv[x.Index], hp, part, depth+1) {
				return false
			}
		}
		return n > 0
	case *ssa.Call:
		if part == "IP" && MethodIs(x.Call.StaticCallee(), "net", "IP", "String") && len(x.Call.Args) == 1 {
			return fieldOfAssert(x.Call.Args[0], "IP")
		}
	}
	if part == "Port" {
		return fieldOfAssert(v, "Port")
	}
	return false
}

func c05Merge(c *Ctx) {
	p := c.P
	for _, name := range []string{"MergeFrom", "CopyFrom"} {
		f := p.Func("event", name)
		if !c.Anchor(f != nil && len(f.AnonFuncs) == 1, "merge-copy", "event."+name) {
			continue
		}
		cl := f.AnonFuncs[0]
		n := 0
		for _, call := range Calls(cl) {
			cal := call.Common().StaticCallee()
			if cal == nil || cal.Name() != "Store" {
				continue
			}
			n++
			var has []Cond
			var others []string
			for _, dc := range DomConds(call) {
				if hc, ok := dc.V.(*ssa.Call); ok && hc.Call.StaticCallee() != nil && hc.Call.StaticCallee().Name() == "Has" {
					has = append(has, dc)
					continue
				}
				if ex, ok := dc.V.(*ssa.Extract); ok {
					if _, ok := ex.Tuple.(*ssa.Next); ok {
						continue // range loop
					}
				}
				others = append(others, Render(dc.V))
			}
			// key/value are the ranged pair
			kv := Render(call.Common().Args[1]) + " -> " + Render(Unwrap(call.Common().Args[2]))
			okKV := strings.Contains(kv, "next(range(*fv:data))#1") && strings.Contains(kv, "next(range(*fv:data))#2")
			if name == "MergeFrom" {
				okHas := len(has) == 1 && !has[0].Pol && len(others) == 0
				if okHas {
					hc := has[0].V.(*ssa.Call)
					okHas = Render(hc.Call.Args[1]) == Render(call.Common().Args[1])
				}
				c.Check(okHas && okKV, "merge-copy", "MergeFrom keeps existing keys", p.InstrPos(call), "Store only under !Has(name)", "MergeFrom stores a pair without `!m.Has(name)` for that same name being the only guard (existing keys would be overwritten / new ones skipped)")
			} else {
				c.Check(len(has) == 0 && len(others) == 0 && okKV, "merge-copy", "CopyFrom overwrites", p.InstrPos(call), "unconditional Store of every pair", "CopyFrom does not unconditionally store every pair: "+strings.Join(others, ","))
			}
		}
		c.Check(n == 1, "merge-copy", name+" single store", p.Pos(cl.Pos()), "", fmt.Sprintf("expected one Store in %s, found %d", name, n))
	}
}

func c05Snapshots(c *Ctx) {
	p := c.P
	rangeM := p.Method("event", "Event", "Range")
	if !c.Anchor(rangeM != nil, "snapshot", "(event.Event).Range") {
		return
	}
	// plumbing: Range/Store/Has/Get act directly on e.sm
	for _, m := range []struct{ name, callee string }{{"Range", "Range"}, {"Store", "Store"}, {"Has", "Load"}, {"Get", "Load"}} {
		fn := p.Method("event", "Event", m.name)
		if fn == nil {
			continue
		}
		ok := false
		for _, call := range Calls(fn) {
			f := call.Common().StaticCallee()
			if MethodIs(f, "sync", "Map", m.callee) && call.Block() == fn.Blocks[0] {
				// forwarding its own arguments
				good := true
				for i, a := range call.Common().Args[1:] {
					if i+1 < len(fn.Params) && Unwrap(a) != ssa.Value(fn.Params[i+1]) {
						good = false
					}
				}
				// the receiver's own *sync.Map field, whatever it is called
				onOwn := false
				if ld, isLd := isLoad(call.Common().Args[0]); isLd {
					if fa, isFA := ld.X.(*ssa.FieldAddr); isFA && strings.HasPrefix(Render(ld), "p0.") && NamedOf(fa.X.Type()) != nil && NamedOf(fa.X.Type()).Obj().Name() == "Event" {
						onOwn = true
					}
				}
				ok = good && onOwn
			}
		}
		c.Check(ok, "event-plumbing", "Event."+m.name, p.Pos(fn.Pos()), "forwards to sync.Map."+m.callee+" with its own arguments", "Event."+m.name+" is no longer a direct sync.Map."+m.callee+" on the event's store with the caller's arguments (extra state or caching between the store and its readers can go stale)")
		// no other state written
		for _, b := range fn.Blocks {
			for _, in := range b.Instrs {
				if st, ok := in.(*ssa.Store); ok {
					if fa, ok := st.Addr.(*ssa.FieldAddr); ok && NamedOf(fa.X.Type()) != nil && NamedOf(fa.X.Type()).Obj().Name() == "Event" {
						c.Violate("event-plumbing", "Event."+m.name+" writes Event."+fieldNameOf(fa), p.InstrPos(st), "the event keeps derived state besides its key-value store")
					}
				}
			}
		}
	}
	subjects := map[string]bool{"event": true, "pushers/file": true, "pushers/kafka": true, "pushers/console": true, "pushers/pulsar": true, "pushers/rabbitmq": true}
	n := 0
	snapshotHelpers := map[*ssa.Function]bool{} // functions whose own Range callback is a complete snapshot and that hand the map out
	defer func() {
		// channels that take their snapshot through such a helper (event.ToMap(e)) instead of ranging themselves
		for _, fn := range p.Funcs() {
			if !subjects[RelPkg(PkgOf(fn))] || snapshotHelpers[fn] {
				continue
			}
			for _, call := range Calls(fn) {
				if hf := call.Common().StaticCallee(); hf != nil && snapshotHelpers[hf] {
					c.Ok("snapshot-complete", shortFn(fn)+" snapshot via "+shortFn(hf), p.InstrPos(call), "uses the complete snapshot helper")
				}
			}
		}
	}()
	for _, fn := range p.Funcs() {
		for _, call := range Calls(fn) {
			if call.Common().StaticCallee() != rangeM {
				continue
			}
			var cb *ssa.Function
			switch x := Unwrap(call.Common().Args[1]).(type) {
			case *ssa.MakeClosure:
				cb, _ = x.Fn.(*ssa.Function)
			case *ssa.Function:
				cb = x
			}
			if cb == nil {
				continue
			}
			// a snapshot callback updates a map[string]interface{}
			var upd []*ssa.MapUpdate
			for _, b := range cb.Blocks {
				for _, in := range b.Instrs {
					if mu, ok := in.(*ssa.MapUpdate); ok {
						upd = append(upd, mu)
					}
				}
			}
			if len(upd) == 0 {
				continue
			}
			rel := RelPkg(PkgOf(fn))
			key := shortFn(fn) + " snapshot"
			// shape
			okShape := len(upd) == 1
			var why []string
			if okShape {
				mu := upd[0]
				// key = p0.(string)#0, value = p1
				kx, okk := mu.Key.(*ssa.Extract)
				if !okk || kx.Index != 0 {
					okShape = false
					why = append(why, "key is not the asserted string key")
				} else if ta, ok := kx.Tuple.(*ssa.TypeAssert); !ok || ta.X != ssa.Value(cb.Params[0]) {
					okShape = false
					why = append(why, "key is not the callback's key")
				}
				if mu.Value != ssa.Value(cb.Params[1]) {
					okShape = false
					why = append(why, "value is not the callback's value")
				}
				for _, dc := range DomConds(mu) {
					if ex, ok := dc.V.(*ssa.Extract); ok && ex.Index == 1 && dc.Pol {
						if ta, ok := ex.Tuple.(*ssa.TypeAssert); ok && ta.X == ssa.Value(cb.Params[0]) {
							continue
						}
					}
					okShape = false
					why = append(why, "extra condition "+Render(dc.V))
				}
			} else {
				why = append(why, fmt.Sprintf("%d map updates", len(upd)))
			}
			retTrue := true
			for _, r := range Returns(cb) {
				for _, lf := range leaves(RetVals(r)[0]) {
					if k, ok := lf.(*ssa.Const); !ok || k.Value.String() != "true" {
						retTrue = false
						why = append(why, "callback can return false (stops sync.Map.Range: later keys are dropped)")
					}
				}
			}
			if okShape && retTrue && fn.Signature.Results().Len() == 1 {
				if _, isMap := fn.Signature.Results().At(0).Type().Underlying().(*types.Map); isMap {
					snapshotHelpers[fn] = true
				}
			}
			if subjects[rel] {
				n++
				c.Check(okShape && retTrue, "snapshot-complete", key, p.InstrPos(call), "copies every string key; never stops the range", "the snapshot does not copy every key of the event: "+strings.Join(why, "; "))
			} else {
				if okShape && retTrue {
					c.Observe("snapshot-complete", key, p.InstrPos(call), "complete snapshot (channel not named by the property)")
				} else {
					c.Observe("snapshot-complete", key, p.InstrPos(call), "selective extractor: "+strings.Join(why, "; "))
				}
			}
		}
	}
	c.Floor("snapshot-complete", 6, "event x2, file, kafka, console, pulsar/rabbitmq")
	// MarshalJSON returns json.Marshal(fresh snapshot map) on every path
	mj := p.Method("event", "Event", "MarshalJSON")
	if c.Anchor(mj != nil, "snapshot", "(event.Event).MarshalJSON") {
		for i, r := range Returns(mj) {
			rv := RetVals(r)
			ok := false
			if IsNilConst(rv[0]) && len(rv) == 2 && !IsNilConst(rv[1]) {
				continue // error return
			}
			if ex, okx := rv[0].(*ssa.Extract); okx {
				if call, okc := ex.Tuple.(*ssa.Call); okc && FuncIs(call.Call.StaticCallee(), "encoding/json", "Marshal") {
					arg := Deref(Unwrap(call.Call.Args[0]))
					if _, isMake := arg.(*ssa.MakeMap); isMake {
						ok = true
					}
					// a snapshot helper (ToMap(e)): an in-repo function given this event, every return of which is a map made in that call
					if hc, isCall := arg.(*ssa.Call); isCall {
						if hf := hc.Call.StaticCallee(); hf != nil && InRepo(hf) && hf.Blocks != nil && len(hc.Call.Args) >= 1 && Unwrap(hc.Call.Args[0]) == ssa.Value(mj.Params[0]) {
							fresh := len(Returns(hf)) > 0
							for _, r2 := range Returns(hf) {
								if _, isMake := Deref(Unwrap(RetVals(r2)[0])).(*ssa.MakeMap); !isMake {
									fresh = false
								}
							}
							ok = fresh
						}
					}
				}
			}
			c.Check(ok, "marshal-fresh-snapshot", fmt.Sprintf("MarshalJSON return[%d]", i), p.InstrPos(r), "json.Marshal of the snapshot taken in this call", "MarshalJSON returns bytes that are not json.Marshal of a snapshot taken in this very call (cached or partial encodings can miss keys stored meanwhile): "+Render(rv[0]))
		}
	}
}

// freeVarBinding finds the value bound to fv at the (unique) MakeClosure site of its function.
func freeVarBinding(fv *ssa.FreeVar) ssa.Value {
	fn := fv.Parent()
	par := fn.Parent()
	if par == nil {
		return nil
	}
	for _, mc := range MakeClosures(par) {
		if mc.Fn == fn {
			return ClosureBindings(mc)[fv]
		}
	}
	return nil
}

// calleesOf: static callee, or for an interface call every in-repo method implementing it (class hierarchy).
func calleesOf(p *Program, call ssa.CallInstruction) []*ssa.Function {
	cc := call.Common()
	if f := cc.StaticCallee(); f != nil {
		return []*ssa.Function{f}
	}
	if !cc.IsInvoke() {
		return nil
	}
	it, ok := cc.Value.Type().Underlying().(*types.Interface)
	if !ok {
		return nil
	}
	var out []*ssa.Function
	for _, n := range p.NamedTypes() {
		if _, isI := n.Underlying().(*types.Interface); isI {
			continue
		}
		if !Implements(n, it) {
			continue
		}
		if m := p.Method(RelPkg(n.Obj().Pkg().Path()), n.Obj().Name(), cc.Method.Name()); m != nil {
			out = append(out, m)
		}
	}
	return out
}

// clientChosenTime: v is (an interface holding) a time.Time that can come from time.Unix/UnixMilli/Date/Parse with
// arguments that are not constants; returns a description of that origin.
func clientChosenTime(v ssa.Value, depth int) string {
	if depth > 6 {
		return ""
	}
	v = Unwrap(v)
	if n := NamedOf(v.Type()); n == nil || n.Obj().Pkg() == nil || n.Obj().Pkg().Path() != "time" || n.Obj().Name() != "Time" {
		return ""
	}
	switch x := v.(type) {
	case *ssa.Phi:
		for _, e := range x.Edges {
			if w := clientChosenTime(e, depth+1); w != "" {
				return w
			}
		}
	case *ssa.Extract:
		return clientChosenTime(x.Tuple, depth+1)
	case *ssa.UnOp:
		if a, ok := x.X.(*ssa.Alloc); ok {
			for _, sv := range StoredValues(a) {
				if w := clientChosenTime(sv, depth+1); w != "" {
					return w
				}
			}
		}
	case *ssa.Call:
		f := x.Call.StaticCallee()
		if f == nil {
			return ""
		}
		if PkgOf(f) == "time" && f.Signature.Recv() == nil {
			switch f.Name() {
			case "Unix", "UnixMilli", "UnixMicro", "Date", "Parse", "ParseInLocation":
				for _, a := range x.Call.Args {
					if _, isK := a.(*ssa.Const); !isK {
						return "time." + f.Name() + "(" + RenderN(a, 2) + ", …)"
					}
				}
			}
			return ""
		}
		// methods that keep the instant (UTC, Local, In, Round, Truncate, Add with a bounded duration is not decided)
		if PkgOf(f) == "time" && f.Signature.Recv() != nil && len(x.Call.Args) > 0 {
			return clientChosenTime(x.Call.Args[0], depth+1)
		}
		if InRepo(f) && f.Blocks != nil {
			for _, r := range Returns(f) {
				for _, rv := range RetVals(r) {
					if w := clientChosenTime(rv, depth+1); w != "" {
						return w
					}
				}
			}
		}
	}
	return ""
}
