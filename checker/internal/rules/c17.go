package rules

import (
	"fmt"
	"go/token"
	"go/types"
	"sort"
	"strings"

	"golang.org/x/tools/go/ssa"

	. "htcheck/internal/core"
	"htcheck/internal/zone"
)

func init() { Registry["C17"] = c17 }

const decRel = "services/decoder"
const ippRel = "services/ipp"

func c17(c *Ctx) {
	c.Explanation = "Static check of the bounds-checked decoder for all buffers, cursor positions and size arguments, and of IPP encode/decode agreement. Decoder: the summary of HasBytes is extracted and verified (nil iff 0 <= offset+size <= len(data), no side effect); " +
		"the type invariant Decode.offset >= 0 is proved inductively over every store to the field in the program; with these, every index/slice/make in every method of *Decode is discharged by the difference-bound prover (summary imported at the dominating HasBytes call); " +
		"on the failing arm each primitive stores lasterror, returns the zero value and cannot reach a store to offset or a deferred advance; on the success arm the advance equals the size checked and the bytes read are data[offset:offset+size]. " +
		"IPP: every value tag is associated with one Go value type on the encode side (composite literals) and the decode side (switch in attribGroup.decode) and the two agree; for each value type the decoder's operation sequence for a value mirrors the encoder's " +
		"(kind by kind), additional values are read in a loop continuing exactly while the peeked tag equals the value's tag; the decoded value is never used through a nil interface/pointer (unknown tag, failed comma-ok assertion); " +
		"the response takes version and request id from the decoded body and the event fields come from the decoded operation attributes."
	c.Assume("encoding/binary.BigEndian decodes big-endian values (trusted)")
	c17Decoder(c)
	c17IPP(c)
	c17NoListAliasing(c)
	decoderErrorSticky(c, "decoder-error-sticky")
	c17EncoderWholeValue(c)
	c17RequestBodyWhole(c)
	releasedMemoryNotRetained(c, "released-memory-not-retained", "the reply one client is still being sent is re-encoded with another client's version, request id, charset and language", "services/ipp", "services/decoder")
	c17NoSignExtension(c, "services/decoder")
}

func c17Decoder(c *Ctx) {
	p := c.P
	dt := p.Type(decRel, "Decode")
	hb := p.Method(decRel, "Decode", "HasBytes")
	if !c.Anchor(dt != nil && hb != nil, "decoder", "decoder.Decode / HasBytes") {
		return
	}
	st := dt.Underlying().(*types.Struct)
	fidx := map[string]int{}
	for i := 0; i < st.NumFields(); i++ {
		fidx[st.Field(i).Name()] = i
	}
	// the three fields by role, whatever they are called: the buffer ([]byte), the cursor (int) and the recorded error
	dataName, offName := "data", "offset"
	for i := 0; i < st.NumFields(); i++ {
		switch t := st.Field(i).Type().Underlying().(type) {
		case *types.Slice:
			if bt, ok := t.Elem().Underlying().(*types.Basic); ok && bt.Kind() == types.Byte {
				fidx["data"], dataName = i, st.Field(i).Name()
			}
		case *types.Basic:
			if t.Kind() == types.Int {
				fidx["offset"], offName = i, st.Field(i).Name()
			}
		case *types.Interface:
			if st.Field(i).Type().String() == "error" {
				fidx["lasterror"] = i
			}
		}
	}
	canon := func(s string) string {
		s = strings.ReplaceAll(s, "p0."+dataName, "p0.data")
		return strings.ReplaceAll(s, "p0."+offName, "p0.offset")
	}
	if !c.Anchor(len(fidx) >= 3, "decoder", "fields offset/data/lasterror") {
		return
	}
	// --- summary of HasBytes
	var nilRet []*ssa.Return
	pure := true
	for _, b := range hb.Blocks {
		for _, in := range b.Instrs {
			if st, ok := in.(*ssa.Store); ok {
				if _, isAlloc := st.Addr.(*ssa.Alloc); !isAlloc {
					if fa, ok := st.Addr.(*ssa.FieldAddr); ok {
						if _, local := fa.X.(*ssa.Alloc); local {
							continue
						}
					}
					pure = false
				}
			}
		}
	}
	for _, r := range Returns(hb) {
		if IsNilConst(RetVals(r)[0]) {
			nilRet = append(nilRet, r)
		}
	}
	okSum := pure && len(nilRet) == 1
	var summary []Cond
	if okSum {
		summary = DomConds(nilRet[0])
		var rs []string
		for _, dc := range summary {
			s := Render(dc.V)
			if !dc.Pol {
				s = "!" + s
			}
			rs = append(rs, s)
		}
		sort.Strings(rs)
		got := strings.Join(rs, " && ")
		// compared as relations, not as text: !(pos < 0) is pos >= 0, !(pos > len) is pos <= len, either operand order
		var norm []string
		for _, dc := range summary {
			norm = append(norm, normRel(dc))
		}
		sort.Strings(norm)
		norm = uniqS(norm)
		okSum = canon(strings.Join(norm, " && ")) == "(p0.offset + p1) <= len(p0.data) && (p0.offset + p1) >= 0"
		c.Check(okSum, "hasbytes-summary", "HasBytes returns nil iff", p.InstrPos(nilRet[0]), got, "HasBytes' nil return is not guarded exactly by 0 <= offset+size <= len(data): "+got)
	} else {
		c.Violate("hasbytes-summary", "HasBytes shape", p.Pos(hb.Pos()), "HasBytes is not a pure predicate with a single nil return")
	}
	// every non-nil return is an error value (not nil)
	for i, r := range Returns(hb) {
		if !IsNilConst(RetVals(r)[0]) {
			c.Ok("hasbytes-summary", fmt.Sprintf("HasBytes error return[%d]", i), p.InstrPos(r), "")
		}
	}
	// --- guard wrappers: a method that calls HasBytes on its own (receiver, size), reports the outcome as bool/error,
	// never moves the cursor, and (optionally) records the error on its failing outcome. Its "ok" outcome implies
	// HasBytes' summary (imported through the dominating conditions of its ok return).
	guards := map[*ssa.Function]*guardInfo{hb: {}}
	wsum := map[*ssa.Function][]Cond{}
	for _, fn := range p.FuncsIn(decRel) {
		if fn == hb || fn.Parent() != nil || fn.Signature.Recv() == nil || NamedOf(fn.Signature.Recv().Type()) != dt || len(fn.Params) != 2 || fn.Signature.Results().Len() != 1 {
			continue
		}
		rt := fn.Signature.Results().At(0).Type()
		isBool := types.Identical(rt.Underlying(), types.Typ[types.Bool])
		if !isBool && !IsErrorType(rt) {
			continue
		}
		var hc *ssa.Call
		n := 0
		for _, call := range Calls(fn) {
			if call.Common().StaticCallee() == hb {
				hc, _ = call.(*ssa.Call)
				n++
			}
		}
		if hc == nil || n != 1 || hc.Call.Args[0] != ssa.Value(fn.Params[0]) || hc.Call.Args[1] != ssa.Value(fn.Params[1]) {
			continue
		}
		movesCursor := false
		for _, b := range fn.Blocks {
			for _, in := range b.Instrs {
				if st, ok := in.(*ssa.Store); ok {
					if fa, ok := st.Addr.(*ssa.FieldAddr); ok && NamedOf(fa.X.Type()) == dt && (fa.Field == fidx["offset"] || fa.Field == fidx["data"]) {
						movesCursor = true
					}
				}
			}
		}
		if movesCursor {
			continue
		}
		wellFormed, records := true, true
		var okRet *ssa.Return
		for _, r := range Returns(fn) {
			v := RetVals(r)[0]
			okOut := false
			if isBool {
				k, isC := v.(*ssa.Const)
				if !isC || k.Value == nil {
					wellFormed = false
					continue
				}
				okOut = k.Value.String() == "true"
			} else {
				okOut = IsNilConst(v)
			}
			switch guardOutcome(hc, r) {
			case 1:
				if !okOut {
					wellFormed = false // refuses although the bytes are there: harmless for bounds, but not a plain guard
				}
				if okOut && okRet == nil {
					okRet = r
				} else if okOut {
					wellFormed = false
				}
			case -1:
				if okOut {
					wellFormed = false
				}
				rec := false
				for _, b := range fn.Blocks {
					for _, in := range b.Instrs {
						if st, ok := in.(*ssa.Store); ok && guardOutcome(hc, st) == -1 && st.Block().Dominates(r.Block()) {
							if fa, ok := st.Addr.(*ssa.FieldAddr); ok && fa.Field == fidx["lasterror"] && st.Val == ssa.Value(hc) {
								rec = true
							}
						}
					}
				}
				if !rec {
					records = false
				}
			default:
				wellFormed = false
			}
		}
		if !wellFormed || okRet == nil {
			continue
		}
		guards[fn] = &guardInfo{records: records}
		wsum[fn] = DomConds(okRet)
		c.Ok("hasbytes-summary", "guard wrapper "+fn.Name(), p.Pos(fn.Pos()), "reports HasBytes' outcome for its own (receiver, size), never moves the cursor"+map[bool]string{true: ", records the error when it fails", false: ""}[records])
	}
	offTyp := fmt.Sprintf("%s#%d", dt.String(), fidx["offset"])
	newProver := func(fn *ssa.Function) *zone.Prover {
		pr := zone.New(fn)
		pr.FieldLower[offTyp] = 0
		if okSum {
			pr.Summaries[hb] = summary
			for w, sm := range wsum {
				pr.Summaries[w] = sm
			}
		}
		return pr
	}
	// --- invariant: every store to Decode.offset stores a value >= 0
	nst := 0
	for _, fn := range p.Funcs() {
		for _, b := range fn.Blocks {
			for _, in := range b.Instrs {
				st, ok := in.(*ssa.Store)
				if !ok {
					continue
				}
				fa, ok := st.Addr.(*ssa.FieldAddr)
				if !ok || NamedOf(fa.X.Type()) != dt || fa.Field != fidx["offset"] {
					continue
				}
				nst++
				pr := newProver(fn)
				ok2, why := pr.ProveGE(st.Val, 0, st)
				c.Check(ok2, "offset-invariant", shortFn(fn)+" stores Decode.offset", p.InstrPos(st), "stored cursor is provably >= 0: "+RenderN(st.Val, 3), "the cursor can become negative here ("+why+"): later reads index before the buffer")
			}
		}
	}
	c.Floor("offset-invariant", 6, "constructor, Byte, Int16, Int32/Uint32, Copy, Seek")
	// --- bounds in every method (and closures) of *Decode
	nOb := 0
	var methods []*ssa.Function
	for _, fn := range p.FuncsIn(decRel) {
		root := fn
		for root.Parent() != nil {
			root = root.Parent()
		}
		if root.Signature.Recv() != nil && NamedOf(root.Signature.Recv().Type()) == dt {
			methods = append(methods, fn)
		}
	}
	for _, fn := range methods {
		pr := newProver(fn)
		ord := 0
		for _, b := range fn.Blocks {
			for _, in := range b.Instrs {
				switch in.(type) {
				case *ssa.IndexAddr, *ssa.Index, *ssa.Slice, *ssa.MakeSlice:
				default:
					continue
				}
				for _, o := range pr.Obligations(in) {
					ord++
					nOb++
					ok, why := pr.Prove(o, in)
					key := fmt.Sprintf("%s #%d %s: %s", shortFn(fn), ord, strings.TrimPrefix(fmt.Sprintf("%T", in), "*ssa."), o.What)
					c.Check(ok, "decoder-bounds", key, p.InstrPos(in), RenderN(in.(ssa.Value), 3), "not provably in range for every buffer, cursor and size argument: "+RenderN(in.(ssa.Value), 4)+" – "+why+": the decoder fails abruptly instead of recording an error")
				}
			}
		}
	}
	c.Floor("decoder-bounds", 12, "Byte, PeekByte, Int16, PeekInt16, Int32, Uint32, Copy")
	// --- failing / success arms of the primitives
	for _, fn := range methods {
		if fn.Parent() != nil || guards[fn] != nil {
			continue
		}
		var hcall *ssa.Call
		for _, call := range Calls(fn) {
			if guards[call.Common().StaticCallee()] != nil {
				hcall, _ = call.(*ssa.Call)
			}
		}
		if hcall == nil {
			continue
		}
		name := fn.Name()
		ginfo := guards[hcall.Call.StaticCallee()]
		failed := func(in ssa.Instruction) bool { return guardOutcome(hcall, in) == -1 }
		succeeded := func(in ssa.Instruction) bool { return guardOutcome(hcall, in) == 1 }
		// failing arm
		nfail := 0
		for _, r := range Returns(fn) {
			if !failed(r) {
				continue
			}
			nfail++
			zeroRet := true
			for _, v := range RetVals(r) {
				if k, ok := v.(*ssa.Const); !ok || !(k.Value == nil || k.Value.String() == "0") {
					zeroRet = false
				}
			}
			stored := false
			for _, b := range fn.Blocks {
				for _, in := range b.Instrs {
					if s, ok := in.(*ssa.Store); ok && failed(s) {
						if fa, ok := s.Addr.(*ssa.FieldAddr); ok && fa.Field == fidx["lasterror"] && s.Val == ssa.Value(hcall) && s.Block().Dominates(r.Block()) {
							stored = true
						}
					}
				}
			}
			if ginfo.records {
				stored = true // the guard wrapper itself records the error on its failing outcome (checked on the wrapper)
			}
			c.Check(zeroRet && stored, "decoder-fail-arm", name+" failing return", p.InstrPos(r), "records the error and returns the zero value", "on a read that does not fit, "+name+" does not both record HasBytes' error in lasterror and return the zero value")
		}
		if fn.Signature.Results().Len() > 0 {
			c.Check(nfail == 1, "decoder-fail-arm", name+" has a failing arm", p.Pos(fn.Pos()), "", fmt.Sprintf("expected one failing return in %s, found %d", name, nfail))
		}
		// no cursor movement on the failing arm: stores to offset and defers must be on the success side
		for _, b := range fn.Blocks {
			for _, in := range b.Instrs {
				moves := false
				switch x := in.(type) {
				case *ssa.Store:
					if fa, ok := x.Addr.(*ssa.FieldAddr); ok && fa.Field == fidx["offset"] && NamedOf(fa.X.Type()) == dt {
						moves = true
					}
				case *ssa.Defer:
					moves = true
				}
				if moves {
					c.Check(succeeded(in), "decoder-fail-arm", name+" cursor movement only on success", p.InstrPos(in), "", "the cursor is (or is scheduled to be) advanced on a path where HasBytes did not succeed: a failed read consumes input")
				}
			}
		}
		// success arm: advance == size checked == bytes read
		size := Render(hcall.Call.Args[1])
		adv := "0"
		var advAt ssa.Instruction
		fns := append([]*ssa.Function{fn}, fn.AnonFuncs...)
		for _, f2 := range fns {
			for _, b := range f2.Blocks {
				for _, in := range b.Instrs {
					if s, ok := in.(*ssa.Store); ok {
						if fa, ok := s.Addr.(*ssa.FieldAddr); ok && fa.Field == fidx["offset"] && NamedOf(fa.X.Type()) == dt {
							if bo, ok := s.Val.(*ssa.BinOp); ok && bo.Op == token.ADD {
								adv = Render(bo.Y)
								advAt = s
							} else {
								adv = "?" + Render(s.Val)
							}
						}
					}
				}
			}
		}
		peek := strings.HasPrefix(name, "Peek")
		_ = advAt
		switch {
		case peek:
			c.Check(adv == "0", "decoder-advance", name, p.Pos(fn.Pos()), "peek does not move the cursor", "a Peek primitive moves the cursor by "+adv)
		default:
			c.Check(adv == size, "decoder-advance", name, p.Pos(fn.Pos()), "advances by exactly the size checked ("+size+")", name+" checks "+size+" byte(s) but advances the cursor by "+adv)
		}
		// bytes read: data[offset : offset+size] / data[offset]
		for _, b := range fn.Blocks {
			for _, in := range b.Instrs {
				switch x := in.(type) {
				case *ssa.Slice:
					if _, ok := isFieldLoadNamed(x.X, dataName); ok && x.Low != nil && x.High != nil {
						lo, hi := canon(Render(x.Low)), canon(Render(x.High))
						c.Check(lo == "p0.offset" && hi == "(p0.offset + "+size+")", "decoder-reads-at-cursor", name+" slice", p.InstrPos(x), "reads data[offset:offset+"+size+"]", name+" reads data["+lo+":"+hi+"] instead of the "+size+" byte(s) at the cursor")
					}
				case *ssa.IndexAddr:
					if _, ok := isFieldLoadNamed(x.X, dataName); ok {
						c.Check(canon(Render(x.Index)) == "p0.offset" && size == "1", "decoder-reads-at-cursor", name+" index", p.InstrPos(x), "reads data[offset]", name+" reads data["+Render(x.Index)+"] instead of the byte at the cursor")
					}
				}
			}
		}
	}
	c.Floor("decoder-advance", 7, "Byte Int16 Int32 Uint32 Copy Seek + 2 peeks")
	_ = nOb
}

// ---------------------------------------------------------------------------------------------------- IPP

func c17IPP(c *Ctx) {
	p := c.P
	gd := p.Method(ippRel, "attribGroup", "decode")
	vt := p.Iface(ippRel, "ValueType")
	if !c.Anchor(gd != nil && vt != nil, "ipp-tags", "ipp.attribGroup.decode / ValueType") {
		return
	}
	tagNames := map[int64]string{}
	if pk := p.Pkg(ippRel); pk != nil {
		for name, m := range pk.Members {
			if k, ok := m.(*ssa.NamedConst); ok && types.Identical(k.Type().Underlying(), types.Typ[types.Uint8]) {
				if v, ok := ConstInt(k.Value); ok && v >= 0x10 {
					tagNames[v] = name
				}
			}
		}
	}
	tn := func(k int64) string {
		if n, ok := tagNames[k]; ok {
			return fmt.Sprintf("%s(0x%02x)", n, k)
		}
		return fmt.Sprintf("0x%02x", k)
	}
	isValType := func(t types.Type) *types.Named {
		n := NamedOf(t)
		if n == nil || n.Obj().Pkg() == nil || RelPkg(n.Obj().Pkg().Path()) != ippRel {
			return nil
		}
		if _, isS := n.Underlying().(*types.Struct); !isS || !Implements(n, vt) {
			return nil
		}
		return n
	}
	// decode side: allocs in group.decode under (vtag == k)
	dec := map[int64]string{}
	// the tag-to-type switch may live in group.decode itself or in a helper it calls (newValueType(vtag))
	decFns := map[*ssa.Function]bool{gd: true}
	for _, call := range Calls(gd) {
		if f := call.Common().StaticCallee(); f != nil && InRepo(f) && f.Blocks != nil && PkgOf(f) == PkgOf(gd) && f.Signature.Results().Len() >= 1 {
			if n := NamedOf(f.Signature.Results().At(0).Type()); n != nil && n.Obj().Name() == "ValueType" {
				decFns[f] = true
			}
		}
	}
	for df := range decFns {
		for _, b := range df.Blocks {
			for _, in := range b.Instrs {
				a, ok := in.(*ssa.Alloc)
				if !ok {
					continue
				}
				n := isValType(a.Type())
				if n == nil {
					continue
				}
				for _, dc := range DomConds(a) {
					if _, y, ok := eqCond(dc); ok {
						if k, isC := ConstInt(y); isC {
							dec[k] = n.Obj().Name()
						}
					}
				}
				// `case a, b, c:` – several constants lead into one arm
				if _, ks, ok := caseConstsInto(b); ok {
					for _, k := range ks {
						dec[k] = n.Obj().Name()
					}
				}
			}
		}
	}
	// encode side: composite literals elsewhere: alloc of val type with a constant store to field tag
	enc := map[int64]map[string]string{}
	for _, fn := range p.FuncsIn(ippRel) {
		if decFns[fn] {
			continue
		}
		for _, b := range fn.Blocks {
			for _, in := range b.Instrs {
				a, ok := in.(*ssa.Alloc)
				if !ok {
					continue
				}
				n := isValType(a.Type())
				if n == nil {
					continue
				}
				for _, ref := range *a.Referrers() {
					fa, ok := ref.(*ssa.FieldAddr)
					if !ok || fieldNameOf(fa) != "tag" {
						continue
					}
					for _, r2 := range *fa.Referrers() {
						if st, ok := r2.(*ssa.Store); ok {
							if k, isC := ConstInt(st.Val); isC {
								if enc[k] == nil {
									enc[k] = map[string]string{}
								}
								enc[k][n.Obj().Name()] = p.InstrPos(st)
							}
						}
					}
				}
			}
		}
	}
	var tags []int64
	for k := range enc {
		tags = append(tags, k)
	}
	sort.Slice(tags, func(i, j int) bool { return tags[i] < tags[j] })
	for _, k := range tags {
		var types_ []string
		pos := "-"
		for t, ps := range enc[k] {
			types_ = append(types_, t)
			pos = ps
		}
		sort.Strings(types_)
		key := "tag " + tn(k)
		if !c.Check(len(types_) == 1, "ipp-tag-table", key+" one type when encoded", pos, types_[0], "the tag is attached to several Go value types on the encode side: "+strings.Join(types_, ",")) {
			continue
		}
		d, has := dec[k]
		c.Check(has && d == types_[0], "ipp-tag-table", key+" decode arm", pos, "encoded and decoded as "+types_[0], fmt.Sprintf("values with this tag are built/encoded as %s but attribGroup.decode decodes them as `%s` (arm present: %v): the value bytes are misread and what follows is taken for delimiter tags", types_[0], d, has))
	}
	c.Floor("ipp-tag-table", 6, "keyword, range, mime, name, integer, enum, boolean")
	c.Extra["ipp_decode_tags"] = len(dec)
	// nil value after the switch: the call v.decode must not be reachable with v == nil
	for _, call := range Calls(gd) {
		cc := call.Common()
		if !cc.IsInvoke() || cc.Method.Name() != "decode" {
			continue
		}
		nilLeaf := false
		for _, lf := range leaves(cc.Value) {
			if IsNilConst(lf) {
				nilLeaf = true
			}
		}
		guarded := condNotNil(DomConds(call), cc.Value)
		c.Check(!nilLeaf || guarded, "ipp-no-nil-value", "attribGroup.decode v.decode", p.InstrPos(call), "every tag that reaches the value decoder has a value object", "for a value tag without an arm in the switch the value object stays nil and v.decode is called through a nil interface: the request is not decoded but aborted by a panic")
	}
	// failed comma-ok assertions used unchecked (setPrintJobResponse)
	for _, fn := range p.FuncsIn(ippRel) {
		for _, b := range fn.Blocks {
			for _, in := range b.Instrs {
				ta, ok := in.(*ssa.TypeAssert)
				if !ok || !ta.CommaOk {
					continue
				}
				if _, isPtr := ta.AssertedType.(*types.Pointer); !isPtr {
					continue
				}
				var val, okv ssa.Value
				for _, ref := range *ta.Referrers() {
					if ex, ok := ref.(*ssa.Extract); ok {
						if ex.Index == 0 {
							val = ex
						} else {
							okv = ex
						}
					}
				}
				if val == nil {
					continue
				}
				for _, ref := range *val.Referrers() {
					fa, ok := ref.(*ssa.FieldAddr)
					if !ok {
						continue
					}
					guarded := condNotNil(DomConds(fa), val)
					for _, dc := range DomConds(fa) {
						if okv != nil && dc.V == okv && dc.Pol {
							guarded = true
						}
					}
					c.Check(guarded, "ipp-no-nil-value", shortFn(fn)+" uses "+RenderN(ta, 2), p.InstrPos(fa), "asserted value used only when the assertion held", "the result of a comma-ok type assertion is dereferenced without checking ok: an attribute of another value type in this group makes the handler panic instead of recording the job")
				}
			}
		}
	}
	// per value type: decode mirrors encode
	kindOf := func(name string) string {
		switch {
		case strings.HasSuffix(name, "Uint8"), name == "Byte", name == "PeekByte":
			return "8"
		case strings.HasSuffix(name, "Uint16"), name == "Int16", name == "PeekInt16":
			return "16"
		case strings.HasSuffix(name, "Uint32"), name == "Int32", name == "Uint32":
			return "32"
		case strings.HasSuffix(name, "Data"), name == "Data":
			return "D"
		}
		return ""
	}
	for _, n := range p.NamedTypes() {
		if isValType(n) == nil {
			continue
		}
		name := n.Obj().Name()
		ef := p.Method(ippRel, name, "encode")
		df := p.Method(ippRel, name, "decode")
		if ef == nil || df == nil {
			continue
		}
		// encoder ops for ONE value: calls in the loop body if there is a loop, else all
		var eops []ippOp
		hasLoop := false
		for _, call := range Calls(ef) {
			if InLoop(call.Block()) {
				hasLoop = true
			}
		}
		for _, call := range Calls(ef) {
			cc := call.Common()
			if hasLoop && !InLoop(call.Block()) {
				continue
			}
			if !cc.IsInvoke() {
				// a helper that is handed the encoder (writeValueHeader(buf, tag, name, z)): its writes, in order, at the call
				if cv, isCall := call.(*ssa.Call); isCall {
					if hops, _, isH := decoderHelperOps(cv, kindOf); isH {
						for _, k := range hops {
							eops = append(eops, ippOp{call.Pos(), k, call.Block(), "helper:" + FuncShort(cv.Call.StaticCallee())})
						}
					}
				}
				continue
			}
			if k := kindOf(cc.Method.Name()); k != "" {
				eops = append(eops, ippOp{call.Pos(), k, call.Block(), cc.Method.Name()})
			}
		}
		es := collapseOps(eops)
		// decoder ops for the first value: straight-line prefix in the entry block
		var dops []string
		// the peek: a Byte() whose result (possibly through a phi) is compared with the value's tag
		var peek *ssa.Call
		for _, call := range Calls(df) {
			cv, ok := call.(*ssa.Call)
			if !ok || !cv.Call.IsInvoke() || cv.Call.Method.Name() != "Byte" {
				continue
			}
			vals := []ssa.Value{cv}
			for _, ref := range *cv.Referrers() {
				if ph, ok := ref.(*ssa.Phi); ok {
					vals = append(vals, ph)
				}
			}
			for _, v := range vals {
				for _, ref := range *v.Referrers() {
					if bo, ok := ref.(*ssa.BinOp); ok && (bo.Op == token.EQL || bo.Op == token.NEQ) {
						other := bo.Y
						if other == v {
							other = bo.X
						}
						if _, ok := isFieldLoadNamed(other, "tag"); ok && (peek == nil || cv.Pos() < peek.Pos()) {
							peek = cv
						}
					}
				}
			}
		}
		for _, b := range df.Blocks {
			if peek != nil && !b.Dominates(peek.Block()) {
				continue
			}
			if peek == nil && b != df.Blocks[0] {
				continue
			}
			for _, in := range b.Instrs {
				if call, ok := in.(*ssa.Call); ok && call.Call.IsInvoke() {
					if k := kindOf(call.Call.Method.Name()); k != "" {
						dops = append(dops, k)
					}
				}
				// a helper of the same value type that is handed the decoder (v.readValue(dec)): its reads, in order
				if call, ok := in.(*ssa.Call); ok {
					if hops, _, isH := decoderHelperOps(call, kindOf); isH {
						dops = append(dops, hops...)
					}
				}
				if peek != nil && in == ssa.Instruction(peek) {
					break
				}
			}
		}
		multi := hasLoop
		want := append([]string{}, es[1:]...) // the tag byte is consumed by the group decoder
		if multi {
			want = append(want, "8") // peek of the next tag
		}
		c.Check(strings.Join(dops, " ") == strings.Join(want, " "), "ipp-value-codec", name+" first value", p.Pos(df.Pos()), "decode reads ["+strings.Join(dops, " ")+"] mirroring encode ["+strings.Join(es, " ")+"]", name+".encode writes per value ["+strings.Join(es, " ")+"] (bit widths; D = length-prefixed data) but "+name+".decode starts by reading ["+strings.Join(dops, " ")+"], expected ["+strings.Join(want, " ")+"]: a field is read with the wrong width and everything after it is misaligned")
		if !multi {
			continue
		}
		// additional values: a loop whose continuation is `peeked tag == v.tag`
		okLoop := false
		why := "no comparison of the peeked tag with the value's own tag"
		for _, b := range df.Blocks {
			if len(b.Instrs) == 0 {
				continue
			}
			iff, ok := b.Instrs[len(b.Instrs)-1].(*ssa.If)
			if !ok {
				continue
			}
			atom, pol0 := condAtom(iff.Cond)
			bo, ok := atom.(*ssa.BinOp)
			if !ok || (bo.Op != token.EQL && bo.Op != token.NEQ) {
				continue
			}
			x, y := bo.X, bo.Y
			isTag := func(v ssa.Value) bool { _, ok := isFieldLoadNamed(v, "tag"); return ok }
			if !(isTag(x) || isTag(y)) {
				continue
			}
			// edge on which tags are equal
			eqIdx := 0
			if (bo.Op == token.EQL) != pol0 {
				eqIdx = 1
			}
			more := b.Succs[eqIdx]
			// on the equal edge further values are read (a read op reachable) and control returns to this test (loop)
			readsMore := false
			loops := false
			reach := ReachBlocks([]*ssa.BasicBlock{more}, nil, nil)
			for rb := range reach {
				if rb == b {
					loops = true
				}
			}
			for _, in := range more.Instrs {
				if call, ok := in.(*ssa.Call); ok && call.Call.IsInvoke() && kindOf(call.Call.Method.Name()) != "" {
					readsMore = true
				}
				if call, ok := in.(*ssa.Call); ok {
					if hops, _, isH := decoderHelperOps(call, kindOf); isH && len(hops) > 0 {
						readsMore = true
					}
				}
			}
			switch {
			case !readsMore:
				why = "the edge on which the peeked tag EQUALS the value's tag does not read another value (the comparison is inverted)"
			case !loops:
				why = "after one additional value the tag is not tested again (only two values per attribute are decoded; a third becomes a separate nameless attribute)"
			default:
				okLoop = true
			}
		}
		// look-ahead balance: on every path from the peek to a return on which no further value was committed,
		// the bytes consumed by the look-ahead reads are given back by Seek
		if peek != nil {
			width := map[string]int64{"Byte": 1, "Int16": 2, "Int32": 4, "Uint32": 4}
			type st struct {
				b   *ssa.BasicBlock
				i   int
				net int64
			}
			start := st{peek.Block(), instrIdx(peek) + 1, 1}
			seen := map[string]bool{}
			var bad []string
			var walk func(s st, depth int)
			walk = func(s st, depth int) {
				key := fmt.Sprintf("%d/%d/%d", s.b.Index, s.i, s.net)
				if seen[key] || depth > 64 {
					return
				}
				seen[key] = true
				net := s.net
				for i := s.i; i < len(s.b.Instrs); i++ {
					switch x := s.b.Instrs[i].(type) {
					case *ssa.Call:
						if x == peek {
							if net != 0 {
								bad = append(bad, fmt.Sprintf("reaches the next peek with %d byte(s) unaccounted", net))
							}
							return
						}
						if x.Call.IsInvoke() {
							switch m := x.Call.Method.Name(); m {
							case "Seek":
								if k, ok := ConstInt(x.Call.Args[0]); ok {
									net += k
								} else {
									bad = append(bad, "non-constant Seek")
								}
							case "Data":
								net = 0 // a further value: everything read so far belongs to it
							default:
								if w, ok := width[m]; ok {
									net += w
								}
							}
						} else if bi, ok := x.Call.Value.(*ssa.Builtin); ok && bi.Name() == "append" {
							net = 0 // value committed
						} else if _, commits, isH := decoderHelperOps(x, kindOf); isH && commits {
							net = 0 // a helper that reads one further value and appends it
						}
					case *ssa.Return:
						if net != 0 {
							bad = append(bad, fmt.Sprintf("returns with the cursor %+d byte(s) off the start of the next attribute at %s", net, p.InstrPos(x)))
						}
						return
					}
				}
				for _, succ := range s.b.Succs {
					walk(st{succ, 0, net}, depth+1)
				}
			}
			walk(start, 0)
			c.Check(len(bad) == 0, "ipp-lookahead-rewound", name+".decode", p.Pos(df.Pos()), "every look-ahead byte is given back before returning", name+".decode "+strings.Join(uniq(bad), "; ")+": the attribute that follows is decoded from the wrong offset")
		}
		c.Check(okLoop, "ipp-value-codec", name+" additional values", p.Pos(df.Pos()), "read in a loop while the peeked tag equals the value's tag", name+".decode: "+why)
	}
	c.Floor("ipp-value-codec", 6, "valInt, valStr, valBool (x2), valRangeInt")
	c17Handler(c)
}

// ippOp is one encoder/decoder operation at a call site.
type ippOp struct {
	pos  token.Pos
	k    string // "8", "16", "32", "D"
	b    *ssa.BasicBlock
	name string
}

// collapseOps orders the operations by position and merges the twin that sits in the other arm of an if/else
// (`if val { WriteUint8(1) } else { WriteUint8(0) }`: same operation, sibling blocks) into one.
func collapseOps(ops []ippOp) []string {
	sort.SliceStable(ops, func(i, j int) bool { return ops[i].pos < ops[j].pos })
	var out []string
	for i, o := range ops {
		if i > 0 {
			pv := ops[i-1]
			if pv.b != o.b && pv.b != nil && o.b != nil && !pv.b.Dominates(o.b) && !o.b.Dominates(pv.b) && pv.name == o.name && pv.k == o.k {
				continue
			}
		}
		out = append(out, o.k)
	}
	return out
}

func c17Handler(c *Ctx) {
	p := c.P
	h := p.Func(ippRel, "ippHandler")
	if !c.Anchor(h != nil, "ipp-echo", "ipp.ippHandler") {
		return
	}
	want := map[string]string{"versionMajor": ".versionMajor", "versionMinor": ".versionMinor", "requestID": ".requestID"}
	got := map[string]string{}
	var body ssa.Value
	for _, call := range Calls(h) {
		if f := call.Common().StaticCallee(); f != nil && f.Name() == "decode" && RecvTypeName(f) == "ippMsg" {
			body = call.Common().Args[0]
		}
	}
	for _, b := range h.Blocks {
		for _, in := range b.Instrs {
			st, ok := in.(*ssa.Store)
			if !ok {
				continue
			}
			fa, ok := st.Addr.(*ssa.FieldAddr)
			if !ok || NamedOf(fa.X.Type()) == nil || NamedOf(fa.X.Type()).Obj().Name() != "ippMsg" || fa.X == body {
				continue
			}
			if _, isW := want[fieldNameOf(fa)]; isW {
				src := "?"
				if ld, ok := isLoad(st.Val); ok {
					if sfa, ok := ld.X.(*ssa.FieldAddr); ok && sfa.X == body {
						src = "." + fieldNameOf(sfa)
					}
				}
				got[fieldNameOf(fa)] = src
			}
		}
	}
	for f, w := range want {
		c.Check(got[f] == w, "ipp-echo", "response."+f, p.Pos(h.Pos()), "echoes the decoded request's "+w, "the response's "+f+" is not taken from the decoded request body (got `"+got[f]+"`)")
	}
	// event fields in the service handler
	sh := p.Method(ippRel, "ippService", "Handle")
	if c.Anchor(sh != nil, "ipp-echo", "ipp.ippService.Handle") {
		ev := map[string]string{"ipp.uri": ".uri", "ipp.user": ".username", "ipp.job-name": ".jobname", "ipp.data": ".data"}
		n := 0
		for _, call := range Calls(sh) {
			f := call.Common().StaticCallee()
			if f == nil || f.Name() != "Custom" {
				continue
			}
			k, _ := ConstString(call.Common().Args[0])
			w, ok := ev[k]
			if !ok {
				continue
			}
			n++
			s := Render(Unwrap(call.Common().Args[1]))
			c.Check(strings.Contains(s, "ippHandler(") && strings.Contains(s, w), "ipp-echo", "event "+k, p.InstrPos(call), "= handler result"+w, "event field "+k+" is `"+s+"`, expected the handler result's "+w)
		}
		c.Check(n == 4, "ipp-echo", "event fields present", p.Pos(sh.Pos()), "", fmt.Sprintf("expected the 4 ipp.* event fields, found %d", n))
	}
	// setPrintJobResponse maps attribute names to the right fields
	sp := p.Method(ippRel, "ippMsg", "setPrintJobResponse")
	if c.Anchor(sp != nil, "ipp-echo", "ipp.ippMsg.setPrintJobResponse") {
		pair := map[string]string{"printer-uri": "uri", "requesting-user-name": "username", "document-format": "format", "job-name": "jobname"}
		for _, b := range sp.Blocks {
			for _, in := range b.Instrs {
				st, ok := in.(*ssa.Store)
				if !ok {
					continue
				}
				fa, ok := st.Addr.(*ssa.FieldAddr)
				if !ok || fa.X != ssa.Value(sp.Params[0]) {
					continue
				}
				f := fieldNameOf(fa)
				if f == "data" {
					c.Check(Render(st.Val) == "p1.data", "ipp-echo", "job data", p.InstrPos(st), "", "job data is not the decoded request's data")
					continue
				}
				var name string
				for _, dc := range DomConds(st) {
					if x, y, ok := eqCond(dc); ok {
						// the comparison of the attribute's own name (not some other string test in the calling context)
						if _, isName := isFieldLoadNamed(x, "name"); !isName {
							continue
						}
						if s, isS := ConstString(y); isS {
							name = s
						}
					}
				}
				c.Check(pair[name] == f, "ipp-echo", "attribute "+name+" -> "+f, p.InstrPos(st), "", "operation attribute `"+name+"` is stored into field "+f)
			}
		}
	}
}

type guardInfo struct{ records bool }

// guardOutcome: at instruction `at`, is the guard call known to have succeeded (1: nil error / true), failed (-1), or neither (0)?
func guardOutcome(hcall *ssa.Call, at ssa.Instruction) int {
	isBool := types.Identical(hcall.Type().Underlying(), types.Typ[types.Bool])
	for _, dc := range DomConds(at) {
		if isBool {
			if atom, pol := condAtom(dc.V); atom == ssa.Value(hcall) {
				if pol == dc.Pol {
					return 1
				}
				return -1
			}
			continue
		}
		if b, ok := dc.V.(*ssa.BinOp); ok && b.X == ssa.Value(hcall) && IsNilConst(b.Y) {
			if (b.Op == token.NEQ && dc.Pol) || (b.Op == token.EQL && !dc.Pol) {
				return -1
			}
			if (b.Op == token.NEQ && !dc.Pol) || (b.Op == token.EQL && dc.Pol) {
				return 1
			}
		}
	}
	return 0
}

// normRel renders an integer comparison with its polarity applied and the constant / len(...) operand on the right.
func normRel(dc Cond) string {
	b, ok := dc.V.(*ssa.BinOp)
	if !ok {
		s := Render(dc.V)
		if !dc.Pol {
			s = "!" + s
		}
		return s
	}
	op := b.Op
	if !dc.Pol {
		switch op {
		case token.LSS:
			op = token.GEQ
		case token.LEQ:
			op = token.GTR
		case token.GTR:
			op = token.LEQ
		case token.GEQ:
			op = token.LSS
		case token.EQL:
			op = token.NEQ
		case token.NEQ:
			op = token.EQL
		}
	}
	l, r := Render(b.X), Render(b.Y)
	_, lc := ConstInt(b.X)
	if lc || strings.HasPrefix(l, "len(") {
		l, r = r, l
		switch op {
		case token.LSS:
			op = token.GTR
		case token.LEQ:
			op = token.GEQ
		case token.GTR:
			op = token.LSS
		case token.GEQ:
			op = token.LEQ
		}
	}
	l = strings.TrimSuffix(strings.TrimPrefix(l, "("), ")")
	if strings.Contains(l, " + ") {
		parts := strings.SplitN(l, " + ", 2)
		if parts[0] > parts[1] {
			parts[0], parts[1] = parts[1], parts[0]
		}
		l = "(" + parts[0] + " + " + parts[1] + ")"
	}
	return l + " " + op.String() + " " + r
}

// decoderHelperOps: call is a static call of an in-repo, loop-free helper that is handed a decoder.Decoder; returns the
// kinds of the decoder reads it performs (in source order, if/else alternatives collapsed) and whether it appends a value.
func decoderHelperOps(call *ssa.Call, kindOf func(string) string) (ops []string, commits, ok bool) {
	hf := call.Call.StaticCallee()
	if hf == nil || !InRepo(hf) || hf.Blocks == nil || RelPkg(PkgOf(hf)) != ippRel {
		return nil, false, false
	}
	hasDec := false
	for _, a := range call.Call.Args {
		if n := NamedOf(a.Type()); n != nil && (n.Obj().Name() == "Decoder" || n.Obj().Name() == "EncoderType") {
			hasDec = true
		}
	}
	if !hasDec {
		return nil, false, false
	}
	var hops []ippOp
	for _, b := range hf.Blocks {
		if InLoop(b) {
			return nil, false, false
		}
		for _, in := range b.Instrs {
			c2, isC := in.(*ssa.Call)
			if !isC {
				continue
			}
			if c2.Call.IsInvoke() {
				if k := kindOf(c2.Call.Method.Name()); k != "" {
					hops = append(hops, ippOp{c2.Pos(), k, b, c2.Call.Method.Name()})
				}
			} else if bi, isB := c2.Call.Value.(*ssa.Builtin); isB && bi.Name() == "append" {
				commits = true
			}
		}
	}
	return collapseOps(hops), commits, true
}
