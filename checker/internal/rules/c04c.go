package rules

import (
	"fmt"
	"go/token"
	"go/types"

	. "htcheck/internal/core"

	"golang.org/x/tools/go/ssa"
)

// c04PerMessageState (rule message-state-per-message): the smtp session replaces its message object (`c.msg = …`) at
// the end of every transaction – RSET, a finished DATA, a finished BDAT – and that is what discards half-received
// content. A buffer that message content is accumulated into must therefore live in the message object, or be emptied
// in every function that replaces the message; one that sits in the connection object and is not emptied there carries
// the bytes of an abandoned transaction into the next message's event.
func c04PerMessageState(c *Ctx) {
	const rule = "message-state-per-message"
	c.Explanation += " smtp message content is accumulated per message (or the accumulator is emptied wherever the message is replaced)."
	p := c.P
	connT := p.Type("services/smtp", "conn")
	if !c.Anchor(connT != nil, rule, "services/smtp.conn") {
		return
	}
	st, _ := connT.Underlying().(*types.Struct)
	msgIdx := -1
	for i := 0; st != nil && i < st.NumFields(); i++ {
		if pt, ok := st.Field(i).Type().(*types.Pointer); ok {
			if n, ok := pt.Elem().(*types.Named); ok && n.Obj().Name() == "Message" {
				msgIdx = i
			}
		}
	}
	if !c.Anchor(msgIdx >= 0, rule, "conn field holding the *Message") {
		return
	}
	isConn := func(v ssa.Value) bool {
		t := v.Type()
		if pt, ok := t.(*types.Pointer); ok {
			t = pt.Elem()
		}
		return types.Identical(t, connT)
	}
	// connField(v): v is (the address of, or a load of) field i of a conn, not reached through the message
	var connField func(v ssa.Value, d int) int
	connField = func(v ssa.Value, d int) int {
		if d > 8 {
			return -1
		}
		switch x := v.(type) {
		case *ssa.FieldAddr:
			if isConn(x.X) {
				return x.Field
			}
			return -1 // a field of something else (the message): per-message when that object is
		case *ssa.UnOp:
			if x.Op == token.MUL {
				return connField(x.X, d+1)
			}
		case *ssa.MakeInterface:
			return connField(x.X, d+1)
		case *ssa.ChangeInterface:
			return connField(x.X, d+1)
		}
		return -1
	}
	fns := p.FuncsIn("services/smtp")
	// functions that replace the message, and what they reset
	type repl struct {
		fn  *ssa.Function
		at  ssa.Instruction
		rst map[int]bool
	}
	var repls []repl
	for _, fn := range fns {
		var at ssa.Instruction
		for _, b := range fn.Blocks {
			for _, in := range b.Instrs {
				if s, ok := in.(*ssa.Store); ok {
					if fa, ok := s.Addr.(*ssa.FieldAddr); ok && isConn(fa.X) && fa.Field == msgIdx {
						if _, fresh := fa.X.(*ssa.Alloc); fresh {
							continue // the constructor: the whole connection object is new
						}
						at = in
					}
				}
			}
		}
		if at == nil {
			continue
		}
		r := repl{fn: fn, at: at, rst: map[int]bool{}}
		for _, call := range Calls(fn) {
			if isBytesBufferMethod(call, "Reset") && len(call.Common().Args) > 0 {
				if i := connField(call.Common().Args[0], 0); i >= 0 {
					r.rst[i] = true
				}
			}
		}
		for _, b := range fn.Blocks {
			for _, in := range b.Instrs {
				if s, ok := in.(*ssa.Store); ok {
					if fa, ok := s.Addr.(*ssa.FieldAddr); ok && isConn(fa.X) && fa.Field != msgIdx {
						r.rst[fa.Field] = true
					}
				}
			}
		}
		repls = append(repls, r)
	}
	c.Check(len(repls) >= 2, rule, "functions that replace the message", "-", fmt.Sprint(len(repls)), "the session no longer replaces its message object per transaction")
	n := 0
	for _, fn := range fns {
		for _, call := range Calls(fn) {
			cc := call.Common()
			var dst ssa.Value
			if f := cc.StaticCallee(); f != nil && (FuncIs(f, "io", "Copy") || FuncIs(f, "io", "CopyN") || FuncIs(f, "io", "CopyBuffer")) && len(cc.Args) > 0 {
				dst = cc.Args[0]
			}
			for _, m := range []string{"Write", "WriteString", "WriteByte", "ReadFrom"} {
				if isBytesBufferMethod(call, m) && len(cc.Args) > 0 {
					dst = cc.Args[0]
				}
			}
			if dst == nil {
				continue
			}
			n++
			i := connField(dst, 0)
			key := shortFn(fn) + " accumulates into " + RenderN(dst, 2)
			if i < 0 {
				c.Ok(rule, key, p.InstrPos(call), "not a field of the connection object (message field or local)")
				continue
			}
			bad := ""
			for _, r := range repls {
				if !r.rst[i] {
					bad = shortFn(r.fn) + " (" + p.InstrPos(r.at) + ")"
					break
				}
			}
			c.Check(bad == "", rule, key, p.InstrPos(call), "emptied wherever the message is replaced",
				"content is accumulated into conn."+st.Field(i).Name()+", which belongs to the connection and is not emptied where "+bad+" starts the next message: chunks of a transaction the client abandoned (RSET, or a DATA message in between) are still in it and become part of the next message's event")
		}
	}
	c.Floor(rule, 2, "BDAT chunk accumulation and the DATA body")
}
