package rules

import (
	"fmt"
	"go/token"
	"go/types"

	"golang.org/x/tools/go/ssa"

	. "htcheck/internal/core"
)

// accumulatorSurvivesOuterLoop: a slice that an inner loop appends to, and that is read after the enclosing loop, must
// not be started afresh inside that enclosing loop – otherwise only what the last outer iteration collected is left
// (the addresses of the last interface, the ports of the last range). Field form (`x.f = make(..)` in the outer loop,
// `x.f = append(x.f, ..)` in the inner one, x.f read outside) and variable form (the inner loop's φ enters with a
// fresh value from a block of the outer loop and its result is used outside it). An accumulator that is also read
// inside the outer loop after the inner one (consumed per outer iteration) is left alone.
func accumulatorSurvivesOuterLoop(c *Ctx, rule, consequence string, rels ...string) {
	p := c.P
	n := 0
	fresh := func(v ssa.Value) bool {
		switch x := v.(type) {
		case *ssa.MakeSlice:
			return true
		case *ssa.Const:
			return x.Value == nil
		case *ssa.Slice:
			if k, ok := x.High.(*ssa.Const); ok && k.Value != nil && k.Value.ExactString() == "0" {
				_, isAlloc := x.X.(*ssa.Alloc)
				return isAlloc
			}
		}
		return false
	}
	isAppendOf := func(v ssa.Value) (*ssa.Call, bool) {
		call, ok := v.(*ssa.Call)
		if !ok {
			return nil, false
		}
		b, ok := call.Call.Value.(*ssa.Builtin)
		return call, ok && b.Name() == "append"
	}
	sameField := func(a, b *ssa.FieldAddr) bool {
		return a.Field == b.Field && types.Identical(a.X.Type(), b.X.Type()) && c15Root(a.X) == c15Root(b.X)
	}
	for _, fn := range p.FuncsIn(rels...) {
		loops := Loops(fn)
		if len(loops) < 2 {
			continue
		}
		for _, inner := range loops {
			for _, outer := range loops {
				if outer == inner || !outer.Blocks[inner.Header] || len(outer.Blocks) <= len(inner.Blocks) {
					continue
				}
				// ---- field form
				for ib := range inner.Blocks {
					for _, in := range ib.Instrs {
						st, ok := in.(*ssa.Store)
						if !ok {
							continue
						}
						fa, ok := st.Addr.(*ssa.FieldAddr)
						if !ok {
							continue
						}
						ap, ok := isAppendOf(st.Val)
						if !ok || len(ap.Call.Args) == 0 {
							continue
						}
						ld, isLd := ap.Call.Args[0].(*ssa.UnOp)
						if !isLd || ld.Op != token.MUL {
							continue
						}
						lfa, ok := ld.X.(*ssa.FieldAddr)
						if !ok || !sameField(fa, lfa) {
							continue
						}
						n++
						key := fmt.Sprintf("%s appends to .%s in a nested loop", shortFn(fn), fieldNameOf(fa))
						var reset ssa.Instruction
						readOutside, readInside := false, false
						for _, b := range fn.Blocks {
							for _, in2 := range b.Instrs {
								switch y := in2.(type) {
								case *ssa.Store:
									if fa2, ok := y.Addr.(*ssa.FieldAddr); ok && sameField(fa, fa2) && fresh(y.Val) && outer.Blocks[b] && !inner.Blocks[b] {
										reset = y
									}
								case *ssa.UnOp:
									if fa2, ok := y.X.(*ssa.FieldAddr); ok && y.Op == token.MUL && sameField(fa, fa2) && y != ld {
										if !outer.Blocks[b] {
											readOutside = true
										} else if !inner.Blocks[b] {
											readInside = true
										}
									}
								}
							}
						}
						bad := reset != nil && readOutside && !readInside
						pos := p.InstrPos(st)
						if reset != nil {
							pos = p.InstrPos(reset)
						}
						c.Check(!bad, rule, key, pos, "not started afresh by the enclosing loop (or consumed inside it)", "the slice is started afresh in every iteration of the enclosing loop, filled by the inner loop and read only after the enclosing loop: what all but the last outer iteration collected is thrown away – "+consequence)
					}
				}
				// ---- variable form
				for _, in := range inner.Header.Instrs {
					ph, ok := in.(*ssa.Phi)
					if !ok {
						break
					}
					if _, isSl := ph.Type().Underlying().(*types.Slice); !isSl {
						continue
					}
					grows, freshIn := false, false
					var freshAt *ssa.BasicBlock
					for i, e := range ph.Edges {
						pred := inner.Header.Preds[i]
						if inner.Blocks[pred] {
							for _, lf := range leaves(e) {
								if ap, ok := isAppendOf(lf); ok && len(ap.Call.Args) > 0 {
									grows = true
								}
							}
						} else if fresh(e) && outer.Blocks[pred] {
							freshIn, freshAt = true, pred
						}
					}
					if !grows {
						continue
					}
					n++
					key := fmt.Sprintf("%s collects into %s in a nested loop", shortFn(fn), ph.Name())
					usedOutside, usedInside := false, false
					seen := map[ssa.Value]bool{}
					var walk func(v ssa.Value)
					walk = func(v ssa.Value) {
						if seen[v] || v.Referrers() == nil {
							return
						}
						seen[v] = true
						for _, r := range *v.Referrers() {
							rb := r.Block()
							if rv, ok := r.(*ssa.Phi); ok {
								walk(rv)
								continue
							}
							if ap, ok := isAppendOf(instrValue(r)); ok && inner.Blocks[rb] {
								walk(ap)
								continue
							}
							if !outer.Blocks[rb] {
								usedOutside = true
							} else if !inner.Blocks[rb] {
								usedInside = true
							}
						}
					}
					walk(ph)
					bad := freshIn && usedOutside && !usedInside
					pos := p.Pos(ph.Pos())
					if freshAt != nil && len(freshAt.Instrs) > 0 {
						pos = p.InstrPos(freshAt.Instrs[len(freshAt.Instrs)-1])
					}
					c.Check(!bad, rule, key, pos, "not started afresh by the enclosing loop (or consumed inside it)", "the slice is started afresh in every iteration of the enclosing loop, filled by the inner loop and used only after the enclosing loop: what all but the last outer iteration collected is thrown away – "+consequence)
				}
			}
		}
	}
	c.Ok(rule, "nested-loop accumulators", "-", fmt.Sprintf("%d examined in %v", n, rels))
}

func instrValue(in ssa.Instruction) ssa.Value {
	v, _ := in.(ssa.Value)
	return v
}

// bufferNotShrunkAcrossIterations (rule read-buffer-full-size-per-request): a read buffer that lives across the
// iterations of a request loop and is re-sliced inside it (`body = body[:n]`) enters the next iteration with the length
// of the previous request's data: every later request is read – and reported – only up to the shortest earlier one.
// The loop-carried value (a φ at the loop header) must not be a sub-slice of itself with a run-time bound.
func bufferNotShrunkAcrossIterations(c *Ctx, rule, consequence string, rels ...string) {
	p := c.P
	n := 0
	for _, fn := range p.FuncsIn(rels...) {
		for _, l := range Loops(fn) {
			for _, in := range l.Header.Instrs {
				ph, ok := in.(*ssa.Phi)
				if !ok {
					break
				}
				sl, isSl := ph.Type().Underlying().(*types.Slice)
				if !isSl {
					continue
				}
				if bt, ok := sl.Elem().Underlying().(*types.Basic); !ok || bt.Kind() != types.Byte {
					continue
				}
				// is it a read target in the loop?
				target := false
				if ph.Referrers() != nil {
					for _, r := range *ph.Referrers() {
						if call, ok := r.(ssa.CallInstruction); ok && l.Blocks[call.Block()] {
							cc := call.Common()
							name := ""
							if cc.IsInvoke() {
								name = cc.Method.Name()
							} else if f := cc.StaticCallee(); f != nil {
								name = f.Name()
							}
							if name == "Read" || name == "ReadFull" || name == "ReadAtLeast" {
								target = true
							}
						}
					}
				}
				if !target {
					continue
				}
				n++
				bad := ""
				for i, e := range ph.Edges {
					if !l.Blocks[l.Header.Preds[i]] {
						continue
					}
					for _, lf := range leaves(e) {
						s2, ok := lf.(*ssa.Slice)
						if !ok || s2.High == nil {
							continue
						}
						if _, isC := s2.High.(*ssa.Const); isC {
							continue
						}
						for x, k := s2.X, 0; x != nil && k < 6; k++ {
							if x == ssa.Value(ph) {
								bad = p.InstrPos(s2)
								break
							}
							inner, ok := x.(*ssa.Slice)
							if !ok {
								break
							}
							x = inner.X
						}
					}
				}
				c.Check(bad == "", rule, fmt.Sprintf("%s: read buffer %s carried across iterations", shortFn(fn), ph.Comment), p.Pos(ph.Pos()), "enters every iteration at full size", "the buffer requests are read into is created once, outside the request loop, and cut to the length of what was read inside it ("+bad+"): the next request is read into the shortened buffer – "+consequence)
			}
		}
	}
	c.Ok(rule, "loop-carried read buffers", "-", fmt.Sprintf("%d examined in %v", n, rels))
}
