package rules

import (
	"fmt"
	"go/token"

	. "htcheck/internal/core"

	"golang.org/x/tools/go/ssa"
)

// c09ResultChannelNotAbandoned (rule result-channel-not-abandoned): a helper goroutine that reports its result with a
// plain send on a channel made by its starter is released only when somebody receives. When the starter takes the
// result in a select next to a timer or a done channel and that other arm wins, the starter leaves and nobody ever
// receives: with a rendezvous channel the helper stays parked in its send for good – one goroutine per such connection.
// The channel needs room for the result (capacity >= 1), or the helper's send must itself be a select with a way out.
func c09ResultChannelNotAbandoned(c *Ctx, rels ...string) {
	const rule = "result-channel-not-abandoned"
	c.Explanation += " Helper goroutines that report over an unbuffered channel of their starter are received unconditionally."
	p := c.P
	n := 0
	for _, fn := range p.FuncsIn(rels...) {
		for _, b := range fn.Blocks {
			for _, in := range b.Instrs {
				g, ok := in.(*ssa.Go)
				if !ok {
					continue
				}
				mc, ok := g.Call.Value.(*ssa.MakeClosure)
				if !ok {
					continue
				}
				gf := mc.Fn.(*ssa.Function)
				for _, gb := range gf.Blocks {
					for _, gin := range gb.Instrs {
						snd, ok := gin.(*ssa.Send)
						if !ok {
							continue
						}
						// the channel: a variable of the starter holding a make(chan T) of its own
						root := c15Root(snd.Chan)
						mk, ok := root.(*ssa.MakeChan)
						if !ok || mk.Parent() != fn {
							continue
						}
						n++
						key := fmt.Sprintf("%s: result sent by %s", shortFn(fn), shortFn(gf))
						if sz, isC := ConstInt(mk.Size); isC && sz >= 1 {
							c.Ok(rule, key, p.InstrPos(snd), "the channel has room for the result")
							continue
						}
						// every receive of the starter on this channel
						plain, inSelect := 0, 0
						var sel *ssa.Select
						for _, fb := range fn.Blocks {
							for _, fin := range fb.Instrs {
								switch x := fin.(type) {
								case *ssa.UnOp:
									if x.Op == token.ARROW && c15Root(x.X) == root {
										plain++
									}
								case *ssa.Select:
									for _, st := range x.States {
										if st.Send == nil && c15Root(st.Chan) == root {
											if len(x.States) >= 2 || !x.Blocking {
												inSelect++
												sel = x
											} else {
												plain++
											}
										}
									}
								}
							}
						}
						if inSelect == 0 {
							c.Ok(rule, key, p.InstrPos(snd), "the starter waits for the result unconditionally")
							continue
						}
						c.Violate(rule, key, p.InstrPos(snd), "the helper goroutine reports with a plain send on an unbuffered channel, and its starter receives it in a select next to another arm ("+p.InstrPos(sel)+"): when the other arm wins (the timer fires, the session ends) the starter leaves and the helper stays parked in this send for good – a client that stalls at that point leaves one goroutine behind per connection")
					}
				}
			}
		}
	}
	c.Ok(rule, "helper goroutines reporting over a channel of their starter", "-", fmt.Sprintf("%d examined in %v", n, rels))
}
