package rules

import (
	"fmt"
	"go/types"
	"strings"

	"golang.org/x/tools/go/ssa"

	. "htcheck/internal/core"
)

// escapes: the closure value is used other than being called directly where it is made.
func closureEscapes(fn *ssa.Function) (bool, *ssa.MakeClosure) {
	par := fn.Parent()
	if par == nil {
		return false, nil
	}
	for _, mc := range MakeClosures(par) {
		if mc.Fn != fn {
			continue
		}
		for _, r := range *mc.Referrers() {
			ci, ok := r.(ssa.CallInstruction)
			if ok && ci.Common().Value == ssa.Value(mc) {
				if _, isGo := ci.(*ssa.Go); !isGo {
					continue // called (or deferred) right here
				}
			}
			return true, mc
		}
		return false, mc
	}
	return true, nil
}

// c18Serialised: load-or-generate-then-store is only restart-safe when at most one execution runs at a time: two
// overlapping executions on a fresh store both find nothing, both generate, and the store ends up with one run's key and
// the other's certificate (or an identity that differs from the one already presented). Every identity getter must
// therefore be called from single-threaded construction code, or under a mutex / sync.Once when it is reachable from a
// connection handler or from a callback that the code hands to a library (tls.Config.GetCertificate, …).
func c18Serialised(c *Ctx, getters []*ssa.Function) {
	p := c.P
	// callers index
	callers := map[*ssa.Function][]ssa.CallInstruction{}
	for _, fn := range p.Funcs() {
		for _, call := range Calls(fn) {
			if f := call.Common().StaticCallee(); f != nil && InRepo(f) {
				callers[f] = append(callers[f], call)
			}
		}
	}
	// handler reach of every service
	inHandler := map[*ssa.Function]bool{}
	g := p.VTA()
	for _, sv := range Services(c) {
		r, _ := handleReach(g, sv.Handle)
		for fn := range r {
			inHandler[fn] = true
		}
	}
	serialised := func(site ssa.CallInstruction) bool {
		fn := site.Parent()
		for _, call := range Calls(fn) {
			f := call.Common().StaticCallee()
			if f == nil || PkgOf(f) != "sync" || !(f.Name() == "Lock") {
				continue
			}
			if _, isDefer := call.(*ssa.Defer); isDefer {
				continue
			}
			if before(call, site) {
				released := false
				for _, c2 := range Calls(fn) {
					f2 := c2.Common().StaticCallee()
					if _, isDefer := c2.(*ssa.Defer); !isDefer && f2 != nil && PkgOf(f2) == "sync" && f2.Name() == "Unlock" && before(call, c2) && before(c2, site) {
						released = true
					}
				}
				if !released {
					return true
				}
			}
		}
		// the enclosing closure is the argument of (*sync.Once).Do
		if esc, mc := closureEscapes(fn); esc && mc != nil {
			for _, r := range *mc.Referrers() {
				if ci, ok := r.(ssa.CallInstruction); ok && MethodIs(ci.Common().StaticCallee(), "sync", "Once", "Do") {
					return true
				}
			}
		}
		return false
	}
	for _, gt := range getters {
		type hop struct {
			fn   *ssa.Function
			site ssa.CallInstruction // the call inside fn that leads to the getter
		}
		seen := map[*ssa.Function]bool{gt: true}
		var work []hop
		for _, s := range callers[gt] {
			work = append(work, hop{s.Parent(), s})
		}
		bad := ""
		n := 0
		for len(work) > 0 && n < 200 {
			h := work[0]
			work = work[1:]
			n++
			esc, _ := closureEscapes(h.fn)
			concurrent := ""
			if inHandler[h.fn] {
				concurrent = "reachable from a connection handler (" + shortFn(h.fn) + ")"
			} else if esc {
				concurrent = "called from a closure that is handed on as a callback (" + shortFn(h.fn) + ")"
			}
			if concurrent != "" {
				if !serialised(h.site) {
					bad = concurrent + " at " + p.InstrPos(h.site) + " without a mutex or sync.Once"
				}
				continue // beyond a callback/handler the callers are the library's
			}
			if seen[h.fn] {
				continue
			}
			seen[h.fn] = true
			for _, s := range callers[h.fn] {
				work = append(work, hop{s.Parent(), s})
			}
			// a directly-invoked closure continues in its parent
			if h.fn.Parent() != nil {
				for _, mc := range MakeClosures(h.fn.Parent()) {
					if mc.Fn == h.fn {
						for _, r := range *mc.Referrers() {
							if ci, ok := r.(ssa.CallInstruction); ok {
								work = append(work, hop{h.fn.Parent(), ci})
							}
						}
					}
				}
			}
		}
		c.Check(bad == "", "identity-generation-serialised", shortFn(gt), p.Pos(gt.Pos()), fmt.Sprintf("only called from construction code or under a lock (%d call chains examined)", n), "the load-or-generate-then-store of this identity is "+bad+": two connections arriving together on a fresh data directory both generate and both store, leaving a key that does not match the stored certificate or an identity that differs from the one already shown to a client")
	}
}

// c18OptionOrder: server.New applies its options in slice order, and an option closure works on the Honeytrap as the
// options before it left it. WithToken computes the token path from h.dataDir when it is applied, WithDataDir is what
// sets that field: wherever a list of options is built, an option that reads a field at apply time must not be put into
// the list before an option that writes it. With the token option first, the token is read from and written to
// "./token" in the working directory, so a restart on the same data directory from another directory mints a new token.
func c18OptionOrder(c *Ctx) {
	p := c.P
	const rule = "option-order"
	ht := p.Type("server", "Honeytrap")
	if !c.Anchor(ht != nil, rule, "server.Honeytrap") {
		return
	}
	// option closures of a constructor value: follow the call to its returned closures
	var closuresOf func(v ssa.Value, depth int) []*ssa.Function
	closuresOf = func(v ssa.Value, depth int) []*ssa.Function {
		var out []*ssa.Function
		for _, lf := range leaves(v) {
			switch x := lf.(type) {
			case *ssa.MakeClosure:
				if f, ok := x.Fn.(*ssa.Function); ok {
					out = append(out, f)
				}
			case *ssa.Function:
				out = append(out, x)
			case *ssa.Extract:
				if call, ok := x.Tuple.(*ssa.Call); ok && depth < 3 {
					if f := call.Call.StaticCallee(); f != nil && InRepo(f) && f.Blocks != nil {
						for _, r := range Returns(f) {
							if x.Index < len(RetVals(r)) {
								out = append(out, closuresOf(RetVals(r)[x.Index], depth+1)...)
							}
						}
					}
				}
			case *ssa.Call:
				if f := x.Call.StaticCallee(); f != nil && InRepo(f) && f.Blocks != nil && depth < 3 {
					for _, r := range Returns(f) {
						if len(RetVals(r)) >= 1 {
							out = append(out, closuresOf(RetVals(r)[0], depth+1)...)
						}
					}
				}
			}
		}
		return out
	}
	// fields of Honeytrap an option closure reads / writes when applied (through its *Honeytrap parameter)
	access := func(cl *ssa.Function) (reads, writes map[string]bool) {
		reads, writes = map[string]bool{}, map[string]bool{}
		fns := append([]*ssa.Function{cl}, Anon(cl)...)
		for _, f := range fns {
			for _, b := range f.Blocks {
				for _, in := range b.Instrs {
					fa, ok := in.(*ssa.FieldAddr)
					if !ok || NamedOf(fa.X.Type()) != ht {
						continue
					}
					name := fieldNameOf(fa)
					for _, r := range *fa.Referrers() {
						switch y := r.(type) {
						case *ssa.Store:
							if y.Addr == ssa.Value(fa) {
								writes[name] = true
							}
						case *ssa.UnOp:
							reads[name] = true
						}
					}
				}
			}
		}
		return
	}
	optT := p.Type("server", "OptionFn")
	isOpt := func(t types.Type) bool {
		if optT != nil && NamedOf(t) == optT {
			return true
		}
		return false
	}
	type site struct {
		at     ssa.Instruction
		label  string
		reads  map[string]bool
		writes map[string]bool
	}
	nLists, nPairs := 0, 0
	for _, fn := range p.Funcs() {
		if fn.Blocks == nil || !InRepo(fn) || strings.HasSuffix(p.Fset.Position(fn.Pos()).Filename, "_test.go") {
			continue
		}
		// does this function hand a list of options to server.New?
		builds := false
		for _, call := range Calls(fn) {
			if f := call.Common().StaticCallee(); f != nil && FuncIs(f, ModPath+"/server", "New") {
				builds = true
			}
		}
		if !builds {
			continue
		}
		var sites []site
		add := func(v ssa.Value, at ssa.Instruction) {
			if !isOpt(v.Type()) {
				return
			}
			s := site{at: at, label: RenderN(v, 2), reads: map[string]bool{}, writes: map[string]bool{}}
			for _, cl := range closuresOf(v, 0) {
				r, w := access(cl)
				for k := range r {
					s.reads[k] = true
				}
				for k := range w {
					s.writes[k] = true
				}
			}
			sites = append(sites, s)
		}
		for _, b := range fn.Blocks {
			for _, in := range b.Instrs {
				switch x := in.(type) {
				case *ssa.Store:
					// element of a slice literal / varargs array
					if ia, ok := x.Addr.(*ssa.IndexAddr); ok {
						_ = ia
						add(x.Val, x)
					}
				}
			}
		}
		if len(sites) == 0 {
			continue
		}
		nLists++
		// order of the sites: a store into the varargs array of an append happens right before that append, so
		// instruction order along dominance is the list order
		for _, r := range sites {
			for f := range r.reads {
				for _, w := range sites {
					if w.at == r.at || !w.writes[f] || r.writes[f] {
						continue
					}
					nPairs++
					key := fmt.Sprintf("%s: %s reads .%s, %s writes it", shortFn(fn), r.label, f, w.label)
					c.Check(!before(r.at, w.at), rule, key, p.InstrPos(r.at), "the writer is in the list before the reader",
						"the option "+r.label+" is put into the list before "+w.label+" ("+p.InstrPos(w.at)+"), but it reads Honeytrap."+f+" when applied and the later option is what sets it: it works on the zero value (for the token: the path \"token\" in the working directory instead of <data dir>/token, so a restart from another directory gets a new token)")
				}
			}
		}
	}
	c.Check(nLists >= 1, rule, "option lists found", "-", fmt.Sprint(nLists), "no function building an option list for server.New found")
	c.Floor(rule, 1, "WithToken reads dataDir, WithDataDir writes it")
	_ = nPairs
}
