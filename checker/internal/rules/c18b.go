package rules

import (
	"fmt"

	"golang.org/x/tools/go/ssa"

	. "htcheck/internal/core"
)

// escapes: the closure value is used other than being called directly where it is made.
func closureEscapes(fn *ssa.Function) (bool, *ssa.MakeClosure) {
	par := fn.Parent()
	if par == nil {
		return false, nil
	}
	for _, mc := range MakeClosures(par) {
		if mc.Fn != fn {
			continue
		}
		for _, r := range *mc.Referrers() {
			ci, ok := r.(ssa.CallInstruction)
			if ok && ci.Common().Value == ssa.Value(mc) {
				if _, isGo := ci.(*ssa.Go); !isGo {
					continue // called (or deferred) right here
				}
			}
			return true, mc
		}
		return false, mc
	}
	return true, nil
}

// c18Serialised: load-or-generate-then-store is only restart-safe when at most one execution runs at a time: two
// overlapping executions on a fresh store both find nothing, both generate, and the store ends up with one run's key and
// the other's certificate (or an identity that differs from the one already presented). Every identity getter must
// therefore be called from single-threaded construction code, or under a mutex / sync.Once when it is reachable from a
// connection handler or from a callback that the code hands to a library (tls.Config.GetCertificate, …).
func c18Serialised(c *Ctx, getters []*ssa.Function) {
	p := c.P
	// callers index
	callers := map[*ssa.Function][]ssa.CallInstruction{}
	for _, fn := range p.Funcs() {
		for _, call := range Calls(fn) {
			if f := call.Common().StaticCallee(); f != nil && InRepo(f) {
				callers[f] = append(callers[f], call)
			}
		}
	}
	// handler reach of every service
	inHandler := map[*ssa.Function]bool{}
	g := p.VTA()
	for _, sv := range Services(c) {
		r, _ := handleReach(g, sv.Handle)
		for fn := range r {
			inHandler[fn] = true
		}
	}
	serialised := func(site ssa.CallInstruction) bool {
		fn := site.Parent()
		for _, call := range Calls(fn) {
			f := call.Common().StaticCallee()
			if f == nil || PkgOf(f) != "sync" || !(f.Name() == "Lock") {
				continue
			}
			if _, isDefer := call.(*ssa.Defer); isDefer {
				continue
			}
			if before(call, site) {
				released := false
				for _, c2 := range Calls(fn) {
					f2 := c2.Common().StaticCallee()
					if _, isDefer := c2.(*ssa.Defer); !isDefer && f2 != nil && PkgOf(f2) == "sync" && f2.Name() == "Unlock" && before(call, c2) && before(c2, site) {
						released = true
					}
				}
				if !released {
					return true
				}
			}
		}
		// the enclosing closure is the argument of (*sync.Once).Do
		if esc, mc := closureEscapes(fn); esc && mc != nil {
			for _, r := range *mc.Referrers() {
				if ci, ok := r.(ssa.CallInstruction); ok && MethodIs(ci.Common().StaticCallee(), "sync", "Once", "Do") {
					return true
				}
			}
		}
		return false
	}
	for _, gt := range getters {
		type hop struct {
			fn   *ssa.Function
			site ssa.CallInstruction // the call inside fn that leads to the getter
		}
		seen := map[*ssa.Function]bool{gt: true}
		var work []hop
		for _, s := range callers[gt] {
			work = append(work, hop{s.Parent(), s})
		}
		bad := ""
		n := 0
		for len(work) > 0 && n < 200 {
			h := work[0]
			work = work[1:]
			n++
			esc, _ := closureEscapes(h.fn)
			concurrent := ""
			if inHandler[h.fn] {
				concurrent = "reachable from a connection handler (" + shortFn(h.fn) + ")"
			} else if esc {
				concurrent = "called from a closure that is handed on as a callback (" + shortFn(h.fn) + ")"
			}
			if concurrent != "" {
				if !serialised(h.site) {
					bad = concurrent + " at " + p.InstrPos(h.site) + " without a mutex or sync.Once"
				}
				continue // beyond a callback/handler the callers are the library's
			}
			if seen[h.fn] {
				continue
			}
			seen[h.fn] = true
			for _, s := range callers[h.fn] {
				work = append(work, hop{s.Parent(), s})
			}
			// a directly-invoked closure continues in its parent
			if h.fn.Parent() != nil {
				for _, mc := range MakeClosures(h.fn.Parent()) {
					if mc.Fn == h.fn {
						for _, r := range *mc.Referrers() {
							if ci, ok := r.(ssa.CallInstruction); ok {
								work = append(work, hop{h.fn.Parent(), ci})
							}
						}
					}
				}
			}
		}
		c.Check(bad == "", "identity-generation-serialised", shortFn(gt), p.Pos(gt.Pos()), fmt.Sprintf("only called from construction code or under a lock (%d call chains examined)", n), "the load-or-generate-then-store of this identity is "+bad+": two connections arriving together on a fresh data directory both generate and both store, leaving a key that does not match the stored certificate or an identity that differs from the one already shown to a client")
	}
}
