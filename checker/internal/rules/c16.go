package rules

import (
	"fmt"
	"go/token"
	"go/types"
	"sort"
	"strings"

	"golang.org/x/tools/go/ssa"

	. "htcheck/internal/core"
)

func init() { Registry["C16"] = c16 }

const agentRel = "listener/agent"

func c16(c *Ctx) {
	c.Explanation = "Static cross-checks of the agent tunnel for all message sequences: the type tables of conn2.receive (constant -> struct) and conn2.send (struct -> constant) are mutually inverse over all message types; " +
		"for every message type the ordered sequence of encoder operations in MarshalBinary (kind, field, loop) equals the sequence of decoder operations in UnmarshalBinary, and every marshaller that writes flushes the " +
		"buffered encoder before returning the bytes (sibling rule); the primitives WriteData/ReadData, WriteString/ReadString, WriteAddr/ReadAddr agree on layout (16-bit length prefix, tag 6 = TCP, 17 = UDP, ip, port); " +
		"local addresses only ever fill local slots and remote ones remote slots; Connections.Get matches local and remote address separately; the session loop delivers a data message only to the looked-up connection, " +
		"EOF deletes and closes only that connection, the deferred cleanup closes the remaining ones; agentConnection.Read removes exactly the bytes it returns under the mutex and receive appends under it. " +
		"Interleaving effects on order and libdisco framing are not decided."
	c.Assume("libdisco delivers each written message as one Read (message framing of the encrypted transport; conn2.receive ignores Read counts)")
	c.Assume("one session goroutine per agent connection (ordering across goroutines not decided)")
	c16Prog = c.P
	c16TypeTables(c)
	c16Codec(c)
	c16Primitives(c)
	c16Roles(c)
	c16Connections(c)
	c16Dispatch(c)
	c16Wakeup(c)
	c16EOFAfterDrain(c)
	c16CloseOnce(c)
	c16SingleFrameWriter(c)
	chunksAdvance(c, "chunk-source-advances", "the agent receives a stream whose later pieces are copies of its beginning, under the right addresses and with the right length", c.P.Method(agentRel, "agentConnection", "Write"))
}

func c16TypeTables(c *Ctx) {
	p := c.P
	recv := p.Method(agentRel, "conn2", "receive")
	send := p.Method(agentRel, "conn2", "send")
	if !c.Anchor(recv != nil && send != nil, "type-tables", "(*agent.conn2).receive / send") {
		return
	}
	r2t := map[int64]string{}
	// the tag-to-struct switch sits in receive itself or in a helper of the package it calls (newMessage(msgType))
	recvFns := []*ssa.Function{recv}
	for _, call := range Calls(recv) {
		if hf := call.Common().StaticCallee(); hf != nil && InRepo(hf) && hf.Blocks != nil && PkgOf(hf) == PkgOf(recv) && hf != recv && hf != send && hf.Signature.Recv() == nil {
			recvFns = append(recvFns, hf)
		}
	}
	for _, rf := range recvFns {
		for _, b := range rf.Blocks {
			for _, in := range b.Instrs {
				a, ok := in.(*ssa.Alloc)
				if !ok {
					continue
				}
				n := NamedOf(a.Type())
				if n == nil || n.Obj().Pkg() == nil || RelPkg(n.Obj().Pkg().Path()) != agentRel {
					continue
				}
				if _, isStruct := n.Underlying().(*types.Struct); !isStruct {
					continue
				}
				for _, dc := range DomConds(a) {
					if x, y, ok := eqCond(dc); ok {
						if k, isC := ConstInt(y); isC {
							_ = x
							if prev, dup := r2t[k]; dup && prev != n.Obj().Name() {
								c.Violate("type-tables", fmt.Sprintf("receive constant %d", k), p.InstrPos(a), "one type constant maps to two message structs")
							}
							r2t[k] = n.Obj().Name()
						}
					}
				}
			}
		}
	}
	t2s := map[string]int64{}
	for _, call := range Calls(send) {
		cc := call.Common()
		if !cc.IsInvoke() || cc.Method.Name() != "Write" {
			continue
		}
		sl, ok := cc.Args[0].(*ssa.Slice)
		if !ok {
			continue
		}
		a, ok := sl.X.(*ssa.Alloc)
		if !ok || a.Comment != "slicelit" {
			continue
		}
		var k int64 = -1
		for _, ref := range *a.Referrers() {
			if ia, ok := ref.(*ssa.IndexAddr); ok {
				for _, r2 := range *ia.Referrers() {
					if st, ok := r2.(*ssa.Store); ok {
						if n, isC := ConstInt(st.Val); isC {
							k = n
						} else {
							// the tag was selected into a variable by the type switch and is written once afterwards:
							// each constant reaches the write on the edge of its own arm
							v := st.Val
							if cv, isCv := v.(*ssa.Convert); isCv {
								v = cv.X
							}
							for _, l := range phiLeaves(v) {
								kk, isK := ConstInt(l.v)
								if !isK || l.pred == nil {
									continue
								}
								for _, dc := range condsOnLeaf(l, call) {
									if ex, ok := dc.V.(*ssa.Extract); ok && ex.Index == 1 && dc.Pol {
										if ta, ok := ex.Tuple.(*ssa.TypeAssert); ok {
											if n := NamedOf(ta.AssertedType); n != nil {
												t2s[n.Obj().Name()] = kk
											}
										}
									}
								}
							}
						}
					}
				}
			}
		}
		for _, dc := range DomConds(call) {
			if ex, ok := dc.V.(*ssa.Extract); ok && ex.Index == 1 && dc.Pol {
				if ta, ok := ex.Tuple.(*ssa.TypeAssert); ok {
					if n := NamedOf(ta.AssertedType); n != nil {
						t2s[n.Obj().Name()] = k
					}
				}
			}
		}
	}
	var ks []int64
	for k := range r2t {
		ks = append(ks, k)
	}
	sort.Slice(ks, func(i, j int) bool { return ks[i] < ks[j] })
	for _, k := range ks {
		t := r2t[k]
		s, ok := t2s[t]
		c.Check(ok && s == k, "type-tables", fmt.Sprintf("type %d <-> %s", k, t), p.Pos(recv.Pos()), "receive and send agree", fmt.Sprintf("receive decodes type byte %d as %s but send tags %s with %d (present=%v): the peer's messages of this kind are misparsed", k, t, t, s, ok))
	}
	for t, k := range t2s {
		if r2t[k] != t {
			c.Violate("type-tables", fmt.Sprintf("send %s -> %d", t, k), p.Pos(send.Pos()), fmt.Sprintf("send tags %s with %d, which receive decodes as `%s`", t, k, r2t[k]))
		}
	}
	c.Check(len(r2t) == 7 && len(t2s) == 7, "type-tables", "seven message types", p.Pos(recv.Pos()), "", fmt.Sprintf("expected 7 message types in both tables, found receive=%d send=%d", len(r2t), len(t2s)))
	// every Type* constant is covered
	if pk := p.Pkg(agentRel); pk != nil {
		for name, m := range pk.Members {
			if k, ok := m.(*ssa.NamedConst); ok && strings.HasPrefix(name, "Type") {
				v, _ := ConstInt(k.Value)
				_, has := r2t[v]
				c.Check(has, "type-tables", "constant "+name, p.Pos(k.Pos()), "", "message type constant "+name+" has no arm in receive")
			}
		}
	}
}

type codecOp struct {
	kind  string // Uint8|Uint16|String|Data|Addr
	field string
	loop  bool
	pos   token.Pos
}

func (o codecOp) String() string {
	s := o.kind + "(" + o.field + ")"
	if o.loop {
		s = "loop:" + s
	}
	return s
}

func c16Codec(c *Ctx) {
	p := c.P
	iface := types.NewInterfaceType(nil, nil) // unused
	_ = iface
	nt := 0
	for _, n := range p.NamedTypes() {
		if n.Obj().Pkg() == nil || RelPkg(n.Obj().Pkg().Path()) != agentRel {
			continue
		}
		mb := p.Method(agentRel, n.Obj().Name(), "MarshalBinary")
		ub := p.Method(agentRel, n.Obj().Name(), "UnmarshalBinary")
		if mb == nil || ub == nil {
			continue
		}
		nt++
		name := n.Obj().Name()
		var enc, dec []codecOp
		var lastWrite ssa.Instruction
		var flushes, bytesCalls []ssa.Instruction
		for _, call := range Calls(mb) {
			f := call.Common().StaticCallee()
			if f == nil {
				continue
			}
			switch {
			case strings.HasPrefix(f.Name(), "Write") && (RecvTypeName(f) == "Encoder"):
				arg := call.Common().Args[1]
				enc = append(enc, codecOp{kind: strings.TrimPrefix(f.Name(), "Write"), field: fieldOfExpr(arg), loop: InLoop(call.Block()), pos: call.Pos()})
				lastWrite = call
			case f.Name() == "Flush":
				flushes = append(flushes, call)
			case f.Name() == "Bytes" && RecvTypeName(f) == "Buffer":
				bytesCalls = append(bytesCalls, call)
			}
		}
		for _, call := range Calls(ub) {
			f := call.Common().StaticCallee()
			if f == nil || !strings.HasPrefix(f.Name(), "Read") || RecvTypeName(f) != "Decoder" {
				continue
			}
			cv, ok := call.(*ssa.Call)
			if !ok {
				continue
			}
			dec = append(dec, codecOp{kind: strings.TrimPrefix(f.Name(), "Read"), field: storedField(cv), loop: InLoop(call.Block()), pos: call.Pos()})
		}
		sort.SliceStable(enc, func(i, j int) bool { return enc[i].pos < enc[j].pos })
		sort.SliceStable(dec, func(i, j int) bool { return dec[i].pos < dec[j].pos })
		es, ds := opsString(enc), opsString(dec)
		c.Check(es == ds, "codec-agreement", name, p.Pos(mb.Pos()), es, "MarshalBinary writes ["+es+"] but UnmarshalBinary reads ["+ds+"]: the message does not decode to what was encoded")
		// flush rule
		if lastWrite != nil {
			ok := false
			for _, fl := range flushes {
				for _, by := range bytesCalls {
					if fl.Block().Dominates(by.Block()) && (fl.Block() != by.Block() || instrIdx(fl) < instrIdx(by)) && !InLoop(fl.Block()) {
						// flush after the last write
						r := InstrReachFrom(mb, fl, nil, nil)
						if !r(lastWrite) || InLoop(lastWrite.Block()) {
							ok = true
						}
					}
				}
			}
			c.Check(ok, "codec-flush", name+".MarshalBinary", p.Pos(mb.Pos()), "buffered encoder flushed before the bytes are returned", name+".MarshalBinary writes through the buffered encoder but never flushes it before returning buff.Bytes() (its sibling marshallers all do): the encoded message is empty/truncated and does not decode to what was encoded")
		} else {
			c.Ok("codec-flush", name+".MarshalBinary", p.Pos(mb.Pos()), "no fields written")
		}
	}
	c.Check(nt == 7, "codec-agreement", "message types with both codecs", "-", "", fmt.Sprintf("expected 7 message types with MarshalBinary and UnmarshalBinary, found %d", nt))
}

func opsString(ops []codecOp) string {
	var s []string
	for _, o := range ops {
		s = append(s, o.String())
	}
	return strings.Join(s, ", ")
}

// fieldOfExpr: the receiver field an encoder argument is taken from ("len:F" for len(p0.F), "F[]" for an element).
func fieldOfExpr(v ssa.Value) string {
	if x, ok := isLenOf(v); ok {
		return "len:" + fieldOfExpr(x)
	}
	if ld, ok := isLoad(v); ok {
		if ia, ok := ld.X.(*ssa.IndexAddr); ok {
			return fieldOfExpr(ia.X) + "[]"
		}
		if fa, ok := ld.X.(*ssa.FieldAddr); ok {
			return fieldNameOf(fa)
		}
	}
	if f, ok := v.(*ssa.Field); ok {
		st := f.X.Type().Underlying().(*types.Struct)
		return st.Field(f.Field).Name()
	}
	return Render(v)
}

// storedField: the receiver field a decoder result is stored into ("len:F" when it sizes/bounds field F, "F[]" for an element).
func storedField(call *ssa.Call) string {
	seen := map[ssa.Value]bool{}
	var res string
	var walk func(v ssa.Value, d int)
	walk = func(v ssa.Value, d int) {
		if seen[v] || d > 4 || res != "" {
			return
		}
		seen[v] = true
		for _, ref := range *v.Referrers() {
			switch u := ref.(type) {
			case *ssa.Store:
				if u.Val == v {
					if fa, ok := u.Addr.(*ssa.FieldAddr); ok {
						res = fieldNameOf(fa)
						return
					}
					if ia, ok := u.Addr.(*ssa.IndexAddr); ok {
						res = fieldOfExpr(ia.X) + "[]"
						return
					}
				}
			case *ssa.MakeInterface:
				walk(u, d+1)
			case *ssa.Convert:
				walk(u, d+1)
			case *ssa.ChangeType:
				walk(u, d+1)
			case *ssa.MakeSlice:
				// sizes a slice stored into a field
				for _, r2 := range *u.Referrers() {
					if st, ok := r2.(*ssa.Store); ok {
						if fa, ok := st.Addr.(*ssa.FieldAddr); ok {
							res = "len:" + fieldNameOf(fa)
							return
						}
					}
				}
			}
		}
	}
	walk(call, 0)
	if res == "" {
		return "?"
	}
	return res
}

func c16Primitives(c *Ctx) {
	p := c.P
	wd := p.Method(agentRel, "Encoder", "WriteData")
	ws := p.Method(agentRel, "Encoder", "WriteString")
	wa := p.Method(agentRel, "Encoder", "WriteAddr")
	rd := p.Method(agentRel, "Decoder", "ReadData")
	rs := p.Method(agentRel, "Decoder", "ReadString")
	ra := p.Method(agentRel, "Decoder", "ReadAddr")
	if !c.Anchor(wd != nil && ws != nil && wa != nil && rd != nil && rs != nil && ra != nil, "codec-primitives", "agent Encoder/Decoder primitives") {
		return
	}
	seq := func(fn *ssa.Function) []string {
		type it struct {
			pos token.Pos
			s   string
		}
		var items []it
		for _, call := range Calls(fn) {
			f := call.Common().StaticCallee()
			if f == nil {
				continue
			}
			nm := f.Name()
			if strings.HasPrefix(nm, "Write") || strings.HasPrefix(nm, "Read") {
				s := nm
				if strings.HasPrefix(nm, "Write") && len(call.Common().Args) > 1 {
					s += "(" + fieldOrExpr(call.Common().Args[1]) + ")"
				}
				items = append(items, it{call.Pos(), s})
			}
		}
		sort.SliceStable(items, func(i, j int) bool { return items[i].pos < items[j].pos })
		var out []string
		for _, x := range items {
			out = append(out, x.s)
		}
		return out
	}
	// WriteData: WriteUint16(len(data)); Write(data)
	c.Check(strings.Join(seq(wd), ";") == "WriteUint16(len(p1));Write(p1)", "codec-primitives", "WriteData layout", p.Pos(wd.Pos()), "16-bit length then the bytes", "WriteData is not `WriteUint16(len(data)); Write(data)`: "+strings.Join(seq(wd), ";"))
	// ReadData / ReadString: ReadUint16 -> make(l) -> Read(buffer) -> return buffer / string(buffer)
	for _, fn := range []*ssa.Function{rd, rs} {
		s := strings.Join(seq(fn), ";")
		// ReadString as a conversion of ReadData's result on the same decoder: string(d.ReadData())
		if fn == rs && s == "ReadData" {
			okDeleg := false
			for _, r := range Returns(fn) {
				if cv, ok := RetVals(r)[0].(*ssa.Convert); ok {
					if call, ok := cv.X.(*ssa.Call); ok && call.Call.StaticCallee() == rd && len(call.Call.Args) == 1 && call.Call.Args[0] == ssa.Value(fn.Params[0]) {
						okDeleg = true
					}
				}
			}
			c.Check(okDeleg, "codec-primitives", shortFn(fn)+" layout", p.Pos(fn.Pos()), "string(ReadData()) on the same decoder", shortFn(fn)+" calls ReadData but does not return its bytes as the string")
			continue
		}
		okLen := false
		for _, b := range fn.Blocks {
			for _, in := range b.Instrs {
				if ms, ok := in.(*ssa.MakeSlice); ok {
					if call, ok := ms.Len.(*ssa.Call); ok && call.Call.StaticCallee() != nil && call.Call.StaticCallee().Name() == "ReadUint16" {
						okLen = true
					}
				}
			}
		}
		switch {
		case s == "ReadUint16;Read" && okLen:
			// the decoder sits on a bufio.Reader: one Read returns at most what is buffered
			c.Violate("codec-primitives", shortFn(fn)+" layout", p.Pos(fn.Pos()), shortFn(fn)+" takes a single Read for the whole length-prefixed field; the underlying bufio.Reader returns at most its buffered bytes (4096), so longer fields decode with a zero-filled tail: use io.ReadFull")
		default:
			c.Check(s == "ReadUint16;ReadFull" && okLen, "codec-primitives", shortFn(fn)+" layout", p.Pos(fn.Pos()), "16-bit length then exactly that many bytes (io.ReadFull)", shortFn(fn)+" does not read a 16-bit length and then exactly that many bytes: "+s)
		}
	}
	// WriteString = WriteData([]byte(s))
	okWS := false
	for _, call := range Calls(ws) {
		if call.Common().StaticCallee() == wd {
			if cv, ok := call.Common().Args[1].(*ssa.Convert); ok && cv.X == ssa.Value(ws.Params[1]) {
				okWS = true
			}
		}
	}
	c.Check(okWS, "codec-primitives", "WriteString layout", p.Pos(ws.Pos()), "WriteData([]byte(s))", "WriteString is not WriteData([]byte(s))")
	// WriteAddr: tag by type, then WriteData(ip), WriteUint16(port)
	tagsW := map[string]int64{}
	for _, call := range Calls(wa) {
		f := call.Common().StaticCallee()
		if f != nil && f.Name() == "WriteUint8" {
			k, _ := ConstInt(call.Common().Args[1])
			for _, dc := range DomConds(call) {
				if ex, ok := dc.V.(*ssa.Extract); ok && ex.Index == 1 && dc.Pol {
					if ta, ok := ex.Tuple.(*ssa.TypeAssert); ok {
						tagsW[types.TypeString(ta.AssertedType, nil)] = k
					}
				}
			}
		}
	}
	tagsR := map[string]int64{}
	for _, r := range Returns(ra) {
		v := Unwrap(RetVals(r)[0])
		a, ok := v.(*ssa.Alloc)
		if !ok {
			continue
		}
		tn := types.TypeString(a.Type(), nil)
		for _, dc := range DomConds(r) {
			if _, y, ok := eqCond(dc); ok {
				if k, isC := ConstInt(y); isC {
					tagsR[tn] = k
				}
			}
		}
	}
	c.Check(len(tagsW) == 2 && tagsW["*net.TCPAddr"] == 6 && tagsW["*net.UDPAddr"] == 17, "codec-primitives", "WriteAddr tags", p.Pos(wa.Pos()), "6 = TCP, 17 = UDP", fmt.Sprintf("WriteAddr tags: %v (expected *net.TCPAddr:6, *net.UDPAddr:17)", tagsW))
	c.Check(len(tagsR) == 2 && tagsR["*net.TCPAddr"] == 6 && tagsR["*net.UDPAddr"] == 17, "codec-primitives", "ReadAddr tags", p.Pos(ra.Pos()), "6 = TCP, 17 = UDP", fmt.Sprintf("ReadAddr tags: %v (expected *net.TCPAddr:6, *net.UDPAddr:17)", tagsR))
	sw := strings.Join(seq(wa), ";")
	sr := strings.Join(seq(ra), ";")
	c.Check(strings.HasSuffix(sw, "WriteData(φ);WriteUint16(φ)") || strings.HasSuffix(sw, "WriteData(ip);WriteUint16(port)"), "codec-primitives", "WriteAddr order", p.Pos(wa.Pos()), "tag, ip bytes, port", "WriteAddr does not write tag, ip, port in this order: "+sw)
	c.Check(sr == "ReadUint8;ReadData;ReadUint16", "codec-primitives", "ReadAddr order", p.Pos(ra.Pos()), "tag, ip bytes, port", "ReadAddr does not read tag, ip, port in this order: "+sr)
	// ReadAddr fills IP from the data and Port from the uint16
	for _, b := range ra.Blocks {
		for _, in := range b.Instrs {
			if st, ok := in.(*ssa.Store); ok {
				if fa, ok := st.Addr.(*ssa.FieldAddr); ok {
					s := Render(st.Val)
					switch fieldNameOf(fa) {
					case "IP":
						c.Check(strings.Contains(s, "ReadData"), "codec-primitives", "ReadAddr IP source", p.InstrPos(st), "", "address IP is not taken from the decoded ip bytes: "+s)
					case "Port":
						c.Check(strings.Contains(s, "ReadUint16"), "codec-primitives", "ReadAddr Port source", p.InstrPos(st), "", "address port is not taken from the decoded 16-bit port: "+s)
					}
				}
			}
		}
	}
	// WriteAddr ip/port phi edges: ta.IP with ta.Port (never crossed)
	for _, call := range Calls(wa) {
		f := call.Common().StaticCallee()
		if f == nil {
			continue
		}
		arg := ssa.Value(nil)
		want := ""
		switch f.Name() {
		case "WriteData":
			arg, want = call.Common().Args[1], ".IP"
		case "WriteUint16":
			arg, want = call.Common().Args[1], ".Port"
		default:
			continue
		}
		for _, lf := range leaves(arg) {
			if k, ok := lf.(*ssa.Const); ok {
				_ = k
				continue
			}
			s := Render(lf)
			c.Check(strings.HasSuffix(s, want), "codec-primitives", "WriteAddr "+f.Name()+" source", p.InstrPos(call), "", "WriteAddr writes `"+s+"` where the address's "+want+" belongs")
		}
	}
}

func fieldOrExpr(v ssa.Value) string {
	if _, ok := v.(*ssa.Phi); ok {
		return "φ"
	}
	if cv, ok := v.(*ssa.Convert); ok {
		return fieldOrExpr(cv.X)
	}
	if cv, ok := v.(*ssa.ChangeType); ok {
		return fieldOrExpr(cv.X)
	}
	return Render(v)
}

// roleOf classifies a value as local / remote / unknown by its resolved origin.
var c16Prog *Program

func roleOf(v ssa.Value) string {
	// a constructor's parameter has the role every call site gives it
	if pr, ok := Unwrap(v).(*ssa.Parameter); ok && c16Prog != nil && pr.Parent().Signature.Recv() == nil {
		idx := -1
		for i, q := range pr.Parent().Params {
			if q == pr {
				idx = i
			}
		}
		role, n := "", 0
		for _, g := range c16Prog.FuncsIn(agentRel) {
			for _, call := range Calls(g) {
				if call.Common().StaticCallee() != pr.Parent() || idx >= len(call.Common().Args) {
					continue
				}
				r := roleOf(call.Common().Args[idx])
				if n > 0 && r != role {
					return "?mixed roles at the call sites of " + pr.Parent().Name()
				}
				role = r
				n++
			}
		}
		if n > 0 {
			return role
		}
	}
	s := Render(Unwrap(v))
	// strip type assertions
	s = strings.TrimSuffix(strings.TrimSuffix(s, ".(*net.UDPAddr)"), ".(*net.TCPAddr)")
	switch {
	case strings.HasSuffix(s, ".Laddr") || strings.Contains(s, ".LocalAddr(") || strings.HasSuffix(s, "Laddr)"):
		return "local"
	case strings.HasSuffix(s, ".Raddr") || strings.Contains(s, ".RemoteAddr(") || strings.HasSuffix(s, "Raddr)"):
		return "remote"
	}
	return "?" + s
}

func c16Roles(c *Ctx) {
	p := c.P
	n := 0
	for _, fn := range p.FuncsIn(agentRel) {
		if fn.Name() == "UnmarshalBinary" {
			continue // decoded from the wire: order checked by codec-agreement
		}
		for _, b := range fn.Blocks {
			for _, in := range b.Instrs {
				switch x := in.(type) {
				case *ssa.Store:
					fa, ok := x.Addr.(*ssa.FieldAddr)
					if !ok {
						continue
					}
					name := fieldNameOf(fa)
					if name != "Laddr" && name != "Raddr" {
						continue
					}
					n++
					want := map[string]string{"Laddr": "local", "Raddr": "remote"}[name]
					got := roleOf(x.Val)
					c.Check(got == want, "address-roles", shortFn(fn)+" sets "+typeShortOf(fa)+"."+name, p.InstrPos(x), "filled with a "+want+" address", name+" slot is filled with `"+got+"`: local and remote address of the virtual connection are swapped or mixed")
				case *ssa.Call:
					f := x.Call.StaticCallee()
					if f != nil && f.Name() == "Get" && RecvTypeName(f) == "Connections" && len(x.Call.Args) == 3 {
						n++
						c.Check(roleOf(x.Call.Args[1]) == "local" && roleOf(x.Call.Args[2]) == "remote", "address-roles", shortFn(fn)+" Connections.Get", p.InstrPos(x), "Get(local, remote)", "Connections.Get is called with ("+roleOf(x.Call.Args[1])+", "+roleOf(x.Call.Args[2])+") instead of (local, remote)")
					}
				}
			}
		}
	}
	c.Floor("address-roles", 8, "Hello, ReadWriteTCP/UDP, EOF literals and two Get sites")
	// LocalAddr/RemoteAddr of agentConnection return their own slot
	for _, m := range []struct{ meth, field string }{{"LocalAddr", "Laddr"}, {"RemoteAddr", "Raddr"}} {
		fn := p.Method(agentRel, "agentConnection", m.meth)
		if !c.Anchor(fn != nil, "address-roles", "agentConnection."+m.meth) {
			continue
		}
		for _, r := range Returns(fn) {
			c.Check(Render(RetVals(r)[0]) == "p0."+m.field, "address-roles", "agentConnection."+m.meth, p.InstrPos(r), "returns dc."+m.field, m.meth+" does not return the connection's "+m.field)
		}
	}
}

func typeShortOf(fa *ssa.FieldAddr) string {
	if n := NamedOf(fa.X.Type()); n != nil {
		return n.Obj().Name()
	}
	return "?"
}

func c16Connections(c *Ctx) {
	p := c.P
	get := p.Method(agentRel, "Connections", "Get")
	if !c.Anchor(get != nil, "connections-get", "(*agent.Connections).Get") {
		return
	}
	for i, r := range Returns(get) {
		rv := RetVals(r)[0]
		key := fmt.Sprintf("Connections.Get return[%d]", i)
		if IsNilConst(rv) {
			ex := false
			for _, dc := range DomConds(r) {
				if b, ok := dc.V.(*ssa.BinOp); ok && b.Op == token.LSS && !dc.Pol {
					ex = true
				}
			}
			c.Check(ex, "connections-get", key+" nil only after scan", p.InstrPos(r), "", "Get gives up before all connections were compared")
			continue
		}
		// conditions: conn.Laddr.String() == laddr.String() and conn.Raddr.String() == raddr.String(), each separately
		l, rr := false, false
		for _, dc := range DomConds(r) {
			x, y, ok := eqCond(dc)
			if !ok {
				continue
			}
			isStr := func(v ssa.Value) (ssa.Value, bool) {
				call, ok := v.(*ssa.Call)
				if !ok || !call.Call.IsInvoke() || call.Call.Method.Name() != "String" {
					return nil, false
				}
				return call.Call.Value, true
			}
			ax, ok1 := isStr(x)
			ay, ok2 := isStr(y)
			if !ok1 || !ok2 {
				continue
			}
			for _, pr := range [][2]ssa.Value{{ax, ay}, {ay, ax}} {
				if base, ok := isFieldLoadNamed(pr[0], "Laddr"); ok && rangeElemOfField(base, "conns") && pr[1] == ssa.Value(get.Params[1]) {
					l = true
				}
				if base, ok := isFieldLoadNamed(pr[0], "Raddr"); ok && rangeElemOfField(base, "conns") && pr[1] == ssa.Value(get.Params[2]) {
					rr = true
				}
			}
		}
		// the comparison in a helper of the connection (`conn.hasAddrs(laddr, raddr)`): wherever the helper can yield true,
		// both comparisons held, local against its first and remote against its second address argument
		if !(l && rr) {
			for _, dc := range DomConds(r) {
				hc, isC := dc.V.(*ssa.Call)
				if !isC || !dc.Pol || len(hc.Call.Args) != 3 {
					continue
				}
				hf := hc.Call.StaticCallee()
				if hf == nil || !InRepo(hf) || hf.Blocks == nil || !rangeElemOfField(hc.Call.Args[0], "conns") || hc.Call.Args[1] != ssa.Value(get.Params[1]) || hc.Call.Args[2] != ssa.Value(get.Params[2]) {
					continue
				}
				all := len(Returns(hf)) > 0
				for _, hr := range Returns(hf) {
					for _, lf := range phiLeaves(RetVals(hr)[0]) {
						if k, isK := lf.v.(*ssa.Const); isK && k.Value != nil && k.Value.String() == "false" {
							continue
						}
						conds := condsOnLeaf(lf, hr)
						if _, isK := lf.v.(*ssa.Const); !isK {
							conds = append(conds, Cond{V: lf.v, Pol: true})
						}
						hl, hr2 := false, false
						for _, d2 := range conds {
							x, y, ok := eqCond(d2)
							if !ok {
								continue
							}
							str := func(v ssa.Value) (ssa.Value, bool) {
								call, ok := v.(*ssa.Call)
								if !ok || !call.Call.IsInvoke() || call.Call.Method.Name() != "String" {
									return nil, false
								}
								return call.Call.Value, true
							}
							ax, ok1 := str(x)
							ay, ok2 := str(y)
							if !ok1 || !ok2 {
								continue
							}
							for _, pr := range [][2]ssa.Value{{ax, ay}, {ay, ax}} {
								if base, ok := isFieldLoadNamed(pr[0], "Laddr"); ok && base == ssa.Value(hf.Params[0]) && pr[1] == ssa.Value(hf.Params[1]) {
									hl = true
								}
								if base, ok := isFieldLoadNamed(pr[0], "Raddr"); ok && base == ssa.Value(hf.Params[0]) && pr[1] == ssa.Value(hf.Params[2]) {
									hr2 = true
								}
							}
						}
						if !hl || !hr2 {
							all = false
						}
					}
				}
				if all {
					l, rr = true, true
				}
			}
		}
		c.Check(l && rr, "connections-get", key+" match", p.InstrPos(r), "local and remote address compared separately", "a connection is returned without its local address matching the requested local address AND its remote address matching the requested remote address as two separate comparisons (a combined/concatenated key lets different address pairs collide): "+fmt.Sprint(RenderConds(DomConds(r))))
		c.Check(rangeElemOfField(rv, "conns"), "connections-get", key+" element", p.InstrPos(r), "", "Get returns something that is not the compared element of the connection list")
	}
	// all methods hold the mutex
	for _, name := range []string{"Add", "Each", "Delete", "Get"} {
		fn := p.Method(agentRel, "Connections", name)
		if fn == nil {
			continue
		}
		lock, unlock := false, false
		for _, call := range Calls(fn) {
			f := call.Common().StaticCallee()
			if MethodIs(f, "sync", "Mutex", "Lock") && call.Block() == fn.Blocks[0] {
				lock = true
			}
			if _, isDefer := call.(*ssa.Defer); isDefer && MethodIs(f, "sync", "Mutex", "Unlock") {
				unlock = true
			}
		}
		c.Check(lock && unlock, "connections-locked", "Connections."+name, p.Pos(fn.Pos()), "", "Connections."+name+" no longer holds the list mutex for the whole call")
	}
}

func c16Dispatch(c *Ctx) {
	p := c.P
	serv := p.Method(agentRel, "agentListener", "serv")
	if !c.Anchor(serv != nil, "dispatch", "(*agent.agentListener).serv") {
		return
	}
	get := p.Method(agentRel, "Connections", "Get")
	// the connection table belongs to this agent session: every Connections method called in the session loop (and its
	// closures) has as receiver a table created in this very call of serv, never a field of the listener or a global
	nTab := 0
	for _, fn := range allFuncs(serv) {
		for _, call := range Calls(fn) {
			f := call.Common().StaticCallee()
			if f == nil || RecvTypeName(f) != "Connections" || len(call.Common().Args) == 0 {
				continue
			}
			nTab++
			root := c15Root(call.Common().Args[0])
			a, isAlloc := root.(*ssa.Alloc)
			okT := isAlloc && a.Parent() == serv
			why := ""
			if !okT {
				why = "the connection table used by an agent session is " + RenderN(root, 3) + ", which is not created by this session: every agent's virtual connections are then in one table, so one agent disconnecting (its teardown closes the table's connections) ends the connections of all agents, and identical address pairs of two agents collide"
			}
			c.Check(okT, "connections-per-session", fmt.Sprintf("Connections.%s receiver in %s", f.Name(), shortFn(fn)), p.InstrPos(call), "a table allocated in this call of serv", why)
		}
	}
	c.Check(nTab >= 3, "connections-per-session", "table uses in the session loop", p.Pos(serv.Pos()), fmt.Sprint(nTab), "fewer than three uses of the session's connection table found")
	// data: conn.receive(v.Payload) where conn = conns.Get(v.Laddr, v.Raddr) of the same v, under conn != nil
	nrecv, nclose, ndel := 0, 0, 0
	for _, call := range Calls(serv) {
		f := call.Common().StaticCallee()
		if f == nil {
			continue
		}
		switch {
		case f.Name() == "receive" && RecvTypeName(f) == "agentConnection":
			nrecv++
			g, ok := call.Common().Args[0].(*ssa.Call)
			okG := ok && g.Call.StaticCallee() == get
			okP := false
			if okG {
				msg := strings.TrimSuffix(Render(g.Call.Args[1]), ".Laddr")
				okP = Render(call.Common().Args[1]) == msg+".Payload" && Render(g.Call.Args[2]) == msg+".Raddr"
			}
			nn := okG && condNotNil(DomConds(call), g)
			c.Check(okG && okP && nn, "dispatch", "data delivered to the looked-up connection", p.InstrPos(call), "conns.Get(v.Laddr, v.Raddr).receive(v.Payload) under != nil", "a data message's payload is not delivered to exactly the connection looked up by that message's own (local, remote) addresses")
		case f.Name() == "Delete" && RecvTypeName(f) == "Connections":
			ndel++
			g, ok := call.Common().Args[1].(*ssa.Call)
			c.Check(ok && g.Call.StaticCallee() == get && condNotNil(DomConds(call), g), "dispatch", "EOF deletes the looked-up connection", p.InstrPos(call), "", "EOF deletes something other than the connection looked up by the EOF's addresses")
		case f.Name() == "Close" && RecvTypeName(f) == "agentConnection" && call.Parent() == serv:
			nclose++
			g, ok := call.Common().Args[0].(*ssa.Call)
			c.Check(ok && g.Call.StaticCallee() == get && condNotNil(DomConds(call), g), "dispatch", "EOF closes the looked-up connection", p.InstrPos(call), "", "EOF closes something other than the connection looked up by the EOF's addresses")
		}
	}
	c.Check(nrecv == 1 && ndel == 1 && nclose == 1, "dispatch", "session loop arms", p.Pos(serv.Pos()), "", fmt.Sprintf("expected one receive, one Delete and one Close site in the session loop, found %d/%d/%d", nrecv, ndel, nclose))
	// deferred cleanup closes every remaining connection: a deferred closure calling conns.Each(func(conn){conn.Close()})
	okCleanup := false
	for _, an := range Anon(serv) {
		for _, call := range Calls(an) {
			f := call.Common().StaticCallee()
			if f != nil && f.Name() == "Each" && RecvTypeName(f) == "Connections" {
				var cb *ssa.Function
				switch x := call.Common().Args[1].(type) {
				case *ssa.Function:
					cb = x
				case *ssa.MakeClosure:
					cb, _ = x.Fn.(*ssa.Function)
				}
				if cb != nil {
					for _, c2 := range Calls(cb) {
						if f2 := c2.Common().StaticCallee(); f2 != nil && f2.Name() == "Close" && c2.Common().Args[0] == ssa.Value(cb.Params[0]) && c2.Block() == cb.Blocks[0] {
							// and `an` is deferred in serv
							for _, d := range Calls(serv) {
								if df, ok := d.(*ssa.Defer); ok {
									if mc, ok := df.Call.Value.(*ssa.MakeClosure); ok && mc.Fn == an {
										okCleanup = true
									}
								}
							}
						}
					}
				}
			}
		}
	}
	c.Check(okCleanup, "dispatch", "session end closes remaining connections", p.Pos(serv.Pos()), "deferred conns.Each(Close)", "when the agent disconnects the remaining virtual connections are not all closed by a deferred conns.Each(conn.Close())")
	// agentConnection.Read / receive
	rd := p.Method(agentRel, "agentConnection", "Read")
	rc := p.Method(agentRel, "agentConnection", "receive")
	if c.Anchor(rd != nil && rc != nil, "conn-buffer", "agentConnection.Read / receive") {
		n := 0
		// the receive buffer: the connection's []byte field (by role, whatever it is called)
		buffName := "buff"
		if at := p.Type(agentRel, "agentConnection"); at != nil {
			if f := fieldByType(at, isByteSlice); f != "" {
				buffName = f
			}
		}
		// Read and the helpers of the same connection it calls (takeBuffered(b))
		rdParts := []*ssa.Function{rd}
		bufParam := map[*ssa.Function]ssa.Value{rd: rd.Params[1]}
		for _, call := range Calls(rd) {
			hf := call.Common().StaticCallee()
			if hf == nil || hf.Blocks == nil || hf.Signature.Recv() == nil || len(call.Common().Args) < 1 || call.Common().Args[0] != ssa.Value(rd.Params[0]) || PkgOf(hf) != PkgOf(rd) {
				continue
			}
			for ai, a := range call.Common().Args {
				if a == ssa.Value(rd.Params[1]) && ai < len(hf.Params) {
					rdParts = append(rdParts, hf)
					bufParam[hf] = hf.Params[ai]
				}
			}
		}
		isCopyToCaller := func(v ssa.Value, part *ssa.Function) bool {
			call, ok := v.(*ssa.Call)
			if !ok {
				return false
			}
			bi, ok := call.Call.Value.(*ssa.Builtin)
			if !ok || bi.Name() != "copy" || bufBase(call.Call.Args[0]) != bufParam[part] {
				return false
			}
			x, ok := isFieldLoadNamed(bufBaseSliceOnly(call.Call.Args[1]), buffName)
			return ok && x == ssa.Value(part.Params[0])
		}
		for _, part := range rdParts {
			for _, b := range part.Blocks {
				for _, in := range b.Instrs {
					st, ok := in.(*ssa.Store)
					if !ok {
						continue
					}
					fa, ok := st.Addr.(*ssa.FieldAddr)
					if !ok || fieldNameOf(fa) != buffName {
						continue
					}
					n++
					okS := false
					if sl, isSl := st.Val.(*ssa.Slice); isSl && sl.High == nil && sl.Low != nil && isCopyToCaller(sl.Low, part) {
						if x, isF := isFieldLoadNamed(sl.X, buffName); isF && x == ssa.Value(part.Params[0]) {
							okS = true
						}
					}
					c.Check(okS, "conn-buffer", fmt.Sprintf("Read re-slice[%d]", n), p.InstrPos(st), "drops exactly the copied prefix", "Read does not drop exactly the bytes it copied to the caller: "+Render(st.Val))
					// under lock: a Lock call dominates and no (non-deferred) Unlock lies between
					locked := false
					for _, call := range Calls(part) {
						if _, isDefer := call.(*ssa.Defer); isDefer {
							continue
						}
						if MethodIs(call.Common().StaticCallee(), "sync", "Mutex", "Lock") && call.Block().Dominates(st.Block()) {
							r := InstrReachFrom(part, call, nil, func(in ssa.Instruction) bool {
								if _, isDefer := in.(*ssa.Defer); isDefer {
									return false
								}
								cc, ok := in.(ssa.CallInstruction)
								return ok && MethodIs(cc.Common().StaticCallee(), "sync", "Mutex", "Unlock")
							})
							if r(st) {
								locked = true
							}
						}
					}
					c.Check(locked, "conn-buffer", fmt.Sprintf("Read re-slice[%d] locked", n), p.InstrPos(st), "", "the receive buffer is re-sliced without holding the connection mutex")
				}
			}
		}
		c.Check(n >= 1, "conn-buffer", "Read re-slice sites", p.Pos(rd.Pos()), "", "Read never drops the copied prefix from the receive buffer")
		for i, r := range Returns(rd) {
			rv := RetVals(r)
			if IsNilConst(rv[1]) {
				s := Render(rv[0])
				okC := isCopyToCaller(rv[0], rd)
				// the count handed back by a helper that returns its own copy count
				if ex, isE := rv[0].(*ssa.Extract); isE && !okC {
					if hc, isC := ex.Tuple.(*ssa.Call); isC {
						if hf := hc.Call.StaticCallee(); hf != nil && bufParam[hf] != nil {
							okC = true
							for _, r2 := range Returns(hf) {
								v2 := RetVals(r2)[ex.Index]
								if k, isK := ConstInt(v2); isK && k == 0 {
									continue
								}
								if !isCopyToCaller(v2, hf) {
									okC = false
								}
							}
						}
					}
				}
				c.Check(okC, "conn-buffer", fmt.Sprintf("Read return[%d] count", i), p.InstrPos(r), "", "Read returns a count that is not the number of bytes copied: "+s)
			}
		}
		okApp := false
		for _, b := range rc.Blocks {
			for _, in := range b.Instrs {
				if st, ok := in.(*ssa.Store); ok {
					if fa, ok := st.Addr.(*ssa.FieldAddr); ok && fieldNameOf(fa) == buffName {
						okApp = Render(st.Val) == "append(p0."+buffName+", p1)"
					}
				}
			}
		}
		lock, unlock := false, false
		for _, call := range Calls(rc) {
			f := call.Common().StaticCallee()
			if MethodIs(f, "sync", "Mutex", "Lock") && call.Block() == rc.Blocks[0] {
				lock = true
			}
			if _, isDefer := call.(*ssa.Defer); isDefer && MethodIs(f, "sync", "Mutex", "Unlock") {
				unlock = true
			}
		}
		c.Check(okApp && lock && unlock, "conn-buffer", "receive appends under the mutex", p.Pos(rc.Pos()), "buff = append(buff, data...) with m held", "receive does not append the payload at the end of the buffer under the connection mutex")
	}
}

func condNotNil(cs []Cond, v ssa.Value) bool {
	for _, dc := range cs {
		b, ok := dc.V.(*ssa.BinOp)
		if !ok || b.X != v || !IsNilConst(b.Y) {
			continue
		}
		if (b.Op == token.EQL && !dc.Pol) || (b.Op == token.NEQ && dc.Pol) {
			return true
		}
	}
	return false
}

// bufBaseSliceOnly strips slicing only (no alias resolution).
func bufBaseSliceOnly(v ssa.Value) ssa.Value {
	for i := 0; i < 6; i++ {
		sl, ok := v.(*ssa.Slice)
		if !ok {
			return v
		}
		v = sl.X
	}
	return v
}
