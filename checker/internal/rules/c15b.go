package rules

import (
	"fmt"
	"go/token"
	"go/types"

	"golang.org/x/tools/go/ssa"

	. "htcheck/internal/core"
)

// ---------- HTTP: the parsed request/response is what is re-serialised, unmodified

var c15HTTPMutators = map[string]bool{"Set": true, "Add": true, "Del": true, "SetBasicAuth": true, "AddCookie": true, "ParseForm": true, "ParseMultipartForm": true,
	"FormValue": true, "PostFormValue": true, "FormFile": true, "MultipartReader": true, "SetPathValue": true, "Read": true, "Close": true}

func c15HTTP(c *Ctx, pxs []*c15Proxier) {
	p := c.P
	n := 0
	for _, px := range pxs {
		for _, fn := range px.reach {
			for _, call := range Calls(fn) {
				isReq := CalleeIs(call, "net/http", "ReadRequest")
				isResp := CalleeIs(call, "net/http", "ReadResponse")
				if !isReq && !isResp {
					continue
				}
				cv, ok := call.(*ssa.Call)
				if !ok {
					continue
				}
				var obj ssa.Value
				for _, r := range *cv.Referrers() {
					if ex, ok := r.(*ssa.Extract); ok && ex.Index == 0 {
						obj = ex
					}
				}
				what := "request"
				if isResp {
					what = "response"
				}
				key := fmt.Sprintf("%s: parsed %s in %s", px.name, what, shortFn(fn))
				if obj == nil {
					c.Violate("http-object-unmodified", key, p.InstrPos(call), "the parsed "+what+" is discarded")
					continue
				}
				n++
				// it must be written to the other leg
				written := false
				bad := ""
				refType := func(t types.Type) bool {
					switch t.Underlying().(type) {
					case *types.Pointer, *types.Map, *types.Slice, *types.Interface:
						return true
					}
					return false
				}
				var walk func(root ssa.Value, depth int)
				walk = func(root ssa.Value, depth int) {
					derived := map[ssa.Value]bool{root: true}
					work := []ssa.Value{root}
					for len(work) > 0 {
						v := work[0]
						work = work[1:]
						if v.Referrers() == nil {
							continue
						}
						for _, r := range *v.Referrers() {
							switch x := r.(type) {
							case *ssa.FieldAddr:
								for _, r2 := range *x.Referrers() {
									switch y := r2.(type) {
									case *ssa.Store:
										if y.Addr == ssa.Value(x) {
											bad = "field " + fieldNameOf(x) + " of the parsed " + what + " is overwritten at " + p.InstrPos(y)
										}
									case *ssa.UnOp:
										if y.Op == token.MUL && refType(y.Type()) && !derived[y] {
											derived[y] = true
											work = append(work, y)
										}
									}
								}
							case *ssa.IndexAddr:
								for _, r2 := range *x.Referrers() {
									if y, ok := r2.(*ssa.Store); ok && y.Addr == ssa.Value(x) {
										bad = "an element of the parsed " + what + " is overwritten at " + p.InstrPos(y)
									}
								}
							case *ssa.MapUpdate:
								if x.Map == v {
									bad = "a header map of the parsed " + what + " is updated at " + p.InstrPos(x)
								}
							case ssa.CallInstruction:
								cc := x.Common()
								f := cc.StaticCallee()
								switch {
								case cc.IsInvoke() && cc.Value == v:
									if c15HTTPMutators[cc.Method.Name()] {
										bad = "the parsed " + what + "'s body is consumed or closed (" + cc.Method.Name() + ") at " + p.InstrPos(x)
									}
								case f == nil:
									bad = "the parsed " + what + " escapes to a dynamic call at " + p.InstrPos(x)
								case PkgOf(f) == "net/http" && f.Name() == "Write" && v == obj && len(cc.Args) == 2 && cc.Args[0] == obj:
									written = true
								case PkgOf(f) == "net/http" && f.Name() == "ReadResponse":
								case InRepo(f) && PkgOf(f) != ModPath+"/event":
									// a helper of the proxy that is handed the object: looked into (it may only read it)
									looked := false
									if f.Blocks != nil && depth < 2 {
										for ai, a := range cc.Args {
											if a == v && ai < len(f.Params) {
												looked = true
												walk(f.Params[ai], depth+1)
											}
										}
									}
									if !looked {
										bad = "the parsed " + what + " is handed to " + FuncShort(f) + " at " + p.InstrPos(x) + ", which may modify it before it is relayed"
									}
								case c15HTTPMutators[f.Name()] && len(cc.Args) > 0 && cc.Args[0] == v:
									bad = "the parsed " + what + " is modified by " + FuncShort(f) + " at " + p.InstrPos(x)
								}
							}
						}
					}
				}
				walk(obj, 0)
				switch {
				case bad != "":
					c.Violate("http-object-unmodified", key, p.InstrPos(call), bad+": the backend (or client) no longer receives what the peer sent")
				case !written:
					c.Violate("http-object-unmodified", key, p.InstrPos(call), "the parsed "+what+" is never re-serialised with its Write method")
				default:
					c.Ok("http-object-unmodified", key, p.InstrPos(call), "re-serialised with Write, no field/header/body modification in between")
				}
			}
		}
	}
	c.Check(n >= 2, "http-object-unmodified", "parsed HTTP objects found", "-", fmt.Sprint(n), "expected the HTTP proxy's ReadRequest and ReadResponse, found fewer")
}
