package rules

import (
	"fmt"
	"go/types"
	"sort"
	"strings"

	. "htcheck/internal/core"

	"golang.org/x/tools/go/callgraph"
	"golang.org/x/tools/go/ssa"
)

// c01DispatchConfined: the goroutines that accept and dispatch connections are shared by every port. A connection
// taken from Accept() or from the channel of accepted connections may, on those goroutines, only be handed on (channel
// send, `go` statement); anything that waits for or parses peer bytes (a Read/Peek on the connection, a CanHandle
// probe) belongs to the per-connection goroutine that installs the recover. Otherwise one silent or malformed
// client stalls or kills every later connection on every port.
func c01DispatchConfined(c *Ctx) {
	c.Explanation += " (e) the shared accept/dispatch goroutines only hand accepted connections on: no call made there with the connection reaches a Read/Peek/CanHandle (same-goroutine call-graph reach)."
	p := c.P
	g := p.VTA()
	isConnT := func(t types.Type) bool {
		n := NamedOf(t)
		return n != nil && n.Obj().Pkg() != nil && n.Obj().Pkg().Path() == "net" && n.Obj().Name() == "Conn"
	}
	found := 0
	for _, fn := range p.FuncsIn("server") {
		var srcs []ssa.Value
		for _, b := range fn.Blocks {
			for _, in := range b.Instrs {
				switch x := in.(type) {
				case *ssa.UnOp:
					if ch, ok := x.X.Type().Underlying().(*types.Chan); ok && x.Op.String() == "<-" && isConnT(ch.Elem()) {
						srcs = append(srcs, x)
					}
				case *ssa.Extract:
					if !isConnT(x.Type()) {
						continue
					}
					switch t := x.Tuple.(type) {
					case *ssa.Select:
						srcs = append(srcs, x)
					case *ssa.Call:
						if t.Call.IsInvoke() && t.Call.Method.Name() == "Accept" {
							srcs = append(srcs, x)
						}
					}
				}
			}
		}
		if len(srcs) == 0 {
			continue
		}
		// the dispatcher goroutines serve every connection: the source sits in a loop
		inLoop := false
		for _, s := range srcs {
			if InLoop(s.(ssa.Instruction).Block()) {
				inLoop = true
			}
		}
		if !inLoop {
			continue
		}
		found++
		key := shortFn(fn)
		// values carrying the connection in this function
		carry := map[ssa.Value]bool{}
		var add func(v ssa.Value)
		add = func(v ssa.Value) {
			if carry[v] {
				return
			}
			carry[v] = true
			if v.Referrers() == nil {
				return
			}
			for _, r := range *v.Referrers() {
				switch y := r.(type) {
				case *ssa.Phi:
					add(y)
				case *ssa.ChangeInterface:
					add(y)
				case *ssa.MakeInterface:
					add(y)
				case *ssa.TypeAssert:
					add(y)
				case *ssa.Extract:
					if _, ok := y.Tuple.(*ssa.TypeAssert); ok {
						add(y)
					}
				}
			}
		}
		for _, s := range srcs {
			add(s)
		}
		bad := 0
		handed := false
		for _, call := range Calls(fn) {
			cc := call.Common()
			uses := false
			for _, a := range cc.Args {
				if carry[a] {
					uses = true
				}
			}
			if cc.IsInvoke() && carry[cc.Value] {
				uses = true
			}
			if mc, ok := cc.Value.(*ssa.MakeClosure); ok {
				for _, b := range mc.Bindings {
					if carry[b] {
						uses = true
					}
				}
			}
			if !uses {
				continue
			}
			if _, isGo := call.(*ssa.Go); isGo {
				handed = true
				continue
			}
			if _, isDefer := call.(*ssa.Defer); isDefer {
				continue
			}
			if cc.IsInvoke() && carry[cc.Value] {
				switch cc.Method.Name() {
				case "Read", "Write":
					bad++
					c.Violate("dispatch-loop-confined", key+" "+cc.Method.Name(), p.InstrPos(call), "the shared accept/dispatch goroutine itself does I/O on an accepted connection: one silent client stalls every new connection on every port")
				}
				continue
			}
			cal := cc.StaticCallee()
			if cal == nil || !InRepo(cal) || cal.Blocks == nil {
				continue
			}
			if site, path := reachesPeerWait(g, cal); site != nil {
				bad++
				c.Violate("dispatch-loop-confined", key+" calls "+shortFn(cal), p.InstrPos(call), "the shared accept/dispatch goroutine passes an accepted connection to "+shortFn(cal)+", which can wait for or parse the peer's bytes ("+path+" at "+p.InstrPos(site)+") before the connection has a goroutine and recover of its own: one silent client stalls every new connection on every port, and a panic there ends the process")
			}
		}
		for _, b := range fn.Blocks {
			for _, in := range b.Instrs {
				if s, ok := in.(*ssa.Send); ok && carry[s.X] {
					handed = true
				}
			}
		}
		if bad == 0 {
			c.Check(handed, "dispatch-loop-confined", key, p.Pos(fn.Pos()), "an accepted connection is only handed on here (channel send or go statement); no call on this shared goroutine reads from it or probes it", "an accepted connection is neither sent on nor given a goroutine here")
		}
	}
	c.Floor("dispatch-loop-confined", 2, "accept goroutine and dispatch loop of Honeytrap.Run")
	_ = found
}

// reachesPeerWait: a same-goroutine path from fn to a call that waits for / parses peer bytes: an interface call of
// Read/Peek/CanHandle, or an in-repo method of those names.
func reachesPeerWait(g *callgraph.Graph, fn *ssa.Function) (ssa.Instruction, string) {
	type item struct {
		fn   *ssa.Function
		path []string
	}
	seen := map[*ssa.Function]bool{fn: true}
	queue := []item{{fn, []string{shortFn(fn)}}}
	for len(queue) > 0 {
		it := queue[0]
		queue = queue[1:]
		for _, call := range Calls(it.fn) {
			if _, isGo := call.(*ssa.Go); isGo {
				continue
			}
			cc := call.Common()
			name := ""
			if cc.IsInvoke() {
				name = cc.Method.Name()
			} else if cal := cc.StaticCallee(); cal != nil && cal.Signature.Recv() != nil {
				name = cal.Name()
			}
			switch name {
			case "Read", "Peek", "CanHandle", "ReadFrom":
				return call, strings.Join(it.path, " > ") + " > " + name
			}
		}
		n := g.Nodes[it.fn]
		if n == nil {
			continue
		}
		edges := append([]*callgraph.Edge{}, n.Out...)
		sort.Slice(edges, func(i, j int) bool { return edges[i].Callee.Func.String() < edges[j].Callee.Func.String() })
		for _, e := range edges {
			if _, isGo := e.Site.(*ssa.Go); isGo {
				continue
			}
			cal := e.Callee.Func
			if cal == nil || !InRepo(cal) || cal.Blocks == nil || seen[cal] {
				continue
			}
			seen[cal] = true
			queue = append(queue, item{cal, append(append([]string{}, it.path...), shortFn(cal))})
		}
	}
	return nil, ""
}

var _ = fmt.Sprint
