package rules

import (
	"fmt"
	"go/token"
	"go/types"
	"strings"

	"golang.org/x/tools/go/ssa"

	. "htcheck/internal/core"
)

// sameLoop: blocks a and b lie on a common cycle of the CFG.
func sameLoop(a, b *ssa.BasicBlock) bool {
	if a == b {
		return InLoop(a)
	}
	return ReachBlocks([]*ssa.BasicBlock{a}, nil, nil)[b] && ReachBlocks([]*ssa.BasicBlock{b}, nil, nil)[a]
}

// c04DatagramBuffers: every datagram pseudo-connection built in a receive loop owns its bytes. The Buffer handed to a
// listener.DummyUDPConn literal created inside a loop must be storage produced in that same loop iteration (an
// allocation, make, or a field of an object received in the iteration); a buffer that outlives the iteration is
// overwritten by the next datagram while the previous connection's handler may not have read it yet.
func c04DatagramBuffers(c *Ctx) {
	p := c.P
	n := 0
	for _, fn := range p.Funcs() {
		if strings.HasSuffix(p.Fset.Position(fn.Pos()).Filename, "_test.go") {
			continue
		}
		for _, b := range fn.Blocks {
			for _, in := range b.Instrs {
				st, ok := in.(*ssa.Store)
				if !ok {
					continue
				}
				fa, ok := st.Addr.(*ssa.FieldAddr)
				if !ok || fieldNameOf(fa) != "Buffer" {
					continue
				}
				nt := NamedOf(fa.X.Type())
				if nt == nil || nt.Obj().Name() != "DummyUDPConn" {
					continue
				}
				if _, isLit := fa.X.(*ssa.Alloc); !isLit {
					continue
				}
				// a constructor (NewDummyUDPConn(payload, …)): the buffer is what each call site passes, judged in that site's loop
				type site struct {
					v  ssa.Value
					b  *ssa.BasicBlock
					at ssa.Instruction
					fn *ssa.Function
				}
				sites := []site{{st.Val, b, st, fn}}
				if pr, isP := st.Val.(*ssa.Parameter); isP && !InLoop(b) {
					sites = nil
					idx := paramIdx(pr)
					for _, g := range p.Funcs() {
						for _, call := range Calls(g) {
							if call.Common().StaticCallee() == fn && idx < len(call.Common().Args) {
								sites = append(sites, site{call.Common().Args[idx], call.Block(), call, g})
							}
						}
					}
				}
				for _, sx := range sites {
					st, b, fn := sx.at, sx.b, sx.fn
					n++
					key := fmt.Sprintf("DummyUDPConn.Buffer in %s #%d", shortFn(fn), n)
					if !InLoop(b) {
						c.Ok("datagram-buffer-per-connection", key, p.InstrPos(st), "not in a receive loop")
						continue
					}
					// walk to the storage the slice is cut from
					v := sx.v
					why := ""
					for depth := 0; depth < 6 && why == ""; depth++ {
						switch x := v.(type) {
						case *ssa.Slice:
							v = x.X
							continue
						case *ssa.Alloc:
							if !sameLoop(x.Block(), b) {
								why = "the buffer " + x.Comment + " is allocated once, outside the receive loop"
							}
						case *ssa.MakeSlice:
							if !sameLoop(x.Block(), b) {
								why = "the buffer is made once, outside the receive loop"
							}
						case *ssa.UnOp:
							if fa2, ok := x.X.(*ssa.FieldAddr); ok {
								v = fa2.X
								continue
							}
							if d := Deref(x); d != ssa.Value(x) {
								v = d // a single-assignment variable captured by a closure
								continue
							}
							why = "cannot trace the buffer: " + RenderN(v, 3)
						case *ssa.Extract:
							if ins, ok := x.Tuple.(ssa.Instruction); ok && !sameLoop(ins.Block(), b) {
								why = "the buffer comes from a value produced outside the receive loop"
							}
						case *ssa.TypeAssert:
							v = x.X
							continue
						case *ssa.Call:
							if !sameLoop(x.Block(), b) {
								why = "the buffer comes from a call made outside the receive loop"
							}
						default:
							why = "the buffer is " + RenderN(v, 3) + ", which outlives one iteration of the receive loop"
						}
						break
					}
					if why == "" {
						c.Ok("datagram-buffer-per-connection", key, p.InstrPos(st), "storage produced in the same loop iteration")
					} else {
						c.Violate("datagram-buffer-per-connection", key, p.InstrPos(st), why+": every datagram connection handed out aliases the same bytes, so a datagram that arrives before the previous handler has read its request overwrites it (the earlier command is never decoded, the later one is reported twice)")
					}
				}
			}
		}
	}
	c.Floor("datagram-buffer-per-connection", 2, "socket and agent listeners build DummyUDPConn literals")
}

// c04PendingInput: a handler-side line editor keeps the bytes it has read from the connection but not yet consumed in a
// field (telnet Terminal.remainder: "what followed the line just returned"). Emptying that field is only legitimate where a
// dominating test shows that nothing is pending; anywhere else the bytes a client pipelined behind the current line are
// thrown away and the commands they contain are never captured.
func c04PendingInput(c *Ctx) {
	p := c.P
	for _, tb := range []struct{ rel, typ, field string }{{"services/telnet", "Terminal", "remainder"}} {
		nt := p.Type(tb.rel, tb.typ)
		if !c.Anchor(nt != nil, "pending-input-not-discarded", tb.rel+"."+tb.typ) {
			continue
		}
		n, nEmpty := 0, 0
		for _, fn := range p.FuncsIn(tb.rel) {
			for _, b := range fn.Blocks {
				for _, in := range b.Instrs {
					st, ok := in.(*ssa.Store)
					if !ok {
						continue
					}
					fa, ok := st.Addr.(*ssa.FieldAddr)
					if !ok || NamedOf(fa.X.Type()) != nt || fieldNameOf(fa) != tb.field {
						continue
					}
					if _, isLit := fa.X.(*ssa.Alloc); isLit {
						continue // constructor
					}
					n++
					empties := IsNilConst(st.Val)
					if sl, ok := st.Val.(*ssa.Slice); ok {
						if k, isK := ConstInt(sl.High); isK && k == 0 {
							empties = true
						}
					}
					if !empties {
						continue
					}
					nEmpty++
					key := fmt.Sprintf("%s.%s emptied in %s #%d", tb.typ, tb.field, shortFn(fn), nEmpty)
					// dominated by len(x) > 0 == false / len(x) == 0 for data derived from the field in this function
					pending := Taint(fn, pendingSeeds(fn, nt, tb.field), TaintOpts{CallResult: func(*ssa.Call, []int) bool { return true }})
					okDom := false
					for _, dc := range DomConds(st) {
						bo, ok := dc.V.(*ssa.BinOp)
						if !ok {
							continue
						}
						lenOf := func(v ssa.Value) ssa.Value {
							if call, ok := v.(*ssa.Call); ok {
								if bi, ok := call.Call.Value.(*ssa.Builtin); ok && bi.Name() == "len" {
									return call.Call.Args[0]
								}
							}
							return nil
						}
						x := lenOf(bo.X)
						k, isK := ConstInt(bo.Y)
						if x == nil || !isK || k != 0 {
							continue
						}
						if !pending[x] {
							// a helper of the type that is handed the unconsumed input (keepRemainder(rest)): every caller passes pending input
							par, isPar := x.(*ssa.Parameter)
							if !isPar {
								continue
							}
							idx, sites, good := paramIdx(par), 0, 0
							for _, g := range p.FuncsIn(tb.rel) {
								var pg map[ssa.Value]bool
								for _, call := range Calls(g) {
									if call.Common().StaticCallee() != fn || idx < 0 || idx >= len(call.Common().Args) {
										continue
									}
									sites++
									if pg == nil {
										pg = Taint(g, pendingSeeds(g, nt, tb.field), TaintOpts{CallResult: func(*ssa.Call, []int) bool { return true }})
									}
									if pg[call.Common().Args[idx]] {
										good++
									}
								}
							}
							if sites == 0 || good != sites {
								continue
							}
						}
						if (bo.Op == token.GTR && !dc.Pol) || (bo.Op == token.EQL && dc.Pol) || (bo.Op == token.NEQ && !dc.Pol) || (bo.Op == token.LEQ && dc.Pol) {
							okDom = true
						}
					}
					c.Check(okDom, "pending-input-not-discarded", key, p.InstrPos(st), "only where the pending input was just tested to be empty", "the field holding input that was read from the connection but not yet consumed is emptied without a dominating test that nothing is pending: whatever the client sent behind the current line in the same segment (pipelined commands) is discarded and never reported")
				}
			}
		}
		c.Check(n >= 2, "pending-input-not-discarded", tb.typ+"."+tb.field+" writers found", "-", fmt.Sprint(n), "the pending-input field has fewer writers than known (renamed?)")
	}
}

func pendingSeeds(fn *ssa.Function, nt *types.Named, field string) []ssa.Value {
	var out []ssa.Value
	for _, b := range fn.Blocks {
		for _, in := range b.Instrs {
			if ld, ok := in.(*ssa.UnOp); ok && ld.Op == token.MUL {
				if fa, ok := ld.X.(*ssa.FieldAddr); ok && NamedOf(fa.X.Type()) == nt && fieldNameOf(fa) == field {
					out = append(out, ld)
				}
			}
		}
	}
	return out
}

// c04ReporterQueues: in the line/message services that report from a separate goroutine (smtp), the protocol loop
// hands each parsed line and each message to the reporter over channels the reporter drains with one select, next to
// a "connection done" arm that ends it. With rendezvous (unbuffered) channels every hand-over completes before the
// protocol loop goes on, so nothing is pending when done closes and lines and messages stay in the order parsed. A
// buffered channel breaks both: what is still queued when the session ends is dropped, and select takes from two
// non-empty queues in random order (the email event overtakes the commands that produced it).
func c04ReporterQueues(c *Ctx, floor int, rels ...string) {
	c.Explanation += " Channels drained by a reporting goroutine (smtp; ftp when it has one of that form) in one select next to its termination arm are unbuffered."
	p := c.P
	const rule = "reporter-handover-synchronous"
	var makesOf func(v ssa.Value, depth int) ([]*ssa.MakeChan, bool)
	makesOf = func(v ssa.Value, depth int) ([]*ssa.MakeChan, bool) {
		if depth > 4 {
			return nil, false
		}
		switch x := v.(type) {
		case *ssa.MakeChan:
			return []*ssa.MakeChan{x}, true
		case *ssa.ChangeType:
			return makesOf(x.X, depth+1)
		case *ssa.UnOp:
			switch y := x.X.(type) {
			case *ssa.Alloc:
				var out []*ssa.MakeChan
				for _, sv := range StoredValues(y) {
					m, ok := makesOf(sv, depth+1)
					if !ok {
						return nil, false
					}
					out = append(out, m...)
				}
				return out, len(out) > 0
			case *ssa.FreeVar:
				if b := freeVarBinding(y); b != nil {
					if a, ok := b.(*ssa.Alloc); ok {
						var out []*ssa.MakeChan
						for _, sv := range StoredValues(a) {
							m, ok := makesOf(sv, depth+1)
							if !ok {
								return nil, false
							}
							out = append(out, m...)
						}
						return out, len(out) > 0
					}
				}
			}
		case *ssa.FreeVar:
			if b := freeVarBinding(x); b != nil {
				return makesOf(b, depth+1)
			}
		case *ssa.Parameter:
			// the reporter started as a function/method with its channels as arguments: what every call site passes
			fn := x.Parent()
			idx := -1
			for i, q := range fn.Params {
				if q == x {
					idx = i
				}
			}
			var out []*ssa.MakeChan
			sites := 0
			for _, g := range p.FuncsIn(rels...) {
				for _, call := range Calls(g) {
					if call.Common().StaticCallee() != fn || idx >= len(call.Common().Args) {
						continue
					}
					sites++
					m, ok := makesOf(call.Common().Args[idx], depth+1)
					if !ok {
						return nil, false
					}
					out = append(out, m...)
				}
			}
			return out, sites > 0 && len(out) > 0
		}
		return nil, false
	}
	n := 0
	for _, fn := range p.FuncsIn(rels...) {
		for _, b := range fn.Blocks {
			for _, in := range b.Instrs {
				sel, ok := in.(*ssa.Select)
				if !ok || !sel.Blocking {
					continue
				}
				recvs := 0
				for _, st := range sel.States {
					if st.Send == nil {
						recvs++
					}
				}
				if recvs < 2 || !emitsAfter(fn, sel) {
					continue
				}
				for i, st := range sel.States {
					if st.Send != nil {
						continue
					}
					n++
					key := fmt.Sprintf("%s select arm %d (%s)", shortFn(fn), i, RenderN(st.Chan, 2))
					mk, ok := makesOf(st.Chan, 0)
					if !ok {
						c.Undecided(rule, key, p.InstrPos(sel), "cannot find where this channel is made")
						continue
					}
					bad := ""
					for _, m := range mk {
						if sz, isC := ConstInt(m.Size); !isC || sz != 0 {
							bad = p.InstrPos(m)
						}
					}
					c.Check(bad == "", rule, key, p.InstrPos(sel), "rendezvous channel", "the reporting goroutine drains this channel in a select next to its termination arm, and the channel is buffered (made at "+bad+"): lines/messages still queued when the session ends are never reported, and with more than one non-empty queue select no longer takes them in the order the client sent them")
				}
			}
		}
	}
	c.Ok(rule, "reporting goroutines that select", "-", fmt.Sprintf("%d receive arms examined in %v", n, rels))
	c.Floor(rule, floor, "smtp reporter: done, message and line arms")
}

// emitsAfter: the function sends an event somewhere (it is a reporter).
func emitsAfter(fn *ssa.Function, _ *ssa.Select) bool {
	for _, b := range fn.Blocks {
		for _, in := range b.Instrs {
			if emitsEvent(in, 1) {
				return true
			}
		}
	}
	return false
}

// c04BodyConsumed: a handler that serves several HTTP requests per connection from one buffered reader must leave the
// reader at the start of the next request: between http.ReadRequest and the next iteration the request body is read to
// its end (io.Copy / ReadAll on req.Body, or a non-deferred Close, which discards the rest). A deferred Close runs when
// the handler returns, not before the next ReadRequest; whatever part of a body was not read is then parsed as the next
// request line – the following request is lost or reported as garbage, depending on where the segments were cut.
func c04BodyConsumed(c *Ctx) {
	p := c.P
	const rule = "request-body-consumed"
	n := 0
	for _, fn := range p.FuncsIn("services") {
		if strings.HasSuffix(p.Fset.Position(fn.Pos()).Filename, "_test.go") {
			continue
		}
		for _, call := range Calls(fn) {
			cv, ok := call.(*ssa.Call)
			if !ok || !CalleeIs(call, "net/http", "ReadRequest") || !InLoop(cv.Block()) {
				continue
			}
			// one reader for all requests of the connection (a reader made per iteration serves one request by design)
			rdr, isInstr := cv.Call.Args[0].(ssa.Instruction)
			if !isInstr || sameLoop(rdr.Block(), cv.Block()) {
				continue
			}
			// proxies hand the request on (Write/WriteProxy consume the body)
			var req ssa.Value
			for _, ref := range *cv.Referrers() {
				if ex, ok := ref.(*ssa.Extract); ok && ex.Index == 0 {
					req = ex
				}
			}
			if req == nil {
				continue
			}
			isBody := func(v ssa.Value) bool {
				ld, ok := isLoad(Unwrap(v))
				if !ok {
					return false
				}
				fa, ok := ld.X.(*ssa.FieldAddr)
				return ok && fieldNameOf(fa) == "Body" && fa.X == req
			}
			consumes := func(in ssa.Instruction) bool {
				ci, ok := in.(ssa.CallInstruction)
				if !ok {
					return false
				}
				if _, isDefer := in.(*ssa.Defer); isDefer {
					return false
				}
				cc := ci.Common()
				if cc.IsInvoke() && cc.Method.Name() == "Close" && isBody(cc.Value) {
					return true
				}
				f := cc.StaticCallee()
				if f == nil {
					return false
				}
				switch {
				case FuncIs(f, "io", "Copy") && len(cc.Args) == 2 && isBody(cc.Args[1]),
					(FuncIs(f, "io/ioutil", "ReadAll") || FuncIs(f, "io", "ReadAll")) && isBody(cc.Args[0]):
					return true
				case f.Name() == "Write" || f.Name() == "WriteProxy":
					// (*http.Request).Write sends and thereby consumes the body
					return len(cc.Args) > 0 && cc.Args[0] == req
				}
				// a helper that is handed the body and reads it to its end before every successful return
				if InRepo(f) && f.Blocks != nil {
					for ai, a := range cc.Args {
						if isBody(a) && ai < len(f.Params) && helperDrains(f, f.Params[ai]) {
							return true
						}
					}
				}
				return false
			}
			n++
			reach := InstrReachFrom(fn, cv, nil, consumes)
			// the same ReadRequest reached again without a consuming call in between
			again := false
			for _, pred := range cv.Block().Preds {
				if len(pred.Instrs) > 0 && reach(pred.Instrs[len(pred.Instrs)-1]) && cv.Block().Dominates(pred) {
					again = true
				}
			}
			// (the call's own block is re-entered through the loop header)
			hdr := cv.Block()
			for _, l := range Loops(fn) {
				if l.Blocks[hdr] {
					for _, lt := range l.Latches {
						if len(lt.Instrs) > 0 && reach(lt.Instrs[len(lt.Instrs)-1]) {
							// the latch's terminator is reached without a consuming call: is the consuming call perhaps in the latch itself?
							again = true
						}
					}
				}
			}
			c.Check(!again, rule, shortFn(fn)+" request loop", p.InstrPos(cv), "the body is read to its end (or closed) before the next ReadRequest", "the next http.ReadRequest on the connection's shared reader can be reached without the previous request's body having been consumed (io.Copy/ReadAll on req.Body or a non-deferred Close): the unread rest of a body is parsed as the next request line, so a request that follows one with a body is lost or reported as garbage depending on how the stream was segmented")
		}
	}
	c.Floor(rule, 1, "httpService.Handle (also serving https)")
}

// helperDrains: every return of hf that does not report an error is dominated by io.Copy(_, r) / ReadAll(r) on parameter r.
func helperDrains(hf *ssa.Function, r *ssa.Parameter) bool {
	var drains []ssa.CallInstruction
	for _, call := range Calls(hf) {
		cc := call.Common()
		f := cc.StaticCallee()
		if f == nil {
			continue
		}
		if FuncIs(f, "io", "Copy") && len(cc.Args) == 2 && Unwrap(cc.Args[1]) == ssa.Value(r) {
			drains = append(drains, call)
		}
		if (FuncIs(f, "io/ioutil", "ReadAll") || FuncIs(f, "io", "ReadAll")) && Unwrap(cc.Args[0]) == ssa.Value(r) {
			drains = append(drains, call)
		}
	}
	if len(drains) == 0 {
		return false
	}
	for _, ret := range Returns(hf) {
		rv := RetVals(ret)
		if len(rv) > 0 && IsErrorType(rv[len(rv)-1].Type()) && !IsNilConst(rv[len(rv)-1]) {
			continue // the caller gives the connection up
		}
		ok := false
		for _, d := range drains {
			if d.Block().Dominates(ret.Block()) {
				ok = true
			}
		}
		if !ok {
			return false
		}
	}
	return true
}
