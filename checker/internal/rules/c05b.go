package rules

import (
	"fmt"
	"strings"

	"golang.org/x/tools/go/ssa"

	. "htcheck/internal/core"
)

// c05PooledBuffers: payload bytes are exact only while the storage behind them belongs to one event/connection. A buffer
// that an object holds in a field and hands back to a sync.Pool must leave the object in the same step (the field is
// cleared on the path of the Put): otherwise a second Close/flush puts the same storage into the pool twice and two later
// connections receive the same array – one client's event then carries another client's bytes.
func c05PooledBuffers(c *Ctx) {
	p := c.P
	nPut := 0
	for _, fn := range p.Funcs() {
		rp := RelPkg(PkgOf(fn))
		if strings.HasPrefix(rp, "services/ja3") || strings.HasSuffix(p.Fset.Position(fn.Pos()).Filename, "_test.go") {
			continue
		}
		for _, call := range Calls(fn) {
			if !MethodIs(call.Common().StaticCallee(), "sync", "Pool", "Put") || len(call.Common().Args) != 2 {
				continue
			}
			nPut++
			v := Unwrap(call.Common().Args[1])
			ld, ok := isLoad(v)
			if !ok {
				c.Ok("pooled-buffer-released-once", fmt.Sprintf("%s: Pool.Put #%d", shortFn(fn), nPut), p.InstrPos(call), "returns a local that was taken from the pool in this call")
				continue
			}
			fa, ok := ld.X.(*ssa.FieldAddr)
			if !ok {
				c.Ok("pooled-buffer-released-once", fmt.Sprintf("%s: Pool.Put #%d", shortFn(fn), nPut), p.InstrPos(call), "")
				continue
			}
			key := fmt.Sprintf("%s: Pool.Put of field %s", shortFn(fn), fieldNameOf(fa))
			cleared := false
			for _, b := range fn.Blocks {
				for _, in := range b.Instrs {
					st, ok := in.(*ssa.Store)
					if !ok || !IsNilConst(st.Val) {
						continue
					}
					fa2, ok := st.Addr.(*ssa.FieldAddr)
					if !ok || fa2.Field != fa.Field || c15Root(fa2.X) != c15Root(fa.X) {
						continue
					}
					// on the Put's path: after the value was loaded, and ordered with the Put by dominance
					if before(ld, st) && (before(st, call) || before(call, st)) {
						cleared = true
					}
				}
			}
			c.Check(cleared, "pooled-buffer-released-once", key, p.InstrPos(call), "the field is cleared on the path of the Put", "the object keeps its reference to the buffer it returns to the pool: a second call (Close is called by the service and again by the server's deferred Close) puts the same buffer into the pool twice, two later connections then share it and an event records another client's bytes")
		}
	}
	c.Extra["sync_pool_put_sites"] = nPut
	if nPut == 0 {
		c.Ok("pooled-buffer-released-once", "no pooled storage in the event, listener, server and service packages", "-", "nothing is recycled through sync.Pool today; the rule arms itself on the first Put")
	}
}

// c05SerialisedUnmodified: what a channel sends is the JSON document json.Marshal produced for the snapshot, byte for
// byte. The marshalled bytes may be converted, wrapped in a message and written; handing them to a byte/string rewriting
// function (bytes.Replace, strings.*, regexp), re-slicing or patching them afterwards can turn a valid document into an
// invalid one for particular contents (an event value that already contains the text of a JSON escape), and the consumer
// loses every key of that event.
func c05SerialisedUnmodified(c *Ctx) {
	p := c.P
	const rule = "serialised-bytes-unmodified"
	n := 0
	for _, fn := range p.FuncsIn("pushers", "event") {
		if strings.HasSuffix(p.Fset.Position(fn.Pos()).Filename, "_test.go") {
			continue
		}
		for _, call := range Calls(fn) {
			cv, ok := call.(*ssa.Call)
			if !ok || !(CalleeIs(call, "encoding/json", "Marshal") || CalleeIs(call, "encoding/json", "MarshalIndent")) {
				continue
			}
			var data ssa.Value
			for _, ref := range *cv.Referrers() {
				if ex, ok := ref.(*ssa.Extract); ok && ex.Index == 0 {
					data = ex
				}
			}
			if data == nil {
				continue
			}
			n++
			bad := ""
			seen := map[ssa.Value]bool{}
			var walk func(v ssa.Value, depth int)
			walk = func(v ssa.Value, depth int) {
				if seen[v] || v.Referrers() == nil || depth > 6 || bad != "" {
					return
				}
				seen[v] = true
				for _, r := range *v.Referrers() {
					switch x := r.(type) {
					case *ssa.Convert:
						walk(x, depth+1)
					case *ssa.ChangeType:
						walk(x, depth+1)
					case *ssa.Phi:
						walk(x, depth+1)
					case *ssa.Slice:
						if x.X == v && (x.Low != nil || x.High != nil) {
							bad = p.InstrPos(x) + " re-slices the document"
						}
					case *ssa.IndexAddr:
						if x.X == v {
							for _, r2 := range *x.Referrers() {
								if st, ok := r2.(*ssa.Store); ok && st.Addr == ssa.Value(x) {
									bad = p.InstrPos(st) + " patches a byte of the document"
								}
							}
						}
					case ssa.CallInstruction:
						f := x.Common().StaticCallee()
						if f == nil {
							continue
						}
						switch PkgOf(f) {
						case "bytes", "strings", "regexp":
							switch f.Name() {
							case "Equal", "Compare", "Contains", "HasPrefix", "HasSuffix", "Index", "IndexByte", "Count", "NewReader", "NewBuffer", "NewBufferString":
							default:
								bad = p.InstrPos(x) + " passes the document to " + FuncShort(f)
							}
						}
					}
				}
			}
			walk(data, 0)
			c.Check(bad == "", rule, shortFn(fn)+" json.Marshal result", p.InstrPos(cv), "sent as produced", "the marshalled event is rewritten after json.Marshal ("+bad+"): for events whose values contain the affected byte sequences the result is no longer the JSON document of the snapshot (it may not parse at all), and the consumer loses the event's keys")
		}
	}
	c.Floor(rule, 2, "kafka run, rabbitmq/pulsar Send")
}
