package rules

import (
	"fmt"
	"go/token"
	"go/types"

	"golang.org/x/tools/go/ssa"

	. "htcheck/internal/core"
	"htcheck/internal/zone"
)

func init() { Registry["C08"] = c08 }

const serverPath = ModPath + "/server"

// leaves follows phis / interface wraps and returns the leaf values.
func leaves(v ssa.Value) []ssa.Value {
	var out []ssa.Value
	seen := map[ssa.Value]bool{}
	var rec func(v ssa.Value)
	rec = func(v ssa.Value) {
		v = Unwrap(v)
		if seen[v] {
			return
		}
		seen[v] = true
		if ph, ok := v.(*ssa.Phi); ok {
			for _, e := range ph.Edges {
				rec(e)
			}
			return
		}
		if ld, ok := v.(*ssa.UnOp); ok && ld.Op == token.MUL {
			if a, ok := ld.X.(*ssa.Alloc); ok {
				if sv := StoredValues(a); len(sv) > 0 {
					for _, e := range sv {
						rec(e)
					}
					return
				}
			}
		}
		out = append(out, v)
	}
	rec(v)
	return out
}

func c08(c *Ctx) {
	p := c.P
	c.Explanation = "Static check of the service-selection mechanism (all configurations/inputs/paths): peek typestate in the selector (once bytes were peeked, " +
		"every successful return hands out the peeking connection, never the raw one; Peek at most once; the detector sees exactly the peeked bytes), " +
		"selection order (ascending range over the port's configured list, first acceptor returns, single-candidate shortcut, nil service on no candidate/no match), " +
		"replay in peekConnection.Read/Peek (buffer served first, re-sliced by the copied count, Peek stores a private copy of exactly p[:n]), hand-over in the dispatcher " +
		"(Handle gets the selector's connection wrapped by the idle timeout; nil service returns before Handle; the accepted connection is closed on every exit), " +
		"compareAddr's accept conditions, timeoutConn delegating with the caller's buffer. Does not decide whether a detector sees enough bytes in a short first read."
	c.Assume("net.Conn implementations of the listeners return the client's bytes in order (trusted)")
	c.Assume("a detector (CanHandle) is a pure predicate on the peeked prefix")

	find := p.Method("server", "Honeytrap", "findService")
	if !c.Anchor(find != nil, "selector", "(*server.Honeytrap).findService") {
		return
	}
	peekT := p.Type("server", "peekConnection")
	peek := p.Method("server", "peekConnection", "Peek")
	pread := p.Method("server", "peekConnection", "Read")
	if !c.Anchor(peekT != nil && peek != nil && pread != nil, "selector", "server.peekConnection with Peek and Read") {
		return
	}
	c08Selector(c, find, peek, peekT)
	c08Peek(c, peek, pread, peekT)
	c08Dispatcher(c, find)
	c08CompareAddr(c)
	c08TimeoutConn(c)
	c08ReadKeepsRemainder(c)
	c08ListenerOwnVariables(c)
	c08DetectorPresence(c)
	decodeTargetsFresh(c, "entry-struct-fresh")
	// at most one entry of the port table matches a connection: a definition that is compatible with an earlier one is
	// not entered (shared with C19), otherwise the selector picks among overlapping entries by map order
	c19Run(c)
	// a datagram connection owns the bytes it was built from: the listeners do not hand out a view of a receive buffer they
	// read the next datagram into (shared with C03/C04) – otherwise the selector peeks, and the service reads, another client's bytes
	c04DatagramBuffers(c)
}

func c08Selector(c *Ctx, find, peek *ssa.Function, peekT *types.Named) {
	p := c.P
	var connParam *ssa.Parameter
	for _, q := range find.Params {
		if q.Name() != "hc" && types.TypeString(q.Type(), nil) == "net.Conn" {
			connParam = q
		}
	}
	if !c.Anchor(connParam != nil, "selector", "findService's net.Conn parameter") {
		return
	}
	// events: calls of Peek
	var peeks []ssa.Instruction
	var canHandles []*ssa.Call
	// a helper of the package that does the peeking for the selector (wraps the connection, calls Peek once outside any
	// loop, returns the peeking connection and the peeked bytes): its call is the peek event
	peekHelper := map[ssa.Instruction]*ssa.Call{} // helper call in findService -> the Peek call inside the helper
	for _, call := range Calls(find) {
		if call.Common().StaticCallee() == peek {
			peeks = append(peeks, call)
		}
		if hf := call.Common().StaticCallee(); hf != nil && hf != peek && InRepo(hf) && hf.Blocks != nil && PkgOf(hf) == PkgOf(find) {
			var inner []*ssa.Call
			for _, c2 := range Calls(hf) {
				if cv, ok := c2.(*ssa.Call); ok && c2.Common().StaticCallee() == peek {
					inner = append(inner, cv)
				}
			}
			if cv, isCall := call.(*ssa.Call); isCall && len(inner) == 1 && !InLoop(inner[0].Block()) {
				peeks = append(peeks, call)
				peekHelper[cv] = inner[0]
			}
		}
		if call.Common().IsInvoke() && call.Common().Method.Name() == "CanHandle" {
			if cv, ok := call.(*ssa.Call); ok {
				canHandles = append(canHandles, cv)
			}
		}
	}
	c.Check(len(peeks) >= 1, "peek-present", "findService calls Peek", p.Pos(find.Pos()), "", "the selector no longer peeks: detectors cannot be consulted without consuming the stream")
	after := map[*ssa.BasicBlock]bool{}
	if len(peeks) > 0 {
		var start []*ssa.BasicBlock
		for _, e := range peeks {
			start = append(start, e.Block().Succs...)
		}
		after = ReachBlocks(start, nil, nil)
		for _, e := range peeks {
			after[e.Block()] = true
		}
	}
	// peek connection values: results of PeekConnection / allocations of peekConnection
	isPeekConn := func(v ssa.Value) bool {
		return NamedOf(v.Type()) == peekT
	}
	// (1) typestate on returns
	nret := 0
	for i, r := range Returns(find) {
		if len(r.Results) != 3 {
			continue
		}
		key := fmt.Sprintf("findService return[%d]", i)
		svc, cn := RetVals(r)[0], RetVals(r)[1]
		if IsNilConst(svc) {
			c.Check(IsNilConst(cn), "no-service-no-conn", key, p.InstrPos(r), "nil service returned with nil connection", "a nil service is returned together with a live connection")
			continue
		}
		nret++
		for _, lf := range leaves(cn) {
			switch {
			case isPeekConn(lf) && !IsNilConst(lf):
				c.Ok("peek-typestate", key+" conn="+RenderN(lf, 3), p.InstrPos(r), "returns the peeking connection")
			case IsNilConst(lf):
				// the not-yet-peeked value of the cell; whether it can reach this return is a correlated-flag question not decided here
			default:
				// raw connection (or a wrapper of it that is not the peek connection)
				if !after[r.Block()] {
					c.Ok("peek-typestate", key+" conn="+RenderN(lf, 3), p.InstrPos(r), "raw connection returned on a path where nothing was peeked")
					continue
				}
				ok := false
				var via string
				for _, dc := range DomConds(r) {
					if ImpliesNotYet(dc, r, peeks) {
						ok = true
						via = RenderConds([]Cond{dc})[0]
					}
				}
				if ok {
					c.Ok("peek-typestate", key+" conn="+RenderN(lf, 3), p.InstrPos(r), "raw connection returned under guard "+via+" which implies nothing was peeked yet")
				} else {
					c.Violate("peek-typestate", key+" conn="+RenderN(lf, 3), p.InstrPos(r), "this return is reachable after Peek consumed the client's first bytes (a detector-bearing service rejected earlier in the scan) yet hands the service the raw connection: the peeked bytes are lost to the chosen service")
				}
			}
		}
	}
	c.Floor("peek-typestate", 3, "single-candidate, detector-less, detector-accepts returns")

	// (2) Peek at most once: each Peek call is guarded by a condition implying no Peek yet
	for i, pk := range peeks {
		key := fmt.Sprintf("findService Peek[%d]", i)
		inLoop := InLoop(pk.Block())
		if !inLoop && len(peeks) == 1 {
			c.Ok("peek-once", key, p.InstrPos(pk), "single Peek outside any loop")
			continue
		}
		ok := false
		for _, dc := range DomConds(pk) {
			if ImpliesNotYet(dc, pk, peeks) {
				ok = true
			}
		}
		c.Check(ok, "peek-once", key, p.InstrPos(pk), "guarded by a monotone not-yet-peeked cell", "Peek can execute more than once per connection (or after another Peek) without a not-yet-peeked guard: later detectors would see a different buffer prefix than the one replayed")
	}

	// (3) the detector sees exactly buffer[:n] of the Peek; it is asked on an element of the candidates in range order; true edge returns that element
	for i, ch := range canHandles {
		key := fmt.Sprintf("findService CanHandle[%d]", i)
		arg := ch.Call.Args[0]
		sl, ok := arg.(*ssa.Slice)
		okArg := false
		why := "argument is not a slice of the peek buffer"
		if ok && sl.Low == nil && sl.High != nil {
			// buffer identity: same base as the Peek argument
			for _, pk := range peeks {
				pa := pk.(*ssa.Call).Call.Args[1]
				if sliceBase(pa) == sliceBase(sl.X) {
					// n: leaves are Peek's result #0 (or the initial 0 before any peek, which cannot reach here if peek guards hold)
					good := true
					for _, lf := range leaves(sl.High) {
						if ex, ok := lf.(*ssa.Extract); ok && ex.Index == 0 && ex.Tuple == ssa.Value(pk.(*ssa.Call)) {
							continue
						}
						if n, isC := ConstInt(lf); isC && n == 0 {
							continue
						}
						good = false
						why = "length of the detector's view is not Peek's byte count: " + Render(lf)
					}
					okArg = good
				}
			}
		}
		if !okArg && len(peekHelper) > 0 {
			// CanHandle(payload) with payload = result #k of the peeking helper, which returns buffer[:n] of its own Peek
			good := len(leaves(arg)) > 0
			for _, lf := range leaves(arg) {
				if IsNilConst(lf) {
					continue // the not-yet-peeked value of the cell (cannot reach here when the peek guard holds)
				}
				ex, isEx := lf.(*ssa.Extract)
				if !isEx {
					good = false
					continue
				}
				hc, _ := ex.Tuple.(*ssa.Call)
				inner := peekHelper[hc]
				if hc == nil || inner == nil {
					good = false
					continue
				}
				hf := hc.Call.StaticCallee()
				for _, r := range Returns(hf) {
					rv := RetVals(r)
					if ex.Index >= len(rv) || IsNilConst(rv[ex.Index]) {
						continue
					}
					s2, isSl := rv[ex.Index].(*ssa.Slice)
					okR := isSl && s2.Low == nil && s2.High != nil && sliceBase(s2.X) == sliceBase(inner.Call.Args[1])
					if okR {
						e2, isE2 := s2.High.(*ssa.Extract)
						okR = isE2 && e2.Index == 0 && e2.Tuple == ssa.Value(inner)
					}
					if !okR {
						good = false
						why = "the peeking helper " + shortFn(hf) + " does not return buffer[:n] of its Peek: " + Render(rv[ex.Index])
					}
				}
			}
			if good {
				okArg = true
			}
		}
		c.Check(okArg, "detector-sees-peeked-bytes", key, p.InstrPos(ch), "CanHandle(buffer[:n]) with n = Peek's count", why)
		// true edge leads to a return of the same element
		recvElem := detectorElement(ch)
		okRet := false
		if blk := ch.Block(); len(blk.Instrs) > 0 {
			if iff, ok := blk.Instrs[len(blk.Instrs)-1].(*ssa.If); ok {
				atom, pol0 := condAtom(iff.Cond)
				if atom == ssa.Value(ch) {
					idx := 0
					if !pol0 {
						idx = 1
					}
					tb := blk.Succs[idx]
					if len(tb.Instrs) > 0 {
						if r, ok := tb.Instrs[len(tb.Instrs)-1].(*ssa.Return); ok && len(r.Results) == 3 && recvElem != nil && RetVals(r)[0] == recvElem {
							okRet = true
						}
					}
				}
			}
		}
		c.Check(okRet, "first-acceptor-returns", key, p.InstrPos(ch), "accepting detector immediately returns its own service", "an accepting detector does not immediately return the service it belongs to (first-match semantics broken)")
		// element is cands[rangeindex] ascending
		c.Check(recvElem != nil && isAscendingRangeElem(recvElem), "scan-in-configured-order", key, p.InstrPos(ch), "candidates scanned by ascending range over the configured slice", "the candidate whose detector is consulted is not the element of an ascending range over the configured service list")
	}
	c.Floor("detector-sees-peeked-bytes", 1, "one CanHandle site")

	// (4) candidate list comes from hc.ports matched by compareAddr against the connection's LOCAL address
	c08Candidates(c, "candidates-by-local-addr", find)

	// (5) single-candidate shortcut and detector-less immediate return: a return of (elem, raw conn) exists whose DomConds contain len(cands)==1
	short := false
	for _, r := range Returns(find) {
		if len(r.Results) != 3 || IsNilConst(RetVals(r)[0]) {
			continue
		}
		for _, dc := range DomConds(r) {
			if b, ok := dc.V.(*ssa.BinOp); ok && b.Op == token.EQL && dc.Pol {
				if n, isC := ConstInt(b.Y); isC && n == 1 {
					if call, ok := b.X.(*ssa.Call); ok {
						if bi, ok := call.Call.Value.(*ssa.Builtin); ok && bi.Name() == "len" {
							el := Render(RetVals(r)[0])
							short = el == Render(call.Call.Args[0])+"[0]" && !after[r.Block()]
						}
					}
				}
			}
		}
	}
	c.Check(short, "single-candidate-shortcut", "findService", p.Pos(find.Pos()), "len(candidates)==1 returns candidates[0] without peeking", "no return of candidates[0] under len(candidates)==1 before any Peek: a port's only service must get the connection without detection")
}

// sliceBase strips Slice operations to the underlying array/alloc.
func sliceBase(v ssa.Value) ssa.Value {
	for {
		if s, ok := v.(*ssa.Slice); ok {
			v = s.X
			continue
		}
		return v
	}
}

// detectorElement: for ch = invoke X.CanHandle where X = typeassert(elem.Service) returns elem (the *ServiceMap value).
func detectorElement(ch *ssa.Call) ssa.Value {
	v := ch.Call.Value
	if ex, ok := v.(*ssa.Extract); ok {
		v = ex.Tuple
	}
	ta, ok := v.(*ssa.TypeAssert)
	if !ok {
		return nil
	}
	ld, ok := ta.X.(*ssa.UnOp)
	if !ok {
		return nil
	}
	fa, ok := ld.X.(*ssa.FieldAddr)
	if !ok {
		return nil
	}
	return fa.X
}

// isAscendingRangeElem: v = *(&s[i]) with i = phi(-1, i)+1 (go/ssa's lowering of `for _, x := range s`)
// or i = phi(0, i+1).
func isAscendingRangeElem(v ssa.Value) bool {
	ld, ok := v.(*ssa.UnOp)
	if !ok || ld.Op != token.MUL {
		return false
	}
	ia, ok := ld.X.(*ssa.IndexAddr)
	if !ok {
		return false
	}
	return isAscendingIndex(ia.Index)
}

func isAscendingIndex(idx ssa.Value) bool {
	switch x := idx.(type) {
	case *ssa.BinOp:
		if x.Op != token.ADD {
			return false
		}
		if n, ok := ConstInt(x.Y); !ok || n != 1 {
			return false
		}
		ph, ok := x.X.(*ssa.Phi)
		if !ok {
			return false
		}
		ninit := 0
		for _, e := range ph.Edges {
			if e == ssa.Value(x) {
				continue
			}
			if n, ok := ConstInt(e); ok && n == -1 {
				ninit++
				continue
			}
			return false
		}
		return ninit == 1
	case *ssa.Phi:
		ninit := 0
		for _, e := range x.Edges {
			if n, ok := ConstInt(e); ok && n == 0 {
				ninit++
				continue
			}
			if b, ok := e.(*ssa.BinOp); ok && b.Op == token.ADD && b.X == ssa.Value(x) {
				if n, ok := ConstInt(b.Y); ok && n == 1 {
					continue
				}
			}
			return false
		}
		return ninit == 1
	}
	return false
}

func c08Peek(c *Ctx, peek, pread *ssa.Function, peekT *types.Named) {
	p := c.P
	st := peekT.Underlying().(*types.Struct)
	bufIdx, connIdx := -1, -1
	for i := 0; i < st.NumFields(); i++ {
		if sl, ok := st.Field(i).Type().(*types.Slice); ok && types.Identical(sl.Elem(), types.Typ[types.Byte]) {
			bufIdx = i
		}
		if st.Field(i).Embedded() {
			connIdx = i
		}
	}
	if bufIdx < 0 && connIdx >= 0 {
		// form B: a bytes.Buffer as the replay store
		for i := 0; i < st.NumFields(); i++ {
			if n := NamedOf(st.Field(i).Type()); n != nil && n.Obj().Pkg() != nil && n.Obj().Pkg().Path() == "bytes" && n.Obj().Name() == "Buffer" {
				c08PeekFormB(c, peek, pread, i)
				c.Floor("peek-replay", 2, "Peek write, Read replay")
				c.Floor("replay-before-delegate", 2, "delegate guard + buffer")
				c.Floor("replay-count", 2, "two return arms")
				c08PeekLocked(c, peek, pread)
				return
			}
		}
	}
	if bufIdx < 0 && connIdx >= 0 {
		// a fixed-size replay store ([N]byte with offsets): whatever Peek reads off the socket has to fit into it
		arrIdx := -1
		for i := 0; i < st.NumFields(); i++ {
			if ar, ok := st.Field(i).Type().(*types.Array); ok && types.Identical(ar.Elem(), types.Typ[types.Byte]) {
				arrIdx = i
			}
		}
		if arrIdx >= 0 {
			pr := zone.New(peek)
			nc := 0
			for _, call := range Calls(peek) {
				cv, ok := call.(*ssa.Call)
				if !ok {
					continue
				}
				o, ok := pr.CopyObligation(cv)
				if !ok {
					continue
				}
				nc++
				good, why := pr.Prove(o, cv)
				c.Check(good, "peek-replay", fmt.Sprintf("Peek keeps all it read (copy #%d into the fixed store)", nc), p.InstrPos(cv), "the bytes read always fit into the replay store",
					"Peek reads up to len(p) bytes off the socket but copy() keeps only what fits into the fixed-size replay store ("+why+"): the bytes beyond it were shown to the detectors and are gone for the chosen service, whose requests after that point are lost or merged")
			}
			c.Undecided("peek-replay", "fixed-size replay store", p.Pos(peek.Pos()), "the replay store is an array with offsets; the offset bookkeeping of Peek/Read is not analysed by this rule (slice form expected)")
			return
		}
	}
	if !c.Anchor(bufIdx >= 0 && connIdx >= 0, "peek-replay", "peekConnection buffer and embedded conn fields") {
		return
	}
	offIdx := offsetFieldOf(pread, st)
	isBufLoad := func(v ssa.Value, fn *ssa.Function) bool {
		ld, ok := v.(*ssa.UnOp)
		if !ok || ld.Op != token.MUL {
			return false
		}
		fa, ok := ld.X.(*ssa.FieldAddr)
		return ok && fa.Field == bufIdx && fa.X == ssa.Value(fn.Params[0])
	}
	// every store to the buffer field anywhere in the program
	nstores := 0
	for _, fn := range p.Funcs() {
		for _, b := range fn.Blocks {
			for _, in := range b.Instrs {
				s, ok := in.(*ssa.Store)
				if !ok {
					continue
				}
				fa, ok := s.Addr.(*ssa.FieldAddr)
				if !ok || fa.Field != bufIdx || NamedOf(fa.X.Type()) != peekT {
					continue
				}
				nstores++
				key := shortFn(fn) + " stores peekConnection.buffer"
				switch fn {
				case peek:
					// must be append(pc.buffer, p[:n]...) where n = Conn.Read(p)#0 and p the parameter: a private copy of exactly the bytes read
					okS := false
					why := "stored value is not append(pc.buffer, p[:n]...): " + Render(s.Val)
					if call, ok := s.Val.(*ssa.Call); ok {
						if bi, ok := call.Call.Value.(*ssa.Builtin); ok && bi.Name() == "append" && len(call.Call.Args) == 2 && isBufLoad(call.Call.Args[0], fn) {
							if sl, ok := call.Call.Args[1].(*ssa.Slice); ok && sl.X == ssa.Value(fn.Params[1]) && sl.Low == nil && sl.High != nil && sl.Max == nil {
								if ex, ok := sl.High.(*ssa.Extract); ok && ex.Index == 0 {
									if rc, ok := ex.Tuple.(*ssa.Call); ok && rc.Call.IsInvoke() && rc.Call.Method.Name() == "Read" && len(rc.Call.Args) == 1 && rc.Call.Args[0] == ssa.Value(fn.Params[1]) {
										okS = true
									} else {
										why = "the count is not the delegate Read(p)'s byte count"
									}
								}
							}
						}
					}
					c.Check(okS, "peek-replay", key, p.InstrPos(s), "Peek appends a copy of exactly p[:n]", why+" (storing the caller's slice aliases a buffer the caller may reuse; a different count loses or invents bytes)")
				case pread:
					// must be pc.buffer[bn:] with bn = copy(p, pc.buffer)
					okS := false
					if sl, ok := s.Val.(*ssa.Slice); ok && isBufLoad(sl.X, fn) && sl.High == nil && sl.Low != nil {
						if call, ok := sl.Low.(*ssa.Call); ok {
							if bi, ok := call.Call.Value.(*ssa.Builtin); ok && bi.Name() == "copy" && call.Call.Args[0] == ssa.Value(fn.Params[1]) && isBufLoad(call.Call.Args[1], fn) {
								okS = true
							}
						}
					}
					c.Check(okS, "peek-replay", key, p.InstrPos(s), "Read drops exactly the copied prefix", "Read does not re-slice the buffer by the number of bytes copied to the caller: "+Render(s.Val))
				default:
					if fn.Name() == "PeekConnection" || fn.Name() == "init" {
						c.Ok("peek-replay", key, p.InstrPos(s), "constructor")
					} else {
						c.Violate("peek-replay", key, p.InstrPos(s), "peekConnection.buffer is written outside Peek/Read/constructor")
					}
				}
			}
		}
	}
	c.Floor("peek-replay", 2, "Peek append, Read re-slice")
	if offIdx >= 0 {
		// form O: the slice is kept whole and Read advances an offset
		c08PeekFormO(c, pread, bufIdx, offIdx)
		c.Floor("replay-before-delegate", 2, "delegate guard + buffer")
		c.Floor("replay-count", 2, "two return arms")
		c08PeekLocked(c, peek, pread)
		return
	}
	// Read: delegate only when the buffer is empty; buffered arm returns (copied count, nil)
	for _, call := range Calls(pread) {
		cc := call.Common()
		if cc.IsInvoke() && cc.Method.Name() == "Read" {
			ok := false
			for _, dc := range DomConds(call) {
				bo, isB := dc.V.(*ssa.BinOp)
				if !isB {
					continue
				}
				lx, isLen := isLenOf(bo.X)
				k, isK := ConstInt(bo.Y)
				if !isLen || !isK || k != 0 || !isBufLoad(lx, pread) {
					continue
				}
				if (bo.Op == token.GTR && !dc.Pol) || (bo.Op == token.EQL && dc.Pol) || (bo.Op == token.NEQ && !dc.Pol) || (bo.Op == token.LEQ && dc.Pol) {
					ok = true
				}
			}
			c.Check(ok, "replay-before-delegate", "peekConnection.Read delegate", p.InstrPos(call), "underlying Read only when no peeked bytes remain", "Read reaches the underlying connection while peeked bytes may remain (order of the stream broken)")
			c.Check(len(cc.Args) == 1 && cc.Args[0] == ssa.Value(pread.Params[1]), "replay-before-delegate", "peekConnection.Read delegate buffer", p.InstrPos(call), "", "delegate Read does not fill the caller's buffer")
		}
	}
	c.Floor("replay-before-delegate", 2, "delegate guard + buffer")
	for i, r := range Returns(pread) {
		key := fmt.Sprintf("peekConnection.Read return[%d]", i)
		if len(r.Results) != 2 {
			continue
		}
		for _, lf := range leaves(RetVals(r)[0]) {
			s := Render(lf)
			ok := false
			switch x := lf.(type) {
			case *ssa.Call:
				if bi, isB := x.Call.Value.(*ssa.Builtin); isB && bi.Name() == "copy" && x.Call.Args[0] == ssa.Value(pread.Params[1]) && isBufLoad(x.Call.Args[1], pread) {
					ok = true
				}
			case *ssa.Extract:
				if rc, isC := x.Tuple.(*ssa.Call); isC && x.Index == 0 && rc.Call.IsInvoke() && rc.Call.Method.Name() == "Read" && len(rc.Call.Args) == 1 && rc.Call.Args[0] == ssa.Value(pread.Params[1]) {
					ok = true
				}
			}
			c.Check(ok, "replay-count", key, p.InstrPos(r), "returned count = "+s, "Read returns a count that is neither the copied nor the delegate's count: "+s)
		}
	}
	c.Floor("replay-count", 2, "two return arms")
	c08PeekLocked(c, peek, pread)
}

// c08PeekLocked: Peek and Read hold pc.m (Lock at entry, deferred Unlock)
func c08PeekLocked(c *Ctx, peek, pread *ssa.Function) {
	p := c.P
	for _, fn := range []*ssa.Function{peek, pread} {
		lock, unlock := false, false
		for _, call := range Calls(fn) {
			f := call.Common().StaticCallee()
			if (MethodIs(f, "sync", "Mutex", "Lock") || MethodIs(f, "sync", "RWMutex", "Lock")) && call.Block() == fn.Blocks[0] {
				lock = true
			}
			if _, isDefer := call.(*ssa.Defer); isDefer && MethodIs(f, "sync", "Mutex", "Unlock") {
				unlock = true
			}
		}
		c.Check(lock && unlock, "peek-locked", shortFn(fn), p.Pos(fn.Pos()), "holds pc.m for the whole call", "no longer holds the peek mutex for the whole call: a concurrent Read during Peek can split the buffer")
	}
}

func c08Dispatcher(c *Ctx, find *ssa.Function) {
	p := c.P
	// the dispatcher = in-repo functions in package server that invoke Servicer.Handle
	n := 0
	for _, fn := range p.FuncsIn("server") {
		for _, call := range Calls(fn) {
			cc := call.Common()
			if !cc.IsInvoke() || cc.Method.Name() != "Handle" || NamedOf(cc.Value.Type()) == nil || NamedOf(cc.Value.Type()).Obj().Name() != "Servicer" {
				continue
			}
			n++
			key := shortFn(fn) + " Service.Handle"
			// conn argument: TimeoutConn(findService(conn)#1)
			arg := cc.Args[1]
			s := Render(arg)
			okArg := false
			var fcall *ssa.Call
			if tc, ok := arg.(*ssa.Call); ok && FuncIs(tc.Call.StaticCallee(), serverPath, "TimeoutConn") {
				if ex, ok := tc.Call.Args[0].(*ssa.Extract); ok && ex.Index == 1 {
					if fc, ok := ex.Tuple.(*ssa.Call); ok && fc.Call.StaticCallee() == find {
						okArg = true
						fcall = fc
					}
				}
			}
			c.Check(okArg, "handover", key+" conn", p.InstrPos(call), "Handle receives TimeoutConn(selector's connection)", "Handle's connection is not the selector's returned connection wrapped by the idle timeout: "+s)
			if fcall == nil {
				continue
			}
			// service: field Service of findService#0; must be dominated by sm != nil
			okSvc := false
			for _, dc := range DomConds(call) {
				r := Render(dc.V)
				if (r == "("+Render(fcall)+"#0 == nil)" && !dc.Pol) || (r == "("+Render(fcall)+"#0 != nil)" && dc.Pol) {
					okSvc = true
				}
			}
			c.Check(okSvc, "handover", key+" nil-service guard", p.InstrPos(call), "Handle only under service != nil", "Handle is reachable with a nil service (no port/detector matched)")
			rs := Render(cc.Value)
			c.Check(rs == Render(fcall)+"#0.Service", "handover", key+" service", p.InstrPos(call), "the selected service handles the connection", "the service invoked is not the selector's choice: "+rs)
			// findService gets the accepted conn
			c.Check(Deref(fcall.Call.Args[1]) == ssa.Value(fn.Params[1]), "handover", key+" selector input", p.InstrPos(fcall), "", "the selector is not given the accepted connection")
			// deferred Close of the accepted conn in the entry block, before the selector
			closed := false
			for _, in := range fn.Blocks[0].Instrs {
				if d, ok := in.(*ssa.Defer); ok && d.Call.IsInvoke() && d.Call.Method.Name() == "Close" && Deref(d.Call.Value) == ssa.Value(fn.Params[1]) {
					closed = true
				}
				if in == ssa.Instruction(fcall) {
					break
				}
			}
			c.Check(closed, "handover", key+" deferred close", p.Pos(fn.Pos()), "accepted connection closed on every exit", "no `defer conn.Close()` before service selection: unmatched connections stay open")
		}
	}
	c.Floor("handover", 5, "one dispatcher with 5 checks")
}

func c08CompareAddr(c *Ctx) {
	p := c.P
	fn := p.Func("server", "compareAddr")
	if !c.Anchor(fn != nil, "compare-addr", "server.compareAddr") {
		return
	}
	ntrue := 0
	for i, r := range Returns(fn) {
		k, ok := RetVals(r)[0].(*ssa.Const)
		if _, viaPhi := RetVals(r)[0].(*ssa.Phi); viaPhi {
			// a boolean expression: `return ok && a1.Port == a2.Port && (a1.IP == nil || a2.IP == nil || a1.IP.Equal(a2.IP))`,
			// possibly with the IP part in a helper – decided leaf by leaf with the conditions of each leaf's edge
			kind, why := c08CompareExpr(fn, r)
			if why == "" {
				ntrue++
				key := fmt.Sprintf("compareAddr return-true[%d]", ntrue)
				c.Ok("compare-addr", key+" same-kind", p.InstrPos(r), "both addresses asserted to "+kind)
				c.Ok("compare-addr", key+" equal-ports", p.InstrPos(r), "every accepting leaf is under equal ports")
				c.Ok("compare-addr", key+" ip-compatible", p.InstrPos(r), "every accepting leaf is `an IP is unspecified` or `IPs equal`")
			} else {
				c.Violate("compare-addr", fmt.Sprintf("compareAddr return[%d]", i), p.InstrPos(r), "the accepting expression does not decide `same kind, equal ports, IPs equal or one unspecified`: "+why)
			}
			continue
		}
		if !ok {
			// the tail of an arm delegated to a helper: return sameIPAndPort(a1.IP, a1.Port, a2.IP, a2.Port)
			if hc, isCall := RetVals(r)[0].(*ssa.Call); isCall {
				if kind, why := c08CompareTail(fn, r, hc); why == "" {
					ntrue++
					key := fmt.Sprintf("compareAddr return-true[%d]", ntrue)
					c.Ok("compare-addr", key+" same-kind", p.InstrPos(r), "both addresses asserted to "+kind)
					c.Ok("compare-addr", key+" equal-ports", p.InstrPos(r), "ports compared equal in "+FuncShort(hc.Call.StaticCallee()))
					c.Ok("compare-addr", key+" ip-compatible", p.InstrPos(r), "true only via `an IP is unspecified` or `IPs equal` in "+FuncShort(hc.Call.StaticCallee()))
					continue
				} else {
					c.Violate("compare-addr", fmt.Sprintf("compareAddr return[%d]", i), p.InstrPos(r), "the accepting arm is delegated to a helper that does not decide `same kind, equal ports, IPs equal or one unspecified`: "+why)
					continue
				}
			}
			c.Violate("compare-addr", fmt.Sprintf("compareAddr return[%d]", i), p.InstrPos(r), "non-constant result: "+Render(r.Results[0]))
			continue
		}
		if k.Value.String() != "true" {
			continue
		}
		ntrue++
		key := fmt.Sprintf("compareAddr return-true[%d]", ntrue)
		conds := DomConds(r)
		rs := RenderConds(conds)
		has := func(s string) bool {
			for _, x := range rs {
				if x == s {
					return true
				}
			}
			return false
		}
		var kind string
		switch {
		case has("p0.(*net.TCPAddr)#1") && has("p1.(*net.TCPAddr)#1"):
			kind = "TCPAddr"
		case has("p0.(*net.UDPAddr)#1") && has("p1.(*net.UDPAddr)#1"):
			kind = "UDPAddr"
		}
		c.Check(kind != "", "compare-addr", key+" same-kind", p.InstrPos(r), "both addresses asserted to "+kind, "`true` without both addresses being the same concrete kind: "+fmt.Sprint(rs))
		if kind == "" {
			continue
		}
		a := "p0.(*net." + kind + ")#0"
		b := "p1.(*net." + kind + ")#0"
		c.Check(has("!("+a+".Port != "+b+".Port)") || has("("+a+".Port == "+b+".Port)"), "compare-addr", key+" equal-ports", p.InstrPos(r), "ports equal", "`true` without the ports being compared equal: "+fmt.Sprint(rs))
		// IP: on every path to this return, either an IP is nil or !IP.Equal is false.  CFG check: delete the edges (IP==nil true) ×2 and (Equal true); return must be unreachable from entry.
		enabling := func(bb *ssa.BasicBlock, idx int) bool {
			if len(bb.Instrs) == 0 {
				return true
			}
			iff, ok := bb.Instrs[len(bb.Instrs)-1].(*ssa.If)
			if !ok {
				return true
			}
			atom, pol0 := condAtom(iff.Cond)
			trueIdx := 0
			if !pol0 {
				trueIdx = 1
			}
			// the IP of one of the two asserted addresses
			isIPOf := func(v ssa.Value) bool {
				x, ok := isFieldLoadNamed(v, "IP")
				if !ok {
					return false
				}
				ex, ok := x.(*ssa.Extract)
				if !ok || ex.Index != 0 {
					return false
				}
				ta, ok := ex.Tuple.(*ssa.TypeAssert)
				return ok && (ta.X == ssa.Value(fn.Params[0]) || ta.X == ssa.Value(fn.Params[1]))
			}
			switch x := atom.(type) {
			case *ssa.BinOp:
				if (x.Op == token.EQL || x.Op == token.NEQ) && ((isIPOf(x.X) && IsNilConst(x.Y)) || (isIPOf(x.Y) && IsNilConst(x.X))) {
					nilIdx := trueIdx // edge on which the IP is nil
					if x.Op == token.NEQ {
						nilIdx = 1 - trueIdx
					}
					return idx != nilIdx
				}
			case *ssa.Call:
				if f := x.Call.StaticCallee(); f != nil && f.Name() == "Equal" && len(x.Call.Args) == 2 && isIPOf(x.Call.Args[0]) && isIPOf(x.Call.Args[1]) {
					return idx != trueIdx // delete the edge on which the IPs are equal
				}
			}
			return true
		}
		reach := InstrReach(fn, enabling, nil)
		c.Check(!reach(r), "compare-addr", key+" ip-compatible", p.InstrPos(r), "reachable only via `an IP is unspecified` or `IPs equal`", "`true` is reachable although both IPs are set and differ (address part of the port match ignored)")
	}
	c.Check(ntrue == 2, "compare-addr", "compareAddr true-returns", p.Pos(fn.Pos()), "two accepting arms (tcp, udp)", fmt.Sprintf("expected exactly the TCP and the UDP accepting arm, found %d", ntrue))
}

func c08TimeoutConn(c *Ctx) {
	p := c.P
	for _, m := range []struct{ name, dl string }{{"Read", "SetReadDeadline"}, {"Write", "SetWriteDeadline"}} {
		fn := p.Method("server", "timeoutConn", m.name)
		if !c.Anchor(fn != nil, "timeout-conn", "(*server.timeoutConn)."+m.name) {
			continue
		}
		var deleg, dl *ssa.Call
		for _, call := range Calls(fn) {
			cc := call.Common()
			if cc.IsInvoke() && cc.Method.Name() == m.name {
				deleg, _ = call.(*ssa.Call)
			}
			if cc.IsInvoke() && cc.Method.Name() == m.dl {
				dl, _ = call.(*ssa.Call)
			}
		}
		key := "timeoutConn." + m.name
		if !c.Check(deleg != nil, "timeout-conn", key+" delegates", p.Pos(fn.Pos()), "", "does not delegate to the wrapped connection") {
			continue
		}
		c.Check(len(deleg.Call.Args) == 1 && deleg.Call.Args[0] == ssa.Value(fn.Params[1]) && Render(deleg.Call.Value) == "p0.Conn", "timeout-conn", key+" same buffer", p.InstrPos(deleg), "delegates with the caller's buffer to the wrapped conn", "delegate call does not pass the caller's buffer to the wrapped connection")
		// every return value is the delegate's or (0, err) of the deadline call
		for i, r := range Returns(fn) {
			s0 := Render(RetVals(r)[0])
			ok := s0 == Render(deleg)+"#0" || s0 == "0"
			c.Check(ok, "timeout-conn", fmt.Sprintf("%s return[%d]", key, i), p.InstrPos(r), "count = delegate's (or 0 on deadline error)", "returned count is not the delegate's: "+s0)
		}
		// deadline set before delegating: the deadline call dominates the delegate and its argument is time.Now().Add(timeout field)
		okDl := dl != nil && dl.Block().Dominates(deleg.Block())
		if okDl {
			okDl = c08NowPlusField(dl.Call.Args[0], fn, 0)
		}
		c.Check(okDl, "timeout-conn", key+" deadline", p.Pos(fn.Pos()), "deadline now+timeout set before every delegate call", "the idle deadline is not (re)armed with now+timeout before delegating")
	}
}

// c08CompareTail: compareAddr returns hc = helper(ipA, portA, ipB, portB) on an arm where both addresses were asserted to
// the same concrete kind; the helper yields true only for equal ports and IPs that are equal or of which one is unset.
// Returns the kind and "" when that holds, otherwise the reason.
func c08CompareTail(fn *ssa.Function, r *ssa.Return, hc *ssa.Call) (string, string) {
	hf := hc.Call.StaticCallee()
	if hf == nil || !InRepo(hf) || hf.Blocks == nil || hf.Signature.Results().Len() != 1 {
		return "", "not a call of an in-repo function"
	}
	rs := RenderConds(DomConds(r))
	has := func(s string) bool {
		for _, x := range rs {
			if x == s {
				return true
			}
		}
		return false
	}
	kind := ""
	switch {
	case has("p0.(*net.TCPAddr)#1") && has("p1.(*net.TCPAddr)#1"):
		kind = "TCPAddr"
	case has("p0.(*net.UDPAddr)#1") && has("p1.(*net.UDPAddr)#1"):
		kind = "UDPAddr"
	}
	if kind == "" {
		return "", "the helper is called without both addresses having been asserted to the same kind: " + fmt.Sprint(rs)
	}
	// which side (0/1) and which field each argument is
	type role struct {
		side  int
		field string
	}
	roles := map[int]role{}
	for i, a := range hc.Call.Args {
		for _, f := range []string{"IP", "Port"} {
			x, ok := isFieldLoadNamed(a, f)
			if !ok {
				continue
			}
			ex, ok := x.(*ssa.Extract)
			if !ok || ex.Index != 0 {
				continue
			}
			ta, ok := ex.Tuple.(*ssa.TypeAssert)
			if !ok {
				continue
			}
			switch ta.X {
			case ssa.Value(fn.Params[0]):
				roles[i] = role{0, f}
			case ssa.Value(fn.Params[1]):
				roles[i] = role{1, f}
			}
		}
	}
	parOf := func(side int, field string) *ssa.Parameter {
		for i, ro := range roles {
			if ro.side == side && ro.field == field && i < len(hf.Params) {
				return hf.Params[i]
			}
		}
		return nil
	}
	ip0, ip1, pt0, pt1 := parOf(0, "IP"), parOf(1, "IP"), parOf(0, "Port"), parOf(1, "Port")
	if ip0 == nil || ip1 == nil || pt0 == nil || pt1 == nil {
		return "", "the helper is not given the IP and port of both addresses"
	}
	pair := func(x, y ssa.Value, a, b *ssa.Parameter) bool {
		return (x == ssa.Value(a) && y == ssa.Value(b)) || (x == ssa.Value(b) && y == ssa.Value(a))
	}
	portsEqual := func(at ssa.Instruction) bool {
		for _, dc := range DomConds(at) {
			if bo, ok := dc.V.(*ssa.BinOp); ok && pair(bo.X, bo.Y, pt0, pt1) {
				if (bo.Op == token.EQL && dc.Pol) || (bo.Op == token.NEQ && !dc.Pol) {
					return true
				}
			}
		}
		return false
	}
	enabling := func(bb *ssa.BasicBlock, idx int) bool {
		if len(bb.Instrs) == 0 {
			return true
		}
		iff, ok := bb.Instrs[len(bb.Instrs)-1].(*ssa.If)
		if !ok {
			return true
		}
		atom, pol0 := condAtom(iff.Cond)
		trueIdx := 0
		if !pol0 {
			trueIdx = 1
		}
		isIP := func(v ssa.Value) bool { return v == ssa.Value(ip0) || v == ssa.Value(ip1) }
		switch x := atom.(type) {
		case *ssa.BinOp:
			if (x.Op == token.EQL || x.Op == token.NEQ) && ((isIP(x.X) && IsNilConst(x.Y)) || (isIP(x.Y) && IsNilConst(x.X))) {
				nilIdx := trueIdx
				if x.Op == token.NEQ {
					nilIdx = 1 - trueIdx
				}
				return idx != nilIdx
			}
		case *ssa.Call:
			if f := x.Call.StaticCallee(); f != nil && f.Name() == "Equal" && len(x.Call.Args) == 2 && pair(x.Call.Args[0], x.Call.Args[1], ip0, ip1) {
				return idx != trueIdx
			}
		}
		return true
	}
	reach := InstrReach(hf, enabling, nil)
	accepting := 0
	for _, hr := range Returns(hf) {
		v := RetVals(hr)[0]
		if k, isK := v.(*ssa.Const); isK {
			if k.Value.String() != "true" {
				continue
			}
			accepting++
			if !portsEqual(hr) {
				return "", "the helper returns true at " + hr.Parent().Prog.Fset.Position(hr.Pos()).String() + " without the ports having been compared equal"
			}
			if reach(hr) {
				return "", "the helper returns true although both IPs are set and differ"
			}
			continue
		}
		// return ip1.Equal(ip2)
		if ec, isC := v.(*ssa.Call); isC {
			if f := ec.Call.StaticCallee(); f != nil && f.Name() == "Equal" && len(ec.Call.Args) == 2 && pair(ec.Call.Args[0], ec.Call.Args[1], ip0, ip1) && portsEqual(hr) {
				accepting++
				continue
			}
		}
		return "", "the helper's result `" + RenderN(v, 3) + "` is neither a constant nor IP equality under equal ports"
	}
	if accepting == 0 {
		return "", "the helper never accepts"
	}
	return kind, ""
}

// c08CompareExpr: the return value of r in compareAddr is a short-circuit expression (a phi). Every leaf that can be true
// must sit under: both addresses asserted to the same kind, equal ports, and be itself `an IP is nil` (a true constant on
// an edge where that holds), `ipA.Equal(ipB)`, or a helper of (ipA, ipB) that is true only in those two cases.
func c08CompareExpr(fn *ssa.Function, r *ssa.Return) (string, string) {
	sideField := func(v ssa.Value, field string) int {
		x, ok := isFieldLoadNamed(v, field)
		if !ok {
			return -1
		}
		ex, ok := x.(*ssa.Extract)
		if !ok || ex.Index != 0 {
			return -1
		}
		ta, ok := ex.Tuple.(*ssa.TypeAssert)
		if !ok {
			return -1
		}
		switch ta.X {
		case ssa.Value(fn.Params[0]):
			return 0
		case ssa.Value(fn.Params[1]):
			return 1
		}
		return -1
	}
	isIPPair := func(a, b ssa.Value) bool {
		sa, sb := sideField(a, "IP"), sideField(b, "IP")
		return sa >= 0 && sb >= 0 && sa != sb
	}
	kindOf := func(rs []string) string {
		has := func(s string) bool {
			for _, x := range rs {
				if x == s {
					return true
				}
			}
			return false
		}
		switch {
		case has("p0.(*net.TCPAddr)#1") && has("p1.(*net.TCPAddr)#1"):
			return "TCPAddr"
		case has("p0.(*net.UDPAddr)#1") && has("p1.(*net.UDPAddr)#1"):
			return "UDPAddr"
		}
		return ""
	}
	portsEqual := func(conds []Cond) bool {
		for _, dc := range conds {
			if bo, ok := dc.V.(*ssa.BinOp); ok {
				sx, sy := sideField(bo.X, "Port"), sideField(bo.Y, "Port")
				if sx >= 0 && sy >= 0 && sx != sy && ((bo.Op == token.EQL && dc.Pol) || (bo.Op == token.NEQ && !dc.Pol)) {
					return true
				}
			}
		}
		return false
	}
	ipNil := func(conds []Cond) bool {
		for _, dc := range conds {
			if bo, ok := dc.V.(*ssa.BinOp); ok && IsNilConst(bo.Y) && sideField(bo.X, "IP") >= 0 {
				if (bo.Op == token.EQL && dc.Pol) || (bo.Op == token.NEQ && !dc.Pol) {
					return true
				}
			}
		}
		return false
	}
	kind := ""
	accepting := 0
	for _, lf := range phiLeaves(RetVals(r)[0]) {
		if k, ok := lf.v.(*ssa.Const); ok && k.Value != nil && k.Value.String() == "false" {
			continue
		}
		conds := condsOnLeaf(lf, r)
		kd := kindOf(RenderConds(conds))
		if kd == "" {
			return "", "a leaf that can be true (`" + RenderN(lf.v, 3) + "`) is not under both addresses being the same kind"
		}
		if kind != "" && kind != kd {
			return "", "one expression mixes kinds"
		}
		kind = kd
		if !portsEqual(conds) {
			return "", "a leaf that can be true (`" + RenderN(lf.v, 3) + "`) is not under equal ports"
		}
		switch x := lf.v.(type) {
		case *ssa.Const:
			if !ipNil(conds) {
				return "", "`true` on an edge where neither IP is known to be unset"
			}
		case *ssa.Call:
			cal := x.Call.StaticCallee()
			switch {
			case cal != nil && cal.Name() == "Equal" && len(x.Call.Args) == 2 && isIPPair(x.Call.Args[0], x.Call.Args[1]):
			case cal != nil && InRepo(cal) && cal.Blocks != nil && len(x.Call.Args) == 2 && isIPPair(x.Call.Args[0], x.Call.Args[1]):
				if why := c08IPHelper(cal); why != "" {
					return "", why
				}
			default:
				return "", "a leaf that can be true is `" + RenderN(x, 3) + "`, not an IP comparison of the two addresses"
			}
		default:
			return "", "a leaf that can be true is `" + RenderN(lf.v, 3) + "`"
		}
		accepting++
	}
	if accepting == 0 {
		return "", "the expression never accepts"
	}
	return kind, ""
}

// c08IPHelper: hf(ipA, ipB) is true only when one of them is nil or they are Equal.
func c08IPHelper(hf *ssa.Function) string {
	if len(hf.Params) != 2 {
		return "the IP helper does not take the two IPs"
	}
	a, b := ssa.Value(hf.Params[0]), ssa.Value(hf.Params[1])
	pair := func(x, y ssa.Value) bool { return (x == a && y == b) || (x == b && y == a) }
	for _, r := range Returns(hf) {
		for _, lf := range phiLeaves(RetVals(r)[0]) {
			conds := condsOnLeaf(lf, r)
			switch x := lf.v.(type) {
			case *ssa.Const:
				if x.Value != nil && x.Value.String() == "false" {
					continue
				}
				okNil := false
				for _, dc := range conds {
					if bo, ok := dc.V.(*ssa.BinOp); ok && IsNilConst(bo.Y) && (bo.X == a || bo.X == b) {
						if (bo.Op == token.EQL && dc.Pol) || (bo.Op == token.NEQ && !dc.Pol) {
							okNil = true
						}
					}
				}
				// `if ip1 == nil || ip2 == nil { return true }`: the disjunction is a phi of the two tests
				for _, dc := range conds {
					if ph, ok := dc.V.(*ssa.Phi); ok && dc.Pol {
						all := true
						for _, e := range ph.Edges {
							if k, isK := e.(*ssa.Const); isK && k.Value != nil && k.Value.String() == "true" {
								continue
							}
							bo, isB := e.(*ssa.BinOp)
							if !(isB && bo.Op == token.EQL && IsNilConst(bo.Y) && (bo.X == a || bo.X == b)) {
								all = false
							}
						}
						if all {
							okNil = true
						}
					}
				}
				if !okNil && lf.pred == nil {
					// `if ip1 == nil || ip2 == nil { return true }` compiled to two tests leading to one return: with the edges
					// "an IP is nil" and "IPs equal" deleted the return must be unreachable
					enabling := func(bb *ssa.BasicBlock, idx int) bool {
						if len(bb.Instrs) == 0 {
							return true
						}
						iff, ok := bb.Instrs[len(bb.Instrs)-1].(*ssa.If)
						if !ok {
							return true
						}
						atom, pol0 := condAtom(iff.Cond)
						trueIdx := 0
						if !pol0 {
							trueIdx = 1
						}
						switch y := atom.(type) {
						case *ssa.BinOp:
							if (y.Op == token.EQL || y.Op == token.NEQ) && IsNilConst(y.Y) && (y.X == a || y.X == b) {
								nilIdx := trueIdx
								if y.Op == token.NEQ {
									nilIdx = 1 - trueIdx
								}
								return idx != nilIdx
							}
						case *ssa.Call:
							if cal := y.Call.StaticCallee(); cal != nil && cal.Name() == "Equal" && len(y.Call.Args) == 2 && pair(y.Call.Args[0], y.Call.Args[1]) {
								return idx != trueIdx
							}
						}
						return true
					}
					if !InstrReach(hf, enabling, nil)(r) {
						okNil = true
					}
				}
				if !okNil {
					return "the IP helper answers true on a path where neither IP is known to be unset"
				}
			case *ssa.Call:
				if cal := x.Call.StaticCallee(); cal == nil || cal.Name() != "Equal" || len(x.Call.Args) != 2 || !pair(x.Call.Args[0], x.Call.Args[1]) {
					return "the IP helper's result `" + RenderN(x, 3) + "` is not Equal of its two IPs"
				}
			default:
				return "the IP helper's result `" + RenderN(lf.v, 3) + "` is neither a constant nor Equal"
			}
		}
	}
	return ""
}

// c08NowPlusField: v is time.Now().Add(d) computed at this very call, with d a duration field of fn's receiver (the
// configured idle timeout) – directly or through a helper `deadlineIn(d) = time.Now().Add(d)`.
func c08NowPlusField(v ssa.Value, fn *ssa.Function, depth int) bool {
	call, ok := v.(*ssa.Call)
	if !ok || depth > 1 {
		return false
	}
	isTimeoutField := func(x ssa.Value) bool {
		ld, ok := isLoad(x)
		if !ok {
			return false
		}
		fa, ok := ld.X.(*ssa.FieldAddr)
		if !ok || fa.X != ssa.Value(fn.Params[0]) {
			return false
		}
		n := NamedOf(ld.Type())
		return n != nil && n.Obj().Pkg() != nil && n.Obj().Pkg().Path() == "time" && n.Obj().Name() == "Duration"
	}
	cal := call.Call.StaticCallee()
	if MethodIs(cal, "time", "Time", "Add") && len(call.Call.Args) == 2 {
		now, isNow := call.Call.Args[0].(*ssa.Call)
		return isNow && CalleeIs(now, "time", "Now") && isTimeoutField(call.Call.Args[1])
	}
	// helper(d): its single result is time.Now().Add(<its parameter>)
	if cal != nil && InRepo(cal) && cal.Blocks != nil && len(cal.Params) == 1 && len(call.Call.Args) == 1 && isTimeoutField(call.Call.Args[0]) {
		rets := Returns(cal)
		if len(rets) != 1 {
			return false
		}
		inner, ok := RetVals(rets[0])[0].(*ssa.Call)
		if !ok || !MethodIs(inner.Call.StaticCallee(), "time", "Time", "Add") || len(inner.Call.Args) != 2 {
			return false
		}
		now, isNow := inner.Call.Args[0].(*ssa.Call)
		return isNow && CalleeIs(now, "time", "Now") && inner.Call.Args[1] == ssa.Value(cal.Params[0])
	}
	return false
}
