package rules

import (
	"fmt"
	"go/token"
	"go/types"
	"sort"
	"strings"

	"golang.org/x/tools/go/ssa"

	. "htcheck/internal/core"
)

// c13ParsedHelloImmutable: what JA3 reports is what clientHelloMsg.unmarshal parsed only if nothing rewrites the parsed
// hello afterwards. In the forked TLS stack the JA3 source fields of a clientHelloMsg that was not built in the very
// function (a received hello) may be written by unmarshal alone; neither the field nor the elements of its list may be
// stored to, and the list may not be appended to through a re-slice (x = f[:0]; append(x, …) writes f's backing array).
func c13ParsedHelloImmutable(c *Ctx) {
	p := c.P
	src := map[string]bool{"vers": true, "cipherSuites": true, c13ExtField(c.P): true, "supportedCurves": true, "supportedPoints": true, "serverName": true}
	isHelloField := func(v ssa.Value) (*ssa.FieldAddr, bool) {
		fa, ok := v.(*ssa.FieldAddr)
		if !ok {
			return nil, false
		}
		n := NamedOf(fa.X.Type())
		if n == nil || n.Obj().Name() != "clientHelloMsg" || !src[fieldNameOf(fa)] {
			return nil, false
		}
		return fa, true
	}
	// derives: v is (a re-slice of) a list loaded from a JA3 source field of a received hello
	var derives func(v ssa.Value, d int) (*ssa.FieldAddr, bool)
	derives = func(v ssa.Value, d int) (*ssa.FieldAddr, bool) {
		if d > 5 {
			return nil, false
		}
		switch x := v.(type) {
		case *ssa.Slice:
			return derives(x.X, d+1)
		case *ssa.Phi:
			for _, e := range x.Edges {
				if fa, ok := derives(e, d+1); ok {
					return fa, true
				}
			}
		case *ssa.Call:
			if bi, ok := x.Call.Value.(*ssa.Builtin); ok && bi.Name() == "append" {
				return derives(x.Call.Args[0], d+1)
			}
		case *ssa.UnOp:
			if fa, ok := isHelloField(x.X); ok {
				if _, fresh := fa.X.(*ssa.Alloc); !fresh {
					return fa, true
				}
			}
		}
		return nil, false
	}
	umParts := map[*ssa.Function]bool{}
	if um0 := p.Method(tlsRel, "clientHelloMsg", "unmarshal"); um0 != nil {
		for _, part := range c13UnmarshalParts(um0) {
			umParts[part] = true
		}
	}
	n, reads := 0, 0
	for _, fn := range p.FuncsIn(tlsRel) {
		if strings.HasSuffix(p.Fset.Position(fn.Pos()).Filename, "_test.go") {
			continue
		}
		isUnmarshal := umParts[fn]
		for _, b := range fn.Blocks {
			for _, in := range b.Instrs {
				switch x := in.(type) {
				case *ssa.UnOp:
					if _, ok := isHelloField(x.X); ok {
						reads++
					}
				case *ssa.Store:
					if fa, ok := isHelloField(x.Addr); ok {
						if _, fresh := fa.X.(*ssa.Alloc); fresh || isUnmarshal {
							continue // a hello being built here (client side) or being parsed
						}
						n++
						c.Violate("parsed-hello-immutable", fmt.Sprintf("store to clientHelloMsg.%s in %s", fieldNameOf(fa), shortFn(fn)), p.InstrPos(x), "the received ClientHello's "+fieldNameOf(fa)+" is overwritten after parsing: the JA3 string is then computed from something other than what the client sent")
						continue
					}
					if ia, ok := x.Addr.(*ssa.IndexAddr); ok && !isUnmarshal {
						if fa, ok := derives(ia.X, 0); ok {
							n++
							c.Violate("parsed-hello-immutable", fmt.Sprintf("element store into clientHelloMsg.%s in %s", fieldNameOf(fa), shortFn(fn)), p.InstrPos(x), "an element of the received ClientHello's "+fieldNameOf(fa)+" list is overwritten after parsing")
						}
					}
				case *ssa.Call:
					if bi, ok := x.Call.Value.(*ssa.Builtin); ok && bi.Name() == "append" && !isUnmarshal {
						if fa, ok := derives(x.Call.Args[0], 0); ok {
							n++
							c.Violate("parsed-hello-immutable", fmt.Sprintf("append through clientHelloMsg.%s in %s", fieldNameOf(fa), shortFn(fn)), p.InstrPos(x), "a (re-sliced) view of the received ClientHello's "+fieldNameOf(fa)+" list is appended to: the elements are written into the parsed list's backing array, so the JA3 list no longer is what the client sent")
						}
					}
				}
			}
		}
	}
	c.Check(reads >= 10, "parsed-hello-immutable", "reads of the parsed hello's JA3 source fields examined", "-", fmt.Sprintf("%d reads, %d writes outside unmarshal", reads, n), "the JA3 source fields of clientHelloMsg were not found (renamed?)")
}

// c13ListsFromWire: inside clientHelloMsg.unmarshal the JA3 list fields are either reset (nil), allocated with make and
// filled from the message bytes, appended to, or a slice of the message itself. A list built from constants (a composite
// literal such as []uint8{0} standing in for an absent extension) makes JA3 report something the client did not send,
// and makes hellos that differ on the wire collide on one digest.
func c13ListsFromWire(c *Ctx) {
	p := c.P
	um := p.Method(tlsRel, "clientHelloMsg", "unmarshal")
	if !c.Anchor(um != nil, "ja3-lists-from-wire", "(*tls.clientHelloMsg).unmarshal") {
		return
	}
	lists := map[string]bool{"cipherSuites": true, "supportedCurves": true, "supportedPoints": true, c13ExtField(c.P): true}
	n := 0
	umTop := um
	for _, um := range c13UnmarshalParts(umTop) {
		for _, b := range um.Blocks {
			for _, in := range b.Instrs {
				st, ok := in.(*ssa.Store)
				if !ok {
					continue
				}
				fa, ok := st.Addr.(*ssa.FieldAddr)
				if !ok || !lists[fieldNameOf(fa)] || c15Root(fa.X) != ssa.Value(um.Params[0]) {
					continue
				}
				n++
				key := fmt.Sprintf("unmarshal stores %s #%d", fieldNameOf(fa), n)
				okV, why := false, ""
				switch x := st.Val.(type) {
				case *ssa.Const:
					okV = x.IsNil()
				case *ssa.MakeSlice:
					okV = true
				case *ssa.Call:
					if bi, isB := x.Call.Value.(*ssa.Builtin); isB && bi.Name() == "append" {
						okV = true
					} else {
						okV = c13HelperList(x, um)
					}
				case *ssa.Slice:
					if a, isA := x.X.(*ssa.Alloc); isA {
						why = "a list literal (" + a.Comment + ") with constant elements"
					} else if bufBase(x) == ssa.Value(um.Params[1]) {
						okV = true
					}
				case *ssa.Phi:
					okV = true // merges of the above forms are checked at their own stores
				case *ssa.Extract:
					if hc, isC := x.Tuple.(*ssa.Call); isC && x.Index == 0 {
						okV = c13HelperList(hc, um)
					}
				}
				if !okV && why == "" {
					why = RenderN(st.Val, 3)
				}
				c.Check(okV, "ja3-lists-from-wire", key, p.InstrPos(st), "nil, make+fill, append, or a slice of the message bytes", "the parsed hello's "+fieldNameOf(fa)+" is set to "+why+" rather than to what the message carries: JA3 then prints values the client never sent (an absent or empty list becomes a non-empty one)")
			}
		}
	}
	c.Check(n >= 4, "ja3-lists-from-wire", "list stores in unmarshal found", p.Pos(um.Pos()), fmt.Sprint(n), "fewer stores to the JA3 list fields in unmarshal than known")
}

// c13HelperList: the call decodes a list from a slice of the message in a helper: every list the helper returns is nil or
// made in that call (its elements are checked by the fill-site rule).
func c13HelperList(hc *ssa.Call, um *ssa.Function) bool {
	hf := hc.Call.StaticCallee()
	if hf == nil || !InRepo(hf) || hf.Blocks == nil {
		return false
	}
	fromMsg := false
	var derives func(v ssa.Value, d int, seen map[ssa.Value]bool) bool
	derives = func(v ssa.Value, d int, seen map[ssa.Value]bool) bool {
		if v == ssa.Value(um.Params[1]) {
			return true
		}
		if d > 12 || seen[v] {
			return false
		}
		seen[v] = true
		switch x := v.(type) {
		case *ssa.Slice:
			return derives(x.X, d+1, seen)
		case *ssa.Phi:
			for _, e := range x.Edges {
				if !derives(e, d+1, seen) && !seen[e] {
					return false
				}
			}
			return true
		}
		return false
	}
	for _, a := range hc.Call.Args {
		if derives(a, 0, map[ssa.Value]bool{}) {
			fromMsg = true
		}
	}
	if !fromMsg || len(Returns(hf)) == 0 {
		return false
	}
	for _, r := range Returns(hf) {
		v0 := Deref(RetVals(r)[0])
		if k, isK := v0.(*ssa.Const); isK && k.IsNil() {
			continue
		}
		if _, isMk := v0.(*ssa.MakeSlice); isMk {
			continue
		}
		// a named result: every value assigned to it is nil or made here
		okNamed := false
		if ld, isLd := isLoad(v0); isLd {
			if a, isA := ld.X.(*ssa.Alloc); isA {
				okNamed = true
				for _, sv := range StoredValues(a) {
					if k, isK := sv.(*ssa.Const); isK && k.IsNil() {
						continue
					}
					if _, isMk := sv.(*ssa.MakeSlice); !isMk {
						okNamed = false
					}
				}
			}
		}
		if !okNamed {
			return false
		}
	}
	return true
}

// c13HelloCallbackAlwaysRuns: the https service takes the JA3 digest inside the tls.Config callback. The vendored
// stack calls Config.GetCertificate only when len(Config.Certificates) == 0 or the hello names a server, so the digest
// is taken for every hello only while the service leaves Certificates empty; GetConfigForClient runs unconditionally.
func c13HelloCallbackAlwaysRuns(c *Ctx) {
	c.Explanation += " The digest-taking callback is installed where the vendored stack calls it for every hello (GetCertificate with Certificates left empty), and the https handlers send on the channel field the effective SetChannel sets."
	p := c.P
	h := p.Method("services", "httpsService", "Handle")
	if h == nil {
		return // anchored by https-event-fields
	}
	const rule = "hello-callback-always-runs"
	n := 0
	for _, mc := range MakeClosures(h) {
		cf := mc.Fn.(*ssa.Function)
		if len(cf.Params) != 1 || NamedOf(cf.Params[0].Type()) == nil || NamedOf(cf.Params[0].Type()).Obj().Name() != "ClientHelloInfo" {
			continue
		}
		// where is the closure installed?
		for _, ref := range *mc.Referrers() {
			st, ok := ref.(*ssa.Store)
			if !ok {
				continue
			}
			fa, ok := st.Addr.(*ssa.FieldAddr)
			if !ok {
				continue
			}
			n++
			fname := fieldNameOf(fa)
			key := "callback installed as Config." + fname
			// the closure writes this connection's variables: the Config it sits in must be this connection's own
			own := false
			switch x := fa.X.(type) {
			case *ssa.Alloc:
				own = true
			case *ssa.Call:
				if f := x.Call.StaticCallee(); f != nil && f.Name() == "Clone" {
					own = true
				}
			}
			c.Check(own, "hello-callback-own-config", key, p.InstrPos(st), "the Config is built in Handle for this connection", "the callback that takes this connection's digest and server name is stored into a tls.Config that was not built for this connection (`"+RenderN(fa.X, 3)+"`): every connection of the service overwrites the same slot, so when two overlap the earlier one's hello runs the later one's closure – its own events carry an empty https.ja3-digest and server name, and the other connection gets them")
			switch fname {
			case "GetConfigForClient":
				c.Ok(rule, key, p.InstrPos(st), "called for every ClientHello")
			case "GetCertificate":
				// every store to Certificates of the same Config object must be empty
				bad := ""
				if fa.X.Referrers() != nil {
					for _, r2 := range *fa.X.Referrers() {
						fa2, ok := r2.(*ssa.FieldAddr)
						if !ok || fieldNameOf(fa2) != "Certificates" || fa2.Referrers() == nil {
							continue
						}
						for _, r3 := range *fa2.Referrers() {
							if s2, ok := r3.(*ssa.Store); ok && s2.Addr == ssa.Value(fa2) && !emptySlice(s2.Val) {
								bad = p.InstrPos(s2) + " `" + RenderN(s2.Val, 3) + "`"
							}
						}
					}
				}
				c.Check(bad == "", rule, key, p.InstrPos(st), "Config.Certificates stays empty, so the stack consults GetCertificate for every hello (with or without SNI)", "the same tls.Config is given a Certificates list that is not provably empty ("+bad+"): the vendored stack then calls GetCertificate only for hellos that carry a server name, so a hello without SNI never reaches the callback and its events carry an empty https.ja3-digest")
			default:
				c.Violate(rule, key, p.InstrPos(st), "the closure that takes the JA3 digest is installed in a Config field that is not called for every ClientHello")
			}
		}
	}
	c.Floor(rule, 1, "GetCertificate closure of httpsService.Handle")
	// premise: the vendored getCertificate still consults the callback under that condition only
	gc := p.Method("services/ja3/crypto/tls", "Config", "getCertificate")
	if c.Anchor(gc != nil, rule, "vendored (*tls.Config).getCertificate") {
		called := false
		for _, call := range Calls(gc) {
			if v, ok := call.Common().Value.(*ssa.UnOp); ok {
				if fa, ok := v.X.(*ssa.FieldAddr); ok && fieldNameOf(fa) == "GetCertificate" {
					called = true
				}
			}
		}
		c.Check(called, rule, "vendored getCertificate calls Config.GetCertificate", p.Pos(gc.Pos()), "", "the vendored stack no longer calls the GetCertificate callback")
	}
}

// emptySlice: the value is a nil slice or a slice of provably zero length.
func emptySlice(v ssa.Value) bool {
	switch x := v.(type) {
	case *ssa.Const:
		return x.IsNil()
	case *ssa.Slice:
		if pt, ok := x.X.Type().Underlying().(*types.Pointer); ok {
			if at, ok := pt.Elem().Underlying().(*types.Array); ok && at.Len() == 0 {
				return true
			}
		}
		if x.High != nil {
			if k, ok := ConstInt(x.High); ok && k == 0 {
				return true
			}
		}
	case *ssa.MakeSlice:
		if k, ok := ConstInt(x.Len); ok && k == 0 {
			return true
		}
	}
	return false
}

// c13HelloFresh: premise of hello-message-fresh made visible – where the forked stack creates the clientHelloMsg it
// parses a received hello into: a fresh allocation (nothing to reset), or a pooled object (checked above).
func c13HelloFresh(c *Ctx) {
	p := c.P
	n := 0
	for _, fn := range p.FuncsIn("services/ja3/crypto/tls") {
		if strings.HasSuffix(p.Fset.Position(fn.Pos()).Filename, "_test.go") || fn.Name() != "readHandshake" {
			continue
		}
		for _, b := range fn.Blocks {
			for _, in := range b.Instrs {
				if a, ok := in.(*ssa.Alloc); ok && a.Heap {
					if nt := NamedOf(a.Type()); nt != nil && nt.Obj().Name() == "clientHelloMsg" {
						n++
						c.Ok("hello-message-fresh", "readHandshake parses a received hello into a new clientHelloMsg", p.InstrPos(a), "fresh allocation per hello")
					}
				}
			}
		}
	}
	if n == 0 {
		c.Observe("hello-message-fresh", "readHandshake parses a received hello into a new clientHelloMsg", "-", "no fresh allocation found in readHandshake: the message object comes from elsewhere (a pool is checked field by field)")
	}
}

// c13HandshakeMessageWhole: a ClientHello may arrive spread over any number of records. readHandshake takes the
// message out of the reassembly buffer with hand.Next(k); on the way there the buffer must have been filled to at least
// that same k (the loop `for hand.Len() < k { readRecord }`, inline or in a helper whose bound is its argument).
// bytes.Buffer.Next silently returns fewer bytes when fewer are buffered: with a smaller fill bound a hello whose last
// record boundary falls into the difference is parsed truncated, rejected, and never reaches the fingerprinting callback.
func c13HandshakeMessageWhole(c *Ctx) {
	p := c.P
	const rule = "handshake-message-whole"
	fn := p.Method("services/ja3/crypto/tls", "Conn", "readHandshake")
	if !c.Anchor(fn != nil && fn.Blocks != nil, rule, "(*tls.Conn).readHandshake") {
		return
	}
	isBufCall := func(v ssa.Value, name string) (*ssa.Call, bool) {
		cv, ok := v.(*ssa.Call)
		if !ok {
			return nil, false
		}
		f := cv.Call.StaticCallee()
		if f == nil || !MethodIs(f, "bytes", "Buffer", name) {
			return nil, false
		}
		return cv, true
	}
	// lenAtLeast: the condition says recv.Len() >= bound; returns (recv, bound)
	lenAtLeast := func(dc Cond) (string, ssa.Value, bool) {
		bo, ok := dc.V.(*ssa.BinOp)
		if !ok {
			return "", nil, false
		}
		if lc, ok := isBufCall(bo.X, "Len"); ok {
			if (bo.Op == token.LSS && !dc.Pol) || (bo.Op == token.GEQ && dc.Pol) {
				return Render(lc.Call.Args[0]), bo.Y, true
			}
		}
		if lc, ok := isBufCall(bo.Y, "Len"); ok {
			if (bo.Op == token.GTR && !dc.Pol) || (bo.Op == token.LEQ && dc.Pol) {
				return Render(lc.Call.Args[0]), bo.X, true
			}
		}
		return "", nil, false
	}
	n := 0
	for _, call := range Calls(fn) {
		nx, ok := isBufCall(valueOf(call), "Next")
		if !ok {
			continue
		}
		n++
		recv, k := Render(nx.Call.Args[0]), nx.Call.Args[1]
		var have []string
		good := false
		for _, dc := range DomConds(nx) {
			// (a) inline: the exit condition of the fill loop
			if r, y, ok := lenAtLeast(dc); ok && r == recv {
				have = append(have, Render(y))
				if Render(y) == Render(k) {
					good = true
				}
			}
			// (b) a helper: err := c.fill(y); err == nil here, and the helper returns nil only once Len() >= its parameter
			bo, ok := dc.V.(*ssa.BinOp)
			if !ok || !IsNilConst(bo.Y) || !((bo.Op == token.NEQ && !dc.Pol) || (bo.Op == token.EQL && dc.Pol)) {
				continue
			}
			hc, ok := bo.X.(*ssa.Call)
			if !ok {
				continue
			}
			hf := hc.Call.StaticCallee()
			if hf == nil || !InRepo(hf) || hf.Blocks == nil || hf.Signature.Results().Len() != 1 {
				continue
			}
			for pi, prm := range hf.Params {
				all := true
				nNil := 0
				for _, r := range Returns(hf) {
					if !IsNilConst(RetVals(r)[0]) {
						continue
					}
					nNil++
					okR := false
					for _, d2 := range DomConds(r) {
						if _, y, ok := lenAtLeast(d2); ok && y == ssa.Value(prm) {
							okR = true
						}
					}
					if !okR {
						all = false
					}
				}
				if all && nNil > 0 && pi < len(hc.Call.Args) {
					y := hc.Call.Args[pi]
					have = append(have, Render(y)+" (via "+shortFn(hf)+")")
					if Render(y) == Render(k) {
						good = true
					}
				}
			}
		}
		c.Check(good, rule, fmt.Sprintf("readHandshake hand.Next #%d", n), p.InstrPos(nx), "the buffer was filled to the same length that is taken out",
			"the message is taken out with Next("+Render(k)+") but the reassembly only guarantees "+fmt.Sprint(have)+" buffered bytes: Next silently returns a shorter slice, so a hello whose last record boundary falls into the difference is parsed truncated and rejected – no fingerprint, no server name, handshake-failed for a well-formed hello")
	}
	c.Floor(rule, 1, "the message extraction of readHandshake")
}

func valueOf(call ssa.CallInstruction) ssa.Value {
	if v, ok := call.(ssa.Value); ok {
		return v
	}
	return nil
}

// c13RefusalsBeforeCallback: the https service learns the fingerprint and the server name only inside the certificate
// callback, which the vendored readClientHello calls after a few checks on the hello. A hello that one of those checks
// turns down is reported without digest and server name. The checks that precede the callback today test the offered
// version, the renegotiation extension and the compression methods; the rule freezes that
// set: no early return on the way to the callback may depend on any other field of the ClientHello. Moving a later
// refusal (fallback SCSV, cipher suites, ...) in front of the callback takes the fingerprint away from exactly the hellos
// it refuses.
func c13RefusalsBeforeCallback(c *Ctx) {
	p := c.P
	const rule = "refusals-before-callback"
	fn := p.Method("services/ja3/crypto/tls", "serverHandshakeState", "readClientHello")
	gc := p.Method("services/ja3/crypto/tls", "Config", "getCertificate")
	if !c.Anchor(fn != nil && gc != nil && fn.Blocks != nil, rule, "(*tls.serverHandshakeState).readClientHello and (*tls.Config).getCertificate") {
		return
	}
	var cb ssa.Instruction
	for _, call := range Calls(fn) {
		if call.Common().StaticCallee() == gc {
			cb = call
		}
	}
	if !c.Anchor(cb != nil, rule, "the getCertificate call of readClientHello") {
		return
	}
	allowed := map[string]bool{"vers": true, "secureRenegotiation": true, "compressionMethods": true}
	// fields of the parsed hello a value is computed from
	var fieldsOf func(v ssa.Value, depth int, seen map[ssa.Value]bool, out map[string]bool)
	fieldsOf = func(v ssa.Value, depth int, seen map[ssa.Value]bool, out map[string]bool) {
		if v == nil || depth > 8 || seen[v] {
			return
		}
		seen[v] = true
		if fa, ok := v.(*ssa.FieldAddr); ok {
			if n := NamedOf(fa.X.Type()); n != nil && n.Obj().Name() == "clientHelloMsg" {
				out[fieldNameOf(fa)] = true
			}
		}
		if in, ok := v.(ssa.Instruction); ok {
			for _, op := range in.Operands(nil) {
				if op != nil && *op != nil {
					fieldsOf(*op, depth+1, seen, out)
				}
			}
		}
	}
	// returns that can be reached without having passed the callback
	stop := func(in ssa.Instruction) bool { return in == cb }
	reach := InstrReachFrom(fn, fn.Blocks[0].Instrs[0], nil, stop)
	n := 0
	for i, r := range Returns(fn) {
		if !reach(r) && r.Block() != fn.Blocks[0] {
			continue
		}
		rv := RetVals(r)
		if len(rv) != 2 || IsNilConst(rv[1]) {
			continue
		}
		n++
		used := map[string]bool{}
		for _, dc := range DomConds(r) {
			fieldsOf(dc.V, 0, map[ssa.Value]bool{}, used)
		}
		var bad []string
		for f := range used {
			if !allowed[f] {
				bad = append(bad, f)
			}
		}
		sort.Strings(bad)
		c.Check(len(bad) == 0, rule, fmt.Sprintf("readClientHello refusal[%d] before the callback", i), p.InstrPos(r), "depends only on the offered version, renegotiation extension or compression methods",
			"this refusal is reached before the certificate callback and depends on the ClientHello field(s) "+strings.Join(bad, ", ")+": the hellos it turns down never reach the callback in which the https service takes the JA3 digest and the server name, so their handshake-failed events carry empty fingerprint fields")
	}
	c.Floor(rule, 3, "refusals of readClientHello that precede the callback")
}

// c13ExtensionListComplete: the JA3 extension section lists every extension type of the hello in wire order, repeated
// types included. The parser collects them with one append per extension header it reads; that append must run for every
// iteration that gets past the length checks – a condition on anything else (a "seen before" table, the type itself)
// leaves types out of the list and the digest is that of a different hello.
func c13ExtensionListComplete(c *Ctx) {
	p := c.P
	const rule = "extension-list-complete"
	um := p.Method("services/ja3/crypto/tls", "clientHelloMsg", "unmarshal")
	if !c.Anchor(um != nil && um.Blocks != nil, rule, "(*tls.clientHelloMsg).unmarshal") {
		return
	}
	n := 0
	// unmarshal and the methods of the message it hands the extension block to
	scope := []*ssa.Function{um}
	for _, call := range Calls(um) {
		if hf := call.Common().StaticCallee(); hf != nil && hf != um && InRepo(hf) && hf.Blocks != nil && PkgOf(hf) == PkgOf(um) {
			scope = append(scope, hf)
		}
	}
	var appends []ssa.CallInstruction
	for _, f := range scope {
		appends = append(appends, Calls(f)...)
	}
	for _, call := range appends {
		um := call.Parent()
		cv, ok := call.(*ssa.Call)
		if !ok {
			continue
		}
		bi, ok := cv.Call.Value.(*ssa.Builtin)
		if !ok || bi.Name() != "append" || len(cv.Call.Args) != 2 || !InLoop(cv.Block()) {
			continue
		}
		if sl, isSl := cv.Type().Underlying().(*types.Slice); !isSl || !types.Identical(sl.Elem(), types.Typ[types.Uint16]) {
			continue
		}
		// the appended element is the 16-bit type read from the first two bytes of the remaining data
		// only the extension loop: the element is built from data[0], data[1]
		if el := appendedElem(cv.Call.Args[1]); el == nil {
			continue
		} else if _, ok := be16AtStart(el); !ok {
			continue
		}
		n++
		bad := ""
		// the innermost loop around the append
		var loop *Loop
		for _, l := range Loops(um) {
			if l.Blocks[cv.Block()] && (loop == nil || len(l.Blocks) < len(loop.Blocks)) {
				loop = l
			}
		}
		for _, dc := range DomConds(cv) {
			if dc.If == nil || loop == nil || !loop.Blocks[dc.If.Block()] {
				continue
			}
			okCond := false
			if bo, isB := dc.V.(*ssa.BinOp); isB {
				if _, isLen := isLenOf(bo.X); isLen {
					okCond = true
				}
				if _, isLen := isLenOf(bo.Y); isLen {
					okCond = true
				}
			}
			if !okCond {
				bad = RenderN(dc.V, 3)
			}
		}
		c.Check(bad == "", rule, fmt.Sprintf("unmarshal extension append #%d", n), p.InstrPos(cv), "appended for every extension header that passes the length checks", "the extension type is only added to the list under the condition `"+bad+"`: extensions for which it does not hold (a repeated type) are missing from ClientHelloInfo.Extensions, and the recorded JA3 digest is that of a different hello")
	}
	c.Floor(rule, 1, "the extension loop of clientHelloMsg.unmarshal")
}
