package rules

import (
	"fmt"

	"golang.org/x/tools/go/ssa"

	. "htcheck/internal/core"
)

// c16Wakeup: a `select { case ch <- token: default: }` used to wake a reader only works when the channel can hold the
// token: on an unbuffered channel the send succeeds only if the reader is already parked, so a reader that has seen an
// empty buffer and released the lock but not yet entered its select misses it and sleeps on delivered bytes.
func c16Wakeup(c *Ctx) {
	p := c.P
	n := 0
	for _, fn := range p.FuncsIn(agentRel) {
		for _, b := range fn.Blocks {
			for _, in := range b.Instrs {
				sel, ok := in.(*ssa.Select)
				if !ok || sel.Blocking || len(sel.States) != 1 || sel.States[0].Send == nil {
					continue
				}
				ch := sel.States[0].Chan
				ld, isLd := isLoad(ch)
				if !isLd {
					continue
				}
				fa, isFA := ld.X.(*ssa.FieldAddr)
				if !isFA {
					continue
				}
				n++
				owner := NamedOf(fa.X.Type())
				key := fmt.Sprintf("non-blocking wake-up on %s.%s in %s", owner.Obj().Name(), fieldNameOf(fa), shortFn(fn))
				// every channel ever stored in that field has room for one token
				makes, bad := 0, ""
				for _, g := range p.FuncsIn(agentRel) {
					for _, b2 := range g.Blocks {
						for _, in2 := range b2.Instrs {
							st, ok := in2.(*ssa.Store)
							if !ok {
								continue
							}
							fa2, ok := st.Addr.(*ssa.FieldAddr)
							if !ok || NamedOf(fa2.X.Type()) != owner || fa2.Field != fa.Field {
								continue
							}
							mk, ok := st.Val.(*ssa.MakeChan)
							if !ok {
								bad = "the channel stored at " + p.InstrPos(st) + " is not a make(chan …) whose capacity is visible"
								continue
							}
							makes++
							if sz, ok := ConstInt(mk.Size); !ok || sz < 1 {
								bad = "the channel is made without capacity at " + p.InstrPos(mk)
							}
						}
					}
				}
				if makes == 0 && bad == "" {
					bad = "no make(chan …) stored into the field found"
				}
				c.Check(bad == "", "wakeup-not-lost", key, p.InstrPos(sel), "the signalled channel has capacity for the token", bad+": the non-blocking send is dropped whenever the reader is not already waiting, and bytes already appended to the connection's buffer are not read until another message arrives")
			}
		}
	}
	c.Check(n >= 1, "wakeup-not-lost", "non-blocking wake-up found", "-", fmt.Sprint(n), "agentConnection.receive no longer signals its reader with a non-blocking send (rule needs re-anchoring)")
}
