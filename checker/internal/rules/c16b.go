package rules

import (
	"fmt"
	"go/token"
	"go/types"
	"strings"

	"golang.org/x/tools/go/ssa"

	. "htcheck/internal/core"
)

// c16Wakeup: a `select { case ch <- token: default: }` used to wake a reader only works when the channel can hold the
// token: on an unbuffered channel the send succeeds only if the reader is already parked, so a reader that has seen an
// empty buffer and released the lock but not yet entered its select misses it and sleeps on delivered bytes.
func c16Wakeup(c *Ctx) {
	wakeupNotLost(c, agentRel, "agentConnection.receive no longer signals its reader with a non-blocking send (rule needs re-anchoring)", "bytes already appended to the connection's buffer are not read until another message arrives")
}

// wakeupNotLost: see c16Wakeup; shared with C14 (the raw listener's Socket.flush wakes Socket.Read the same way).
func wakeupNotLost(c *Ctx, rel, anchorMsg, consequence string) {
	p := c.P
	n := 0
	for _, fn := range p.FuncsIn(rel) {
		for _, b := range fn.Blocks {
			for _, in := range b.Instrs {
				sel, ok := in.(*ssa.Select)
				if !ok || sel.Blocking || len(sel.States) != 1 || sel.States[0].Send == nil {
					continue
				}
				ch := sel.States[0].Chan
				ld, isLd := isLoad(ch)
				if !isLd {
					continue
				}
				fa, isFA := ld.X.(*ssa.FieldAddr)
				if !isFA {
					continue
				}
				n++
				owner := NamedOf(fa.X.Type())
				key := fmt.Sprintf("non-blocking wake-up on %s.%s in %s", owner.Obj().Name(), fieldNameOf(fa), shortFn(fn))
				// every channel ever stored in that field has room for one token
				makes, bad := 0, ""
				for _, g := range p.FuncsIn(rel) {
					for _, b2 := range g.Blocks {
						for _, in2 := range b2.Instrs {
							st, ok := in2.(*ssa.Store)
							if !ok {
								continue
							}
							fa2, ok := st.Addr.(*ssa.FieldAddr)
							if !ok || NamedOf(fa2.X.Type()) != owner || fa2.Field != fa.Field {
								continue
							}
							mk, ok := st.Val.(*ssa.MakeChan)
							if !ok {
								bad = "the channel stored at " + p.InstrPos(st) + " is not a make(chan …) whose capacity is visible"
								continue
							}
							makes++
							if sz, ok := ConstInt(mk.Size); !ok || sz < 1 {
								bad = "the channel is made without capacity at " + p.InstrPos(mk)
							}
						}
					}
				}
				if makes == 0 && bad == "" {
					bad = "no make(chan …) stored into the field found"
				}
				c.Check(bad == "", "wakeup-not-lost", key, p.InstrPos(sel), "the signalled channel has capacity for the token", bad+": the non-blocking send is dropped whenever the reader is not already waiting, and "+consequence)
			}
		}
	}
	c.Check(n >= 1, "wakeup-not-lost", "non-blocking wake-up found", "-", fmt.Sprint(n), anchorMsg)
}

// c16EOFAfterDrain: the agent connection reports end-of-stream to the service only when nothing is left in its
// receive buffer. The session loop closes the connection as soon as the agent's EOF message (or the agent's
// disconnect) is processed, which can be well before the service has read the bytes relayed ahead of it; a Read that
// answers io.EOF from the closed flag/closed channel first silently drops those bytes.
func c16EOFAfterDrain(c *Ctx) {
	c.Explanation += " agentConnection.Read returns io.EOF only under a dominating buffer-empty condition."
	p := c.P
	at := p.Type(agentRel, "agentConnection")
	rd := p.Method(agentRel, "agentConnection", "Read")
	if at != nil && rd == nil {
		rd = p.Method(agentRel, at.Obj().Name(), "Read")
	}
	if !c.Anchor(at != nil && rd != nil, "eof-after-drain", "agentConnection.Read") {
		return
	}
	buf := fieldByType(at, isByteSlice)
	if !c.Anchor(buf != "", "eof-after-drain", "agentConnection's []byte receive buffer") {
		return
	}
	isBufLen := func(v ssa.Value) bool {
		call, ok := v.(*ssa.Call)
		if !ok {
			return false
		}
		b, ok := call.Call.Value.(*ssa.Builtin)
		if !ok || b.Name() != "len" {
			return false
		}
		ld, ok := call.Call.Args[0].(*ssa.UnOp)
		if !ok {
			return false
		}
		fa, ok := ld.X.(*ssa.FieldAddr)
		return ok && fieldNameOf(fa) == buf && NamedOf(fa.X.Type()) != nil && NamedOf(fa.X.Type()).Obj() == at.Obj()
	}
	var drained func(at ssa.Instruction, depth int) bool
	// helperSaysEmpty: v is the boolean result of an in-repo helper that reports "something was buffered"; it returns
	// false only where the buffer was found empty
	helperSaysEmpty := func(v ssa.Value, depth int) bool {
		idx := 0
		call, ok := v.(*ssa.Call)
		if ex, isE := v.(*ssa.Extract); isE {
			call, ok = ex.Tuple.(*ssa.Call)
			idx = ex.Index
		}
		if !ok || depth > 1 {
			return false
		}
		hf := call.Call.StaticCallee()
		if hf == nil || !InRepo(hf) || hf.Blocks == nil {
			return false
		}
		falses := 0
		for _, r := range Returns(hf) {
			rv := RetVals(r)
			if idx >= len(rv) {
				return false
			}
			k, isC := rv[idx].(*ssa.Const)
			if !isC || k.Value == nil {
				return false
			}
			if k.Value.String() == "false" {
				falses++
				if !drained(r, depth+1) {
					return false
				}
			}
		}
		return falses > 0
	}
	drained = func(at ssa.Instruction, depth int) bool {
		for _, dc := range DomConds(at) {
			if atom, pol := condAtom(dc.V); pol != dc.Pol && helperSaysEmpty(atom, depth) {
				return true
			}
			bo, ok := dc.V.(*ssa.BinOp)
			if !ok || !isBufLen(bo.X) {
				continue
			}
			k, isC := ConstInt(bo.Y)
			if !isC || k != 0 {
				continue
			}
			switch {
			case bo.Op == token.NEQ && !dc.Pol, bo.Op == token.EQL && dc.Pol, bo.Op == token.GTR && !dc.Pol, bo.Op == token.LEQ && dc.Pol:
				return true
			}
		}
		return false
	}
	n := 0
	for _, r := range Returns(rd) {
		rv := RetVals(r)
		if len(rv) != 2 {
			continue
		}
		ev := Unwrap(rv[1])
		if IsNilConst(ev) {
			continue
		}
		ld, ok := ev.(*ssa.UnOp)
		if !ok {
			continue
		}
		g, ok := ld.X.(*ssa.Global)
		if !ok || g.Pkg == nil || g.Pkg.Pkg.Path() != "io" || g.Name() != "EOF" {
			continue
		}
		n++
		c.Check(drained(r, 0), "eof-after-drain", fmt.Sprintf("Read returns io.EOF #%d", n), p.InstrPos(r), "only after the receive buffer was found empty", "agentConnection.Read reports io.EOF without first having found its receive buffer empty: bytes the agent relayed before its EOF (or before it disconnected) that the service has not read yet are dropped – the stream the service sees is cut short")
	}
	c.Floor("eof-after-drain", 1, "the closed-channel arm of agentConnection.Read")
}

// c16CloseOnce: a virtual connection is closed from two sides – by the service that handled it and by the session loop
// when the agent reports the end of the connection. "Ends exactly the affected connection" needs the close to happen
// once: closing the channel twice panics, and in the session loop that panic tears down every other connection of the
// agent. Every close() of a channel field in the agent connection is therefore guarded by a "closed already" flag that is
// read, set and followed by the close inside ONE critical section: the same Lock acquisition protects the read of the
// flag that guards the close, and the close itself. A check made under the lock, the lock released, and the close done
// under a later acquisition lets both sides pass the check.
func c16CloseOnce(c *Ctx) {
	p := c.P
	const rule = "close-once"
	locksAt := func(fn *ssa.Function, at ssa.Instruction) map[ssa.Instruction]bool {
		out := map[ssa.Instruction]bool{}
		for _, call := range Calls(fn) {
			f := call.Common().StaticCallee()
			if f == nil || f.Name() != "Lock" || PkgOf(f) != "sync" {
				continue
			}
			if _, isDefer := call.(*ssa.Defer); isDefer {
				continue
			}
			if !(call.Block() == at.Block() && before(call, at)) && !(call.Block() != at.Block() && call.Block().Dominates(at.Block())) {
				continue
			}
			mu := Render(call.Common().Args[0])
			released := false
			for _, c2 := range Calls(fn) {
				f2 := c2.Common().StaticCallee()
				if _, isDefer := c2.(*ssa.Defer); isDefer || f2 == nil || f2.Name() != "Unlock" || PkgOf(f2) != "sync" || Render(c2.Common().Args[0]) != mu {
					continue
				}
				if before(call, c2) && before(c2, at) {
					released = true
				}
			}
			if !released {
				out[call] = true
			}
		}
		return out
	}
	n := 0
	for _, fn := range p.FuncsIn("listener/agent") {
		if fn.Blocks == nil || strings.HasSuffix(p.Fset.Position(fn.Pos()).Filename, "_test.go") {
			continue
		}
		for _, call := range Calls(fn) {
			bi, ok := call.Common().Value.(*ssa.Builtin)
			if !ok || bi.Name() != "close" || len(call.Common().Args) != 1 {
				continue
			}
			ld, ok := call.Common().Args[0].(*ssa.UnOp)
			if !ok {
				continue
			}
			fa, ok := ld.X.(*ssa.FieldAddr)
			if !ok || len(fn.Params) == 0 || fa.X != ssa.Value(fn.Params[0]) {
				continue
			}
			n++
			key := fmt.Sprintf("%s closes %s", shortFn(fn), fieldNameOf(fa))
			atClose := locksAt(fn, call)
			good := false
			why := "the close is not under a \"closed already\" flag of the connection"
			for _, dc := range DomConds(call) {
				atom, pol0 := condAtom(dc.V)
				fl, isLd := atom.(*ssa.UnOp)
				if !isLd || fl.Op != token.MUL || pol0 == dc.Pol {
					continue // not `!flag`
				}
				ffa, isFA := fl.X.(*ssa.FieldAddr)
				if !isFA || ffa.X != ssa.Value(fn.Params[0]) {
					continue
				}
				if bt, isB := fl.Type().Underlying().(*types.Basic); !isB || bt.Kind() != types.Bool {
					continue
				}
				why = "the flag " + fieldNameOf(ffa) + " is read and the channel closed under different acquisitions of the lock (or without one)"
				for l := range locksAt(fn, fl) {
					if atClose[l] {
						good = true
					}
				}
				// the flag is set in the same section
				if good {
					set := false
					for _, b := range fn.Blocks {
						for _, in := range b.Instrs {
							if st, isSt := in.(*ssa.Store); isSt {
								if sfa, isF := st.Addr.(*ssa.FieldAddr); isF && sfa.X == ssa.Value(fn.Params[0]) && sfa.Field == ffa.Field {
									for l := range locksAt(fn, st) {
										if atClose[l] {
											set = true
										}
									}
								}
							}
						}
					}
					if !set {
						good = false
						why = "the flag " + fieldNameOf(ffa) + " is not set in the critical section that closes the channel"
					}
				}
			}
			c.Check(good, rule, key, p.InstrPos(call), "flag read, flag set and close inside one critical section", why+": the service's Close and the session loop's handling of the agent's EOF can both get past the check; the second close panics (\"close of closed channel\"), and in the session loop that ends the whole agent session – every other connection of the agent with it")
		}
	}
	c.Floor(rule, 1, "agentConnection.Close")
}
