package rules

import (
	"fmt"
	"go/token"
	"go/types"
	"regexp"
	"sort"
	"strings"

	"golang.org/x/tools/go/ssa"

	. "htcheck/internal/core"
)

func init() { Registry["C20"] = c20 }

const canaryRel = "listener/canary"

var paramRe = regexp.MustCompile(`\bp(\d+)\b`)

// normCond renders a condition with small pure in-repo helper calls inlined one level
// (hdr.HasFlag(f) == hdr.Ctrl&f == f), so that the call form and the expression form are the same atom.
func normCond(v ssa.Value) string {
	if call, ok := v.(*ssa.Call); ok {
		f := call.Call.StaticCallee()
		if f != nil && InRepo(f) && f.Blocks != nil && len(f.Blocks) == 1 {
			rs := Returns(f)
			if len(rs) == 1 && len(rs[0].Results) == 1 {
				body := Render(rs[0].Results[0])
				args := call.Call.Args
				return paramRe.ReplaceAllStringFunc(body, func(m string) string {
					var i int
					fmt.Sscanf(m[1:], "%d", &i)
					if i < len(args) {
						return Render(args[i])
					}
					return m
				})
			}
		}
	}
	return Render(v)
}

func c20(c *Ctx) {
	c.Explanation = "Static check of the port-scan grouping mechanism for all bursts and interleavings: every send on the knock queue is satisfiable (its dominating conditions, with pure helpers inlined, " +
		"do not contain an atom in both polarities) and all three probe kinds have a send site; UniqueSet.Add returns the existing equal element or appends, Remove deletes exactly the identical element, " +
		"no UniqueSet field is written by Add that Remove does not also maintain (no stale caches), Each either iterates over a private copy or no callback (including deferred calls) mutates the set it is " +
		"iterating; all KnockGrouper.NewGroup constructors set the same KnockGroup fields with pairwise distinct protocol constants and their element equality compares the same key of the same knock type; " +
		"the group equality compares protocol, both hardware and both IP addresses; the reported port list is sized by the set's Count and filled by index from the same set with an arm for each knock type. " +
		"The 5 s / 60 s timers are not decided."
	c.Assume("timer behaviour (time.After ticks, what counts as one burst) is not decided")
	c20Sends(c)
	c20Set(c)
	c20Groups(c)
	c20Detector(c)
	c20FrameTrimmed(c)
	c20ReportWhenQuiet(c)
	c20FrameObjectsPerFrame(c)
	c20StateAddOnlyFull(c)
	checksumOddOctetHigh(c, "checksum-odd-octet-high", "A probe of odd length with a non-zero last octet (ping -s 57) fails verification and is dropped before its knock is queued.")
	// a probe is ours to report when it is addressed to any address of any interface we listen on: the address list is complete
	c20DecoderByDestination(c)
	eolEndsOptionParsing(c, "eol-ends-option-parsing", "the SYN is dropped before its knock is queued, and the probed port is missing from the report")
	accumulatorSurvivesOuterLoop(c, "address-list-complete", "a probe to an address of any interface but the last is not recognised as addressed to this host and its knock is never queued", canaryRel)
}

func c20Sends(c *Ctx) {
	p := c.P
	canaryT := p.Type(canaryRel, "Canary")
	if !c.Anchor(canaryT != nil, "knock-send", "type canary.Canary") {
		return
	}
	kinds := map[string]int{}
	for _, fn := range p.FuncsIn(canaryRel) {
		for _, b := range fn.Blocks {
			for _, in := range b.Instrs {
				snd, ok := in.(*ssa.Send)
				if !ok {
					continue
				}
				if _, ok := isFieldLoadNamed(snd.Chan, "knockChan"); !ok {
					continue
				}
				// a queueing helper (`func (c *Canary) queueKnock(record KnockGrouper) { c.knockChan <- record }`): every call of
				// it is a queueing site for the record it passes
				if pr, isP := Unwrap(snd.X).(*ssa.Parameter); isP && pr.Parent() == fn && len(DomConds(snd)) == 0 {
					idx := paramIdx(pr)
					for _, g := range p.FuncsIn(canaryRel) {
						for _, call := range Calls(g) {
							if call.Common().StaticCallee() != fn || idx < 0 || idx >= len(call.Common().Args) {
								continue
							}
							if _, isCall := call.(*ssa.Call); !isCall {
								continue
							}
							c20QueueSite(c, canaryT, kinds, g, call, call.Common().Args[idx])
						}
					}
					continue
				}
				c20QueueSite(c, canaryT, kinds, fn, snd, snd.X)
			}
		}
	}
	for _, k := range []string{"KnockTCPPort", "KnockUDPPort", "KnockICMP"} {
		c.Check(kinds[k] >= 1, "knock-kinds-reported", k, "-", "has a reachable queueing site", "no satisfiable site queues "+k+" records: this probe kind is never part of a port-scan event")
	}
}

// c20QueueSite: one place where a knock record `rec` is queued (the send itself, or the call of a queueing helper).
func c20QueueSite(c *Ctx, canaryT *types.Named, kinds map[string]int, fn *ssa.Function, snd ssa.Instruction, rec ssa.Value) {
	p := c.P
	{
		{
			{
				kind := "?"
				if n := NamedOf(Unwrap(rec).Type()); n != nil {
					kind = n.Obj().Name()
				}
				key := shortFn(fn) + " queues " + kind
				// satisfiable?
				atoms := map[string]bool{}
				contra := ""
				for _, dc := range DomConds(snd) {
					s := normCond(dc.V)
					if prev, ok := atoms[s]; ok && prev != dc.Pol {
						contra = s
					}
					atoms[s] = dc.Pol
				}
				if contra != "" {
					c.Violate("knock-send-satisfiable", key, p.InstrPos(snd), "this probe record can never be queued: its dominating conditions require `"+contra+"` to be both true and false (an earlier branch on the same condition returns): probes of this kind are never reported")
					return
				}
				kinds[kind]++
				c.Ok("knock-send-satisfiable", key, p.InstrPos(snd), "")
				// a probe counts whether or not the listener managed to answer it: the queueing does not depend on the
				// outcome (error result) of one of the Canary's own actions, such as transmitting the SYN|ACK
				dep := ""
				for _, dc := range DomConds(snd) {
					atom, _ := condAtom(dc.V)
					bo, isB := atom.(*ssa.BinOp)
					if !isB || (bo.Op != token.EQL && bo.Op != token.NEQ) || !IsNilConst(bo.Y) || !IsErrorType(bo.X.Type()) {
						continue
					}
					for _, lf := range leaves(bo.X) {
						var call *ssa.Call
						switch x := lf.(type) {
						case *ssa.Call:
							call = x
						case *ssa.Extract:
							call, _ = x.Tuple.(*ssa.Call)
						}
						if call == nil {
							continue
						}
						if f := call.Call.StaticCallee(); f != nil && f.Signature.Recv() != nil && NamedOf(f.Signature.Recv().Type()) == canaryT {
							dep = "the error of " + FuncShort(f) + " (" + p.InstrPos(call) + ")"
						}
					}
				}
				c.Check(dep == "", "knock-independent-of-reply", key, p.InstrPos(snd), "queued for every probe of this kind, whatever became of the reply",
					"this probe record is only queued when "+dep+" is nil: a probe that the listener cannot answer (no ARP entry or route back to a spoofed or off-link source, transmit ring busy) is not counted, so a scan from such a source is reported with ports missing or not at all")
				// the record's fields come from the packet's roles
				c20KnockRoles(c, rec, key)
			}
		}
	}
}

func c20KnockRoles(c *Ctx, rec ssa.Value, key string) {
	p := c.P
	// value: load of alloc with field stores, or a struct built in an alloc
	v := Unwrap(rec)
	ld, ok := isLoad(v)
	if !ok {
		return
	}
	a, ok := ld.X.(*ssa.Alloc)
	if !ok {
		return
	}
	want := map[string]string{"SourceIP": ".Src", "DestinationIP": ".Dst", "SourceHardwareAddr": ".Source", "DestinationHardwareAddr": ".Destination", "DestinationPort": ".Destination"}
	for _, ref := range *a.Referrers() {
		fa, ok := ref.(*ssa.FieldAddr)
		if !ok {
			continue
		}
		name := fieldNameOf(fa)
		for _, r2 := range *fa.Referrers() {
			st, ok := r2.(*ssa.Store)
			if !ok {
				continue
			}
			s := Render(st.Val)
			// a queueing helper handed the value as a parameter: what every call site passes
			if pr, isP := st.Val.(*ssa.Parameter); isP {
				fn := pr.Parent()
				idx := paramIdx(pr)
				var got []string
				for _, g := range p.FuncsIn(canaryRel) {
					for _, call := range Calls(g) {
						if call.Common().StaticCallee() == fn && idx < len(call.Common().Args) {
							got = append(got, Render(call.Common().Args[idx]))
						}
					}
				}
				if len(got) > 0 {
					s = got[0]
					for _, g := range got {
						if !strings.HasSuffix(g, want[name]) {
							s = g
						}
					}
				}
			}
			c.Check(strings.HasSuffix(s, want[name]), "knock-roles", key+"."+name, p.InstrPos(st), "= "+s, "knock field "+name+" is filled from `"+s+"` (expected the packet's "+want[name]+" field): source and destination of the scan are confused")
		}
	}
}

var c20Items, c20EqFn = "items", "uniqueFunc"

func c20Set(c *Ctx) {
	p := c.P
	us := p.Type(canaryRel, "UniqueSet")
	add := p.Method(canaryRel, "UniqueSet", "Add")
	rem := p.Method(canaryRel, "UniqueSet", "Remove")
	each := p.Method(canaryRel, "UniqueSet", "Each")
	cnt := p.Method(canaryRel, "UniqueSet", "Count")
	if !c.Anchor(us != nil && add != nil && rem != nil && each != nil && cnt != nil, "unique-set", "canary.UniqueSet with Add/Remove/Each/Count") {
		return
	}
	// fields by role: the element list (the only slice field) and the equality function (the only func field)
	c20Items = fieldByType(us, func(t types.Type) bool { _, ok := t.Underlying().(*types.Slice); return ok })
	c20EqFn = fieldByType(us, func(t types.Type) bool { _, ok := t.Underlying().(*types.Signature); return ok })
	if !c.Anchor(c20Items != "" && c20EqFn != "", "unique-set", "UniqueSet's element list and equality function fields") {
		return
	}
	// --- Add
	nhit, napp := 0, 0
	for i, r := range Returns(add) {
		rv := RetVals(r)[0]
		key := fmt.Sprintf("UniqueSet.Add return[%d]", i)
		switch {
		case rangeElemOfField(Unwrap(rv), c20Items):
			nhit++
			ok := false
			for _, dc := range DomConds(r) {
				call, okc := dc.V.(*ssa.Call)
				if !okc || !dc.Pol || call.Call.StaticCallee() != nil || call.Call.IsInvoke() {
					continue
				}
				if _, okf := isFieldLoadNamed(call.Call.Value, c20EqFn); okf && len(call.Call.Args) == 2 {
					a0, a1 := call.Call.Args[0], call.Call.Args[1]
					if (a0 == ssa.Value(add.Params[1]) && a1 == rv) || (a1 == ssa.Value(add.Params[1]) && a0 == rv) {
						ok = true
					}
				}
			}
			c.Check(ok, "unique-set-add", key+" existing", p.InstrPos(r), "returns the element that the equality function matched", "Add returns an existing element without the equality function having matched it with the new item")
		case Unwrap(rv) == ssa.Value(add.Params[1]) || rv == ssa.Value(add.Params[1]):
			napp++
			// appended on this path: the store items = append(items, item) dominates the return, after exhaustion of the scan
			ok := false
			for _, b := range add.Blocks {
				for _, in := range b.Instrs {
					st, oks := in.(*ssa.Store)
					if !oks {
						continue
					}
					fa, okf := st.Addr.(*ssa.FieldAddr)
					if !okf || fieldNameOf(fa) != c20Items {
						continue
					}
					if call, okc := st.Val.(*ssa.Call); okc {
						if bi, okb := call.Call.Value.(*ssa.Builtin); okb && bi.Name() == "append" {
							if _, okl := isFieldLoadNamed(call.Call.Args[0], c20Items); okl && appendedElem(call.Call.Args[1]) == ssa.Value(add.Params[1]) && b.Dominates(r.Block()) {
								ok = true
							}
						}
					}
				}
			}
			ex := false
			for _, dc := range DomConds(r) {
				if b, okb := dc.V.(*ssa.BinOp); okb && b.Op == token.LSS && !dc.Pol && isAscendingIndex(b.X) {
					ex = true
				}
			}
			c.Check(ok && ex, "unique-set-add", key+" new", p.InstrPos(r), "appends the item after the whole set was compared", "the new item is returned without having been appended to the set after a complete scan")
		default:
			c.Violate("unique-set-add", key, p.InstrPos(r), "Add returns something that is neither an element of the set found by the equality function nor the new item: "+Render(rv))
		}
	}
	c.Check(nhit == 1 && napp == 1, "unique-set-add", "UniqueSet.Add arms", p.Pos(add.Pos()), "", fmt.Sprintf("expected one hit arm and one append arm, found %d/%d", nhit, napp))
	// --- Remove: items = append(items[:i], items[i+1:]...) under item == items[i]
	okRem := false
	for _, b := range rem.Blocks {
		for _, in := range b.Instrs {
			st, ok := in.(*ssa.Store)
			if !ok {
				continue
			}
			fa, ok := st.Addr.(*ssa.FieldAddr)
			if !ok || fieldNameOf(fa) != c20Items {
				continue
			}
			s := Render(st.Val)
			fq := regexp.QuoteMeta(c20Items)
			m := regexp.MustCompile(`^append\(p0\.` + fq + `\[:(.+)\], p0\.` + fq + `\[\((.+) \+ 1\):\]\)$`).FindStringSubmatch(s)
			guarded := false
			for _, dc := range DomConds(st) {
				x, y, okq := eqCond(dc)
				if okq && ((x == ssa.Value(rem.Params[1]) && rangeElemOfField(y, c20Items)) || (y == ssa.Value(rem.Params[1]) && rangeElemOfField(x, c20Items))) {
					guarded = true
				}
			}
			if m != nil && m[1] == m[2] && guarded {
				okRem = true
			} else {
				c.Violate("unique-set-remove", "UniqueSet.Remove store", p.InstrPos(st), "Remove does not cut exactly the matching index out of the slice: "+s)
			}
			// returns right after (removes one)
			r := InstrReachFrom(rem, st, nil, nil)
			again := false
			for _, b2 := range rem.Blocks {
				for _, in2 := range b2.Instrs {
					if st2, ok := in2.(*ssa.Store); ok && st2 != st && r(st2) {
						if fa2, ok := st2.Addr.(*ssa.FieldAddr); ok && fieldNameOf(fa2) == c20Items {
							again = true
						}
					}
				}
			}
			if r(st) || again {
				c.Violate("unique-set-remove", "UniqueSet.Remove once", p.InstrPos(st), "Remove can cut more than one element per call")
			}
		}
	}
	c.Check(okRem, "unique-set-remove", "UniqueSet.Remove", p.Pos(rem.Pos()), "removes exactly the identical element", "Remove does not delete the identical element by index")
	// --- Count = len(items)
	okCnt := false
	for _, r := range Returns(cnt) {
		if x, ok := isLenOf(RetVals(r)[0]); ok {
			if _, ok := isFieldLoadNamed(x, c20Items); ok {
				okCnt = true
			}
		}
	}
	c.Check(okCnt, "unique-set-count", "UniqueSet.Count", p.Pos(cnt.Pos()), "len(items)", "Count is not len(items)")
	// --- field discipline: a field written in Add must be written in Remove too (and vice versa) – no stale caches
	written := func(fn *ssa.Function) map[string]bool {
		m := map[string]bool{}
		for _, b := range fn.Blocks {
			for _, in := range b.Instrs {
				if st, ok := in.(*ssa.Store); ok {
					if fa, ok := st.Addr.(*ssa.FieldAddr); ok && NamedOf(fa.X.Type()) == us {
						m[fieldNameOf(fa)] = true
					}
				}
			}
		}
		return m
	}
	wa, wr := written(add), written(rem)
	var fields []string
	for f := range wa {
		fields = append(fields, f)
	}
	for f := range wr {
		if !wa[f] {
			fields = append(fields, f)
		}
	}
	sort.Strings(fields)
	for _, f := range fields {
		c.Check(wa[f] && wr[f], "unique-set-state", "UniqueSet."+f, p.Pos(add.Pos()), "maintained by both Add and Remove", "field UniqueSet."+f+" is written by only one of Add/Remove: derived state (a cache or index of the set) goes stale when the other operation runs, so a removed element can be handed out again or a present one missed")
	}
	// reads in Add: only fields that are maintained
	for _, b := range add.Blocks {
		for _, in := range b.Instrs {
			if fa, ok := in.(*ssa.FieldAddr); ok && NamedOf(fa.X.Type()) == us {
				f := fieldNameOf(fa)
				st := us.Underlying().(*types.Struct)
				var ft types.Type
				for i := 0; i < st.NumFields(); i++ {
					if st.Field(i).Name() == f {
						ft = st.Field(i).Type()
					}
				}
				_, isFunc := ft.Underlying().(*types.Signature)
				if !isFunc && !(wa[f] && wr[f]) {
					c.Violate("unique-set-state", "UniqueSet.Add reads "+f, p.InstrPos(fa), "Add consults field "+f+" which Remove does not maintain")
				}
			}
		}
	}
	// --- Each: copy or no mutation from callbacks
	alias := true
	for _, b := range each.Blocks {
		for _, in := range b.Instrs {
			if call, ok := in.(*ssa.Call); ok {
				if bi, ok := call.Call.Value.(*ssa.Builtin); ok && bi.Name() == "copy" {
					if _, ok := call.Call.Args[0].(*ssa.MakeSlice); ok {
						if _, ok := isFieldLoadNamed(call.Call.Args[1], c20Items); ok {
							alias = false
						}
					}
				}
				if bi, ok := call.Call.Value.(*ssa.Builtin); ok && bi.Name() == "append" {
					// append([]T(nil), items...) form
					if IsNilConst(call.Call.Args[0]) {
						alias = false
					}
				}
			}
		}
	}
	// the iterated value must be that copy when alias==false: the callback's element argument derives from the MakeSlice
	nsites := 0
	for _, fn := range p.FuncsIn(canaryRel) {
		for _, call := range Calls(fn) {
			if call.Common().StaticCallee() != each {
				continue
			}
			nsites++
			key := shortFn(fn) + " Each"
			if !alias {
				c.Ok("each-no-mutation", key, p.InstrPos(call), "Each iterates over a private copy of the set")
				continue
			}
			recv := Deref(call.Common().Args[0])
			var cb *ssa.Function
			var mc *ssa.MakeClosure
			switch x := call.Common().Args[1].(type) {
			case *ssa.MakeClosure:
				mc = x
				cb, _ = x.Fn.(*ssa.Function)
			case *ssa.Function:
				cb = x
			}
			if cb == nil {
				c.Undecided("each-no-mutation", key, p.InstrPos(call), "callback is not a function literal; cannot decide whether it mutates the set")
				continue
			}
			bad := ""
			for _, cc := range Calls(cb) {
				f := cc.Common().StaticCallee()
				if f != add && f != rem {
					continue
				}
				// same set?
				r := cc.Common().Args[0]
				same := true
				if ld, ok := isLoad(r); ok {
					if fv, ok := ld.X.(*ssa.FreeVar); ok && mc != nil {
						bnd := ClosureBindings(mc)[fv]
						if a, ok := bnd.(*ssa.Alloc); ok {
							sv := SingleStore(a)
							same = sv == recv || bnd == recv || Deref(call.Common().Args[0]) == sv
						}
					} else {
						same = false // a different set reached through a field (e.g. k.Knocks)
					}
				}
				if same {
					what := "calls"
					if _, isDefer := cc.(*ssa.Defer); isDefer {
						what = "defers (runs when the callback returns, i.e. still inside the iteration)"
					}
					bad = fmt.Sprintf("%s %s on the set being iterated at %s", what, f.Name(), p.InstrPos(cc))
				}
			}
			c.Check(bad == "", "each-no-mutation", key, p.InstrPos(call), "callback does not add to / remove from the iterated set", "Each ranges over an alias of the set's backing array and the callback "+bad+": the following group is skipped and the last one is visited twice (a scan goes unreported / is reported twice)")
		}
	}
	c.Check(nsites >= 2, "each-no-mutation", "Each call sites", "-", "", fmt.Sprintf("expected the two Each call sites of the detector, found %d", nsites))
}

func c20Groups(c *Ctx) {
	p := c.P
	iface := p.Iface(canaryRel, "KnockGrouper")
	kg := p.Type(canaryRel, "KnockGroup")
	if !c.Anchor(iface != nil && kg != nil, "group-constructors", "canary.KnockGrouper / KnockGroup") {
		return
	}
	type ctor struct {
		name   string
		fn     *ssa.Function
		fields map[string]string
		eqKey  string
		eqFn   *ssa.Function
	}
	var ctors []ctor
	for _, n := range p.NamedTypes() {
		if n.Obj().Pkg().Path() != ModPath+"/"+canaryRel || !Implements(n, iface) {
			continue
		}
		if _, isI := n.Underlying().(*types.Interface); isI {
			continue
		}
		fn := p.Method(canaryRel, n.Obj().Name(), "NewGroup")
		if fn == nil {
			continue
		}
		ct := ctor{name: n.Obj().Name(), fn: fn, fields: map[string]string{}}
		for _, b := range fn.Blocks {
			for _, in := range b.Instrs {
				st, ok := in.(*ssa.Store)
				if !ok {
					continue
				}
				fa, ok := st.Addr.(*ssa.FieldAddr)
				if !ok || NamedOf(fa.X.Type()) != kg {
					continue
				}
				ct.fields[fieldNameOf(fa)] = Render(st.Val)
			}
		}
		// equality function: what is handed to NewUniqueSet here, or to the shared group constructor this NewGroup calls
		ct.eqFn = c20EqualityOf(p, fn)
		ctors = append(ctors, ct)
	}
	c.Check(len(ctors) == 3, "group-constructors", "NewGroup implementations", "-", "tcp, udp, icmp", fmt.Sprintf("expected 3 NewGroup implementations, found %d", len(ctors)))
	if len(ctors) == 0 {
		return
	}
	// union of fields
	all := map[string]bool{}
	for _, ct := range ctors {
		for f := range ct.fields {
			all[f] = true
		}
	}
	var names []string
	for f := range all {
		names = append(names, f)
	}
	sort.Strings(names)
	protos := map[string]string{}
	for _, ct := range ctors {
		for _, f := range names {
			_, ok := ct.fields[f]
			c.Check(ok, "group-constructors", ct.name+".NewGroup sets "+f, p.Pos(ct.fn.Pos()), "", ct.name+".NewGroup leaves KnockGroup."+f+" at its zero value while its siblings set it: groups of this kind compare equal to (or differently from) the others by accident")
		}
		if pv, ok := ct.fields["Protocol"]; ok {
			if other, dup := protos[pv]; dup {
				c.Violate("group-constructors", ct.name+".NewGroup protocol", p.Pos(ct.fn.Pos()), "same protocol constant "+pv+" as "+other)
			}
			protos[pv] = ct.name
		} else {
			// zero value collides with constant 0
			if other, dup := protos["0:canary.Protocol"]; dup {
				_ = other
			}
		}
		// address roles
		for f, want := range map[string]string{"SourceIP": "p0.SourceIP", "DestinationIP": "p0.DestinationIP", "SourceHardwareAddr": "p0.SourceHardwareAddr", "DestinationHardwareAddr": "p0.DestinationHardwareAddr"} {
			if got, ok := ct.fields[f]; ok {
				c.Check(got == want, "group-constructors", ct.name+".NewGroup "+f, p.Pos(ct.fn.Pos()), "", "KnockGroup."+f+" is filled from "+got)
			}
		}
		// element equality: `true` only when both operands are of this knock type and, for port knocks, have the same
		// destination port – decided leaf by leaf on the function's result (constants, comparisons, short-circuit phis)
		wantType := ct.name
		why := c20ElementEquality(ct.eqFn, wantType, strings.Contains(ct.name, "Port"))
		c.Check(why == "", "group-element-equality", ct.name+" set equality", p.Pos(ct.fn.Pos()), "both operands of this knock type"+map[bool]string{true: " with equal destination ports", false: ""}[strings.Contains(ct.name, "Port")], "the element equality of "+ct.name+" groups is not `both are "+wantType+" and have the same destination port`: "+why)
	}
}

// c20EqualityOf: the function given to NewUniqueSet in fn, directly or through an in-repo constructor fn hands it to.
func c20EqualityOf(p *Program, fn *ssa.Function) *ssa.Function {
	asFn := func(v ssa.Value) *ssa.Function {
		switch x := Unwrap(v).(type) {
		case *ssa.MakeClosure:
			f, _ := x.Fn.(*ssa.Function)
			return f
		case *ssa.Function:
			return x
		}
		return nil
	}
	for _, call := range Calls(fn) {
		f := call.Common().StaticCallee()
		if f == nil {
			continue
		}
		if f.Name() == "NewUniqueSet" && len(call.Common().Args) == 1 {
			if ef := asFn(call.Common().Args[0]); ef != nil {
				return ef
			}
		}
		if InRepo(f) && f.Blocks != nil && f != fn {
			for _, c2 := range Calls(f) {
				if f2 := c2.Common().StaticCallee(); f2 != nil && f2.Name() == "NewUniqueSet" && len(c2.Common().Args) == 1 {
					if pr, ok := Unwrap(c2.Common().Args[0]).(*ssa.Parameter); ok {
						if i := paramIdx(pr); i >= 0 && i < len(call.Common().Args) {
							if ef := asFn(call.Common().Args[i]); ef != nil {
								return ef
							}
						}
					}
				}
			}
		}
	}
	return nil
}

// c20ElementEquality returns "" when every way eq can yield true has both parameters asserted to wantType (and, if
// ports, compares their DestinationPort fields), and eq can yield false; otherwise the reason.
func c20ElementEquality(eq *ssa.Function, wantType string, ports bool) string {
	if eq == nil || len(eq.Params) != 2 {
		return "no two-argument equality function found"
	}
	// which side an asserted value belongs to
	sideOf := func(v ssa.Value) int {
		for d := 0; d < 6; d++ {
			switch x := v.(type) {
			case *ssa.Extract:
				v = x.Tuple
				continue
			case *ssa.TypeAssert:
				if n := NamedOf(x.AssertedType); n == nil || n.Obj().Name() != wantType {
					return -2
				}
				switch x.X {
				case ssa.Value(eq.Params[0]):
					return 0
				case ssa.Value(eq.Params[1]):
					return 1
				}
				return -1
			case *ssa.UnOp:
				v = x.X
				continue
			case *ssa.FieldAddr:
				v = x.X
				continue
			case *ssa.Field:
				v = x.X
				continue
			case *ssa.Alloc:
				if sv := StoredValues(x); len(sv) == 1 {
					v = sv[0]
					continue
				}
			}
			break
		}
		return -1
	}
	asserted := func(conds []Cond, at *ssa.BasicBlock) [2]bool {
		var got [2]bool
		for _, dc := range conds {
			if ex, ok := dc.V.(*ssa.Extract); ok && ex.Index == 1 && dc.Pol {
				if sd := sideOf(ex); sd >= 0 {
					got[sd] = true
				}
			}
		}
		// plain assertions executed on the way (they panic unless the type matches)
		for _, b := range eq.Blocks {
			for _, in := range b.Instrs {
				if ta, ok := in.(*ssa.TypeAssert); ok && !ta.CommaOk && at != nil && b.Dominates(at) {
					if sd := sideOf(ta); sd >= 0 {
						got[sd] = true
					}
				}
			}
		}
		return got
	}
	sawFalse := false
	for _, r := range Returns(eq) {
		for _, lf := range phiLeaves(RetVals(r)[0]) {
			conds := condsOnLeaf(lf, r)
			at := r.Block()
			if lf.pred != nil {
				at = lf.pred
			}
			if k, ok := lf.v.(*ssa.Const); ok {
				if k.Value != nil && k.Value.String() == "false" {
					sawFalse = true
					continue
				}
				if ports {
					return "it can answer `true` without comparing ports"
				}
				if got := asserted(conds, at); !got[0] || !got[1] {
					return "it can answer `true` without both operands being " + wantType
				}
				continue
			}
			// `return ok1 && ok2`: the leaf is the success flag of an assertion itself
			if ex, ok := lf.v.(*ssa.Extract); ok && ex.Index == 1 && !ports {
				if sd := sideOf(ex); sd >= 0 {
					got := asserted(conds, at)
					got[sd] = true
					if got[0] && got[1] {
						sawFalse = true // the flag is false when the operand is of another type
						continue
					}
				}
				return "it can answer `true` without both operands being " + wantType
			}
			bo, ok := lf.v.(*ssa.BinOp)
			if !ok || bo.Op != token.EQL || !ports {
				return "its result `" + RenderN(lf.v, 3) + "` is neither a constant nor a port comparison"
			}
			sx, sy := sideOf(bo.X), sideOf(bo.Y)
			if !(strings.Contains(Render(bo.X), "DestinationPort") && strings.Contains(Render(bo.Y), "DestinationPort") && sx >= 0 && sy >= 0 && sx != sy) {
				return "it does not compare the destination ports of its two operands: " + RenderN(bo, 3)
			}
			// the comparison is only meaningful when both assertions held; a comma-ok assertion that failed leaves a zero
			// value, so its success must be known here
			if got := asserted(conds, at); !got[0] || !got[1] {
				// values obtained by plain assertions dominate their use by construction
				if !(plainAssert(bo.X) && plainAssert(bo.Y)) {
					return "ports are compared without both operands being known to be " + wantType
				}
			}
			sawFalse = sawFalse || true
		}
	}
	if !sawFalse {
		return "it never answers false"
	}
	return ""
}

// plainAssert: v is (a field of) the result of a non-comma-ok type assertion.
func plainAssert(v ssa.Value) bool {
	for d := 0; d < 6; d++ {
		switch x := v.(type) {
		case *ssa.TypeAssert:
			return !x.CommaOk
		case *ssa.UnOp:
			v = x.X
		case *ssa.FieldAddr:
			v = x.X
		case *ssa.Field:
			v = x.X
		case *ssa.Alloc:
			sv := StoredValues(x)
			if len(sv) != 1 {
				return false
			}
			v = sv[0]
		default:
			return false
		}
	}
	return false
}

func c20Detector(c *Ctx) {
	p := c.P
	kd := p.Method(canaryRel, "Canary", "knockDetector")
	if !c.Anchor(kd != nil, "detector", "(*canary.Canary).knockDetector") {
		return
	}
	// group equality closure: the one passed to NewUniqueSet in knockDetector itself
	var eq *ssa.Function
	for _, call := range Calls(kd) {
		if f := call.Common().StaticCallee(); f != nil && f.Name() == "NewUniqueSet" {
			switch x := Unwrap(call.Common().Args[0]).(type) {
			case *ssa.MakeClosure:
				eq, _ = x.Fn.(*ssa.Function)
			case *ssa.Function:
				eq = x
			}
		}
	}
	if c.Anchor(eq != nil, "detector", "group equality function") {
		// the `true` result requires all five comparisons: collect conditions on the path to the final value
		body := ""
		for _, b := range eq.Blocks {
			for _, in := range b.Instrs {
				if v, ok := in.(ssa.Value); ok {
					switch v.(type) {
					case *ssa.BinOp, *ssa.Call:
						body += Render(v) + "\n"
					}
				}
			}
		}
		for _, want := range []string{".Protocol == ", "bytes.Equal(", ".SourceHardwareAddr", ".DestinationHardwareAddr", ".SourceIP", ".DestinationIP"} {
			c.Check(strings.Contains(body, want), "group-equality", "compares "+strings.Trim(want, ".( ="), p.Pos(eq.Pos()), "", "the group equality no longer compares "+want+": scans from different sources/destinations/protocols are merged")
		}
		// short-circuit structure: result phi has false constants for each failed comparison and the last comparison's value
		nfalse := 0
		for _, r := range Returns(eq) {
			if ph, ok := RetVals(r)[0].(*ssa.Phi); ok {
				for _, e := range ph.Edges {
					if k, ok := e.(*ssa.Const); ok && k.Value.String() == "false" {
						nfalse++
					} else if k, ok := e.(*ssa.Const); ok && k.Value.String() == "true" {
						c.Violate("group-equality", "constant true arm", p.InstrPos(r), "a comparison failing still yields `equal`")
					}
				}
			}
		}
		c.Check(nfalse == 4, "group-equality", "conjunction of five comparisons", p.Pos(eq.Pos()), "", fmt.Sprintf("expected a conjunction (4 short-circuit false arms + last comparison), found %d false arms: some comparison is or-ed or dropped", nfalse))
	}
	// the detector adds the queued record to the group found/created for its NewGroup()
	okAdd := false
	for _, call := range Calls(kd) {
		if f := call.Common().StaticCallee(); f != nil && f.Name() == "Add" && RecvTypeName(f) == "UniqueSet" {
			s := Render(call.Common().Args[0])
			if strings.HasSuffix(s, ".Knocks") {
				// argument is the received record
				if _, ok := Unwrap(call.Common().Args[1]).(*ssa.Extract); ok || strings.Contains(Render(call.Common().Args[1]), "select") || strings.Contains(Render(call.Common().Args[1]), "<-") {
					okAdd = true
				}
			}
		}
	}
	c.Check(okAdd, "detector", "record added to its group's set", p.Pos(kd.Pos()), "", "the received knock record is not added to the Knocks set of the group found for it")
	plFns := c20PortListFns(kd)
	c20PortListSized(c, "port-list", kd, plFns)
	// label arms
	labels := map[string]bool{}
	for _, an := range plFns {
		for _, b := range an.Blocks {
			for _, in := range b.Instrs {
				if ta, ok := in.(*ssa.TypeAssert); ok && ta.CommaOk {
					if n := NamedOf(ta.AssertedType); n != nil && strings.HasPrefix(n.Obj().Name(), "Knock") {
						labels[n.Obj().Name()] = true
					}
				}
				// constants: tcp/%d udp/%d icmp
			}
		}
	}
	for _, k := range []string{"KnockTCPPort", "KnockUDPPort", "KnockICMP"} {
		c.Check(labels[k], "port-list", "label arm for "+k, p.Pos(kd.Pos()), "", "the port list has no arm for "+k+" records (they would be listed as empty strings)")
	}
	// label/protocol pairing: "tcp/%d" under KnockTCPPort assertion etc.
	for _, an := range plFns {
		for _, call := range Calls(an) {
			f := call.Common().StaticCallee()
			if f == nil || f.Name() != "Sprintf" {
				continue
			}
			fmtS, _ := ConstString(call.Common().Args[0])
			var wantT string
			switch {
			case strings.HasPrefix(fmtS, "tcp/"):
				wantT = "KnockTCPPort"
			case strings.HasPrefix(fmtS, "udp/"):
				wantT = "KnockUDPPort"
			default:
				continue
			}
			ok := false
			for _, dc := range DomConds(call) {
				if ex, okx := dc.V.(*ssa.Extract); okx && dc.Pol {
					if ta, okt := ex.Tuple.(*ssa.TypeAssert); okt {
						if n := NamedOf(ta.AssertedType); n != nil && n.Obj().Name() == wantT {
							ok = true
						}
					}
				}
			}
			arg := Render(call.Common().Args[1])
			c.Check(ok && strings.Contains(arg, "DestinationPort"), "port-list", "label "+fmtS, p.InstrPos(call), "", "label "+fmtS+" is not produced for "+wantT+" records with their destination port: "+arg)
		}
	}
	c.Floor("port-list", 6, "size, three arms, two port labels")
}

// c20PortListFns: the flush closures of the knock detector and the helpers of the package they call.
func c20PortListFns(kd *ssa.Function) []*ssa.Function {
	var plFns []*ssa.Function
	{
		seenPL := map[*ssa.Function]bool{}
		var addPL func(f *ssa.Function, d int)
		addPL = func(f *ssa.Function, d int) {
			if f == nil || seenPL[f] || f.Blocks == nil || d > 2 {
				return
			}
			seenPL[f] = true
			plFns = append(plFns, f)
			for _, a := range f.AnonFuncs {
				addPL(a, d)
			}
			for _, call := range Calls(f) {
				if cal := call.Common().StaticCallee(); cal != nil && InRepo(cal) && PkgOf(cal) == PkgOf(kd) {
					addPL(cal, d+1)
				}
			}
		}
		for _, an := range Anon(kd) {
			addPL(an, 0)
		}
	}
	return plFns
}

// c20PortListSized: the reported port list is make([]string, Knocks.Count()) of the set that is then walked with Each(i, …):
// every index the walk produces is within the list (index safety of the detector goroutine, which has no recover) and no
// probed port is left out.
func c20PortListSized(c *Ctx, rule string, kd *ssa.Function, plFns []*ssa.Function) {
	p := c.P
	// port list: make([]string, Count()) and filled by index inside Each of the same set with three type arms
	for _, an := range plFns {
		for _, b := range an.Blocks {
			for _, in := range b.Instrs {
				ms, ok := in.(*ssa.MakeSlice)
				if !ok || !strings.Contains(types.TypeString(ms.Type(), nil), "string") {
					continue
				}
				lenS := Render(ms.Len)
				// in a helper that is handed the set (knockPortLabels(k.Knocks)): what every call site passes
				if cc, isCall := ms.Len.(*ssa.Call); isCall && len(cc.Call.Args) == 1 {
					if pr, isP := cc.Call.Args[0].(*ssa.Parameter); isP {
						idx := paramIdx(pr)
						for _, g := range p.FuncsIn(canaryRel) {
							for _, call := range Calls(g) {
								if call.Common().StaticCallee() == an && idx < len(call.Common().Args) {
									lenS = strings.Replace(lenS, "(p"+fmt.Sprint(idx)+")", "("+Render(call.Common().Args[idx])+")", 1)
								}
							}
						}
					}
				}
				c.Check(strings.Contains(lenS, "UniqueSet).Count(") && strings.Contains(lenS, ".Knocks"), rule, "sized by the set", p.InstrPos(ms), lenS, "the reported port list is not sized by the group's Knocks.Count(): "+lenS)
			}
		}
	}
}
