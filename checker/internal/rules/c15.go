package rules

import (
	"fmt"
	"go/token"
	"go/types"
	"sort"
	"strings"

	"golang.org/x/tools/go/ssa"

	. "htcheck/internal/core"
)

func init() { Registry["C15"] = c15 }

// legs of a proxied connection
const (
	legUnknown = 0
	legClient  = 1
	legBackend = 2
)

func legName(l int) string { return [...]string{"unknown", "client", "backend"}[l] }

// c15Proxier is one proxying service with the functions of its own package reachable from Handle.
type c15Proxier struct {
	sv    Service
	name  string
	conn  *ssa.Parameter
	reach []*ssa.Function
}

// c15Root strips interface conversions, loads of single-assignment cells and closure captures.
func c15Root(v ssa.Value) ssa.Value {
	for i := 0; i < 24 && v != nil; i++ {
		switch x := v.(type) {
		case *ssa.ChangeInterface:
			v = x.X
		case *ssa.MakeInterface:
			v = x.X
		case *ssa.ChangeType:
			v = x.X
		case *ssa.FreeVar:
			b := freeVarBinding(x)
			if b == nil {
				return v
			}
			v = b
		case *ssa.UnOp:
			if x.Op != token.MUL {
				return v
			}
			cell := x.X
			if fv, ok := cell.(*ssa.FreeVar); ok {
				if b := freeVarBinding(fv); b != nil {
					cell = b
				}
			}
			a, ok := cell.(*ssa.Alloc)
			if !ok {
				return v
			}
			sv := SingleStore(a)
			if sv == nil {
				return v
			}
			v = sv
		default:
			return v
		}
	}
	return v
}

func isDirectorDial(call ssa.CallInstruction) bool {
	cc := call.Common()
	if !cc.IsInvoke() || cc.Method.Name() != "Dial" {
		return false
	}
	n := NamedOf(cc.Value.Type())
	return n != nil && n.Obj().Name() == "Director" && n.Obj().Pkg() != nil && strings.HasSuffix(n.Obj().Pkg().Path(), "/director")
}

// c15Leg classifies which side of the proxy a value talks to.
func (px *c15Proxier) leg(v ssa.Value, depth int) int {
	if depth > 6 || v == nil {
		return legUnknown
	}
	r := c15Root(v)
	// a field of a small per-connection struct built in the handler (relay{s, conn, id}): what was stored there
	if ld, ok := r.(*ssa.UnOp); ok && ld.Op == token.MUL {
		if fa, ok := ld.X.(*ssa.FieldAddr); ok {
			if a, ok := px.throughParams(c15Root(fa.X), 0).(*ssa.Alloc); ok {
				var stored ssa.Value
				n := 0
				for _, ref := range *a.Referrers() {
					if fa2, ok := ref.(*ssa.FieldAddr); ok && fa2.Field == fa.Field {
						for _, r2 := range *fa2.Referrers() {
							if st, ok := r2.(*ssa.Store); ok && st.Addr == ssa.Value(fa2) {
								stored = st.Val
								n++
							}
						}
					}
				}
				if n == 1 {
					return px.leg(stored, depth+1)
				}
			}
		}
	}
	switch x := r.(type) {
	case *ssa.Parameter:
		if x == px.conn {
			return legClient
		}
		// parameter of a helper of the service: the leg every in-reach call site passes
		fn := x.Parent()
		idx := -1
		for i, q := range fn.Params {
			if q == x {
				idx = i
			}
		}
		leg, n := legUnknown, 0
		for _, g := range px.reach {
			for _, call := range Calls(g) {
				if call.Common().StaticCallee() != fn || idx >= len(call.Common().Args) {
					continue
				}
				l := px.leg(call.Common().Args[idx], depth+1)
				if n > 0 && l != leg {
					return legUnknown
				}
				leg = l
				n++
			}
		}
		return leg
	case *ssa.Extract:
		call, ok := x.Tuple.(*ssa.Call)
		if !ok {
			return legUnknown
		}
		if isDirectorDial(call) && x.Index == 0 {
			return legBackend
		}
		cc := call.Common()
		if cc.IsInvoke() {
			switch cc.Method.Name() {
			case "Accept": // ssh.NewChannel.Accept: the client's channel and its requests
				if n := NamedOf(cc.Value.Type()); n != nil && n.Obj().Name() == "NewChannel" && x.Index <= 1 {
					return legClient
				}
			case "OpenChannel": // on the ssh client built over the dialled connection
				if x.Index <= 1 {
					return legBackend
				}
			}
		}
		// in-repo helper reading from one reader argument (readMessage(conn, buf))
		if f := cc.StaticCallee(); f != nil && InRepo(f) && x.Index == 0 {
			return px.wrapperLeg(cc, depth)
		}
	case *ssa.Call:
		cc := x.Common()
		if f := cc.StaticCallee(); f != nil {
			return px.wrapperLeg(cc, depth)
		}
	}
	return legUnknown
}

// throughParams: a parameter of a helper of the service stands for the value every in-reach call site passes for it.
func (px *c15Proxier) throughParams(v ssa.Value, depth int) ssa.Value {
	pr, ok := v.(*ssa.Parameter)
	if !ok || depth > 4 || pr.Parent() == px.sv.Handle {
		return v
	}
	idx := paramIdx(pr)
	var got ssa.Value
	for _, g := range px.reach {
		for _, call := range Calls(g) {
			if call.Common().StaticCallee() != pr.Parent() || idx >= len(call.Common().Args) {
				continue
			}
			a := px.throughParams(c15Root(call.Common().Args[idx]), depth+1)
			if got != nil && got != a {
				return v
			}
			got = a
		}
	}
	if got == nil {
		return v
	}
	return got
}

// wrapperLeg: a call with exactly one stream-like argument (bufio.NewReader(conn), NewTypeWriterReadCloser(ch),
// readMessage(conn, buf)) belongs to that argument's leg.
func (px *c15Proxier) wrapperLeg(cc *ssa.CallCommon, depth int) int {
	leg, n := legUnknown, 0
	// only wrappers known to pass the stream through: bufio/textproto constructors and the service's own helpers
	if f := cc.StaticCallee(); f == nil || !(isReaderCtor(f) || InRepo(f) || (PkgOf(f) == "bufio" && f.Name() == "NewWriter")) {
		return legUnknown
	}
	for _, a := range cc.Args {
		t := a.Type()
		if HasMethod(t, "Read") || HasMethod(t, "Write") {
			n++
			leg = px.leg(a, depth+1)
		}
	}
	if n == 1 {
		return leg
	}
	return legUnknown
}

// outbound connection constructors of the standard library and x/crypto that a proxy must not call itself.
func isOutboundSink(f *ssa.Function) bool {
	if f == nil {
		return false
	}
	pk := PkgOf(f)
	n := f.Name()
	switch pk {
	case "net", "crypto/tls", "golang.org/x/crypto/ssh", "net/smtp", "net/rpc", "golang.org/x/net/proxy", "golang.org/x/net/websocket", "github.com/gorilla/websocket":
		if strings.HasPrefix(n, "Dial") {
			return true
		}
		if pk == "net" && (n == "WriteTo" || n == "WriteToUDP" || n == "WriteToIP" || n == "WriteMsgUDP") {
			return true
		}
	case "net/http":
		switch n {
		case "Get", "Post", "Head", "PostForm", "Do", "RoundTrip":
			return true
		}
	}
	return false
}

func c15Proxiers(c *Ctx) []*c15Proxier {
	p := c.P
	prox := p.Iface("services", "Proxier")
	if !c.Anchor(prox != nil, "dial-only-through-director", "interface services.Proxier") {
		return nil
	}
	var out []*c15Proxier
	for _, sv := range Services(c) {
		if !Implements(sv.Type, prox) && !Implements(types.NewPointer(sv.Type), prox) {
			continue
		}
		px := &c15Proxier{sv: sv, name: strings.Join(sv.Names, "/"), conn: handleConn(sv.Handle)}
		if px.name == "" {
			px.name = TypeKey(sv.Type)
		}
		if px.conn == nil {
			continue
		}
		// own-package reach through static calls and closures
		seen := map[*ssa.Function]bool{}
		var visit func(fn *ssa.Function)
		visit = func(fn *ssa.Function) {
			if fn == nil || seen[fn] || fn.Blocks == nil || !InRepo(fn) {
				return
			}
			seen[fn] = true
			px.reach = append(px.reach, fn)
			for _, a := range fn.AnonFuncs {
				visit(a)
			}
			for _, call := range Calls(fn) {
				if f := call.Common().StaticCallee(); f != nil && PkgOf(f) == PkgOf(sv.Handle) {
					visit(f)
				}
			}
		}
		visit(sv.Handle)
		out = append(out, px)
	}
	sort.Slice(out, func(i, j int) bool { return out[i].name < out[j].name })
	return out
}

func c15(c *Ctx) {
	p := c.P
	c.Explanation = "Static necessary-condition checks for faithful relaying by the proxy services (every type implementing services.Proxier), decided for all inputs and schedules on the shape of the code: " +
		"(who-may-dial) no function reachable from a proxy's Handle opens an outbound connection itself, every backend connection comes from Director.Dial on the director stored by SetDirector, called with this connection; the forward director dials exactly JoinHostPort(configured host, this connection's port or the configured port) and keeps no per-call state; " +
		"(crossing) every byte sequence written to one leg was read from the other leg (request/response object, io.Copy pair, framed helper, or Read count of the same buffer), ssh requests/channels/credentials are forwarded with the fields of the received object; " +
		"(readers) buffering readers over either leg are created once per connection, not per request; a bare Read on a stream leg is never taken to be a whole message; connection-type tests can succeed for the types the dispatcher passes; " +
		"(unconditional) relaying is not gated on decoding the client's bytes; parsed HTTP objects are not mutated between parse and re-serialisation; the ssh recorder passes bytes through unchanged; " +
		"(recorded) every relay write is dominated or post-dominated (failure of the write itself excepted) by an event emission whose address options come from the client connection. " +
		"Byte-for-byte equality of what net/http re-serialises, ordering across goroutines (exit-status versus end of data), stderr relaying and datagram boundaries are run-time matters and NOT decided."
	c.Assume("net/http's Request.Write/Response.Write re-serialise what ReadRequest/ReadResponse parsed; golang.org/x/crypto/ssh delivers requests and data in order")
	c.Assume("directors other than forward (lxc, qemu, dummy) choose their own container address by design and are outside 'the configured backend'")
	pxs := c15Proxiers(c)
	var names []string
	for _, px := range pxs {
		names = append(names, px.name)
	}
	c.Extra["proxiers"] = names
	c.Check(len(pxs) >= 4, "dial-only-through-director", "proxying services found", "-", strings.Join(names, ", "), fmt.Sprintf("expected the four proxy services (http-proxy, ssh-proxy, copy, dns-proxy), found %v", names))
	valid := handlerConnTypes(p)
	for _, px := range pxs {
		c15Dial(c, px)
		c15Readers(c, px, valid)
		c15NoOverread(c, px)
		c15Relay(c, px)
		c15Events(c, px)
		c15HalfClose(c, px)
		c15TeeWriters(c, px)
	}
	c15Forward(c)
	c15Wiring(c)
	c15HTTP(c, pxs)
	c15SSH(c, pxs)
	// the dispatcher's peek connection replays the client's first bytes to a proxy on a shared port (shared with C08), and no
	// recycled buffer may stay behind it
	if peekT, peek, pread := c.P.Type("server", "peekConnection"), c.P.Method("server", "peekConnection", "Peek"), c.P.Method("server", "peekConnection", "Read"); c.Anchor(peekT != nil && peek != nil && pread != nil, "peek-replay", "server.peekConnection with Peek and Read") {
		c08Peek(c, peek, pread, peekT)
	}
	releasedMemoryNotRetained(c, "released-memory-not-retained", "the request one client's proxy forwards is overwritten by another client's first bytes", "server", "services")
}

// ---------- who may dial

func c15Dial(c *Ctx, px *c15Proxier) {
	p := c.P
	// the director field and its writers
	st, _ := px.sv.Type.Underlying().(*types.Struct)
	dirField := -1
	if st != nil {
		for i := 0; i < st.NumFields(); i++ {
			if n := NamedOf(st.Field(i).Type()); n != nil && n.Obj().Name() == "Director" {
				dirField = i
			}
		}
	}
	if !c.Anchor(dirField >= 0, "director-field", px.name+": field of type director.Director") {
		return
	}
	fname := st.Field(dirField).Name()
	for _, fn := range p.Funcs() {
		if PkgOf(fn) != PkgOf(px.sv.Handle) {
			continue
		}
		for _, b := range fn.Blocks {
			for _, in := range b.Instrs {
				s, ok := in.(*ssa.Store)
				if !ok {
					continue
				}
				fa, ok := s.Addr.(*ssa.FieldAddr)
				if !ok || fa.Field != dirField || NamedOf(fa.X.Type()) != px.sv.Type {
					continue
				}
				key := fmt.Sprintf("%s: store to .%s in %s", px.name, fname, shortFn(fn))
				okSet := fn.Name() == "SetDirector" && len(fn.Params) == 2 && s.Val == ssa.Value(fn.Params[1])
				c.Check(okSet, "director-field", key, p.InstrPos(s), "SetDirector stores its argument", "the proxy's director is replaced outside SetDirector (or with something other than the configured director): backend connections may go elsewhere")
			}
		}
	}
	nd := 0
	for _, fn := range px.reach {
		for _, call := range Calls(fn) {
			cc := call.Common()
			if f := cc.StaticCallee(); isOutboundSink(f) {
				c.Violate("dial-only-through-director", fmt.Sprintf("%s: %s in %s", px.name, FuncShort(f), shortFn(fn)), p.InstrPos(call), "the proxy opens an outbound connection itself instead of asking its director: the address is not the configured backend")
				continue
			}
			if cc.IsInvoke() && isOutboundName(cc.Method.Name()) && !isDirectorDial(call) {
				c.Violate("dial-only-through-director", fmt.Sprintf("%s: invoke %s in %s", px.name, cc.Method.Name(), shortFn(fn)), p.InstrPos(call), "outbound connection through an interface other than director.Director")
				continue
			}
			if !isDirectorDial(call) {
				continue
			}
			nd++
			key := fmt.Sprintf("%s: Director.Dial #%d in %s", px.name, nd, shortFn(fn))
			recvOK := false
			if x, ok := isFieldLoadNamed(cc.Value, fname); ok {
				r := px.throughParams(c15Root(x), 0)
				if pr, isP := r.(*ssa.Parameter); isP && pr == px.sv.Handle.Params[0] {
					recvOK = true
				}
			}
			argOK := len(cc.Args) == 1 && px.leg(cc.Args[0], 0) == legClient && px.throughParams(c15Root(cc.Args[0]), 0) == ssa.Value(px.conn)
			switch {
			case !recvOK:
				c.Violate("dial-only-through-director", key, p.InstrPos(call), "Dial is invoked on something other than the director stored in this service by SetDirector: "+Render(cc.Value))
			case !argOK:
				c.Violate("dial-only-through-director", key, p.InstrPos(call), "Dial is not given this handler's client connection (the forward director derives the backend port from it): "+Render(cc.Args[0]))
			default:
				c.Ok("dial-only-through-director", key, p.InstrPos(call), "s."+fname+".Dial(conn)")
			}
		}
	}
	c.Check(nd >= 1, "dial-only-through-director", px.name+": has a Director.Dial site", p.Pos(px.sv.Handle.Pos()), fmt.Sprint(nd), "no Director.Dial call reachable from the proxy's Handle: nothing is relayed to the configured backend")
}

func isOutboundName(n string) bool {
	return n == "Dial" || n == "DialContext" || n == "DialTimeout" || n == "RoundTrip"
}
