package rules

import (
	"fmt"
	"go/constant"
	"go/token"
	"go/types"

	"golang.org/x/tools/go/ssa"

	. "htcheck/internal/core"
)

// c02CounterReleased (rule admission-counter-released): a counter that admits work (atomic add before a goroutine is
// started, refusal above a maximum) is given back by that goroutine. The goroutines of the raw listener recover from
// panics, so a decrement written as the last statement of the body is skipped by every recovered panic; each leaves
// the counter one higher for good, and when it has crept up to the maximum every later frame of that kind is shed –
// the listener is alive and deaf. The decrement has to be deferred (or sit in a deferred function).
func c02CounterReleased(c *Ctx, rels ...string) {
	const rule = "admission-counter-released"
	c.Explanation += " An admission counter taken before a goroutine is started is given back by a deferred call when that goroutine recovers from panics."
	p := c.P
	type site struct {
		call ssa.CallInstruction
		fa   *ssa.FieldAddr
		sign int
	}
	atomicAdd := func(call ssa.CallInstruction) (*ssa.FieldAddr, int) {
		f := call.Common().StaticCallee()
		if f == nil || PkgOf(f) != "sync/atomic" || len(call.Common().Args) < 2 {
			return nil, 0
		}
		switch f.Name() {
		case "AddInt32", "AddInt64", "AddUint32", "AddUint64", "Add":
		default:
			return nil, 0
		}
		args := call.Common().Args
		fa, ok := args[0].(*ssa.FieldAddr)
		if !ok {
			return nil, 0
		}
		k, ok := args[len(args)-1].(*ssa.Const)
		if !ok || k.Value == nil || k.Value.Kind() != constant.Int {
			// ^uint32(0) style decrement
			return fa, 0
		}
		switch constant.Sign(k.Value) {
		case 1:
			if bt, ok := k.Type().Underlying().(*types.Basic); ok && bt.Info()&types.IsUnsigned != 0 && k.Uint64() > 1<<31 {
				return fa, -1
			}
			return fa, 1
		case -1:
			return fa, -1
		}
		return fa, 0
	}
	same := func(a, b *ssa.FieldAddr) bool {
		return a.Field == b.Field && types.Identical(a.X.Type(), b.X.Type())
	}
	n := 0
	for _, fn := range p.FuncsIn(rels...) {
		if fn.Parent() != nil {
			continue
		}
		var incs []site
		for _, call := range Calls(fn) {
			if fa, s := atomicAdd(call); fa != nil && s > 0 {
				incs = append(incs, site{call, fa, s})
			}
		}
		for _, inc := range incs {
			// goroutines started after the increment
			for _, b := range fn.Blocks {
				for _, in := range b.Instrs {
					g, ok := in.(*ssa.Go)
					if !ok {
						continue
					}
					mc, ok := g.Call.Value.(*ssa.MakeClosure)
					if !ok {
						continue
					}
					gf := mc.Fn.(*ssa.Function)
					var decs []ssa.CallInstruction
					deferred := false
					scan := func(f *ssa.Function, isDeferredFn bool) {
						for _, call := range Calls(f) {
							fa, s := atomicAdd(call)
							if fa == nil || s >= 0 || !same(fa, inc.fa) {
								continue
							}
							decs = append(decs, call)
							if _, isDefer := call.(*ssa.Defer); isDefer || isDeferredFn {
								deferred = true
							}
						}
					}
					scan(gf, false)
					for _, b2 := range gf.Blocks {
						for _, in2 := range b2.Instrs {
							if d, ok := in2.(*ssa.Defer); ok {
								if dm, ok := d.Call.Value.(*ssa.MakeClosure); ok {
									scan(dm.Fn.(*ssa.Function), true)
								}
							}
						}
					}
					if len(decs) == 0 {
						continue
					}
					n++
					key := fmt.Sprintf("%s: counter .%s taken before go, given back in %s", shortFn(fn), fieldNameOf(inc.fa), shortFn(gf))
					if !hasRecover(gf) {
						c.Ok(rule, key, p.InstrPos(decs[0]), "the goroutine does not recover: a panic ends the process, nothing is left to leak")
						continue
					}
					c.Check(deferred, rule, key, p.InstrPos(decs[0]), "given back in a deferred call", "the goroutine recovers from panics, and the counter it was admitted under is given back by a plain statement of its body, not by a deferred call: every frame that makes the decoder panic leaves the counter one higher for good; once it has reached the maximum every later frame of this kind is dropped unseen although the listener runs")
				}
			}
		}
	}
	_ = token.ADD
	c.Ok(rule, "admission counters", "-", fmt.Sprintf("%d examined in %v", n, rels))
}
