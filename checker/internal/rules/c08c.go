package rules

import (
	"fmt"
	"go/token"
	"go/types"
	"strings"

	"golang.org/x/tools/go/ssa"

	. "htcheck/internal/core"
)

// Alternative shapes of the peek connection's replay store, decided with the same obligations as the slice form
// (peek-replay, replay-before-delegate, replay-count):
//   form B – a bytes.Buffer: Peek writes p[:n] into it, Read serves buffer.Read(p) while Len() > 0;
//   form O – the slice kept whole plus a read offset: Read copies from buffer[off:] and adds the copied count to off.

// recvField: v is a load of (or the address of) field idx of fn's receiver.
func recvFieldIdx(v ssa.Value, fn *ssa.Function) (int, bool) {
	if ld, ok := v.(*ssa.UnOp); ok && ld.Op == token.MUL {
		v = ld.X
	}
	fa, ok := v.(*ssa.FieldAddr)
	if !ok || fa.X != ssa.Value(fn.Params[0]) {
		return 0, false
	}
	return fa.Field, true
}

func isBytesBufferMethod(call ssa.CallInstruction, name string) bool {
	f := call.Common().StaticCallee()
	return f != nil && MethodIs(f, "bytes", "Buffer", name)
}

// delegateReads: the invoke Read calls on the embedded connection in fn.
func delegateReads(fn *ssa.Function) []*ssa.Call {
	var out []*ssa.Call
	for _, call := range Calls(fn) {
		cc := call.Common()
		if cv, ok := call.(*ssa.Call); ok && cc.IsInvoke() && cc.Method.Name() == "Read" {
			out = append(out, cv)
		}
	}
	return out
}

func c08PeekFormB(c *Ctx, peek, pread *ssa.Function, bbIdx int) {
	p := c.P
	// Peek: buffer.Write(p[:n]) with n the delegate Read(p)'s count
	okW := false
	why := "Peek does not write the bytes it read into the replay buffer"
	for _, call := range Calls(peek) {
		if !isBytesBufferMethod(call, "Write") || len(call.Common().Args) != 2 {
			continue
		}
		if idx, ok := recvFieldIdx(call.Common().Args[0], peek); !ok || idx != bbIdx {
			continue
		}
		why = "the written slice is not p[:n] of the delegate Read(p): " + Render(call.Common().Args[1])
		if sl, ok := call.Common().Args[1].(*ssa.Slice); ok && sl.X == ssa.Value(peek.Params[1]) && sl.Low == nil && sl.High != nil && sl.Max == nil {
			if ex, ok := sl.High.(*ssa.Extract); ok && ex.Index == 0 {
				if rc, ok := ex.Tuple.(*ssa.Call); ok && rc.Call.IsInvoke() && rc.Call.Method.Name() == "Read" && len(rc.Call.Args) == 1 && rc.Call.Args[0] == ssa.Value(peek.Params[1]) {
					okW = true
				}
			}
		}
		c.Check(okW, "peek-replay", shortFn(peek)+" stores peekConnection.buffer", p.InstrPos(call), "Peek writes a copy of exactly p[:n] into the buffer", why+" (a different count loses or invents bytes)")
	}
	if !okW && why == "Peek does not write the bytes it read into the replay buffer" {
		c.Violate("peek-replay", shortFn(peek)+" stores peekConnection.buffer", p.Pos(peek.Pos()), why)
	}
	// Read: buffered arm returns buffer.Read(p) under Len() > 0; the delegate runs only when Len() == 0
	var bread *ssa.Call
	for _, call := range Calls(pread) {
		if cv, ok := call.(*ssa.Call); ok && isBytesBufferMethod(call, "Read") && len(cv.Call.Args) == 2 {
			if idx, ok := recvFieldIdx(cv.Call.Args[0], pread); ok && idx == bbIdx && cv.Call.Args[1] == ssa.Value(pread.Params[1]) {
				bread = cv
			}
		}
	}
	c.Check(bread != nil, "peek-replay", shortFn(pread)+" stores peekConnection.buffer", p.Pos(pread.Pos()), "Read serves the buffered bytes through buffer.Read(p), which drops exactly what it copied", "Read does not serve the replay buffer with buffer.Read(p)")
	lenCond := func(dc Cond) (nonEmpty, ok bool) {
		bo, isB := dc.V.(*ssa.BinOp)
		if !isB {
			return false, false
		}
		lc, isC := bo.X.(*ssa.Call)
		k, isK := ConstInt(bo.Y)
		if !isC || !isK || k != 0 || !isBytesBufferMethod(lc, "Len") {
			return false, false
		}
		if idx, okI := recvFieldIdx(lc.Call.Args[0], pread); !okI || idx != bbIdx {
			return false, false
		}
		switch bo.Op {
		case token.GTR, token.NEQ:
			return dc.Pol, true
		case token.EQL, token.LEQ:
			return !dc.Pol, true
		}
		return false, false
	}
	for _, d := range delegateReads(pread) {
		ok := false
		for _, dc := range DomConds(d) {
			if ne, isL := lenCond(dc); isL && !ne {
				ok = true
			}
		}
		c.Check(ok, "replay-before-delegate", "peekConnection.Read delegate", p.InstrPos(d), "underlying Read only when no peeked bytes remain", "Read reaches the underlying connection while peeked bytes may remain (order of the stream broken)")
		c.Check(len(d.Call.Args) == 1 && d.Call.Args[0] == ssa.Value(pread.Params[1]), "replay-before-delegate", "peekConnection.Read delegate buffer", p.InstrPos(d), "", "delegate Read does not fill the caller's buffer")
	}
	for i, r := range Returns(pread) {
		if len(r.Results) != 2 {
			continue
		}
		key := fmt.Sprintf("peekConnection.Read return[%d]", i)
		for _, lf := range leaves(RetVals(r)[0]) {
			ok := false
			if ex, isEx := lf.(*ssa.Extract); isEx && ex.Index == 0 {
				if rc, isC := ex.Tuple.(*ssa.Call); isC {
					if rc == bread {
						ok = true
					}
					if rc.Call.IsInvoke() && rc.Call.Method.Name() == "Read" && len(rc.Call.Args) == 1 && rc.Call.Args[0] == ssa.Value(pread.Params[1]) {
						ok = true
					}
				}
			}
			c.Check(ok, "replay-count", key, p.InstrPos(r), "returned count = "+Render(lf), "Read returns a count that is neither the replayed nor the delegate's count: "+Render(lf))
		}
	}
}

// c08PeekFormO: Read of the slice-plus-offset form. offIdx is the int field used as the read offset.
func c08PeekFormO(c *Ctx, pread *ssa.Function, bufIdx, offIdx int) {
	p := c.P
	isLoadOf := func(v ssa.Value, idx int) bool {
		if _, ok := v.(*ssa.UnOp); !ok {
			return false
		}
		i, ok := recvFieldIdx(v, pread)
		return ok && i == idx
	}
	// the serving copy: copy(p, buffer[off:])
	var cp *ssa.Call
	for _, call := range Calls(pread) {
		cv, ok := call.(*ssa.Call)
		if !ok {
			continue
		}
		bi, ok := cv.Call.Value.(*ssa.Builtin)
		if !ok || bi.Name() != "copy" || cv.Call.Args[0] != ssa.Value(pread.Params[1]) {
			continue
		}
		if sl, ok := cv.Call.Args[1].(*ssa.Slice); ok && sl.High == nil && sl.Low != nil && isLoadOf(sl.X, bufIdx) && isLoadOf(sl.Low, offIdx) {
			cp = cv
		}
	}
	if !c.Check(cp != nil, "peek-replay", shortFn(pread)+" stores peekConnection.buffer", p.Pos(pread.Pos()), "Read serves copy(p, buffer[off:])", "Read does not serve the peeked bytes from buffer[off:]") {
		return
	}
	// every store to the offset in Read: off = off + copied
	nst := 0
	for _, b := range pread.Blocks {
		for _, in := range b.Instrs {
			st, ok := in.(*ssa.Store)
			if !ok {
				continue
			}
			if idx, ok := recvFieldIdx(st.Addr, pread); !ok || idx != offIdx {
				continue
			}
			nst++
			good := false
			if bo, ok := st.Val.(*ssa.BinOp); ok && bo.Op == token.ADD {
				if (isLoadOf(bo.X, offIdx) && bo.Y == ssa.Value(cp)) || (isLoadOf(bo.Y, offIdx) && bo.X == ssa.Value(cp)) {
					good = true
				}
			}
			c.Check(good && before(cp, st), "peek-replay", shortFn(pread)+" advances the read offset", p.InstrPos(st), "offset advanced by exactly the copied count", "Read does not advance the read offset by the number of bytes copied to the caller: "+Render(st.Val))
		}
	}
	c.Check(nst >= 1, "peek-replay", shortFn(pread)+" advances the read offset (present)", p.InstrPos(cp), "", "the read offset is never advanced after the copy: the peeked bytes are replayed again and again")
	// delegate only when off >= len(buffer)
	exhausted := func(dc Cond) (bool, bool) {
		bo, ok := dc.V.(*ssa.BinOp)
		if !ok {
			return false, false
		}
		lx, xLen := isLenOf(bo.X)
		ly, yLen := isLenOf(bo.Y)
		switch {
		case isLoadOf(bo.X, offIdx) && yLen && isLoadOf(ly, bufIdx): // off OP len(buffer)
			switch bo.Op {
			case token.GEQ, token.EQL:
				return dc.Pol, true
			case token.LSS, token.NEQ:
				return !dc.Pol, true
			}
		case xLen && isLoadOf(lx, bufIdx) && isLoadOf(bo.Y, offIdx): // len(buffer) OP off
			switch bo.Op {
			case token.LEQ, token.EQL:
				return dc.Pol, true
			case token.GTR, token.NEQ:
				return !dc.Pol, true
			}
		}
		return false, false
	}
	for _, d := range delegateReads(pread) {
		ok := false
		for _, dc := range DomConds(d) {
			if ex, isC := exhausted(dc); isC && ex {
				ok = true
			}
		}
		c.Check(ok, "replay-before-delegate", "peekConnection.Read delegate", p.InstrPos(d), "underlying Read only when no peeked bytes remain", "Read reaches the underlying connection while peeked bytes may remain (order of the stream broken)")
		c.Check(len(d.Call.Args) == 1 && d.Call.Args[0] == ssa.Value(pread.Params[1]), "replay-before-delegate", "peekConnection.Read delegate buffer", p.InstrPos(d), "", "delegate Read does not fill the caller's buffer")
	}
	for i, r := range Returns(pread) {
		if len(r.Results) != 2 {
			continue
		}
		key := fmt.Sprintf("peekConnection.Read return[%d]", i)
		for _, lf := range leaves(RetVals(r)[0]) {
			ok := lf == ssa.Value(cp)
			if ex, isEx := lf.(*ssa.Extract); isEx && ex.Index == 0 {
				if rc, isC := ex.Tuple.(*ssa.Call); isC && rc.Call.IsInvoke() && rc.Call.Method.Name() == "Read" && len(rc.Call.Args) == 1 && rc.Call.Args[0] == ssa.Value(pread.Params[1]) {
					ok = true
				}
			}
			c.Check(ok, "replay-count", key, p.InstrPos(r), "returned count = "+Render(lf), "Read returns a count that is neither the copied nor the delegate's count: "+Render(lf))
		}
	}
}

// offsetFieldOf: an int field of the receiver that Read stores to (the read offset of form O), or -1.
func offsetFieldOf(pread *ssa.Function, st *types.Struct) int {
	for _, b := range pread.Blocks {
		for _, in := range b.Instrs {
			s, ok := in.(*ssa.Store)
			if !ok {
				continue
			}
			if idx, ok := recvFieldIdx(s.Addr, pread); ok && idx < st.NumFields() {
				if bt, isB := st.Field(idx).Type().Underlying().(*types.Basic); isB && bt.Info()&types.IsInteger != 0 {
					return idx
				}
			}
		}
	}
	return -1
}

// decodeTargetsFresh: the configuration is decoded entry by entry (`for _, s := range cfg.Ports { PrimitiveDecode(s, &x) }`).
// The decoder only sets the keys an entry has, so the struct it decodes into must be a new zero value for every entry:
// declared once outside the loop, a later entry that omits a key (no `services`) silently inherits the previous
// entry's value – a port that was configured without services is then served by the previous port's services.
func decodeTargetsFresh(c *Ctx, rule string) {
	p := c.P
	n := 0
	for _, fn := range p.FuncsIn("server") {
		if fn.Blocks == nil || strings.HasSuffix(p.Fset.Position(fn.Pos()).Filename, "_test.go") {
			continue
		}
		for _, call := range Calls(fn) {
			cc := call.Common()
			name := ""
			if cc.IsInvoke() {
				name = cc.Method.Name()
			} else if f := cc.StaticCallee(); f != nil {
				name = f.Name()
			}
			if name != "PrimitiveDecode" || len(cc.Args) == 0 || !InLoop(call.Block()) {
				continue
			}
			target := Unwrap(cc.Args[len(cc.Args)-1])
			n++
			key := fmt.Sprintf("%s decode #%d", shortFn(fn), n)
			a, isAlloc := target.(*ssa.Alloc)
			c.Check(isAlloc && InLoop(a.Block()), rule, key, p.InstrPos(call), "each entry is decoded into a fresh zero struct",
				"the struct an entry is decoded into is not allocated inside the entry loop ("+RenderN(target, 2)+"): keys absent from a later entry (port/ports/services) keep the previous entry's values, so a port configured without services inherits the services of the entry before it")
		}
	}
	c.Floor(rule, 2, "[[port]] and [[filter]] entries of Run")
}
