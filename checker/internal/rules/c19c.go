package rules

import (
	"fmt"
	"go/token"

	. "htcheck/internal/core"

	"golang.org/x/tools/go/ssa"
)

// c19PortOrderPreserved (rule port-strings-in-configured-order): "the first definition wins" is decided in the order the
// port strings are walked. The list walked for an entry is therefore the entry's configured strings in configured
// order: assembled from the decoded fields with append only. A list that went through anything else on the way –
// a de-duplicating/sorting helper, sort.Strings – is walked in a different order, and of two compatible spellings of
// one port in an entry the other one wins (a different address is listened on).
func c19PortOrderPreserved(c *Ctx) {
	const rule = "port-strings-in-configured-order"
	c.Explanation += " The port strings of an entry are walked in configured order: the walked list is assembled from the decoded fields by append only."
	p := c.P
	toAddr := p.Func("server", "ToAddr")
	if !c.Anchor(toAddr != nil, rule, "server.ToAddr") {
		return
	}
	n := 0
	for _, fn := range p.FuncsIn("server") {
		for _, call := range Calls(fn) {
			if call.Common().StaticCallee() != toAddr || len(call.Common().Args) != 1 {
				continue
			}
			// the string is an element of the walked list
			ld, ok := call.Common().Args[0].(*ssa.UnOp)
			if !ok || ld.Op != token.MUL {
				continue
			}
			ia, ok := ld.X.(*ssa.IndexAddr)
			if !ok {
				continue
			}
			n++
			key := fmt.Sprintf("%s walks %s", shortFn(fn), RenderN(ia.X, 2))
			bad := ""
			seen := map[ssa.Value]bool{}
			var walk func(v ssa.Value, d int)
			walk = func(v ssa.Value, d int) {
				if v == nil || seen[v] || d > 12 || bad != "" {
					return
				}
				seen[v] = true
				// sorted in place?
				if v.Referrers() != nil {
					for _, r := range *v.Referrers() {
						if rc, ok := r.(ssa.CallInstruction); ok {
							if f := rc.Common().StaticCallee(); f != nil && (PkgOf(f) == "sort" || PkgOf(f) == "slices") {
								bad = "it is handed to " + FuncShort(f) + " at " + p.InstrPos(rc)
							}
						}
					}
				}
				switch x := v.(type) {
				case *ssa.Phi:
					for _, e := range x.Edges {
						walk(e, d+1)
					}
				case *ssa.Slice:
					walk(x.X, d+1)
				case *ssa.Call:
					if b, ok := x.Call.Value.(*ssa.Builtin); ok && b.Name() == "append" {
						walk(x.Call.Args[0], d+1)
						return
					}
					// an in-repo helper that returns (a stable selection of) its argument in the argument's order
					if h := x.Call.StaticCallee(); h != nil && InRepo(h) && h.Blocks != nil {
						if pi := orderPreservingHelper(h); pi >= 0 && pi < len(x.Call.Args) {
							walk(x.Call.Args[pi], d+1)
							return
						}
					}
					bad = "it is the result of " + calleeLabel(x) + " (" + p.InstrPos(x) + "), which is not seen to keep its argument's order"
				case *ssa.UnOp:
					if a, ok := x.X.(*ssa.Alloc); ok && x.Op == token.MUL {
						for _, sv := range StoredValues(a) {
							walk(sv, d+1)
						}
					}
				}
			}
			walk(ia.X, 0)
			c.Check(bad == "", rule, key, p.InstrPos(call), "the decoded fields, joined by append", "the list of port strings walked here is not the entry's strings in configured order: "+bad+". Of two compatible spellings of one port in an entry the first configured one must win; walked in another order the other spelling is registered and a different address is listened on")
		}
	}
	c.Floor(rule, 1, "the port loop of Run")
}

// orderPreservingHelper: h returns its slice parameter, or a list built by appending elements of that parameter read by
// an ascending index (a stable filter/copy), and calls nothing from sort/slices. Returns the parameter's index or -1.
func orderPreservingHelper(h *ssa.Function) int {
	for _, call := range Calls(h) {
		if f := call.Common().StaticCallee(); f != nil && (PkgOf(f) == "sort" || PkgOf(f) == "slices") {
			return -1
		}
	}
	pidx := -1
	okAll := true
	for _, r := range Returns(h) {
		vals := RetVals(r)
		if len(vals) == 0 {
			return -1
		}
		seen := map[ssa.Value]bool{}
		var walk func(v ssa.Value, d int)
		walk = func(v ssa.Value, d int) {
			if v == nil || seen[v] || d > 10 || !okAll {
				return
			}
			seen[v] = true
			switch x := v.(type) {
			case *ssa.Parameter:
				pidx = paramIdx(x)
			case *ssa.Phi:
				for _, e := range x.Edges {
					walk(e, d+1)
				}
			case *ssa.Slice:
				walk(x.X, d+1)
			case *ssa.MakeSlice, *ssa.Const, *ssa.Alloc:
			case *ssa.Call:
				b, ok := x.Call.Value.(*ssa.Builtin)
				if !ok || b.Name() != "append" || len(x.Call.Args) != 2 {
					okAll = false
					return
				}
				walk(x.Call.Args[0], d+1)
				el := appendedElem(x.Call.Args[1])
				if el == nil {
					// append(dst, src...) of a whole list
					walk(x.Call.Args[1], d+1)
					return
				}
				if _, isPar := el.(*ssa.Parameter); isPar {
					return // a single string handed in (the entry's `port` field) joins the list at this place
				}
				ld, isL := el.(*ssa.UnOp)
				if !isL || ld.Op != token.MUL {
					okAll = false
					return
				}
				ia, isIA := ld.X.(*ssa.IndexAddr)
				if !isIA || !isAscendingIndex(ia.Index) {
					okAll = false
					return
				}
				if par, isP := c15Root(ia.X).(*ssa.Parameter); isP {
					pidx = paramIdx(par)
				} else {
					okAll = false
				}
			default:
				okAll = false
			}
		}
		walk(vals[0], 0)
	}
	if !okAll {
		return -1
	}
	return pidx
}
