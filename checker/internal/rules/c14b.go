package rules

import (
	"fmt"
	"go/token"
	"go/types"

	"golang.org/x/tools/go/ssa"

	. "htcheck/internal/core"
)

// seqSpace: which 32-bit sequence space a value lives in, by the header/state fields it is computed from.
func seqSpace(v ssa.Value, depth int) (client, server bool) {
	if depth > 6 || v == nil {
		return
	}
	switch x := v.(type) {
	case *ssa.BinOp:
		if x.Op == token.ADD || x.Op == token.SUB {
			c1, s1 := seqSpace(x.X, depth+1)
			c2, s2 := seqSpace(x.Y, depth+1)
			return c1 || c2, s1 || s2
		}
	case *ssa.Convert:
		return seqSpace(x.X, depth+1)
	case *ssa.Phi:
		for _, e := range x.Edges {
			c1, s1 := seqSpace(e, depth+1)
			client, server = client || c1, server || s1
		}
	case *ssa.UnOp:
		if x.Op != token.MUL {
			return
		}
		if fa, ok := x.X.(*ssa.FieldAddr); ok {
			switch fieldNameOf(fa) {
			case "SeqNum", "RecvNext":
				return true, false
			case "AckNum", "SendNext", "SendUnacknowledged", "InitialSendSequenceNumber":
				return false, true
			}
		}
	}
	return
}

// c14SeqCompare: the client chooses its initial sequence number, so values of the client's sequence space
// (SEG.SEQ, RCV.NXT and sums with payload lengths) wrap at 2^32 for inputs the property quantifies over. An ordered
// comparison (<, <=, >, >=) of such uint32 values decides differently on the two sides of the wrap; only equality or the
// signed-difference idiom int32(a-b) is position independent. Comparisons inside the sensor's own sequence space
// (SND.UNA, SND.NXT, SEG.ACK: initial value drawn by the implementation) are listed as observations.
func c14SeqCompare(c *Ctx) {
	p := c.P
	nSrv, nCl := 0, 0
	for _, fn := range p.FuncsIn(canaryRel) {
		for _, b := range fn.Blocks {
			for _, in := range b.Instrs {
				bo, ok := in.(*ssa.BinOp)
				if !ok {
					continue
				}
				switch bo.Op {
				case token.LSS, token.LEQ, token.GTR, token.GEQ:
				default:
					continue
				}
				bt, ok := bo.X.Type().Underlying().(*types.Basic)
				if !ok || bt.Kind() != types.Uint32 {
					continue
				}
				c1, s1 := seqSpace(bo.X, 0)
				c2, s2 := seqSpace(bo.Y, 0)
				switch {
				case c1 || c2:
					nCl++
					c.Violate("client-seq-modular-compare", fmt.Sprintf("%s: %s #%d", shortFn(fn), bo.Op, nCl), p.InstrPos(bo), "ordered uint32 comparison of client sequence-space values ("+RenderN(bo, 3)+"): for a client ISN within one stream length of 2^32 the sum wraps and the test flips, so an in-order segment is treated as old (dropped, not acknowledged) or an old one as new; compare the signed difference int32(a-b) instead")
				case s1 || s2:
					nSrv++
					c.Observe("client-seq-modular-compare", fmt.Sprintf("%s: %s on the sensor's own sequence space #%d", shortFn(fn), bo.Op, nSrv), p.InstrPos(bo), "ordered comparison inside the sensor's send sequence space ("+RenderN(bo, 3)+"): wraps only for an initial send sequence number within a few bytes of 2^32, which the property excludes (server ISN not steerable)")
				}
			}
		}
	}
	c.Check(nSrv+nCl >= 2, "client-seq-modular-compare", "sequence-space comparisons examined", "-", fmt.Sprintf("%d in the sensor's space, %d in the client's", nSrv, nCl), "the matcher found no ordered sequence-number comparison at all (anchor fields renamed?)")
}
