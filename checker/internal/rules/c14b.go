package rules

import (
	"fmt"
	"go/token"
	"go/types"
	"strings"

	"golang.org/x/tools/go/ssa"

	. "htcheck/internal/core"
)

// seqSpace: which 32-bit sequence space a value lives in, by the header/state fields it is computed from.
func seqSpace(v ssa.Value, depth int) (client, server bool) {
	if depth > 6 || v == nil {
		return
	}
	switch x := v.(type) {
	case *ssa.BinOp:
		if x.Op == token.ADD || x.Op == token.SUB {
			c1, s1 := seqSpace(x.X, depth+1)
			c2, s2 := seqSpace(x.Y, depth+1)
			return c1 || c2, s1 || s2
		}
	case *ssa.Convert:
		return seqSpace(x.X, depth+1)
	case *ssa.Phi:
		for _, e := range x.Edges {
			c1, s1 := seqSpace(e, depth+1)
			client, server = client || c1, server || s1
		}
	case *ssa.UnOp:
		if x.Op != token.MUL {
			return
		}
		if fa, ok := x.X.(*ssa.FieldAddr); ok {
			switch fieldNameOf(fa) {
			case "SeqNum", "RecvNext":
				return true, false
			case "AckNum", "SendNext", "SendUnacknowledged", "InitialSendSequenceNumber":
				return false, true
			}
		}
	}
	return
}

// c14SeqCompare: the client chooses its initial sequence number, so values of the client's sequence space
// (SEG.SEQ, RCV.NXT and sums with payload lengths) wrap at 2^32 for inputs the property quantifies over. An ordered
// comparison (<, <=, >, >=) of such uint32 values decides differently on the two sides of the wrap; only equality or the
// signed-difference idiom int32(a-b) is position independent. Comparisons inside the sensor's own sequence space
// (SND.UNA, SND.NXT, SEG.ACK: initial value drawn by the implementation) are listed as observations.
func c14SeqCompare(c *Ctx) {
	p := c.P
	nSrv, nCl := 0, 0
	for _, fn := range p.FuncsIn(canaryRel) {
		for _, b := range fn.Blocks {
			for _, in := range b.Instrs {
				bo, ok := in.(*ssa.BinOp)
				if !ok {
					continue
				}
				switch bo.Op {
				case token.LSS, token.LEQ, token.GTR, token.GEQ:
				default:
					continue
				}
				bt, ok := bo.X.Type().Underlying().(*types.Basic)
				if !ok || bt.Kind() != types.Uint32 {
					continue
				}
				c1, s1 := seqSpace(bo.X, 0)
				c2, s2 := seqSpace(bo.Y, 0)
				switch {
				case c1 || c2:
					nCl++
					c.Violate("client-seq-modular-compare", fmt.Sprintf("%s: %s #%d", shortFn(fn), bo.Op, nCl), p.InstrPos(bo), "ordered uint32 comparison of client sequence-space values ("+RenderN(bo, 3)+"): for a client ISN within one stream length of 2^32 the sum wraps and the test flips, so an in-order segment is treated as old (dropped, not acknowledged) or an old one as new; compare the signed difference int32(a-b) instead")
				case s1 || s2:
					nSrv++
					c.Observe("client-seq-modular-compare", fmt.Sprintf("%s: %s on the sensor's own sequence space #%d", shortFn(fn), bo.Op, nSrv), p.InstrPos(bo), "ordered comparison inside the sensor's send sequence space ("+RenderN(bo, 3)+"): wraps only for an initial send sequence number within a few bytes of 2^32, which the property excludes (server ISN not steerable)")
				}
			}
		}
	}
	c.Check(nSrv+nCl >= 2, "client-seq-modular-compare", "sequence-space comparisons examined", "-", fmt.Sprintf("%d in the sensor's space, %d in the client's", nSrv, nCl), "the matcher found no ordered sequence-number comparison at all (anchor fields renamed?)")
}

// isCarryFold: v = (x >> 16) + (x & 0xffff)  or  (x >> 16) + uint32(uint16(x)) in either operand order.
func isCarryFold(v ssa.Value) bool {
	bo, ok := v.(*ssa.BinOp)
	if !ok || bo.Op != token.ADD {
		return false
	}
	hi := func(a ssa.Value) (ssa.Value, bool) {
		s, ok := a.(*ssa.BinOp)
		if !ok || s.Op != token.SHR {
			return nil, false
		}
		if k, ok := ConstInt(s.Y); !ok || k != 16 {
			return nil, false
		}
		return s.X, true
	}
	lo := func(a ssa.Value) (ssa.Value, bool) {
		if m, ok := a.(*ssa.BinOp); ok && m.Op == token.AND {
			if k, ok := ConstInt(m.Y); ok && k == 0xffff {
				return m.X, true
			}
			if k, ok := ConstInt(m.X); ok && k == 0xffff {
				return m.Y, true
			}
		}
		if cv, ok := a.(*ssa.Convert); ok {
			if cv2, ok := cv.X.(*ssa.Convert); ok {
				if bt, ok := cv2.Type().Underlying().(*types.Basic); ok && bt.Kind() == types.Uint16 {
					return cv2.X, true
				}
			}
		}
		return nil, false
	}
	for _, pr := range [][2]ssa.Value{{bo.X, bo.Y}, {bo.Y, bo.X}} {
		if x, ok := hi(pr[0]); ok {
			if y, ok := lo(pr[1]); ok && x == y {
				return true
			}
		}
	}
	return false
}

// c14ChecksumFold: a one's-complement sum accumulated in 32 bits needs its carries folded back until none is left: a
// single `(s>>16)+(s&0xffff)` can itself carry (0x1ffff -> 0x10000). Every checksum routine of the raw listener must
// fold inside a loop or at least twice; one fold gives a wrong checksum exactly for the sums whose first fold carries
// (which a peer can steer through sequence numbers and payload). The VALUE of the checksum is not decided.
func c14ChecksumFold(c *Ctx) {
	p := c.P
	n := 0
	for _, fn := range p.FuncsIn(canaryRel) {
		folds, inLoop := 0, false
		var first ssa.Instruction
		for _, b := range fn.Blocks {
			for _, in := range b.Instrs {
				v, ok := in.(ssa.Value)
				if !ok || !isCarryFold(v) {
					continue
				}
				folds++
				if first == nil {
					first = in
				}
				if InLoop(b) {
					inLoop = true
				}
			}
		}
		if folds == 0 {
			continue
		}
		n++
		c.Check(inLoop || folds >= 2, "checksum-carry-folded", shortFn(fn), p.InstrPos(first), "carries are folded in a loop (or twice)", fmt.Sprintf("the 32-bit one's-complement sum is folded only once (%d fold, not in a loop): when that fold itself carries the emitted checksum is off by one, so the peer's stack drops the frame", folds))
	}
	c.Check(n >= 2, "checksum-carry-folded", "checksum routines found", "-", fmt.Sprint(n), "fewer than two checksum routines (TCP pseudo-header sum, IPv4 header sum) carry a recognisable fold")
}

// checksumOddOctetHigh: the internet checksum sums 16-bit big-endian words; a message of odd length is padded with a
// zero octet at the END, so its last octet is the HIGH byte of the final word. In every checksum routine of the raw
// listener (a function with a carry fold) an octet of the data that is added outside the pair loop must be shifted
// left by eight. Added as the low byte, every odd-length message with a non-zero last octet fails verification (or is
// sent with a checksum the peer rejects): a probe of such a length is dropped before it is counted.
func checksumOddOctetHigh(c *Ctx, rule, consequence string) {
	p := c.P
	n := 0
	for _, fn := range p.FuncsIn(canaryRel) {
		if fn.Blocks == nil || strings.HasSuffix(p.Fset.Position(fn.Pos()).Filename, "_test.go") {
			continue
		}
		hasFold := false
		for _, b := range fn.Blocks {
			for _, in := range b.Instrs {
				if v, ok := in.(ssa.Value); ok && isCarryFold(v) {
					hasFold = true
				}
			}
		}
		if !hasFold {
			continue
		}
		n++
		bad := ""
		isOctet := func(v ssa.Value) bool {
			for i := 0; i < 3; i++ {
				if cv, ok := v.(*ssa.Convert); ok {
					v = cv.X
					continue
				}
				break
			}
			ld, ok := v.(*ssa.UnOp)
			if !ok || ld.Op != token.MUL {
				return false
			}
			ia, ok := ld.X.(*ssa.IndexAddr)
			if !ok {
				return false
			}
			if _, isConst := ia.Index.(*ssa.Const); isConst {
				return false // a fixed position (pseudo-header address octets), not the tail of a message
			}
			sl, ok := ia.X.Type().Underlying().(*types.Slice)
			return ok && types.Identical(sl.Elem(), types.Typ[types.Byte])
		}
		for _, b := range fn.Blocks {
			if InLoop(b) {
				continue
			}
			for _, in := range b.Instrs {
				bo, ok := in.(*ssa.BinOp)
				if !ok || bo.Op != token.ADD {
					continue
				}
				if isOctet(bo.X) || isOctet(bo.Y) {
					bad = p.InstrPos(bo) + " `" + RenderN(bo, 3) + "`"
				}
			}
		}
		c.Check(bad == "", rule, shortFn(fn)+" trailing octet", p.Pos(fn.Pos()), "no unshifted data octet is added outside the pair loop", "the checksum routine adds a single data octet as the LOW byte of a word outside its pair loop ("+bad+"): the pad octet of an odd-length message belongs after it, so the last octet is the high byte. "+consequence)
	}
	c.Check(n >= 2, rule, "checksum routines found", "-", fmt.Sprint(n), "fewer than two checksum routines with a recognisable carry fold")
}
