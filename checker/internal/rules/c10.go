package rules

import (
	"fmt"
	"go/token"
	"go/types"

	"golang.org/x/tools/go/ssa"

	. "htcheck/internal/core"
)

func init() { Registry["C10"] = c10 }

const servicesPath = ModPath + "/services"

// connWriteSinks finds, inside fn, every instruction that writes to a value derived from `seeds`
// (the handler's connection): method calls Write/WriteString/ReadFrom on a derived value, calls of external
// functions that receive a derived value in a writer-only interface parameter (io.Copy(dst,..), fmt.Fprintf(w,..),
// io.WriteString(w,..)), and calls of in-repo functions whose body has such a sink on the parameter that
// receives the derived value (summaries, recursion-guarded).  Returns sink instructions and the taint set.
func connWriteSinks(fn *ssa.Function, seeds []ssa.Value, memo map[string]bool, depth int) ([]ssa.Instruction, map[ssa.Value]bool) {
	t := Taint(fn, seeds, TaintOpts{ThroughFields: true, CallResult: func(c *ssa.Call, d []int) bool {
		// a wrapper built on the connection that can still write to it
		rt := c.Type()
		if tup, ok := rt.(*types.Tuple); ok && tup.Len() > 0 {
			rt = tup.At(0).Type()
		}
		return HasMethod(rt, "Write") || HasMethod(rt, "WriteString") || HasMethod(rt, "Flush")
	}})
	var sinks []ssa.Instruction
	for _, call := range Calls(fn) {
		cc := call.Common()
		if cc.IsInvoke() {
			if t[cc.Value] && isWriteMethod(cc.Method.Name()) {
				sinks = append(sinks, call)
			}
			continue
		}
		callee := cc.StaticCallee()
		if callee == nil {
			// closure call / dynamic: if a derived value is passed we cannot see the body here unless MakeClosure
			if mc, ok := cc.Value.(*ssa.MakeClosure); ok {
				callee, _ = mc.Fn.(*ssa.Function)
			}
			if callee == nil {
				continue
			}
		}
		sig := callee.Signature
		for i, a := range cc.Args {
			if !t[a] {
				continue
			}
			// receiver of a static method call
			if sig.Recv() != nil && i == 0 {
				if isWriteMethod(callee.Name()) {
					sinks = append(sinks, call)
					break
				}
			}
			if !InRepo(callee) || callee.Blocks == nil {
				pi := i
				if sig.Recv() != nil {
					pi = i - 1
				}
				if pi >= 0 && pi < sig.Params().Len() && isWriterOnlyIface(sig.Params().At(pi).Type()) {
					sinks = append(sinks, call)
					break
				}
				continue
			}
			if depth > 0 && i < len(callee.Params) {
				key := fmt.Sprintf("%s/%d", callee.String(), i)
				res, ok := memo[key]
				if !ok {
					memo[key] = false // recursion guard
					s2, _ := connWriteSinks(callee, []ssa.Value{callee.Params[i]}, memo, depth-1)
					res = len(s2) > 0
					memo[key] = res
				}
				if res {
					sinks = append(sinks, call)
					break
				}
			}
		}
	}
	// closures created here that capture a derived value and are called/spawned: treat creation as a sink
	// if the closure body has a sink on the captured variable.
	for _, mc := range MakeClosures(fn) {
		seeds2 := closureFreeSeeds(mc, t)
		if len(seeds2) == 0 || depth == 0 {
			continue
		}
		cf := mc.Fn.(*ssa.Function)
		s2, _ := connWriteSinks(cf, seeds2, memo, depth-1)
		if len(s2) > 0 {
			sinks = append(sinks, mc)
		}
	}
	return sinks, t
}

func isWriteMethod(n string) bool {
	switch n {
	case "Write", "WriteString", "ReadFrom", "WriteTo", "WriteMsgUDP", "WriteToUDP", "WriteByte", "Flush":
		return true
	}
	return false
}

// remoteNetworkCall: v is conn.RemoteAddr().Network() for a derived conn.
func isRemoteNetworkOf(v ssa.Value, t map[ssa.Value]bool) bool {
	c, ok := v.(*ssa.Call)
	if !ok || !c.Call.IsInvoke() || c.Call.Method.Name() != "Network" {
		return false
	}
	return isRemoteAddrOf(c.Call.Value, t)
}

func isRemoteAddrOf(v ssa.Value, t map[ssa.Value]bool) bool {
	c, ok := Unwrap(v).(*ssa.Call)
	if !ok || !c.Call.IsInvoke() || c.Call.Method.Name() != "RemoteAddr" {
		return false
	}
	return t[c.Call.Value]
}

// condAtom normalises an If condition to (atom, polarity on Succs[0]).
func condAtom(v ssa.Value) (ssa.Value, bool) {
	pol := true
	for {
		if u, ok := v.(*ssa.UnOp); ok && u.Op == token.NOT {
			v = u.X
			pol = !pol
			continue
		}
		return v, pol
	}
}

func c10(c *Ctx) {
	p := c.P
	c.Explanation = "Static necessary-condition check of the anti-amplification mechanism: for every Servicer holding a *services.Limiter, " +
		"on the CFG of Handle no write to the handler's connection is reachable unless the path took the true edge of limiter.Allow(conn.RemoteAddr()) " +
		"or the non-UDP edge of a conn.RemoteAddr().Network() test, and no second write is reachable from a write without passing such an edge again " +
		"(one token per reply); plus shape checks of (*Limiter).Allow (key = IP string without port, decision = rate.Limiter.Allow of the loaded-or-stored bucket, " +
		"other address kinds refused), NewLimiter (burst constant 1..4) and a who-may-touch rule on the per-IP table (only LoadOrStore). " +
		"Decides the mechanism on all paths/inputs; does not decide rate.Limiter's arithmetic or wall-clock behaviour."
	c.Assume("golang.org/x/time/rate.Limiter implements a token bucket correctly (trusted)")
	c.Assume("services are handed the datagram connection whose RemoteAddr is the datagram's source (listener/udp_conn.go)")

	limType := p.Type("services", "Limiter")
	if !c.Anchor(limType != nil, "limiter", "type services.Limiter") {
		return
	}
	allow := p.Method("services", "Limiter", "Allow")
	if !c.Anchor(allow != nil, "limiter", "method (*services.Limiter).Allow") {
		return
	}

	// ---- subjects
	expected := map[string]bool{"tftp": false, "memcached": false, "snmp": false, "counterstrike": false}
	nsub := 0
	for _, s := range Services(c) {
		fi := fieldOfType(s.Type, servicesPath, "Limiter")
		if fi < 0 {
			continue
		}
		nsub++
		for _, n := range s.Names {
			if _, ok := expected[n]; ok {
				expected[n] = true
			}
		}
		c10Handle(c, s, fi, allow)
	}
	for n, ok := range expected {
		c.Check(ok, "limited-service-present", n, "-", "service registered and holds a *Limiter", "service named by the property no longer holds a *services.Limiter (or is not registered)")
	}
	c.Floor("token-before-reply", 4, "reply sites of the four limited services")

	c10Limiter(c, allow, limType)
}

func c10Handle(c *Ctx, s Service, limField int, allow *ssa.Function) {
	h := s.Handle
	conn := handleConn(h)
	key := TypeKey(s.Type)
	if !c.Anchor(conn != nil, "token-before-reply", key+".Handle conn parameter") {
		return
	}
	c10Fn(c, s, limField, allow, h, conn, key+".Handle", 0)
}

// c10Fn decides the token-before-reply discipline for function h of the service, with conn the connection value in it
// (Handle itself, or a reply helper of the same service object that Handle hands its connection to). Returns whether every
// write in it is guarded and how many Allow branches it has.
func c10Fn(c *Ctx, s Service, limField int, allow *ssa.Function, h *ssa.Function, conn ssa.Value, label string, depth int) (allOK bool, nAllowOut int) {
	p := c.P
	key := label
	allOK = true
	memo := map[string]bool{}
	sinks, t := connWriteSinks(h, []ssa.Value{conn}, memo, 3)

	// enabling edges
	type en struct {
		b   *ssa.BasicBlock
		idx int
	}
	enabling := map[en]string{}
	nAllow := 0
	for _, b := range h.Blocks {
		if len(b.Instrs) == 0 {
			continue
		}
		iff, ok := b.Instrs[len(b.Instrs)-1].(*ssa.If)
		if !ok {
			continue
		}
		atom, pol0 := condAtom(iff.Cond)
		switch a := atom.(type) {
		case *ssa.Call:
			if a.Call.StaticCallee() == allow {
				nAllow++
				// receiver must be the service's own limiter; argument the handler's own remote address
				recvOK := false
				if ld, ok := a.Call.Args[0].(*ssa.UnOp); ok && ld.Op == token.MUL {
					if fa, ok := ld.X.(*ssa.FieldAddr); ok && fa.Field == limField && fa.X == ssa.Value(h.Params[0]) {
						recvOK = true
					}
				}
				argOK := len(a.Call.Args) == 2 && isRemoteAddrOf(a.Call.Args[1], t)
				k := fmt.Sprintf("%s Allow", key)
				c.Check(recvOK, "allow-own-limiter", k, p.InstrPos(a), "Allow called on the service's own limiter field", "Allow is not called on the limiter field of the service receiver: "+Render(a))
				c.Check(argOK, "allow-own-remote-addr", k, p.InstrPos(a), "argument is conn.RemoteAddr() of the handler's connection", "Allow's argument is not RemoteAddr() of the handler's own connection: "+Render(a))
				if recvOK && argOK {
					idx := 0
					if !pol0 {
						idx = 1
					}
					enabling[en{b, idx}] = "Allow()==true"
				}
			}
		case *ssa.BinOp:
			if a.Op == token.EQL || a.Op == token.NEQ {
				x, y := a.X, a.Y
				if _, ok := ConstString(x); ok {
					x, y = y, x
				}
				if sv, ok := ConstString(y); ok && sv == "udp" && isRemoteNetworkOf(x, t) {
					// edge on which network != "udp"
					neqTrue := a.Op == token.NEQ
					idx := 0
					if neqTrue != pol0 {
						idx = 1
					}
					enabling[en{b, idx}] = `Network()!="udp"`
				}
			}
		}
	}
	allowEdge := func(b *ssa.BasicBlock, i int) bool { _, ok := enabling[en{b, i}]; return !ok }
	svc := s
	subAllow := 0
	defer func() {
		nAllowOut = nAllow + subAllow
		if depth == 0 {
			c.Check(nAllow+subAllow > 0, "allow-consulted", key, p.Pos(h.Pos()), "Handle consults limiter.Allow", "Handle never branches on limiter.Allow")
		}
	}()

	isSink := map[ssa.Instruction]bool{}
	for _, s := range sinks {
		isSink[s] = true
	}
	reach0 := InstrReach(h, allowEdge, nil)
	for i, sk := range sinks {
		s := sk
		k := fmt.Sprintf("%s reply[%d] %s", key, i, sinkName(s))
		// the reply is made by a helper of the same service object that is handed the connection and takes the token itself
		if call, isCall := s.(ssa.CallInstruction); isCall && depth < 2 && reach0(s) {
			cc := call.Common()
			if hf := cc.StaticCallee(); hf != nil && InRepo(hf) && hf.Blocks != nil && len(cc.Args) > 0 && cc.Args[0] == ssa.Value(h.Params[0]) {
				var hp ssa.Value
				for ai, a := range cc.Args {
					if t[a] && ai < len(hf.Params) && ai > 0 {
						hp = hf.Params[ai]
					}
				}
				if hp != nil {
					okSub, nSub := c10Fn(c, svc, limField, allow, hf, hp, key+" > "+hf.Name(), depth+1)
					if okSub && nSub > 0 {
						subAllow += nSub
						c.Ok("token-before-reply", k, p.InstrPos(s), "the helper takes the token itself before it writes")
						continue
					}
				}
			}
		}
		if reach0(s) {
			allOK = false
			c.Violate("token-before-reply", k, p.InstrPos(s), "a write to the client connection is reachable from Handle's entry without taking limiter.Allow()==true or a non-UDP edge: a UDP datagram gets a reply without spending a token")
			continue
		}
		// from after this sink, can any sink (incl. itself, through a loop) be reached without a new token?
		r := InstrReachFrom(h, s, allowEdge, nil)
		bad := ""
		for _, s2 := range sinks {
			if r(s2) {
				bad = sinkName(s2) + " at " + p.InstrPos(s2)
				break
			}
		}
		if bad != "" {
			allOK = false
			c.Violate("token-before-reply", k, p.InstrPos(s), "after this reply another reply ("+bad+") is reachable without a new limiter token: one request datagram can yield several responses")
			continue
		}
		// a reply made through a helper of the repository counts as ONE datagram only if the helper writes once
		udpReach := InstrReach(h, func(b *ssa.BasicBlock, i int) bool { return enabling[en{b, i}] != `Network()!="udp"` }, nil)
		if why := helperWritesRepeatedly(s, t, 3); why != "" && udpReach(s) {
			allOK = false
			c.Violate("token-before-reply", k, p.InstrPos(s), "this reply is made by a helper that can write to the connection more than once for the one token taken here ("+why+"): the sender controls how many response datagrams a single admitted request produces")
			continue
		}
		c.Ok("token-before-reply", k, p.InstrPos(s), "guarded by "+fmt.Sprint(len(enabling))+" enabling edge(s); no second reply without a new token")
	}
	return
}

// helperWritesRepeatedly: the sink is a call of an in-repo function receiving the connection whose own writes to it
// sit in a loop or follow one another on a path; returns a description, or "".
func helperWritesRepeatedly(sink ssa.Instruction, tainted map[ssa.Value]bool, depth int) string {
	call, ok := sink.(ssa.CallInstruction)
	if !ok || depth == 0 {
		return ""
	}
	cc := call.Common()
	if cc.IsInvoke() {
		return ""
	}
	callee := cc.StaticCallee()
	if callee == nil {
		if mc, ok := cc.Value.(*ssa.MakeClosure); ok {
			callee, _ = mc.Fn.(*ssa.Function)
		}
	}
	if callee == nil || !InRepo(callee) || callee.Blocks == nil {
		return ""
	}
	var seeds []ssa.Value
	for i, a := range cc.Args {
		if tainted[a] && i < len(callee.Params) {
			seeds = append(seeds, callee.Params[i])
		}
	}
	if len(seeds) == 0 {
		return ""
	}
	inner, t2 := connWriteSinks(callee, seeds, map[string]bool{}, depth)
	for _, s := range inner {
		if InLoop(s.Block()) {
			return sinkName(s) + " inside a loop of " + FuncShort(callee)
		}
		r := InstrReachFrom(callee, s, nil, nil)
		for _, s2 := range inner {
			if s2 != s && r(s2) {
				return sinkName(s) + " followed by " + sinkName(s2) + " in " + FuncShort(callee)
			}
		}
		if why := helperWritesRepeatedly(s, t2, depth-1); why != "" {
			return why
		}
	}
	return ""
}

func sinkName(in ssa.Instruction) string {
	switch x := in.(type) {
	case ssa.CallInstruction:
		cc := x.Common()
		if cc.IsInvoke() {
			return cc.Method.Name()
		}
		if f := cc.StaticCallee(); f != nil {
			return FuncShort(f)
		}
	case *ssa.MakeClosure:
		return "closure"
	}
	return "write"
}

func c10Limiter(c *Ctx, allow *ssa.Function, limType *types.Named) {
	p := c.P
	// field indices
	st := limType.Underlying().(*types.Struct)
	fIdx := map[string]int{}
	for i := 0; i < st.NumFields(); i++ {
		fIdx[st.Field(i).Name()] = i
	}
	mIdx := -1
	for i := 0; i < st.NumFields(); i++ {
		if n := NamedOf(st.Field(i).Type()); n != nil && n.Obj().Name() == "Map" && n.Obj().Pkg().Path() == "sync" {
			mIdx = i
		}
	}
	if !c.Anchor(mIdx >= 0, "limiter-table", "sync.Map field of services.Limiter") {
		return
	}
	// (1) who may touch the table: only LoadOrStore, only inside Allow
	n := 0
	for _, fn := range p.Funcs() {
		for _, b := range fn.Blocks {
			for _, in := range b.Instrs {
				fa, ok := in.(*ssa.FieldAddr)
				if !ok || fa.Field != mIdx || NamedOf(fa.X.Type()) != limType {
					continue
				}
				for _, ref := range *fa.Referrers() {
					n++
					call, ok := ref.(ssa.CallInstruction)
					k := shortFn(fn) + " uses Limiter table"
					if !ok {
						c.Violate("limiter-table-access", k, p.InstrPos(ref), "the per-IP table is used other than through a sync.Map method call")
						continue
					}
					cal := call.Common().StaticCallee()
					if cal == nil || !(MethodIs(cal, "sync", "Map", "LoadOrStore") || MethodIs(cal, "sync", "Map", "Load")) {
						name := "?"
						if cal != nil {
							name = FuncShort(cal)
						}
						c.Violate("limiter-table-access", k+" via "+name, p.InstrPos(ref), "the per-IP bucket table may only be read or inserted into (Load/LoadOrStore): any Delete/Store/Range/Swap/reset lets a source regain its burst inside the interval")
						continue
					}
					c.Ok("limiter-table-access", k+" via "+cal.Name(), p.InstrPos(ref), "")
				}
			}
		}
	}
	c.Floor("limiter-table-access", 1, "LoadOrStore in Allow")

	// (2) Allow: every return value is false or (*rate.Limiter).Allow() of LoadOrStore(IP.String(), newLimiter(interval,burst))#0
	for _, r := range Returns(allow) {
		if len(r.Results) != 1 {
			continue
		}
		v := RetVals(r)[0]
		var cands []ssa.Value
		if ph, ok := v.(*ssa.Phi); ok {
			cands = ph.Edges
		} else {
			cands = []ssa.Value{v}
		}
		for i, cv := range cands {
			k := fmt.Sprintf("Allow return[%d]", i)
			// a pass-through wrapper of the limiter (`return l.count(decision)`, which records statistics and returns its argument)
			if wc, isW := cv.(*ssa.Call); isW {
				if wf := wc.Call.StaticCallee(); wf != nil && InRepo(wf) && wf.Blocks != nil && wf.Signature.Results().Len() == 1 {
					for ai, a := range wc.Call.Args {
						if ai >= len(wf.Params) || !types.Identical(a.Type(), types.Typ[types.Bool]) {
							continue
						}
						all := len(Returns(wf)) > 0
						for _, r2 := range Returns(wf) {
							if RetVals(r2)[0] != ssa.Value(wf.Params[ai]) {
								all = false
							}
						}
						if all {
							cv = a
						}
					}
				}
			}
			if k0, ok := cv.(*ssa.Const); ok {
				c.Check(k0.Value != nil && k0.Value.String() == "false", "limiter-decision", k, p.InstrPos(r), "constant false (address kind refused)", "Allow returns constant true: unlimited")
				continue
			}
			call, ok := cv.(*ssa.Call)
			isAllow := ok && MethodIs(call.Call.StaticCallee(), "golang.org/x/time/rate", "Limiter", "Allow")
			if ok && !isAllow && MethodIs(call.Call.StaticCallee(), "golang.org/x/time/rate", "Limiter", "AllowN") {
				if n, isC := ConstInt(call.Call.Args[2]); isC && n >= 1 {
					isAllow = true
				}
			}
			if !isAllow {
				c.Violate("limiter-decision", k, p.InstrPos(r), "Allow's result is not the bucket's Allow(): "+Render(cv))
				continue
			}
			// receiver: every origin is a Load/LoadOrStore on the table
			var lss []*ssa.Call
			helperLS := map[*ssa.Call]*ssa.Call{}
			badOrigin := ""
			var walk func(v ssa.Value, d int)
			seenW := map[ssa.Value]bool{}
			walk = func(v ssa.Value, d int) {
				if seenW[v] || d > 12 {
					return
				}
				seenW[v] = true
				switch x := v.(type) {
				case *ssa.TypeAssert:
					walk(x.X, d+1)
				case *ssa.Extract:
					walk(x.Tuple, d+1)
				case *ssa.Phi:
					for _, e := range x.Edges {
						walk(e, d+1)
					}
				case *ssa.UnOp:
					walk(x.X, d+1)
				case *ssa.FieldAddr:
					walk(x.X, d+1)
				case *ssa.MakeInterface:
					walk(x.X, d+1)
				case *ssa.Call:
					cal := x.Call.StaticCallee()
					if MethodIs(cal, "sync", "Map", "LoadOrStore") || MethodIs(cal, "sync", "Map", "Load") {
						lss = append(lss, x)
					} else if hl := c10BucketHelper(cal, mIdx, limType); hl != nil && (len(x.Call.Args) == 3 || len(x.Call.Args) == 2) {
						// l.bucket(key, candidate): a helper of the limiter that is exactly LoadOrStore on the table
						lss = append(lss, x)
						helperLS[x] = hl
					} else {
						badOrigin = Render(x)
					}
				default:
					badOrigin = Render(v)
				}
			}
			walk(call.Call.Args[0], 0)
			var ls *ssa.Call
			for _, x := range lss {
				if MethodIs(x.Call.StaticCallee(), "sync", "Map", "LoadOrStore") || helperLS[x] != nil {
					ls = x
				}
			}
			if ls == nil && badOrigin == "" && len(lss) > 0 {
				// the hit path of `if v, ok := m.Load(key); ok { … }` in front of the LoadOrStore: same table, same key
				for _, c2 := range Calls(allow) {
					if cv2, isC := c2.(*ssa.Call); isC && MethodIs(cv2.Call.StaticCallee(), "sync", "Map", "LoadOrStore") && Render(cv2.Call.Args[0]) == Render(lss[0].Call.Args[0]) && Render(cv2.Call.Args[1]) == Render(lss[0].Call.Args[1]) {
						ls = cv2
					}
				}
			}
			if ls == nil || badOrigin != "" {
				c.Violate("limiter-decision", k, p.InstrPos(r), "the bucket consulted is not (only) the loaded-or-stored one: "+Render(call.Call.Args[0]))
				continue
			}
			c.Ok("limiter-decision", k, p.InstrPos(r), "decision = Allow() of the loaded-or-stored bucket")
			// key: X.IP.String() where X is the asserted *net.TCPAddr / *net.UDPAddr of p1
			keyv := Unwrap(ls.Call.Args[1])
			kr := Render(keyv)
			var isIPKeyOf func(kv ssa.Value, addr ssa.Value, d int) bool
			isIPKey := func(kv ssa.Value) bool { return isIPKeyOf(kv, allow.Params[1], 0) }
			isIPKeyOf = func(kv ssa.Value, addr ssa.Value, d int) bool {
				// the key computed by a helper of the package: every key it returns is the bare IP of ITS address parameter
				if ex, isE := Unwrap(kv).(*ssa.Extract); isE && ex.Index == 0 && d < 2 {
					if hc, isC := ex.Tuple.(*ssa.Call); isC {
						if hf := hc.Call.StaticCallee(); hf != nil && InRepo(hf) && hf.Blocks != nil {
							for ai, a := range hc.Call.Args {
								if a != addr || ai >= len(hf.Params) {
									continue
								}
								all := len(Returns(hf)) > 0
								for _, r2 := range Returns(hf) {
									v0 := RetVals(r2)[0]
									if s0, isS := ConstString(v0); isS && s0 == "" {
										continue
									}
									if !isIPKeyOf(v0, hf.Params[ai], d+1) {
										all = false
									}
								}
								return all
							}
						}
					}
				}
				kc, ok := Unwrap(kv).(*ssa.Call)
				if !ok || !MethodIs(kc.Call.StaticCallee(), "net", "IP", "String") {
					return false
				}
				ld, ok := kc.Call.Args[0].(*ssa.UnOp)
				if !ok {
					return false
				}
				fa, ok := ld.X.(*ssa.FieldAddr)
				if !ok || fieldNameOf(fa) != "IP" {
					return false
				}
				src := fa.X
				if ex, ok := src.(*ssa.Extract); ok {
					src = ex.Tuple
				}
				ta2, ok := src.(*ssa.TypeAssert)
				return ok && ta2.X == addr
			}
			okKey := true
			if ph, ok := keyv.(*ssa.Phi); ok {
				for _, e := range ph.Edges {
					okKey = okKey && isIPKey(e)
				}
			} else {
				okKey = isIPKey(keyv)
			}
			c.Check(okKey, "limiter-key-ip-only", k, p.InstrPos(ls), "bucket key = IP.String() of the asserted address", "bucket key is not the bare IP of the caller's address (a key containing the port gives every source port its own burst): "+kr)
			// stored value: rate.NewLimiter(l.interval, l.burst)
			var nv ssa.Value
			if len(ls.Call.Args) >= 3 {
				nv = Unwrap(ls.Call.Args[2])
			} else if hl := helperLS[ls]; hl != nil && len(hl.Call.Args) >= 3 {
				nv = Unwrap(hl.Call.Args[2]) // the candidate is created inside the bucket helper (its receiver is p0 there too)
			}
			okNew := false
			// l.newBucket(): a method of the limiter whose only result is rate.NewLimiter(l.interval, l.burst)
			if hc, ok := nv.(*ssa.Call); ok && hc.Call.StaticCallee() != nil && InRepo(hc.Call.StaticCallee()) && hc.Call.StaticCallee().Blocks != nil && len(hc.Call.Args) == 1 && Render(hc.Call.Args[0]) == "p0" {
				if rets := Returns(hc.Call.StaticCallee()); len(rets) == 1 && len(RetVals(rets[0])) == 1 {
					nv = Unwrap(RetVals(rets[0])[0])
				}
			}
			if nc, ok := nv.(*ssa.Call); ok && FuncIs(nc.Call.StaticCallee(), "golang.org/x/time/rate", "NewLimiter") {
				a0, a1 := Render(nc.Call.Args[0]), Render(nc.Call.Args[1])
				okNew = a0 == "p0.interval" && a1 == "p0.burst"
			}
			c.Check(okNew, "limiter-bucket-params", k, p.InstrPos(ls), "new buckets use l.interval, l.burst", "new bucket not created with rate.NewLimiter(l.interval, l.burst): "+fmt.Sprint(nv))
		}
	}
	c.Floor("limiter-decision", 2, "an accepting arm and the refusal")

	// (3) NewLimiter / every store to Limiter.burst and .interval
	for _, fld := range []string{"burst", "interval"} {
		idx, ok := fIdx[fld]
		if !c.Anchor(ok, "limiter-params", "field Limiter."+fld) {
			continue
		}
		stores := 0
		for _, fn := range p.Funcs() {
			for _, b := range fn.Blocks {
				for _, in := range b.Instrs {
					s, ok := in.(*ssa.Store)
					if !ok {
						continue
					}
					fa, ok := s.Addr.(*ssa.FieldAddr)
					if !ok || fa.Field != idx || NamedOf(fa.X.Type()) != limType {
						continue
					}
					stores++
					k := shortFn(fn) + " sets Limiter." + fld
					if fld == "burst" {
						n, isC := ConstInt(s.Val)
						c.Check(isC && n >= 1 && n <= 4, "limiter-params", k, p.InstrPos(s), fmt.Sprintf("burst = %d", n), "burst is not a constant in 1..4 (the statement's bound is four): "+Render(s.Val))
					} else {
						// rate.Every(d) with d a constant >= 1 minute... the statement only says "the limiter interval"; require a positive constant duration
						okI := false
						if ec, ok := s.Val.(*ssa.Call); ok && FuncIs(ec.Call.StaticCallee(), "golang.org/x/time/rate", "Every") {
							if d, ok := ConstInt(ec.Call.Args[0]); ok && d > 0 {
								okI = true
							}
						}
						c.Check(okI, "limiter-params", k, p.InstrPos(s), "interval = rate.Every(positive constant)", "interval is not rate.Every(<positive constant duration>): "+Render(s.Val))
					}
				}
			}
		}
		c.Check(stores >= 1, "limiter-params", "Limiter."+fld+" initialised", "-", "", "no store to Limiter."+fld+" found: zero burst/interval")
	}
	_ = n
}

func fieldNameOf(fa *ssa.FieldAddr) string {
	t := fa.X.Type()
	if pt, ok := t.Underlying().(*types.Pointer); ok {
		t = pt.Elem()
	}
	st, ok := t.Underlying().(*types.Struct)
	if !ok {
		return ""
	}
	return st.Field(fa.Field).Name()
}

// c10BucketHelper: f is a method of the limiter whose result is the value of one LoadOrStore(param1, param2) on the
// limiter's own table (returns that LoadOrStore call), so a call f(l, key, candidate) stands for the LoadOrStore itself.
func c10BucketHelper(f *ssa.Function, mIdx int, limType *types.Named) *ssa.Call {
	if f == nil || !InRepo(f) || f.Blocks == nil || f.Signature.Recv() == nil || NamedOf(f.Signature.Recv().Type()) != limType {
		return nil
	}
	if len(f.Params) == 2 {
		return c10BucketHelper2(f, mIdx)
	}
	if len(f.Params) != 3 {
		return nil
	}
	var ls *ssa.Call
	n := 0
	for _, call := range Calls(f) {
		cv, ok := call.(*ssa.Call)
		if !ok {
			continue
		}
		if MethodIs(cv.Call.StaticCallee(), "sync", "Map", "LoadOrStore") {
			fa, isFA := cv.Call.Args[0].(*ssa.FieldAddr)
			if isFA && fa.Field == mIdx && fa.X == ssa.Value(f.Params[0]) && Unwrap(cv.Call.Args[1]) == ssa.Value(f.Params[1]) && Unwrap(cv.Call.Args[2]) == ssa.Value(f.Params[2]) {
				ls = cv
			}
			n++
		} else if cal := cv.Call.StaticCallee(); cal != nil && PkgOf(cal) == "sync" {
			return nil
		}
	}
	if n != 1 {
		return nil
	}
	return ls
}

// c10BucketHelper2: f(l, key) returns the bucket of key: every value it can return is the result of Load(key) or
// LoadOrStore(key, …) on the limiter's own table (a Load first only saves the allocation; the insert is still atomic),
// at least one LoadOrStore is among them, and the table is touched in no other way. Returns that LoadOrStore.
func c10BucketHelper2(f *ssa.Function, mIdx int) *ssa.Call {
	var ls *ssa.Call
	onTable := func(cv *ssa.Call) bool {
		fa, isFA := cv.Call.Args[0].(*ssa.FieldAddr)
		return isFA && fa.Field == mIdx && fa.X == ssa.Value(f.Params[0]) && len(cv.Call.Args) >= 2 && Unwrap(cv.Call.Args[1]) == ssa.Value(f.Params[1])
	}
	for _, call := range Calls(f) {
		cv, ok := call.(*ssa.Call)
		if !ok {
			continue
		}
		cal := cv.Call.StaticCallee()
		switch {
		case MethodIs(cal, "sync", "Map", "LoadOrStore"):
			if !onTable(cv) {
				return nil
			}
			ls = cv
		case MethodIs(cal, "sync", "Map", "Load"):
			if !onTable(cv) {
				return nil
			}
		case cal != nil && PkgOf(cal) == "sync":
			return nil
		}
	}
	if ls == nil {
		return nil
	}
	for _, r := range Returns(f) {
		for _, lf := range leaves(RetVals(r)[0]) {
			ok := false
			switch x := lf.(type) {
			case *ssa.Extract:
				if cv, isC := x.Tuple.(*ssa.Call); isC && (MethodIs(cv.Call.StaticCallee(), "sync", "Map", "LoadOrStore") || MethodIs(cv.Call.StaticCallee(), "sync", "Map", "Load")) {
					ok = true
				}
				if ta, isTA := x.Tuple.(*ssa.TypeAssert); isTA {
					if ex2, isE := ta.X.(*ssa.Extract); isE {
						if cv, isC := ex2.Tuple.(*ssa.Call); isC && (MethodIs(cv.Call.StaticCallee(), "sync", "Map", "LoadOrStore") || MethodIs(cv.Call.StaticCallee(), "sync", "Map", "Load")) {
							ok = true
						}
					}
				}
			case *ssa.TypeAssert:
				if ex2, isE := x.X.(*ssa.Extract); isE {
					if cv, isC := ex2.Tuple.(*ssa.Call); isC && (MethodIs(cv.Call.StaticCallee(), "sync", "Map", "LoadOrStore") || MethodIs(cv.Call.StaticCallee(), "sync", "Map", "Load")) {
						ok = true
					}
				}
			}
			if !ok {
				return nil
			}
		}
	}
	return ls
}
