package rules

import (
	. "htcheck/internal/core"

	"golang.org/x/tools/go/ssa"
)

// lateRebind describes a closure that outlives the statement creating it (go statement) and captures, by reference,
// a variable that the enclosing function assigns again afterwards – under the module's language version (go < 1.22)
// a range/for variable is one variable for all iterations, so every goroutine started in the loop ends up seeing
// the value of a later iteration.
type lateRebind struct {
	site  *ssa.Go
	mc    *ssa.MakeClosure
	alloc *ssa.Alloc
	store *ssa.Store
	read  ssa.Instruction // a load of the captured variable inside the closure (or nested closures)
}

// closureReads: a load of free variable fv inside fn that can execute after the goroutine has started, looking through nested closures.
func closureReads(fn *ssa.Function, fv *ssa.FreeVar, depth int) ssa.Instruction {
	if fv.Referrers() == nil {
		return nil
	}
	for _, r := range *fv.Referrers() {
		switch x := r.(type) {
		case *ssa.UnOp:
			return x
		case *ssa.MakeClosure:
			if depth <= 0 {
				continue
			}
			inner, _ := x.Fn.(*ssa.Function)
			if inner == nil {
				continue
			}
			for i, b := range x.Bindings {
				if b == ssa.Value(fv) && i < len(inner.FreeVars) {
					if in := closureReads(inner, inner.FreeVars[i], depth-1); in != nil {
						return in
					}
				}
			}
		}
	}
	return nil
}

func lateRebinds(fn *ssa.Function) []lateRebind {
	var out []lateRebind
	for _, b := range fn.Blocks {
		for _, in := range b.Instrs {
			gi, ok := in.(*ssa.Go)
			if !ok {
				continue
			}
			mc, ok := gi.Call.Value.(*ssa.MakeClosure)
			if !ok {
				continue
			}
			cf, _ := mc.Fn.(*ssa.Function)
			if cf == nil {
				continue
			}
			for i, bind := range mc.Bindings {
				al, ok := bind.(*ssa.Alloc)
				if !ok || i >= len(cf.FreeVars) {
					continue
				}
				rd := closureReads(cf, cf.FreeVars[i], 2)
				if rd == nil {
					continue
				}
				// a store to the same variable (not a fresh one: paths through its declaration are cut) that can execute
				// after the go statement
				reach := InstrReachFrom(fn, gi, nil, func(x ssa.Instruction) bool { return x == ssa.Instruction(al) })
				for _, r := range *al.Referrers() {
					st, ok := r.(*ssa.Store)
					if !ok || st.Addr != ssa.Value(al) {
						continue
					}
					if reach(st) {
						out = append(out, lateRebind{gi, mc, al, st, rd})
						break
					}
				}
			}
		}
	}
	return out
}
