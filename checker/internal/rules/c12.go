package rules

import (
	"fmt"
	"go/token"
	"go/types"
	"sort"
	"strings"

	"golang.org/x/tools/go/ssa"

	. "htcheck/internal/core"
)

func init() { Registry["C12"] = c12 }

func c12(c *Ctx) {
	c.Explanation = "Static check of the authentication decision and gating mechanisms for all credential sets and attempt sequences: " +
		"ssh-simulator password callback (success returns only under wildcard or user==parts[0] && password==parts[1] with parts=Split(credential,\":\"), len 2, credential ranging over the configured list; " +
		"failure only after the whole list; authentication event sent before any decision with the presented user/password; no state written, so earlier attempts cannot matter); " +
		"LDAP bind closure (true only for the anonymous form or `configured entry == binddn:bindpw`, login cell set accordingly), bind handler (success result code only under bindFunc()==true; event fields are the values evaluated), " +
		"catch-all (a non-success code is stored on every path to the reply unless isLogin() holds; isLogin is login != \"\"); FTP (dispatcher: Execute unreachable without RequireAuth()==false or user!=\"\"; " +
		"every command whose Execute reaches a Driver method or opens a data socket has RequireAuth constant true; Conn.user written only by PASS under CheckPasswd()==true; CheckPasswd true only on map hit with equal password)."
	c.Assume("golang.org/x/crypto/ssh calls PasswordCallback for every password attempt and honours its result (trusted)")
	c.Assume("LDAP per-connection login cell sharing between connections is C03's subject, not re-reported here")
	c12SSH(c)
	c12LDAP(c)
	c12FTP(c)
	// a login lives in the connection object: the object a connection works with is its own (a recycled one has every field reset)
	pooledObjectsReset(c, "session-object-fresh", "services/ftp", "services/ldap", "services/ssh")
	c12FreshSession(c)
	c12ReplyPerRequest(c)
	c12AttemptsNotCapped(c)
	c12UserRecorded(c)
	// the USER/PASS lines reach the event channel through the command log of the session: when that is drained next to a
	// termination arm it is a rendezvous channel, or the last lines (the login) are dropped when the session ends (shared with C04)
	c04ReporterQueues(c, 0, "services/ftp")
}

// ---------- helpers

func isLoad(v ssa.Value) (*ssa.UnOp, bool) {
	u, ok := v.(*ssa.UnOp)
	return u, ok && u.Op == token.MUL
}

// isFieldLoadNamed: v = *(&X.name)
func isFieldLoadNamed(v ssa.Value, name string) (ssa.Value, bool) {
	ld, ok := isLoad(v)
	if !ok {
		return nil, false
	}
	fa, ok := ld.X.(*ssa.FieldAddr)
	if !ok || fieldNameOf(fa) != name {
		return nil, false
	}
	return fa.X, true
}

// rangeElemOfField: v = (*X.field)[ascending range index]
func rangeElemOfField(v ssa.Value, field string) bool {
	ld, ok := isLoad(v)
	if !ok {
		return false
	}
	ia, ok := ld.X.(*ssa.IndexAddr)
	if !ok || !isAscendingIndex(ia.Index) {
		return false
	}
	_, ok = isFieldLoadNamed(ia.X, field)
	return ok
}

// splitPart: v is part k of elem split at its single sep (strings.Split(elem, sep)[k], or elem[:i] / elem[i+1:] with
// i = the index of sep); returns elem and, as the identity of the split, elem itself.
func splitPart(v ssa.Value, sep string, k int64) (ssa.Value, ssa.Value, bool) {
	src, s, idx, ok := splitPartOf(v)
	if !ok || s != sep || int64(idx) != k {
		return nil, nil, false
	}
	return src, src, true
}

func eqCond(dc Cond) (x, y ssa.Value, ok bool) {
	b, isB := dc.V.(*ssa.BinOp)
	if !isB {
		return nil, nil, false
	}
	if (b.Op == token.EQL && dc.Pol) || (b.Op == token.NEQ && !dc.Pol) {
		return b.X, b.Y, true
	}
	return nil, nil, false
}

// ---------- ssh

func c12SSH(c *Ctx) {
	p := c.P
	h := p.Method("services/ssh", "sshSimulatorService", "Handle")
	if !c.Anchor(h != nil, "ssh-password", "(*ssh.sshSimulatorService).Handle") {
		return
	}
	// the closure stored into ServerConfig.PasswordCallback, in Handle or in a method of the service it calls to build the config
	var cb *ssa.Function
	cfgFns := []*ssa.Function{h}
	for _, call := range Calls(h) {
		if hf := call.Common().StaticCallee(); hf != nil && InRepo(hf) && hf.Blocks != nil && hf.Signature.Recv() != nil && h.Signature.Recv() != nil && types.Identical(hf.Signature.Recv().Type(), h.Signature.Recv().Type()) {
			cfgFns = append(cfgFns, hf)
		}
	}
	for _, cf := range cfgFns {
		for _, b := range cf.Blocks {
			for _, in := range b.Instrs {
				st, ok := in.(*ssa.Store)
				if !ok {
					continue
				}
				fa, ok := st.Addr.(*ssa.FieldAddr)
				if !ok || fieldNameOf(fa) != "PasswordCallback" {
					continue
				}
				if mc, ok := st.Val.(*ssa.MakeClosure); ok {
					cb, _ = mc.Fn.(*ssa.Function)
				} else if f, ok := st.Val.(*ssa.Function); ok {
					cb = f
				}
			}
		}
	}
	if !c.Anchor(cb != nil && len(cb.Params) == 2, "ssh-password", "closure assigned to ssh.ServerConfig.PasswordCallback in Handle") {
		return
	}
	cm, pw := cb.Params[0], cb.Params[1]
	isUser := func(v ssa.Value) bool {
		call, ok := v.(*ssa.Call)
		return ok && call.Call.IsInvoke() && call.Call.Method.Name() == "User" && call.Call.Value == ssa.Value(cm)
	}
	isPw := func(v ssa.Value) bool {
		cv, ok := v.(*ssa.Convert)
		return ok && cv.X == ssa.Value(pw) && types.Identical(cv.Type().Underlying(), types.Typ[types.String])
	}
	nsucc, nfail := 0, 0
	var decide func(fn *ssa.Function, isUser, isPw func(ssa.Value) bool, accepts func(*ssa.Return) bool, label string, depth int)
	decide = func(fn *ssa.Function, isUser, isPw func(ssa.Value) bool, accepts func(*ssa.Return) bool, label string, depth int) {
		for i, r := range Returns(fn) {
			key := fmt.Sprintf("%s return[%d]", label, i)
			conds := DomConds(r)
			// the decision may be delegated to a helper: `if s.credentialsAccept(user, password) { accept } reject`
			if depth == 0 {
				delegated := false
				for _, dc := range conds {
					hc, pol := condCall(dc)
					if hc == nil {
						continue
					}
					hf := hc.Call.StaticCallee()
					if hf == nil || !InRepo(hf) || hf.Blocks == nil || hf.Signature.Results().Len() != 1 || !types.Identical(hf.Signature.Results().At(0).Type().Underlying(), types.Typ[types.Bool]) {
						continue
					}
					var up, pp *ssa.Parameter
					for ai, a := range hc.Call.Args {
						if ai < len(hf.Params) && isUser(Unwrap(a)) {
							up = hf.Params[ai]
						}
						if ai < len(hf.Params) && isPw(Unwrap(a)) {
							pp = hf.Params[ai]
						}
					}
					if up == nil || pp == nil || pol != accepts(r) {
						continue
					}
					delegated = true
					if accepts(r) { // analyse the helper once, from the accepting side
						decide(hf, func(v ssa.Value) bool { return v == ssa.Value(up) }, func(v ssa.Value) bool { return v == ssa.Value(pp) },
							func(r2 *ssa.Return) bool {
								k, ok := RetVals(r2)[0].(*ssa.Const)
								return ok && k.Value != nil && k.Value.String() == "true"
							}, shortFn(hf), 1)
					}
				}
				if delegated {
					continue
				}
			}
			for ai, conds := range flagAlternatives(conds) {
				if ai > 0 {
					key = fmt.Sprintf("%s return[%d] way %d", label, i, ai+1)
				}
				if accepts(r) {
					nsucc++
					wild := false
					var partsCall ssa.Value
					userOK, pwOK, lenOK := false, false, false
					for _, dc := range conds {
						x, y, ok := eqCond(dc)
						if !ok {
							continue
						}
						if s, isS := ConstString(y); isS && s == "*" && rangeElemOfField(x, "Credentials") {
							wild = true
						}
						for _, pr := range [][2]ssa.Value{{x, y}, {y, x}} {
							a, b := pr[0], pr[1]
							if isUser(a) {
								if el, sc, ok := splitPart(b, ":", 0); ok && rangeElemOfField(el, "Credentials") {
									userOK = true
									partsCall = sc
								}
							}
							if isPw(a) {
								if el, sc, ok := splitPart(b, ":", 1); ok && rangeElemOfField(el, "Credentials") {
									pwOK = partsCall == nil || partsCall == sc
									if partsCall == nil {
										partsCall = sc
									}
								}
							}
						}
						// exactly two parts: len(Split(cred, ":")) == 2 or Count(cred, ":") == 1
						if _, sep, ok := exactlyTwoParts(dc); ok && sep == ":" {
							lenOK = true
						}
					}
					ok := wild || (userOK && pwOK && lenOK)
					why := fmt.Sprintf("conditions at this success return: %v", RenderConds(conds))
					c.Check(ok, "ssh-success-iff-credential", key, p.InstrPos(r), "success under wildcard or exact user:password match of a configured entry", "authentication succeeds without (credential==\"*\") or (len(parts)==2 && user==parts[0] && password==parts[1]) for a configured credential; "+why)
				} else {
					nfail++
					// failure only after the whole list was scanned: not in the loop, and dominated by the range loop's exhaustion edge
					exhausted := false
					for _, dc := range conds {
						b, ok := dc.V.(*ssa.BinOp)
						if ok && b.Op == token.LSS && !dc.Pol && isAscendingIndex(b.X) {
							if call, ok := b.Y.(*ssa.Call); ok {
								if bi, ok := call.Call.Value.(*ssa.Builtin); ok && bi.Name() == "len" {
									if _, ok := isFieldLoadNamed(call.Call.Args[0], "Credentials"); ok {
										exhausted = true
									}
								}
							}
						}
					}
					c.Check(exhausted && !InLoop(r.Block()), "ssh-failure-only-after-scan", key, p.InstrPos(r), "rejection only after every configured credential was tried", "a rejection is returned before the whole credential list was scanned (an entry later in the list, or the wildcard, would be ignored): "+fmt.Sprint(RenderConds(conds)))
				}
			}
		}
	}
	decide(cb, isUser, isPw, func(r *ssa.Return) bool { return IsNilConst(RetVals(r)[1]) }, "PasswordCallback", 0)
	c.Check(nsucc >= 2 && nfail >= 1, "ssh-success-iff-credential", "PasswordCallback arms", p.Pos(cb.Pos()), "wildcard, exact-match and rejection arms present", fmt.Sprintf("expected wildcard + exact-match success arms and a rejection arm, found %d success / %d failure returns", nsucc, nfail))
	// event before decision
	var send *ssa.Call
	for _, call := range Calls(cb) {
		cc := call.Common()
		if cc.IsInvoke() && cc.Method.Name() == "Send" && call.Block() == cb.Blocks[0] {
			send, _ = call.(*ssa.Call)
		}
	}
	if c.Check(send != nil, "auth-event", "ssh PasswordCallback event", p.Pos(cb.Pos()), "event sent in the entry block (before any decision)", "no event is sent unconditionally at the start of the password callback: some attempts would go unrecorded") {
		opts := eventOptions(send.Call.Args[0])
		u, okU := opts["ssh.username"]
		w, okW := opts["ssh.password"]
		c.Check(okU && isUser(Unwrap(u)), "auth-event", "ssh.username", p.InstrPos(send), "= cm.User()", "ssh.username is not the user name presented (cm.User())")
		c.Check(okW && isPw(Unwrap(w)), "auth-event", "ssh.password", p.InstrPos(send), "= string(password)", "ssh.password is not the password presented")
	}
	// statelessness: the callback writes no memory outside its own frame (no attempt counters / lockouts)
	nstore := 0
	for _, b := range cb.Blocks {
		for _, in := range b.Instrs {
			st, ok := in.(*ssa.Store)
			if !ok {
				continue
			}
			base := st.Addr
			for {
				if fa, ok := base.(*ssa.FieldAddr); ok {
					base = fa.X
					continue
				}
				if ia, ok := base.(*ssa.IndexAddr); ok {
					base = ia.X
					continue
				}
				break
			}
			if a, ok := base.(*ssa.Alloc); ok && !a.Heap || isVarargsAlloc(base) {
				continue
			}
			if _, ok := base.(*ssa.Alloc); ok {
				continue
			}
			nstore++
			c.Violate("ssh-stateless", "PasswordCallback store "+Render(st.Addr), p.InstrPos(st), "the password callback writes state that outlives the attempt: the decision may depend on earlier attempts")
		}
	}
	if nstore == 0 {
		c.Ok("ssh-stateless", "PasswordCallback", p.Pos(cb.Pos()), "no stores outside the callback's own frame")
	}
}

func isVarargsAlloc(v ssa.Value) bool {
	a, ok := v.(*ssa.Alloc)
	return ok && a.Comment == "varargs"
}

// eventOptions resolves event.New(opts...) -> map from Custom key to value for event.Custom(key, value) options.
func eventOptions(newCall ssa.Value) map[string]ssa.Value {
	out := map[string]ssa.Value{}
	call, ok := newCall.(*ssa.Call)
	if !ok || len(call.Call.Args) == 0 {
		return out
	}
	sl, ok := call.Call.Args[len(call.Call.Args)-1].(*ssa.Slice)
	if !ok {
		return out
	}
	a, ok := sl.X.(*ssa.Alloc)
	if !ok {
		return out
	}
	for _, ref := range *a.Referrers() {
		ia, ok := ref.(*ssa.IndexAddr)
		if !ok {
			continue
		}
		for _, r2 := range *ia.Referrers() {
			st, ok := r2.(*ssa.Store)
			if !ok {
				continue
			}
			oc, ok := st.Val.(*ssa.Call)
			if !ok {
				continue
			}
			f := oc.Call.StaticCallee()
			if f == nil {
				continue
			}
			switch f.Name() {
			case "Custom":
				if k, ok := ConstString(oc.Call.Args[0]); ok {
					out[k] = oc.Call.Args[1]
				}
			case "SourceAddr", "DestinationAddr", "Payload", "Category", "Type", "Protocol":
				out["@"+f.Name()] = oc.Call.Args[0]
			}
		}
	}
	return out
}

// ---------- ldap

func c12LDAP(c *Ctx) {
	p := c.P
	sh := p.Method("services/ldap", "ldapService", "setHandlers")
	if !c.Anchor(sh != nil, "ldap-bind", "(*ldap.ldapService).setHandlers") {
		return
	}
	var bind, isLoginCl *ssa.Function
	for _, b := range sh.Blocks {
		for _, in := range b.Instrs {
			st, ok := in.(*ssa.Store)
			if !ok {
				continue
			}
			fa, ok := st.Addr.(*ssa.FieldAddr)
			if !ok {
				continue
			}
			var fn *ssa.Function
			switch v := Unwrap(st.Val).(type) {
			case *ssa.MakeClosure:
				fn, _ = v.Fn.(*ssa.Function)
			case *ssa.Function:
				fn = v
			}
			fn = unwrapBound(fn)
			switch fieldNameOf(fa) {
			case "bindFunc":
				bind = fn
			case "isLogin":
				isLoginCl = fn
			}
		}
	}
	if !c.Anchor(bind != nil && len(bind.Params) >= 2, "ldap-bind", "closure assigned to bindFuncHandler.bindFunc") {
		return
	}
	// a closure (dn, pw) or a method value (recv, dn, pw)
	dn, pw := bind.Params[len(bind.Params)-2], bind.Params[len(bind.Params)-1]
	// the credential string: a strings.Builder written exactly binddn, ':', bindpw in this order
	var builder *ssa.Alloc
	var writes []string
	for _, call := range Calls(bind) {
		f := call.Common().StaticCallee()
		if f == nil || RecvTypeName(f) != "Builder" {
			continue
		}
		a, ok := call.Common().Args[0].(*ssa.Alloc)
		if !ok {
			continue
		}
		switch f.Name() {
		case "WriteString", "WriteRune", "Write", "WriteByte":
			if builder == nil {
				builder = a
			}
			if a == builder {
				arg := call.Common().Args[1]
				switch {
				case arg == ssa.Value(dn):
					writes = append(writes, "dn")
				case arg == ssa.Value(pw):
					writes = append(writes, "pw")
				default:
					if n, ok := ConstInt(arg); ok && n == ':' {
						writes = append(writes, ":")
					} else if s, ok := ConstString(arg); ok {
						writes = append(writes, s)
					} else {
						writes = append(writes, "?")
					}
				}
			}
		}
	}
	okBuild := builder != nil && strings.Join(writes, "") == "dn:pw" && builder.Block() == bind.Blocks[0]
	// the other spelling: binddn + ":" + string(bindpw)
	isConcat := func(v ssa.Value) bool {
		o, ok := v.(*ssa.BinOp)
		if !ok || o.Op != token.ADD {
			return false
		}
		in, ok := o.X.(*ssa.BinOp)
		if !ok || in.Op != token.ADD || in.X != ssa.Value(dn) {
			return false
		}
		if sep, isS := ConstString(in.Y); !isS || sep != ":" {
			return false
		}
		if o.Y == ssa.Value(pw) {
			return true
		}
		cv, ok := o.Y.(*ssa.Convert)
		return ok && cv.X == ssa.Value(pw)
	}
	nConcat := 0
	for _, b := range bind.Blocks {
		for _, in := range b.Instrs {
			if v, ok := in.(ssa.Value); ok && isConcat(v) {
				nConcat++
			}
		}
	}
	c.Check(okBuild || (builder == nil && nConcat > 0), "ldap-bind", "credential string", p.Pos(bind.Pos()), "built as binddn + ':' + bindpw", "the compared string is not exactly binddn ':' bindpw: "+strings.Join(writes, ","))
	isCredString := func(v ssa.Value) bool {
		if isConcat(v) {
			return true
		}
		call, ok := v.(*ssa.Call)
		return ok && builder != nil && MethodIs(call.Call.StaticCallee(), "strings", "Builder", "String") && call.Call.Args[0] == ssa.Value(builder)
	}
	isCredLen := func(v ssa.Value) bool {
		if x, ok := isLenOf(v); ok && isCredString(x) {
			return true
		}
		call, ok := v.(*ssa.Call)
		return ok && builder != nil && MethodIs(call.Call.StaticCallee(), "strings", "Builder", "Len") && call.Call.Args[0] == ssa.Value(builder)
	}
	loginStoreIn := func(b *ssa.BasicBlock) (ssa.Value, bool) {
		var val ssa.Value
		found := false
		for _, in := range b.Instrs {
			if st, ok := in.(*ssa.Store); ok {
				if fa, ok := st.Addr.(*ssa.FieldAddr); ok && fieldNameOf(fa) == "login" {
					val = st.Val
					found = true
				}
			}
		}
		return val, found
	}
	ntrue, nfalse := 0, 0
	for i, r := range Returns(bind) {
		rv := RetVals(r)
		k, ok := rv[0].(*ssa.Const)
		key := fmt.Sprintf("bindFunc return[%d]", i)
		if !ok {
			c.Violate("ldap-bind", key, p.InstrPos(r), "non-constant decision: "+Render(rv[0]))
			continue
		}
		conds := DomConds(r)
		if k.Value.String() == "true" {
			ntrue++
			anon, match := false, false
			for _, dc := range conds {
				x, y, ok := eqCond(dc)
				if !ok {
					continue
				}
				if n, isC := ConstInt(y); isC && n == 1 && isCredLen(x) {
					anon = true
				}
				if (rangeElemOfField(x, "Credentials") && isCredString(y)) || (rangeElemOfField(y, "Credentials") && isCredString(x)) {
					match = true
				}
			}
			// alternative spelling of the anonymous form: binddn == "" && len(bindpw) == 0
			{
				e1, e2 := false, false
				for _, dc := range conds {
					if x, y, ok := eqCond(dc); ok {
						if s, isS := ConstString(y); isS && s == "" && x == ssa.Value(dn) {
							e1 = true
						}
						if n, isC := ConstInt(y); isC && n == 0 {
							if call, ok := x.(*ssa.Call); ok {
								if bi, ok := call.Call.Value.(*ssa.Builtin); ok && bi.Name() == "len" && call.Call.Args[0] == ssa.Value(pw) {
									e2 = true
								}
							}
						}
					}
				}
				if e1 && e2 {
					anon = true
				}
			}
			c.Check(anon || match, "ldap-bind", key+" accept", p.InstrPos(r), "accepted as anonymous or as an exact configured entry", "bind accepted without `configured entry == binddn:bindpw` (or the empty anonymous form): "+fmt.Sprint(RenderConds(conds)))
			// login cell
			val, found := loginStoreIn(r.Block())
			switch {
			case anon && !match:
				s, isS := "", false
				if found {
					s, isS = ConstString(val)
				}
				c.Check(found && isS && s == "", "ldap-bind", key+" login", p.InstrPos(r), "anonymous bind clears the login", "anonymous bind does not reset the login to the empty (not logged in) value")
			case match:
				c.Check(found && val == ssa.Value(dn), "ldap-bind", key+" login", p.InstrPos(r), "login = bind name", "a successful bind does not record the bind name as the session's login")
			}
		} else {
			nfalse++
			if _, found := loginStoreIn(r.Block()); found {
				c.Violate("ldap-bind", key+" login", p.InstrPos(r), "a rejected bind writes the login cell")
			}
		}
	}
	c.Check(ntrue == 2 && nfalse >= 1, "ldap-bind", "bindFunc arms", p.Pos(bind.Pos()), "anonymous, match and reject arms", fmt.Sprintf("expected two accepting arms and at least one rejecting arm, found %d/%d", ntrue, nfalse))
	// who may write login: only bindFunc and Handle (reset at session start) and constructors
	for _, fn := range p.FuncsIn("services/ldap") {
		for _, b := range fn.Blocks {
			for _, in := range b.Instrs {
				st, ok := in.(*ssa.Store)
				if !ok {
					continue
				}
				fa, ok := st.Addr.(*ssa.FieldAddr)
				if !ok || fieldNameOf(fa) != "login" || NamedOf(fa.X.Type()) == nil || NamedOf(fa.X.Type()).Obj().Name() != "Server" {
					continue
				}
				key := shortFn(fn) + " writes Server.login"
				switch {
				case fn == bind:
					c.Ok("ldap-login-writers", key, p.InstrPos(st), "bind decision")
				default:
					s, isS := ConstString(st.Val)
					c.Check(isS && s == "", "ldap-login-writers", key, p.InstrPos(st), "reset to not-logged-in", "the login cell is set to a non-empty value outside the bind decision")
				}
			}
		}
	}
	c.Floor("ldap-login-writers", 3, "two in bindFunc, one reset in Handle")

	// bind handler: success code only under bindFunc()==true
	bh := p.Method("services/ldap", "bindFuncHandler", "handle")
	if c.Anchor(bh != nil, "ldap-bind-handler", "(*ldap.bindFuncHandler).handle") {
		var bfCall *ssa.Call
		for _, call := range Calls(bh) {
			if cv, ok := call.(*ssa.Call); ok && !cv.Call.IsInvoke() && cv.Call.StaticCallee() == nil {
				if _, ok := isFieldLoadNamed(cv.Call.Value, "bindFunc"); ok {
					bfCall = cv
				}
			}
		}
		if c.Check(bfCall != nil, "ldap-bind-handler", "calls bindFunc", p.Pos(bh.Pos()), "", "bind handler does not consult bindFunc") {
			nres := 0
			for _, b := range bh.Blocks {
				for _, in := range b.Instrs {
					st, ok := in.(*ssa.Store)
					if !ok {
						continue
					}
					fa, ok := st.Addr.(*ssa.FieldAddr)
					if !ok || fieldNameOf(fa) != "resultCode" {
						continue
					}
					nres++
					n, isC := ConstInt(st.Val)
					key := fmt.Sprintf("bind resultCode store[%d]", nres)
					if !isC {
						c.Violate("ldap-bind-handler", key, p.InstrPos(st), "non-constant result code: "+Render(st.Val))
						continue
					}
					if n != 0 {
						c.Ok("ldap-bind-handler", key, p.InstrPos(st), fmt.Sprintf("non-success code %d", n))
						continue
					}
					ok = false
					for _, dc := range DomConds(st) {
						if dc.V == ssa.Value(bfCall) && dc.Pol {
							ok = true
						}
					}
					c.Check(ok, "ldap-bind-handler", key, p.InstrPos(st), "success only under bindFunc()==true", "the success result code is stored without bindFunc(...) having returned true")
				}
			}
			c.Floor("ldap-bind-handler", 4, "initial invalid-credentials, protocol error, unwilling, success")
			// event fields are the evaluated values
			var userV, pwV ssa.Value
			for _, b := range bh.Blocks {
				for _, in := range b.Instrs {
					if mu, ok := in.(*ssa.MapUpdate); ok {
						if k, ok := ConstString(Unwrap(mu.Key)); ok {
							switch k {
							case "ldap.username":
								userV = Unwrap(mu.Value)
							case "ldap.password":
								pwV = Unwrap(mu.Value)
							}
						}
					}
				}
			}
			c.Check(userV != nil && userV == bfCall.Call.Args[0], "auth-event", "ldap.username", p.InstrPos(bfCall), "= the bind name passed to bindFunc", "ldap.username recorded is not the bind name as evaluated")
			okPw := false
			if cv, ok := pwV.(*ssa.Convert); ok && cv.X == bfCall.Call.Args[1] {
				okPw = true
			}
			c.Check(okPw, "auth-event", "ldap.password", p.InstrPos(bfCall), "= string(password passed to bindFunc)", "ldap.password recorded is not the password as evaluated")
			// both fields are recorded on every path that reaches bindFunc
			for _, b := range bh.Blocks {
				for _, in := range b.Instrs {
					if mu, ok := in.(*ssa.MapUpdate); ok {
						if k, ok := ConstString(Unwrap(mu.Key)); ok && (k == "ldap.username" || k == "ldap.password") {
							c.Check(mu.Block().Dominates(bfCall.Block()), "auth-event", k+" recorded before decision", p.InstrPos(mu), "", k+" is not recorded on every path to the decision")
						}
					}
				}
			}
		}
	}
	// catch-all gate
	ca := p.Method("services/ldap", "CatchAll", "handle")
	if c.Anchor(ca != nil, "ldap-gate", "(*ldap.CatchAll).handle") {
		func() {
			var loginCalls []*ssa.Call
			for _, call := range Calls(ca) {
				if cv, ok := call.(*ssa.Call); ok && !cv.Call.IsInvoke() && cv.Call.StaticCallee() == nil {
					if _, ok := isFieldLoadNamed(cv.Call.Value, "isLogin"); ok {
						loginCalls = append(loginCalls, cv)
					}
				}
			}
			if len(loginCalls) == 0 && c12GateHelperForm(c, ca) {
				return
			}
			c.Check(len(loginCalls) > 0, "ldap-gate", "CatchAll consults isLogin", p.Pos(ca.Pos()), "", "catch-all handler never asks whether the session is logged in")
			allow := func(b *ssa.BasicBlock, i int) bool {
				if len(b.Instrs) == 0 {
					return true
				}
				iff, ok := b.Instrs[len(b.Instrs)-1].(*ssa.If)
				if !ok {
					return true
				}
				atom, pol0 := condAtom(iff.Cond)
				for _, lc := range loginCalls {
					if atom == ssa.Value(lc) {
						trueIdx := 0
						if !pol0 {
							trueIdx = 1
						}
						return i != trueIdx
					}
				}
				return true
			}
			stop := func(in ssa.Instruction) bool {
				st, ok := in.(*ssa.Store)
				if !ok {
					return false
				}
				fa, ok := st.Addr.(*ssa.FieldAddr)
				if !ok || fieldNameOf(fa) != "resultCode" {
					return false
				}
				n, isC := ConstInt(st.Val)
				return isC && n != 0
			}
			reach := InstrReach(ca, allow, stop)
			nrep := 0
			for _, call := range Calls(ca) {
				f := call.Common().StaticCallee()
				if f == nil || !MethodIs(f, ModPath+"/services/ldap", "resultCodeHandler", "handle") {
					continue
				}
				nrep++
				c.Check(!reach(call), "ldap-gate", fmt.Sprintf("CatchAll reply[%d]", nrep), p.InstrPos(call), "not-logged-in sessions always get a non-success code", "the reply to add/modify/delete/modify-dn/compare is reachable for a session that is not logged in without a non-success result code being stored")
			}
			c.Check(nrep >= 1, "ldap-gate", "CatchAll replies", p.Pos(ca.Pos()), "", "no reply site found in the catch-all handler")
			// the refusal stored for a session that is not logged in is what the reply carries: no later store to the
			// result code can execute after it, unless that store is itself under isLogin()==true
			loginIs := func(at ssa.Instruction, want bool) bool {
				for _, dc := range DomConds(at) {
					atom, pol0 := condAtom(dc.V)
					for _, lc := range loginCalls {
						if atom == ssa.Value(lc) && (pol0 == dc.Pol) == want {
							return true
						}
					}
				}
				return false
			}
			loginKnown := func(at ssa.Instruction) bool { return loginIs(at, true) }
			var rcStores, gateStores []*ssa.Store
			for _, b := range ca.Blocks {
				for _, in := range b.Instrs {
					if st, ok := in.(*ssa.Store); ok {
						if fa, ok := st.Addr.(*ssa.FieldAddr); ok && fieldNameOf(fa) == "resultCode" {
							rcStores = append(rcStores, st)
							if n, isC := ConstInt(st.Val); isC && n != 0 && loginIs(st, false) {
								gateStores = append(gateStores, st)
							}
						}
					}
				}
			}
			for _, gs := range gateStores {
				after := InstrReachFrom(ca, gs, nil, nil)
				for i, st := range rcStores {
					if st == gs || !after(st) || loginKnown(st) {
						continue
					}
					c.Violate("ldap-gate", fmt.Sprintf("result code store[%d] after the refusal", i), p.InstrPos(st), "the result code is written again ("+RenderN(st.Val, 2)+") after the not-logged-in refusal was stored, on a path a session that is not logged in takes: the gated operation is answered with this code instead of being refused")
				}
			}
			c.Check(len(gateStores) >= 1, "ldap-gate", "refusal store under !isLogin", p.Pos(ca.Pos()), "the refusal is stored only for sessions that are not logged in and nothing overwrites it", "no refusal code is stored specifically for sessions that are not logged in")
			// no success store after the gate other than the initial literal: every store of 0 must be in the entry-dominating literal (block 0..) before the isLogin branch
			for _, b := range ca.Blocks {
				for _, in := range b.Instrs {
					st, ok := in.(*ssa.Store)
					if !ok {
						continue
					}
					fa, ok := st.Addr.(*ssa.FieldAddr)
					if !ok || fieldNameOf(fa) != "resultCode" {
						continue
					}
					if n, isC := ConstInt(st.Val); isC && n == 0 {
						before := len(loginCalls) > 0 && st.Block().Dominates(loginCalls[0].Block()) && (st.Block() != loginCalls[0].Block() || true)
						c.Check(before, "ldap-gate", "success code only as the default", p.InstrPos(st), "", "a success code is stored after the login gate")
					}
				}
			}
		}()
	}
	// the isLogin closure really is login != ""
	if c.Anchor(isLoginCl != nil, "ldap-gate", "closure assigned to CatchAll.isLogin") {
		ok := false
		for _, r := range Returns(isLoginCl) {
			if call, ok2 := RetVals(r)[0].(*ssa.Call); ok2 {
				if f := call.Call.StaticCallee(); f != nil && f.Name() == "isLogin" {
					f = throughWrapper(f)
					for _, r2 := range Returns(f) {
						s := Render(RetVals(r2)[0])
						if s == `(p0.login != "")` || s == `(len(p0.login) > 0)` || s == `(len(p0.login) != 0)` {
							ok = true
						}
					}
				}
			}
		}
		c.Check(ok, "ldap-gate", "isLogin definition", p.Pos(isLoginCl.Pos()), `isLogin() is login != ""`, "isLogin is no longer `login != \"\"` of the session's server state")
	}
}

// ---------- ftp

func c12FTP(c *Ctx) {
	p := c.P
	ftpPath := ModPath + "/services/ftp"
	recv := p.Method("services/ftp", "Conn", "receiveLine")
	if !c.Anchor(recv != nil, "ftp-gate", "(*ftp.Conn).receiveLine") {
		return
	}
	// dispatcher: Execute unreachable without RequireAuth()==false or conn.user != ""
	var exec []ssa.Instruction
	for _, call := range Calls(recv) {
		if call.Common().IsInvoke() && call.Common().Method.Name() == "Execute" {
			exec = append(exec, call)
		}
	}
	c.Check(len(exec) >= 1, "ftp-gate", "dispatcher executes commands", p.Pos(recv.Pos()), "", "no Execute call in the dispatcher")
	allow := func(b *ssa.BasicBlock, i int) bool {
		if len(b.Instrs) == 0 {
			return true
		}
		iff, ok := b.Instrs[len(b.Instrs)-1].(*ssa.If)
		if !ok {
			return true
		}
		atom, pol0 := condAtom(iff.Cond)
		trueIdx := 0
		if !pol0 {
			trueIdx = 1
		}
		if call, ok := atom.(*ssa.Call); ok && call.Call.IsInvoke() && call.Call.Method.Name() == "RequireAuth" {
			return i == trueIdx // delete the false edge (no auth required)
		}
		// `case cmd.RequireAuth() && conn.user == "":` – the materialised conjunction: its false outcome admits
		// "no auth required" or "logged in", so that edge is the enabling one
		if ph, ok := atom.(*ssa.Phi); ok {
			if ops, ok := Conjuncts(ph, true); ok {
				gate := false
				for _, o := range ops {
					if call, ok := o.V.(*ssa.Call); ok && o.Pol && call.Call.IsInvoke() && call.Call.Method.Name() == "RequireAuth" {
						gate = true
					}
				}
				if gate {
					return i == trueIdx
				}
			}
		}
		s := Render(atom)
		switch s {
		case `(p0.user == "")`, `(len(p0.user) == 0)`:
			return i == trueIdx // delete false edge (logged in)
		case `(p0.user != "")`, `(len(p0.user) > 0)`, `(len(p0.user) != 0)`:
			return i != trueIdx
		case "(*ftp.Conn).IsLogin(p0)":
			return i != trueIdx
		}
		return true
	}
	reach := InstrReach(recv, allow, nil)
	for i, e := range exec {
		c.Check(!reach(e), "ftp-gate", fmt.Sprintf("dispatcher Execute[%d]", i), p.InstrPos(e), "Execute needs RequireAuth()==false or a logged-in user", "a command's Execute is reachable for a session that is not logged in although the command requires authentication")
	}
	// the command whose RequireAuth is asked is the one executed
	for _, e := range exec {
		cv := e.(*ssa.Call)
		okSame := false
		for _, call := range Calls(recv) {
			if call.Common().IsInvoke() && call.Common().Method.Name() == "RequireAuth" && call.Common().Value == cv.Call.Value {
				okSame = true
			}
		}
		c.Check(okSame, "ftp-gate", "gate asks the executed command", p.InstrPos(e), "", "RequireAuth is asked of a different object than the one executed")
	}

	// effectful => gated
	cmdIface := p.Iface("services/ftp", "Command")
	if !c.Anchor(cmdIface != nil, "ftp-effectful-gated", "interface ftp.Command") {
		return
	}
	driverIface := p.Iface("services/ftp", "Driver")
	var types_ []*types.Named
	for _, n := range p.NamedTypes() {
		if n.Obj().Pkg().Path() == ftpPath && Implements(n, cmdIface) {
			if _, isI := n.Underlying().(*types.Interface); !isI {
				types_ = append(types_, n)
			}
		}
	}
	sort.Slice(types_, func(i, j int) bool { return types_[i].Obj().Name() < types_[j].Obj().Name() })
	neff, ngated := 0, 0
	for _, n := range types_ {
		ex := p.Method("services/ftp", n.Obj().Name(), "Execute")
		ra := p.Method("services/ftp", n.Obj().Name(), "RequireAuth")
		if ex == nil || ra == nil {
			continue
		}
		eff := ftpEffect(ex, driverIface, map[*ssa.Function]bool{}, 4)
		gated, constant := false, true
		for _, r := range Returns(ra) {
			k, ok := RetVals(r)[0].(*ssa.Const)
			if !ok {
				constant = false
				continue
			}
			gated = k.Value.String() == "true"
		}
		if gated {
			ngated++
		}
		key := n.Obj().Name()
		if eff == "" {
			c.Observe("ftp-effectful-gated", key, p.Pos(ex.Pos()), fmt.Sprintf("no file-system/data-socket effect; RequireAuth=%v", gated))
			continue
		}
		neff++
		c.Check(gated && constant, "ftp-effectful-gated", key, p.Pos(ra.Pos()), "effect: "+eff+"; RequireAuth() == true", "command reaches "+eff+" but RequireAuth() is not the constant true: file/directory/data-connection operations are available before login")
	}
	c.Floor("ftp-effectful-gated", 16, "16 effectful commands confirmed by reading")
	c.Extra["ftp_commands"] = map[string]int{"implementations": len(types_), "effectful": neff, "gated": ngated}

	// who may write Conn.user
	connT := p.Type("services/ftp", "Conn")
	nw := 0
	for _, fn := range p.FuncsIn("services/ftp") {
		for _, b := range fn.Blocks {
			for _, in := range b.Instrs {
				st, ok := in.(*ssa.Store)
				if !ok {
					continue
				}
				fa, ok := st.Addr.(*ssa.FieldAddr)
				if !ok || fieldNameOf(fa) != "user" || NamedOf(fa.X.Type()) != connT {
					continue
				}
				nw++
				key := shortFn(fn) + " writes Conn.user"
				if s, isS := ConstString(st.Val); isS && s == "" {
					c.Ok("ftp-login-writers", key, p.InstrPos(st), "logout/reset")
					continue
				}
				// must be under CheckPasswd(reqUser, param)#0 == true and value == conn.reqUser
				okG := false
				for _, dc := range DomConds(st) {
					ex, ok := dc.V.(*ssa.Extract)
					if !ok || ex.Index != 0 || !dc.Pol {
						continue
					}
					call, ok := ex.Tuple.(*ssa.Call)
					if !ok || !call.Call.IsInvoke() || call.Call.Method.Name() != "CheckPasswd" {
						continue
					}
					// the user whose password was checked is the user that becomes logged in: both are loads of the same
					// (pending-user) field of this connection, and the password is this command's argument
					sameField := false
					if l1, ok1 := isLoad(call.Call.Args[0]); ok1 {
						if l2, ok2 := isLoad(st.Val); ok2 {
							f1, okF1 := l1.X.(*ssa.FieldAddr)
							f2, okF2 := l2.X.(*ssa.FieldAddr)
							sameField = okF1 && okF2 && f1.Field == f2.Field && f1.X == f2.X && f1.X == fa.X && f1.Field != fa.Field
						}
					}
					if sameField && call.Call.Args[1] == ssa.Value(fn.Params[len(fn.Params)-1]) {
						okG = true
					}
				}
				// the store sits in a helper method of the connection (completeLogin): every call of it is under that test
				if l2, ok2 := isLoad(st.Val); ok2 && !okG && len(fn.Params) > 0 && fa.X == ssa.Value(fn.Params[0]) {
					if f2, okF2 := l2.X.(*ssa.FieldAddr); okF2 && f2.X == fa.X && f2.Field != fa.Field {
						sites, good := 0, 0
						for _, g := range p.FuncsIn("services/ftp") {
							for _, call := range Calls(g) {
								if call.Common().StaticCallee() != fn || len(call.Common().Args) == 0 {
									continue
								}
								sites++
								recv := call.Common().Args[0]
								for _, dc := range DomConds(call) {
									ex, ok := dc.V.(*ssa.Extract)
									if !ok || ex.Index != 0 || !dc.Pol {
										continue
									}
									cp, ok := ex.Tuple.(*ssa.Call)
									if !ok || !cp.Call.IsInvoke() || cp.Call.Method.Name() != "CheckPasswd" {
										continue
									}
									if l1, ok1 := isLoad(cp.Call.Args[0]); ok1 {
										if f1, okF1 := l1.X.(*ssa.FieldAddr); okF1 && f1.X == recv && f1.Field == f2.Field && cp.Call.Args[1] == ssa.Value(g.Params[len(g.Params)-1]) {
											good++
											break
										}
									}
								}
							}
						}
						okG = sites > 0 && good == sites
					}
				}
				c.Check(okG, "ftp-login-writers", key, p.InstrPos(st), "set to the requested user only under CheckPasswd(reqUser, password)==true", "Conn.user is set to a non-empty value without CheckPasswd(conn.reqUser, <PASS argument>) having returned true for that same user")
			}
		}
	}
	c.Check(nw >= 1, "ftp-login-writers", "Conn.user has a writer", "-", "", "no store to Conn.user found")
	// CheckPasswd
	cp := p.Method("services/ftp", "User", "CheckPasswd")
	if c.Anchor(cp != nil, "ftp-checkpasswd", "(*ftp.User).CheckPasswd") {
		for i, r := range Returns(cp) {
			key := fmt.Sprintf("CheckPasswd return[%d]", i)
			for _, lf := range leaves(RetVals(r)[0]) {
				k, ok := lf.(*ssa.Const)
				if !ok {
					c.Violate("ftp-checkpasswd", key, p.InstrPos(r), "non-constant decision leaf: "+Render(lf))
					continue
				}
				if k.Value.String() != "true" {
					c.Ok("ftp-checkpasswd", key+" false-leaf", p.InstrPos(r), "")
					continue
				}
				// find the phi edge block injecting true: conditions = map hit on name && pw == password
				okT := false
				if ph, ok := RetVals(r)[0].(*ssa.Phi); ok {
					for j, e := range ph.Edges {
						if e != lf {
							continue
						}
						conds := DomCondsBlock(ph.Block().Preds[j])
						hit, eq := false, false
						for _, dc := range conds {
							if ex, ok := dc.V.(*ssa.Extract); ok && ex.Index == 1 && dc.Pol {
								if lk, ok := ex.Tuple.(*ssa.Lookup); ok && lk.Index == ssa.Value(cp.Params[1]) {
									hit = true
								}
							}
							if x, y, ok := eqCond(dc); ok {
								isPw := func(v ssa.Value) bool { return v == ssa.Value(cp.Params[2]) }
								isStored := func(v ssa.Value) bool {
									ex, ok := v.(*ssa.Extract)
									if !ok || ex.Index != 0 {
										return false
									}
									lk, ok := ex.Tuple.(*ssa.Lookup)
									return ok && lk.Index == ssa.Value(cp.Params[1])
								}
								if (isPw(x) && isStored(y)) || (isPw(y) && isStored(x)) {
									eq = true
								}
							}
						}
						okT = hit && eq
					}
				} else {
					conds := DomConds(r)
					_ = conds
				}
				c.Check(okT, "ftp-checkpasswd", key+" true-leaf", p.InstrPos(r), "true only for a known user with the equal password", "CheckPasswd can return true without `users[name]` existing and equalling the password presented")
			}
		}
		c.Floor("ftp-checkpasswd", 2, "true and false leaves")
	}
}

// ftpEffect reports the first file-system / data-socket effect reachable from fn ("" if none): a call of a
// Driver interface method, or of newPassiveSocket / newActiveSocket.
func ftpEffect(fn *ssa.Function, driver *types.Interface, seen map[*ssa.Function]bool, depth int) string {
	if fn == nil || seen[fn] || depth < 0 {
		return ""
	}
	seen[fn] = true
	for _, call := range Calls(fn) {
		cc := call.Common()
		if cc.IsInvoke() {
			if it, ok := cc.Value.Type().Underlying().(*types.Interface); ok && driver != nil && types.Identical(it, driver) {
				return "Driver." + cc.Method.Name()
			}
			continue
		}
		f := cc.StaticCallee()
		if f == nil {
			continue
		}
		if f.Name() == "newPassiveSocket" || f.Name() == "newActiveSocket" {
			return f.Name()
		}
		if InRepo(f) && f.Blocks != nil {
			if e := ftpEffect(f, driver, seen, depth-1); e != "" {
				return e
			}
		}
	}
	return ""
}

// throughWrapper: for a synthetic promoted-method wrapper, the declared method it forwards to.
func throughWrapper(f *ssa.Function) *ssa.Function {
	for d := 0; d < 3 && f != nil && f.Synthetic != ""; d++ {
		var next *ssa.Function
		for _, call := range Calls(f) {
			if g := call.Common().StaticCallee(); g != nil && g.Name() == f.Name() {
				next = g
			}
		}
		if next == nil {
			return f
		}
		f = next
	}
	return f
}

// unwrapBound: a method value (s.checkBind) is a closure over a synthetic bound-method wrapper; returns the method itself.
func unwrapBound(fn *ssa.Function) *ssa.Function {
	if fn == nil || fn.Synthetic == "" || len(fn.Blocks) == 0 {
		return fn
	}
	var callee *ssa.Function
	n := 0
	for _, call := range Calls(fn) {
		if f := call.Common().StaticCallee(); f != nil {
			callee = f
			n++
		}
	}
	if n == 1 && callee != nil {
		return callee
	}
	return fn
}

// c12GateHelperForm: the catch-all takes its starting result code from a helper (`resultCode: c.authResultCode()`):
// the helper returns the success code only under isLogin()==true and a non-success constant otherwise; in the handler that
// store precedes every reply and nothing writes the result code after it.
func c12GateHelperForm(c *Ctx, ca *ssa.Function) bool {
	p := c.P
	var gate *ssa.Store
	var helper *ssa.Function
	var rcStores []*ssa.Store
	for _, b := range ca.Blocks {
		for _, in := range b.Instrs {
			st, ok := in.(*ssa.Store)
			if !ok {
				continue
			}
			fa, ok := st.Addr.(*ssa.FieldAddr)
			if !ok || fieldNameOf(fa) != "resultCode" {
				continue
			}
			rcStores = append(rcStores, st)
			if call, ok := st.Val.(*ssa.Call); ok {
				if hf := call.Call.StaticCallee(); hf != nil && InRepo(hf) && hf.Blocks != nil && len(call.Call.Args) >= 1 && call.Call.Args[0] == ssa.Value(ca.Params[0]) {
					gate, helper = st, hf
				}
			}
		}
	}
	if gate == nil {
		return false
	}
	var loginCalls []*ssa.Call
	for _, call := range Calls(helper) {
		if cv, ok := call.(*ssa.Call); ok && !cv.Call.IsInvoke() && cv.Call.StaticCallee() == nil {
			if _, ok := isFieldLoadNamed(cv.Call.Value, "isLogin"); ok {
				loginCalls = append(loginCalls, cv)
			}
		}
	}
	if len(loginCalls) == 0 {
		return false
	}
	loginIs := func(at ssa.Instruction, want bool) bool {
		for _, dc := range DomConds(at) {
			atom, pol0 := condAtom(dc.V)
			for _, lc := range loginCalls {
				if atom == ssa.Value(lc) && (pol0 == dc.Pol) == want {
					return true
				}
			}
		}
		return false
	}
	c.Ok("ldap-gate", "CatchAll consults isLogin", p.Pos(ca.Pos()), "through "+shortFn(helper))
	okHelper, refusals := true, 0
	for _, r := range Returns(helper) {
		n, isC := ConstInt(RetVals(r)[0])
		switch {
		case !isC:
			okHelper = false
		case n == 0:
			if !loginIs(r, true) {
				okHelper = false
			}
		default:
			if loginIs(r, false) {
				refusals++
			}
		}
	}
	c.Check(okHelper && refusals >= 1, "ldap-gate", "refusal store under !isLogin", p.Pos(helper.Pos()), "the helper yields success only for logged-in sessions and a refusal otherwise", "the helper that supplies the catch-all's result code returns the success code without isLogin() having been true (or has no refusal for sessions that are not logged in)")
	nrep := 0
	for _, call := range Calls(ca) {
		f := call.Common().StaticCallee()
		if f == nil || !MethodIs(f, ModPath+"/services/ldap", "resultCodeHandler", "handle") {
			continue
		}
		nrep++
		c.Check(gate.Block().Dominates(call.Block()), "ldap-gate", fmt.Sprintf("CatchAll reply[%d]", nrep), p.InstrPos(call), "the gated result code is in place before the reply", "a reply of the catch-all is reachable without the login-dependent result code having been stored")
	}
	c.Check(nrep >= 1, "ldap-gate", "CatchAll replies", p.Pos(ca.Pos()), "", "no reply site found in the catch-all handler")
	after := InstrReachFrom(ca, gate, nil, nil)
	for i, st := range rcStores {
		if st != gate && after(st) {
			c.Violate("ldap-gate", fmt.Sprintf("result code store[%d] after the refusal", i), p.InstrPos(st), "the result code is written again ("+RenderN(st.Val, 2)+") after the login-dependent code was stored: a session that is not logged in is answered with this code instead of being refused")
		}
	}
	return true
}

// c12FreshSession: the FTP session object that holds the login (the struct with the `user` the gate reads) is built
// per connection: every value newConn can return is an allocation made in that call or an object taken from a pool
// (whose reset is checked by session-object-fresh), never a package-level or service-level object.
func c12FreshSession(c *Ctx) {
	p := c.P
	nc := p.Method("services/ftp", "Server", "newConn")
	if !c.Anchor(nc != nil, "session-object-fresh", "(*ftp.Server).newConn") {
		return
	}
	for i, r := range Returns(nc) {
		ok := true
		why := ""
		for _, lf := range leaves(RetVals(r)[0]) {
			switch x := lf.(type) {
			case *ssa.Alloc:
			case *ssa.TypeAssert, *ssa.Extract:
				// pool form: checked above
				_ = x
			default:
				ok = false
				why = RenderN(lf, 3)
			}
		}
		c.Check(ok, "session-object-fresh", fmt.Sprintf("newConn return[%d]", i), p.InstrPos(r), "a session object of this connection's own", "newConn hands out `"+why+"`, which is not an object made for this connection: the login state it carries is shared with other connections")
	}
}

// c12ReplyPerRequest: the LDAP result code a request is answered with is decided by that request alone. Every reply
// (resultCodeHandler.handle) is sent from an object made for this request (a fresh allocation), or one whose result
// code is stored unconditionally on the way to the reply. A reply object kept across requests (a field of the
// per-connection handler) that is only initialised once answers a rejected bind with the code of an earlier accepted one.
func c12ReplyPerRequest(c *Ctx) {
	p := c.P
	const rule = "ldap-reply-per-request"
	rh := p.Method("services/ldap", "resultCodeHandler", "handle")
	if !c.Anchor(rh != nil, rule, "(*ldap.resultCodeHandler).handle") {
		return
	}
	n := 0
	for _, fn := range p.FuncsIn("services/ldap") {
		if fn.Blocks == nil || strings.HasSuffix(p.Fset.Position(fn.Pos()).Filename, "_test.go") {
			continue
		}
		for _, call := range Calls(fn) {
			cv, ok := call.(*ssa.Call)
			if !ok || cv.Call.StaticCallee() != rh || len(cv.Call.Args) == 0 {
				continue
			}
			n++
			key := fmt.Sprintf("%s reply #%d", shortFn(fn), n)
			good := true
			why := ""
			for _, lf := range leaves(cv.Call.Args[0]) {
				if al, isAlloc := lf.(*ssa.Alloc); isAlloc && al.Parent() == fn {
					continue // made for this request
				}
				// a constructor called in this function: every result is an object allocated in that call
				if cc, isCall := lf.(*ssa.Call); isCall {
					if hf := cc.Call.StaticCallee(); hf != nil && InRepo(hf) && hf.Blocks != nil && hf.Signature.Results().Len() == 1 {
						fresh := len(Returns(hf)) > 0
						for _, r := range Returns(hf) {
							for _, l2 := range leaves(RetVals(r)[0]) {
								if a2, ok := l2.(*ssa.Alloc); !ok || a2.Parent() != hf {
									fresh = false
								}
							}
						}
						if fresh {
							continue
						}
					}
				}
				// kept elsewhere: the result code (or the whole object) must be stored on every path to the reply
				stored := false
				for _, b := range fn.Blocks {
					for _, in := range b.Instrs {
						st, isSt := in.(*ssa.Store)
						if !isSt {
							continue
						}
						hit := false
						if fa, isFA := st.Addr.(*ssa.FieldAddr); isFA && fieldNameOf(fa) == "resultCode" && Render(fa.X) == Render(lf) {
							hit = true
						}
						if Render(st.Addr) == Render(lf) {
							hit = true
						}
						if !hit {
							continue
						}
						if st.Block() == cv.Block() {
							if instrIdx(st) < instrIdx(cv) {
								stored = true
							}
						} else if st.Block().Dominates(cv.Block()) {
							stored = true
						}
					}
				}
				if !stored {
					good, why = false, RenderN(lf, 3)
				}
			}
			c.Check(good, rule, key, p.InstrPos(cv), "the reply object is made for this request (or its result code is set on every path to the reply)",
				"this reply is sent from "+why+", an object that outlives the request, and no store of its result code lies on every path to the reply: a request whose arm writes no code (a rejected bind relies on the default) is answered with the code an earlier request left behind, e.g. success after an earlier accepted bind")
		}
	}
	c.Floor(rule, 4, "bind (2), catch-all, extended")
}

// c12AttemptsNotCapped: "an attempt succeeds iff its pair is configured, independently of earlier failed attempts" holds
// for ssh only while the library is told not to cut a connection off after a number of failures: x/crypto/ssh reads
// MaxAuthTries == 0 as "six attempts", a negative value as unlimited. Wherever an ssh service builds its ServerConfig,
// MaxAuthTries is stored on every path to NewServerConn, from the service's configured value (default -1) or a negative
// constant. Left at zero on some path, the seventh attempt of a connection is never evaluated and never reported.
func c12AttemptsNotCapped(c *Ctx) {
	p := c.P
	const rule = "ssh-attempts-not-capped"
	n := 0
	for _, fn := range p.FuncsIn("services/ssh") {
		if fn.Blocks == nil || strings.HasSuffix(p.Fset.Position(fn.Pos()).Filename, "_test.go") {
			continue
		}
		for _, call := range Calls(fn) {
			f := call.Common().StaticCallee()
			if f == nil || f.Name() != "NewServerConn" || len(call.Common().Args) != 2 {
				continue
			}
			cfg, ok := c15Root(call.Common().Args[1]).(*ssa.Alloc)
			cfgFn := fn
			if !ok {
				// the config comes from a method of the service that builds it (`s.serverConfig(…)`): judged there, and the
				// store has to lie on every path to that method's return
				if hc, isC := c15Root(call.Common().Args[1]).(*ssa.Call); isC {
					if hf := hc.Call.StaticCallee(); hf != nil && InRepo(hf) && hf.Blocks != nil && len(Returns(hf)) == 1 {
						if a2, isA := c15Root(RetVals(Returns(hf)[0])[0]).(*ssa.Alloc); isA {
							cfg, ok, cfgFn = a2, true, hf
						}
					}
				}
			}
			if !ok {
				continue
			}
			// only services that authenticate by password themselves
			hasPW := false
			var stores []*ssa.Store
			for _, ref := range *cfg.Referrers() {
				fa, isFA := ref.(*ssa.FieldAddr)
				if !isFA {
					continue
				}
				for _, r2 := range *fa.Referrers() {
					st, isSt := r2.(*ssa.Store)
					if !isSt || st.Addr != ssa.Value(fa) {
						continue
					}
					switch fieldNameOf(fa) {
					case "PasswordCallback":
						hasPW = true
					case "MaxAuthTries":
						stores = append(stores, st)
					}
				}
			}
			// the property names the ssh simulator (ssh-auth and ssh-jail never accept a password / need an external jail)
			root := cfgFn
			for root.Parent() != nil {
				root = root.Parent()
			}
			if !hasPW || root.Signature.Recv() == nil || NamedOf(root.Signature.Recv().Type()) == nil || NamedOf(root.Signature.Recv().Type()).Obj().Name() != "sshSimulatorService" {
				continue
			}
			n++
			key := shortFn(fn) + " ServerConfig.MaxAuthTries"
			good := false
			why := "MaxAuthTries is never set: the library's default of six attempts per connection applies"
			for _, st := range stores {
				okVal := false
				if k, isK := ConstInt(st.Val); isK {
					okVal = k < 0
				} else if ld, isLd := st.Val.(*ssa.UnOp); isLd && ld.Op == token.MUL {
					if fa, isFA := ld.X.(*ssa.FieldAddr); isFA && c15Root(fa.X) == ssa.Value(cfgFn.Params[0]) {
						okVal = true // the service's configured value
					}
				}
				var use ssa.Instruction = call
				if cfgFn != fn {
					use = Returns(cfgFn)[0]
				}
				dom := st.Block() == use.Block() && before(st, use) || st.Block().Dominates(use.Block())
				if okVal && dom {
					good = true
				} else if !dom {
					why = "MaxAuthTries is only set on some paths (" + p.InstrPos(st) + "): where it is left at zero the library allows six attempts per connection"
				} else {
					why = "MaxAuthTries is set to " + RenderN(st.Val, 2) + ", not the service's configured value or a negative constant"
				}
			}
			c.Check(good, rule, key, p.InstrPos(call), "set on every path from the service's configuration (default -1: unlimited)", why+": the seventh password attempt on a connection is then cut off before it is evaluated – a configured pair offered after six failures is not accepted and produces no event")
		}
	}
	c.Floor(rule, 1, "ssh-simulator")
}

// c12UserRecorded: PASS checks the password against the name the LAST USER command gave. USER therefore records its
// argument on every path, before it answers: a path that answers without recording (a "logged in already" shortcut)
// leaves the name of an earlier USER pending, and the next PASS is evaluated for that user – a configured pair is
// refused, or a pair that is not configured (this name, that user's password) is accepted.
func c12UserRecorded(c *Ctx) {
	p := c.P
	const rule = "ftp-user-recorded"
	ex := p.Method("services/ftp", "commandUser", "Execute")
	if !c.Anchor(ex != nil && ex.Blocks != nil && len(ex.Params) == 3, rule, "(ftp.commandUser).Execute") {
		return
	}
	// the pending-user field: the string field of Conn that Execute stores its parameter into
	var stores []*ssa.Store
	for _, b := range ex.Blocks {
		for _, in := range b.Instrs {
			st, ok := in.(*ssa.Store)
			if !ok || st.Val != ssa.Value(ex.Params[2]) {
				continue
			}
			if fa, isFA := st.Addr.(*ssa.FieldAddr); isFA && fa.X == ssa.Value(ex.Params[1]) {
				stores = append(stores, st)
			}
		}
	}
	if !c.Check(len(stores) >= 1, rule, "USER stores its argument in the session", p.Pos(ex.Pos()), "", "commandUser.Execute no longer records the requested user name in the session") {
		return
	}
	for i, r := range Returns(ex) {
		ok := false
		for _, st := range stores {
			if st.Block() == r.Block() || st.Block().Dominates(r.Block()) {
				ok = true
			}
		}
		c.Check(ok, rule, fmt.Sprintf("USER return[%d]", i), p.InstrPos(r), "the requested name is recorded on the way to every return", "USER can answer and return without recording the requested name: the name of an earlier USER stays pending and the next PASS is checked against that user – the outcome of an attempt then depends on earlier attempts of the connection")
	}
}
