package rules

import (
	"fmt"
	"go/token"
	"go/types"
	"htcheck/internal/zone"
	"sort"
	"strings"

	"golang.org/x/tools/go/ssa"

	. "htcheck/internal/core"
)

func isSyntheticPanic(pn *ssa.Panic) bool {
	if mi, ok := pn.X.(*ssa.MakeInterface); ok {
		if s, ok := ConstString(mi.X); ok && strings.Contains(s, "blocking select") {
			return true
		}
	}
	return false
}

// mayPanicExplicit: in-repo functions (under the given package prefixes) from which an explicit panic is reachable on the
// same goroutine through static calls, stopping at callees that recover themselves. The value names the panic site.
func mayPanicExplicit(p *Program, fns []*ssa.Function) map[*ssa.Function]string {
	out := map[*ssa.Function]string{}
	for _, fn := range fns {
		for _, b := range fn.Blocks {
			for _, in := range b.Instrs {
				switch x := in.(type) {
				case *ssa.Panic:
					if !isSyntheticPanic(x) {
						out[fn] = "panic at " + p.InstrPos(x)
					}
				case ssa.CallInstruction:
					if killSite(x) == "panic" {
						out[fn] = calleeLabel(x) + " at " + p.InstrPos(x)
					}
				}
			}
		}
	}
	for changed := true; changed; {
		changed = false
		for _, fn := range fns {
			if out[fn] != "" {
				continue
			}
			for _, call := range Calls(fn) {
				if _, isGo := call.(*ssa.Go); isGo {
					continue
				}
				f := call.Common().StaticCallee()
				if f == nil || out[f] == "" || hasRecover(f) {
					continue
				}
				out[fn] = "via " + FuncShort(f) + ": " + out[f]
				changed = true
				break
			}
		}
	}
	return out
}

// c09LockRelease: a mutex taken in handler code without a deferred release must be released on every way out of the
// critical section, including a panic that the connection's recover swallows: otherwise the lock stays held for the
// lifetime of the process and every later connection that needs it parks a goroutine forever.
func c09LockRelease(c *Ctx) {
	p := c.P
	var fns []*ssa.Function
	for _, fn := range p.FuncsIn("services") {
		if strings.HasPrefix(RelPkg(PkgOf(fn)), "services/ja3") || strings.HasSuffix(p.Fset.Position(fn.Pos()).Filename, "_test.go") {
			continue
		}
		fns = append(fns, fn)
	}
	lockReleaseRule(c, "lock-released-on-every-exit", fns, 5, "mutex acquisitions in the service packages", "every later connection that needs it parks a goroutine forever")
}

// lockReleaseRule: see c09LockRelease; shared with C02 (a lock leaked in the receive loop's reach stops frame processing).
func lockReleaseRule(c *Ctx, rule string, fns []*ssa.Function, floor int, floorWhy, consequence string) {
	p := c.P
	sort.Slice(fns, func(i, j int) bool { return fns[i].String() < fns[j].String() })
	panics := mayPanicExplicit(p, fns)
	isMu := func(call ssa.CallInstruction, names ...string) (string, bool) {
		f := call.Common().StaticCallee()
		if f == nil || PkgOf(f) != "sync" || len(call.Common().Args) == 0 {
			return "", false
		}
		for _, n := range names {
			if f.Name() == n {
				return Render(call.Common().Args[0]), true
			}
		}
		return "", false
	}
	n, nDeferred := 0, 0
	for _, fn := range fns {
		seq := 0
		for _, call := range Calls(fn) {
			if _, isDefer := call.(*ssa.Defer); isDefer {
				continue
			}
			mu, ok := isMu(call, "Lock", "RLock")
			if !ok {
				continue
			}
			n++
			seq++
			key := fmt.Sprintf("%s: %s #%d in %s", RelPkg(PkgOf(fn)), mu, seq, shortFn(fn))
			deferred := false
			for _, c2 := range Calls(fn) {
				if _, isDefer := c2.(*ssa.Defer); !isDefer {
					continue
				}
				if m2, ok := isMu(c2, "Unlock", "RUnlock"); ok && m2 == mu {
					deferred = true
				}
				// defer func(){ … mu.Unlock() … }()
				if cl := c15FuncOf(c2.Common().Value); cl != nil {
					for _, c3 := range Calls(cl) {
						if m3, ok := isMu(c3, "Unlock", "RUnlock"); ok && strings.HasSuffix(m3, mu[strings.LastIndex(mu, ".")+1:]) {
							deferred = true
						}
					}
				}
			}
			// `mu.Unlock(); blockingCall(); mu.Lock()` inside a function that runs under its caller's lock
			reacquire := false
			for _, c2 := range Calls(fn) {
				if _, isDefer := c2.(*ssa.Defer); isDefer {
					continue
				}
				if m2, ok := isMu(c2, "Unlock", "RUnlock"); ok && m2 == mu && before(c2, call) {
					reacquire = true
				}
			}
			if reacquire {
				c.Ok(rule, key, p.InstrPos(call), "re-acquires the caller's lock after a temporary release")
				continue
			}
			if deferred {
				nDeferred++
				c.Ok(rule, key, p.InstrPos(call), "released by a deferred Unlock")
				continue
			}
			stop := func(in ssa.Instruction) bool {
				ci, ok := in.(ssa.CallInstruction)
				if !ok {
					return false
				}
				m2, ok := isMu(ci, "Unlock", "RUnlock")
				return ok && m2 == mu
			}
			reach := InstrReachFrom(fn, call, nil, stop)
			bad := ""
			var zp *zone.Prover
			for _, b := range fn.Blocks {
				for _, in := range b.Instrs {
					if !reach(in) || stop(in) || in == ssa.Instruction(call) {
						continue
					}
					switch x := in.(type) {
					case *ssa.Return:
						bad = "the function can return at " + p.InstrPos(x) + " with the mutex still held"
					case *ssa.Panic:
						if !isSyntheticPanic(x) {
							bad = "an explicit panic at " + p.InstrPos(x) + " leaves the critical section with the mutex held"
						}
					case *ssa.Slice, *ssa.IndexAddr, *ssa.Index:
						// an index or slice expression the prover cannot show in range panics just the same
						if zp == nil {
							zp = zone.New(fn)
						}
						for _, o := range zp.Obligations(in) {
							if okP, why := zp.Prove(o, in); !okP {
								bad = "the critical section evaluates `" + RenderN(in.(ssa.Value), 3) + "` at " + p.InstrPos(in) + ", which is not provably in range (" + o.What + ": " + why + "); the Unlock is not deferred, so after the connection's recover the mutex stays locked for every later connection"
							}
						}
					case ssa.CallInstruction:
						if _, isGo := x.(*ssa.Go); isGo {
							continue
						}
						if _, isDefer := x.(*ssa.Defer); isDefer {
							continue
						}
						if f := x.Common().StaticCallee(); f != nil && panics[f] != "" && !hasRecover(f) {
							bad = "the critical section calls " + FuncShort(f) + ", which can panic (" + panics[f] + "); the Unlock is not deferred, so after the connection's recover the mutex stays locked for every later connection"
						}
					}
				}
			}
			if bad == "" {
				c.Ok(rule, key, p.InstrPos(call), "every path from the Lock reaches the Unlock; no explicit panic inside the critical section")
			} else {
				c.Violate(rule, key, p.InstrPos(call), bad)
			}
		}
	}
	c.Extra["mutex_acquisitions:"+rule] = map[string]int{"total": n, "deferred_release": nDeferred}
	c.Floor(rule, floor, floorWhy)
	_ = consequence
}

// c09DecodeLoops: the IPP request parser runs inside Handle; a loop of it that never ends keeps the handler (and its
// growing attribute lists) alive long after the client has gone. Its loops leave through the decoder's recorded error:
// (1) that error is sticky (decoderErrorSticky), and (2) every parser loop that hands the decoder on to further
// in-repo decoding re-examines LastError on every iteration, before descending, and leaves the loop when it is set.
func c09DecodeLoops(c *Ctx) {
	c.Explanation += " (6) the IPP parser loops end through the decoder error: stores to it are non-nil only, and loops that hand the decoder on first leave on LastError."
	p := c.P
	decoderErrorSticky(c, "decode-loop-ends")
	di := p.Iface(decRel, "Decoder")
	if !c.Anchor(di != nil, "decode-loop-ends", "decoder.Decoder interface") {
		return
	}
	isDec := func(v ssa.Value) bool {
		n := NamedOf(v.Type())
		return n != nil && n.Obj().Pkg() != nil && RelPkg(n.Obj().Pkg().Path()) == decRel && (n.Obj().Name() == "Decoder" || n.Obj().Name() == "Decode")
	}
	n := 0
	for _, fn := range p.FuncsIn("services/ipp") {
		for li, l := range Loops(fn) {
			// calls in the loop that pass the decoder to in-repo code
			var descents []ssa.CallInstruction
			reads := 0
			var checks []*ssa.If
			for b := range l.Blocks {
				for _, in := range b.Instrs {
					call, ok := in.(ssa.CallInstruction)
					if !ok {
						continue
					}
					cc := call.Common()
					if cc.IsInvoke() && isDec(cc.Value) {
						reads++
						continue
					}
					if cal := cc.StaticCallee(); cal != nil && cal.Signature.Recv() != nil && len(cc.Args) > 0 && isDec(cc.Args[0]) {
						reads++
						continue
					}
					for _, a := range cc.Args {
						if isDec(a) {
							// only callees that can themselves iterate over the input count: a loop-free helper reads a
							// bounded number of bytes and comes back (v.readValue(dec))
							if mayIterate(p, call) {
								descents = append(descents, call)
							}
							break
						}
					}
				}
				if len(b.Instrs) == 0 {
					continue
				}
				iff, ok := b.Instrs[len(b.Instrs)-1].(*ssa.If)
				if !ok {
					continue
				}
				bo, ok := iff.Cond.(*ssa.BinOp)
				if !ok || !IsNilConst(bo.Y) {
					continue
				}
				lc, ok := bo.X.(*ssa.Call)
				if !ok {
					continue
				}
				name := ""
				if lc.Call.IsInvoke() {
					name = lc.Call.Method.Name()
				} else if cal := lc.Call.StaticCallee(); cal != nil {
					name = cal.Name()
				}
				if !IsErrorType(lc.Type()) || !(lc.Call.IsInvoke() && isDec(lc.Call.Value) || len(lc.Call.Args) > 0 && isDec(lc.Call.Args[0])) {
					continue
				}
				_ = name
				// the non-nil arm leaves the loop
				exitIdx := 0
				if bo.Op == token.EQL {
					exitIdx = 1
				}
				if !l.Blocks[b.Succs[exitIdx]] || leavesLoop(b.Succs[exitIdx], l) {
					checks = append(checks, iff)
				}
			}
			if len(descents) == 0 || reads == 0 {
				continue
			}
			sort.Slice(descents, func(i, j int) bool { return descents[i].Pos() < descents[j].Pos() })
			for _, d := range descents {
				n++
				ok := false
				for _, ch := range checks {
					if ch.Block().Dominates(d.Block()) {
						ok = true
					}
				}
				c.Check(ok, "decode-loop-ends", fmt.Sprintf("%s loop#%d hands the decoder to %s", shortFn(fn), li+1, calleeLabel(d)), p.InstrPos(d), "the iteration first looks at the decoder's recorded error and leaves the loop when a read has failed", "this parser loop descends into further decoding without first leaving on the decoder's recorded error: on a truncated request the reads return zero values without consuming anything and the loop keeps appending groups forever – the handler never returns")
			}
		}
	}
	c.Floor("decode-loop-ends", 4, "two sticky-error stores, message loop -> group.decode, group loop -> value.decode")
}

// leavesLoop: from block b (inside loop l) every path leaves the loop without returning to its header.
func leavesLoop(b *ssa.BasicBlock, l *Loop) bool {
	seen := map[*ssa.BasicBlock]bool{}
	stack := []*ssa.BasicBlock{b}
	for len(stack) > 0 {
		x := stack[len(stack)-1]
		stack = stack[:len(stack)-1]
		if x == l.Header {
			return false
		}
		if seen[x] || !l.Blocks[x] {
			continue
		}
		seen[x] = true
		stack = append(stack, x.Succs...)
	}
	return true
}

// mayIterate: the call can reach (statically, or through an in-repo interface method) a function that contains a loop.
func mayIterate(p *Program, call ssa.CallInstruction) bool {
	seen := map[*ssa.Function]bool{}
	var visit func(f *ssa.Function, depth int) bool
	visit = func(f *ssa.Function, depth int) bool {
		if f == nil || seen[f] || !InRepo(f) || f.Blocks == nil || depth > 4 {
			return false
		}
		seen[f] = true
		if len(Loops(f)) > 0 {
			return true
		}
		for _, c2 := range Calls(f) {
			for _, g := range calleesOf(p, c2) {
				if visit(g, depth+1) {
					return true
				}
			}
		}
		return false
	}
	for _, f := range calleesOf(p, call) {
		if visit(f, 0) {
			return true
		}
	}
	return false
}

// c09OwnerCloseReleasesAll: when the session object of a connection is closed, everything it still owns is released
// on EVERY path through Close – in particular the pending data socket (with its listener and the goroutine blocked in
// Accept). A Close that returns early (because closing the control connection reported an error, as a TLS connection does
// when its peer has vanished) before it has looked at the other resources leaks them per affected session.
func c09OwnerCloseReleasesAll(c *Ctx) {
	p := c.P
	const rule = "owner-close-releases-all"
	ct := p.Type("services/ftp", "Conn")
	cl := p.Method("services/ftp", "Conn", "Close")
	if !c.Anchor(ct != nil && cl != nil, rule, "(*ftp.Conn).Close") {
		return
	}
	// resources released in Close: fields of the receiver on whose value a Close is invoked
	type rel struct {
		field string
		call  ssa.CallInstruction
	}
	var rels []rel
	for _, call := range Calls(cl) {
		cc := call.Common()
		var recv ssa.Value
		switch {
		case cc.IsInvoke() && cc.Method.Name() == "Close":
			recv = cc.Value
		case cc.StaticCallee() != nil && cc.StaticCallee().Name() == "Close" && len(cc.Args) > 0:
			recv = cc.Args[0]
		}
		if recv == nil {
			continue
		}
		if ld, ok := isLoad(Unwrap(recv)); ok {
			if fa, ok := ld.X.(*ssa.FieldAddr); ok && fa.X == ssa.Value(cl.Params[0]) {
				rels = append(rels, rel{fieldNameOf(fa), call})
			}
		}
	}
	// a resource released through a helper of the session (conn.releaseDataConn()): the helper's own Close calls on fields
	// of its receiver, decided at the helper call
	for _, call := range Calls(cl) {
		hf := call.Common().StaticCallee()
		if hf == nil || hf == cl || !InRepo(hf) || hf.Blocks == nil || len(call.Common().Args) == 0 || call.Common().Args[0] != ssa.Value(cl.Params[0]) || len(hf.Params) == 0 {
			continue
		}
		if _, isDefer := call.(*ssa.Defer); isDefer {
			continue
		}
		for _, c2 := range Calls(hf) {
			cc := c2.Common()
			if !cc.IsInvoke() || cc.Method.Name() != "Close" {
				continue
			}
			if ld, ok := isLoad(Unwrap(cc.Value)); ok {
				if fa, ok := ld.X.(*ssa.FieldAddr); ok && fa.X == ssa.Value(hf.Params[0]) {
					// the helper closes it whenever it is set: the close is reached on every path of the helper that did not
					// find the field nil
					rels = append(rels, rel{fieldNameOf(fa), call})
				}
			}
		}
	}
	for _, r := range rels {
		// the block that decides about this resource: the call's block, or the nil test of the same field that guards it
		decide := r.call.Block()
		for _, dc := range DomConds(r.call) {
			if bo, ok := dc.V.(*ssa.BinOp); ok && IsNilConst(bo.Y) && dc.If != nil {
				if _, isF := isFieldLoadNamed(bo.X, r.field); isF && dc.If.Block().Dominates(decide) {
					decide = dc.If.Block()
				}
			}
		}
		ok := true
		bad := ""
		for _, ret := range Returns(cl) {
			if !decide.Dominates(ret.Block()) {
				ok = false
				bad = p.InstrPos(ret)
			}
		}
		c.Check(ok, rule, "Conn.Close releases "+r.field, p.InstrPos(r.call), "reached (or found unset) on every path through Close", "Close can return at "+bad+" before it has released (or looked at) Conn."+r.field+": when that early exit is taken – e.g. closing the control connection reports an error because the peer vanished from a TLS session – a pending passive data socket keeps its listener and its accept goroutine for ever")
	}
	c.Floor(rule, 2, "control connection and data socket")
}

// c09DataSocketReplaced: the session keeps ONE data socket, and Close releases the one stored last. Wherever a new
// socket is stored into that field, the one already there is closed first (under a nil test); otherwise a passive socket
// that was requested and never used – PASV sent twice – keeps its listener and accept goroutine for the life of the process.
func c09DataSocketReplaced(c *Ctx) {
	p := c.P
	const rule = "data-socket-replaced-released"
	ct := p.Type("services/ftp", "Conn")
	if !c.Anchor(ct != nil, rule, "type ftp.Conn") {
		return
	}
	field := fieldByType(ct, func(t types.Type) bool {
		n := NamedOf(t)
		return n != nil && n.Obj().Name() == "DataSocket"
	})
	if !c.Anchor(field != "", rule, "ftp.Conn's DataSocket field") {
		return
	}
	n := 0
	for _, fn := range p.FuncsIn("services/ftp") {
		for _, b := range fn.Blocks {
			for _, in := range b.Instrs {
				st, ok := in.(*ssa.Store)
				if !ok || IsNilConst(Unwrap(st.Val)) {
					continue
				}
				fa, ok := st.Addr.(*ssa.FieldAddr)
				if !ok || fieldNameOf(fa) != field || NamedOf(fa.X.Type()) == nil || NamedOf(fa.X.Type()).Obj() != ct.Obj() {
					continue
				}
				if _, fresh := fa.X.(*ssa.Alloc); fresh {
					continue // a session under construction
				}
				n++
				closedFirst := false
				for _, call := range Calls(fn) {
					cc := call.Common()
					if !cc.IsInvoke() || cc.Method.Name() != "Close" {
						continue
					}
					if _, isF := isFieldLoadNamed(Unwrap(cc.Value), field); !isF {
						continue
					}
					// on the path to the store: the close sits under a non-nil test whose block dominates the store
					for _, dc := range DomConds(call) {
						if bo, ok := dc.V.(*ssa.BinOp); ok && IsNilConst(bo.Y) && dc.If != nil && dc.If.Block().Dominates(st.Block()) {
							if _, isF := isFieldLoadNamed(bo.X, field); isF {
								closedFirst = true
							}
						}
					}
					if call.Block().Dominates(st.Block()) {
						closedFirst = true
					}
				}
				// … or through a helper of the session called before the store (conn.releaseDataConn())
				for _, call := range Calls(fn) {
					hf := call.Common().StaticCallee()
					if hf == nil || !InRepo(hf) || hf.Blocks == nil || len(hf.Params) == 0 || len(call.Common().Args) == 0 || call.Common().Args[0] != fa.X || !call.Block().Dominates(st.Block()) || !before(call, st) {
						continue
					}
					for _, c2 := range Calls(hf) {
						cc := c2.Common()
						if cc.IsInvoke() && cc.Method.Name() == "Close" {
							if ld, ok := isLoad(Unwrap(cc.Value)); ok {
								if fa2, ok := ld.X.(*ssa.FieldAddr); ok && fa2.X == ssa.Value(hf.Params[0]) && fieldNameOf(fa2) == field {
									closedFirst = true
								}
							}
						}
					}
				}
				c.Check(closedFirst, rule, shortFn(fn)+" stores Conn."+field, p.InstrPos(st), "the socket already held is closed (if any) before it is replaced", "a new data socket is stored over the one the session already holds without closing that one: a passive socket that was requested and never used (the command sent twice) keeps its listener and its accept goroutine after the session, and for good")
			}
		}
	}
	c.Floor(rule, 1, "the one place that installs a session's data socket")
}

// c09OwnerCloseDeferred: the function that serves a session and closes the session object when it is done must do so in
// a defer: a command that panics unwinds through it (the dispatcher's recover ends the connection), and a Close that only
// follows the loop is skipped, leaving the session's data socket, listener and goroutines behind.
func c09OwnerCloseDeferred(c *Ctx) {
	p := c.P
	const rule = "owner-close-deferred"
	cl := p.Method("services/ftp", "Conn", "Close")
	sv := p.Method("services/ftp", "Conn", "Serve")
	if !c.Anchor(cl != nil && sv != nil, rule, "(*ftp.Conn).Serve / Close") {
		return
	}
	deferred, plain := false, false
	for _, call := range Calls(sv) {
		if call.Common().StaticCallee() != cl {
			continue
		}
		if _, isD := call.(*ssa.Defer); isD && call.Block() == sv.Blocks[0] {
			deferred = true
		} else {
			plain = true
		}
	}
	c.Check(deferred, rule, "Conn.Serve closes the session", p.Pos(sv.Pos()), "deferred at the start of Serve", map[bool]string{true: "Serve closes the session only after its command loop", false: "Serve does not close the session at all"}[plain]+": a command that panics (the dispatcher recovers it) skips the Close, and a passive data socket of the session keeps its listener and accept goroutine")
}
