package rules

import (
	"fmt"

	. "htcheck/internal/core"

	"golang.org/x/tools/go/ssa"
)

// c18RecordLayoutAgrees (rule identity-record-layout): an identity stored as one record of several hex-encoded parts
// (the agent's key pair: private half, public half) is the same identity after a restart only if the load path takes
// every part from the place the store path put it. For every hex.Decode of a sub-range of the loaded record into a
// part (a field of the pair, or a local that becomes the private key handed to GenerateKeypair) there is a hex.Encode
// of the same part into a sub-range of the stored record that starts at the same offset.
func c18RecordLayoutAgrees(c *Ctx) {
	const rule = "identity-record-layout"
	c.Explanation += " The parts of a multi-part identity record are decoded from the offsets they were encoded to."
	p := c.P
	type part struct {
		role string
		lo   int64
		at   ssa.Instruction
	}
	sliceLo := func(v ssa.Value) (ssa.Value, int64, bool) {
		sl, ok := v.(*ssa.Slice)
		if !ok {
			return v, 0, true
		}
		if sl.Low == nil {
			return sl.X, 0, true
		}
		k, isK := ConstInt(sl.Low)
		return sl.X, k, isK
	}
	// role of a part: the field of the pair it is, or "PrivateKey" for a local handed to a key derivation
	roleOf := func(v ssa.Value) string {
		base, _, _ := sliceLo(v)
		switch x := base.(type) {
		case *ssa.FieldAddr:
			return fieldNameOf(x)
		case *ssa.Alloc:
			if x.Referrers() != nil {
				for _, r := range *x.Referrers() {
					if call, ok := r.(*ssa.Call); ok {
						if f := call.Call.StaticCallee(); f != nil && f.Name() == "GenerateKeypair" {
							return "PrivateKey"
						}
					}
				}
			}
		}
		return ""
	}
	n := 0
	for _, rel := range []string{"listener/agent", "services/ssh", "services/ftp", "services/smtp", "services/ldap"} {
		// the two paths may live in helpers of the package (encodeKeyPair/decodeKeyPair): parts are collected per package
		var enc, dec []part
		var fn *ssa.Function
		for _, g := range p.FuncsIn(rel) {
			for _, call := range Calls(g) {
				f := call.Common().StaticCallee()
				if f == nil || PkgOf(f) != "encoding/hex" || len(call.Common().Args) != 2 {
					continue
				}
				dst, src := call.Common().Args[0], call.Common().Args[1]
				switch f.Name() {
				case "Encode":
					if _, lo, ok := sliceLo(dst); ok {
						if r := roleOf(src); r != "" {
							enc = append(enc, part{r, lo, call})
						}
					}
				case "Decode":
					if _, lo, ok := sliceLo(src); ok {
						if r := roleOf(dst); r != "" {
							dec = append(dec, part{r, lo, call})
							fn = g
						}
					}
				}
			}
		}
		if len(enc) < 2 || len(dec) == 0 {
			continue // not a multi-part record
		}
		for _, d := range dec {
			n++
			okP, where := false, int64(-1)
			for _, e := range enc {
				if e.role == d.role {
					where = e.lo
					if e.lo == d.lo {
						okP = true
					}
				}
			}
			c.Check(okP, rule, fmt.Sprintf("%s loads %s", shortFn(fn), d.role), p.InstrPos(d.at), "decoded from the offset it was encoded to", fmt.Sprintf("the load path decodes %s from offset %d of the record, the store path encodes it to offset %d: the first start serves the pair it generated, every later start decodes the other half as %s and serves a different, well-formed identity", d.role, d.lo, where, d.role))
		}
	}
	c.Floor(rule, 1, "the agent key pair: at least its private half is decoded from the stored record")
}
