package rules

import (
	"fmt"
	"go/constant"
	"go/token"
	"go/types"
	"os"
	"regexp"
	"sort"
	"strings"

	"golang.org/x/tools/go/ssa"

	. "htcheck/internal/core"
)

func init() { Registry["C13"] = c13 }

const tlsRel = "services/ja3/crypto/tls"

func greaseSet() map[int64]bool {
	m := map[int64]bool{}
	for k := int64(0); k < 16; k++ {
		m[0x0a0a+k*0x1010] = true
	}
	return m
}

// mapLiteralKeys: for a map value built by MakeMap + constant MapUpdates (in the same function, or a package-level
// variable initialised that way in the package initialiser) returns the key set and whether all values are `true`.
func mapLiteralKeys(p *Program, m ssa.Value) (map[int64]bool, bool, bool) {
	var mk *ssa.MakeMap
	switch x := m.(type) {
	case *ssa.MakeMap:
		mk = x
	case *ssa.UnOp:
		if g, ok := x.X.(*ssa.Global); ok && x.Op == token.MUL {
			// find the single store of a MakeMap to g; any other store anywhere disqualifies
			n := 0
			for _, fn := range p.Funcs() {
				for _, b := range fn.Blocks {
					for _, in := range b.Instrs {
						if st, ok := in.(*ssa.Store); ok && st.Addr == ssa.Value(g) {
							n++
							mk, _ = st.Val.(*ssa.MakeMap)
						}
					}
				}
			}
			if n != 1 {
				return nil, false, false
			}
		}
	}
	if mk == nil {
		return nil, false, false
	}
	keys := map[int64]bool{}
	allTrue := true
	for _, ref := range *mk.Referrers() {
		switch u := ref.(type) {
		case *ssa.MapUpdate:
			k, ok := ConstInt(u.Key)
			if !ok {
				return nil, false, false
			}
			keys[k] = true
			if c, ok := u.Value.(*ssa.Const); !ok || c.Value == nil || c.Value.Kind() != constant.Bool || !constant.BoolVal(c.Value) {
				if _, isStruct := u.Value.Type().Underlying().(*types.Struct); !isStruct {
					allTrue = false
				}
			}
		case *ssa.Lookup, *ssa.Store, *ssa.DebugRef:
		default:
			// escapes (passed to a call, stored elsewhere): cannot be sure nothing else writes it, unless it's the global store
			if _, isStore := ref.(*ssa.Store); !isStore {
				if _, isCall := ref.(ssa.CallInstruction); isCall {
					return nil, false, false
				}
			}
		}
	}
	return keys, allTrue, true
}

func sameKeys(a, b map[int64]bool) bool {
	if len(a) != len(b) {
		return false
	}
	for k := range a {
		if !b[k] {
			return false
		}
	}
	return true
}

// greaseFiltered decides whether control in block b implies that value e is not a GREASE value, by one of the
// recognised predicate forms; returns (ok, description, problem).
func greaseFiltered(p *Program, b *ssa.BasicBlock, e ssa.Value, depth int) (bool, string, string) {
	want := greaseSet()
	neg := map[int64]bool{}
	same := func(v ssa.Value) bool {
		for {
			if v == e {
				return true
			}
			switch x := v.(type) {
			case *ssa.Convert:
				v = x.X
			case *ssa.ChangeType:
				v = x.X
			default:
				return false
			}
		}
	}
	problem := ""
	for _, dc := range DomCondsBlock(b) {
		switch v := dc.V.(type) {
		case *ssa.Extract:
			if lk, ok := v.Tuple.(*ssa.Lookup); ok && v.Index == 1 && same(lk.Index) && !dc.Pol {
				keys, _, ok := mapLiteralKeys(p, lk.X)
				if ok && sameKeys(keys, want) {
					return true, "comma-ok lookup in a table holding exactly the 16 GREASE values is false", ""
				}
				problem = "the table consulted does not hold exactly the 16 GREASE values 0x0a0a+k*0x1010"
			}
		case *ssa.Lookup:
			if same(v.Index) && !dc.Pol {
				keys, allTrue, ok := mapLiteralKeys(p, v.X)
				if ok && allTrue && sameKeys(keys, want) {
					return true, "lookup in the GREASE table is false", ""
				}
				problem = "the table consulted does not hold exactly the 16 GREASE values"
			}
		case *ssa.Call:
			f := v.Call.StaticCallee()
			if f != nil && InRepo(f) && len(v.Call.Args) == 1 && same(v.Call.Args[0]) && !dc.Pol && depth > 0 && f.Blocks != nil && len(f.Params) == 1 {
				// predicate function: every `return true`-capable path must be a GREASE hit and every GREASE value must hit:
				// accepted shapes: return table[x] / _, ok := table[x]; return ok
				okF := true
				for _, r := range Returns(f) {
					rv := RetVals(r)[0]
					switch y := rv.(type) {
					case *ssa.Lookup:
						keys, allTrue, ok := mapLiteralKeys(p, y.X)
						if !(ok && allTrue && sameKeys(keys, want) && y.Index == ssa.Value(f.Params[0])) {
							okF = false
						}
					case *ssa.Extract:
						lk, ok := y.Tuple.(*ssa.Lookup)
						if !ok || y.Index != 1 || lk.Index != ssa.Value(f.Params[0]) {
							okF = false
							break
						}
						keys, _, ok2 := mapLiteralKeys(p, lk.X)
						if !(ok2 && sameKeys(keys, want)) {
							okF = false
						}
					default:
						okF = false
					}
				}
				if okF {
					return true, "predicate " + FuncShort(f) + " (table of exactly the 16 GREASE values) is false", ""
				}
				problem = "predicate " + FuncShort(f) + " is not a lookup in a table of exactly the 16 GREASE values (arithmetic masks are not accepted: they are easy to get subtly wrong)"
			}
		case *ssa.BinOp:
			if (v.Op == token.EQL && !dc.Pol) || (v.Op == token.NEQ && dc.Pol) {
				if k, ok := ConstInt(v.Y); ok && same(v.X) {
					neg[k] = true
				}
			}
		}
	}
	if len(neg) > 0 {
		if sameKeys(neg, want) {
			return true, "compared unequal to exactly the 16 GREASE values", ""
		}
		problem = fmt.Sprintf("the element is compared against %d constants which are not exactly the 16 GREASE values", len(neg))
	}
	return false, "", problem
}

func c13(c *Ctx) {
	p := c.P
	c.Explanation = "Static check of the JA3 mechanism for all ClientHellos: in (*ClientHelloInfo).JA3 the five fields are consumed in the specification's order " +
		"(version, ciphers, extensions, curves, point formats), each list is walked in ascending index order, every use of an element of the three 16-bit lists is dominated by the " +
		"negative outcome of a GREASE test whose table is exactly the 16 values 0x0a0a+k*0x1010 (sibling rule over the three loops; the point-format loop must be unfiltered), " +
		"only decimal formatting and the separators '-' and ',' are used; JA3Digest = hex(md5(JA3())); in clientHelloMsg.unmarshal the extension type is appended once per " +
		"extension independent of its type and stored on the hello; cipher suites and curves are filled index by index; clientHelloInfo() pairs each JA3 field with the " +
		"corresponding parsed field; the https service records hello.JA3Digest() and hello.ServerName in both of its events. MD5, hex and integer formatting are trusted."
	c.Assume("crypto/md5, encoding/hex, fmt/strconv decimal formatting are correct (trusted)")
	c.Assume("record-layer reassembly of a fragmented ClientHello is the forked TLS stack's unchanged behaviour (not analysed)")

	ja3 := p.Method(tlsRel, "ClientHelloInfo", "JA3")
	if !c.Anchor(ja3 != nil, "ja3", "(*tls.ClientHelloInfo).JA3") {
		return
	}
	c13JA3(c, ja3)
	c13Digest(c, ja3)
	c13Unmarshal(c)
	c13Info(c)
	c13ParsedHelloImmutable(c)
	c13ListsFromWire(c)
	c13HTTPS(c)
	c13HelloCallbackAlwaysRuns(c)
	// a parsed hello is a fresh object: a recycled message keeps the lists (curves, point formats, extensions) of an earlier
	// connection wherever this hello does not carry the extension that would overwrite them
	pooledObjectsReset(c, "hello-message-fresh", "services/ja3/crypto/tls")
	c13HelloFresh(c)
	c13HandshakeMessageWhole(c)
	c13RefusalsBeforeCallback(c)
	c13ExtensionListComplete(c)
	for _, svc := range Services(c) {
		if svc.Type.Obj().Name() == "httpsService" || os.Getenv("HT_SWEEP") != "" {
			channelWired(c, "https-events-delivered", svc)
		}
	}
	c.Floor("https-events-delivered", 1, "httpsService sends on the embedded http service's channel")
}

func c13JA3(c *Ctx, ja3 *ssa.Function) {
	p := c.P
	recv := ja3.Params[0]
	fns := append([]*ssa.Function{ja3}, Anon(ja3)...)
	order := []string{"Version", "CipherSuites", "Extensions", "SupportedCurves", "SupportedPoints"}
	first := map[string]*ssa.UnOp{}
	loads := map[string][]*ssa.UnOp{}
	other := map[string]bool{}
	for _, fn := range fns {
		for _, b := range fn.Blocks {
			for _, in := range b.Instrs {
				ld, ok := in.(*ssa.UnOp)
				if !ok || ld.Op != token.MUL {
					continue
				}
				fa, ok := ld.X.(*ssa.FieldAddr)
				if !ok || (fa.X != ssa.Value(recv) && fn == ja3) {
					continue
				}
				if NamedOf(fa.X.Type()) == nil || NamedOf(fa.X.Type()).Obj().Name() != "ClientHelloInfo" {
					continue
				}
				name := fieldNameOf(fa)
				known := false
				for _, o := range order {
					if o == name {
						known = true
					}
				}
				if !known {
					other[name] = true
					continue
				}
				loads[name] = append(loads[name], ld)
				if first[name] == nil && fn == ja3 {
					first[name] = ld
				}
			}
		}
	}
	for name := range other {
		c.Violate("ja3-fields", "JA3 reads ClientHelloInfo."+name, p.Pos(ja3.Pos()), "the JA3 string is built from a field that is not part of the specification's five")
	}
	// the sections may be put together at the very end: return strings.Join([]string{version, ciphers, …}, ","); then the
	// order is the order of that list, each element depending on exactly one field
	joined := c13JoinedSections(ja3, recv)
	for i, name := range order {
		if !c.Check(first[name] != nil, "ja3-fields", "JA3 reads "+name, p.Pos(ja3.Pos()), "", "JA3 does not read ClientHelloInfo."+name) {
			continue
		}
		if i == 0 {
			continue
		}
		if joined != nil {
			ok := len(joined) == len(order) && joined[i-1] == order[i-1] && joined[i] == name
			c.Check(ok, "ja3-field-order", order[i-1]+" before "+name, p.InstrPos(first[name]), "sections joined in the specification's order", "the sections joined into the JA3 string are "+strings.Join(joined, ",")+", not the specification's order")
			continue
		}
		prev := first[order[i-1]]
		if prev == nil {
			continue
		}
		a, b := prev.Block(), first[name].Block()
		ok := (a != b && a.Dominates(b)) || (a == b && instrIdx(prev) < instrIdx(first[name]))
		c.Check(ok, "ja3-field-order", order[i-1]+" before "+name, p.InstrPos(first[name]), "", "field "+name+" is consumed before "+order[i-1]+": the JA3 sections are out of the specification's order")
	}
	// per list: elements and their uses
	for _, name := range order[1:] {
		filtered := name != "SupportedPoints"
		var elems []*ssa.UnOp
		for _, ld := range loads[name] {
			for _, ref := range *ld.Referrers() {
				ia, ok := ref.(*ssa.IndexAddr)
				if !ok || ia.X != ssa.Value(ld) {
					continue
				}
				if !isAscendingIndex(ia.Index) {
					c.Violate("ja3-wire-order", "JA3 walks "+name, p.InstrPos(ia), "the list is not walked by an ascending index from 0: element order in the JA3 string would differ from wire order")
					continue
				}
				for _, r2 := range *ia.Referrers() {
					if e, ok := r2.(*ssa.UnOp); ok && e.Op == token.MUL {
						elems = append(elems, e)
					}
				}
			}
			// any other use of the list (passed to a helper, ranged differently)
			for _, ref := range *ld.Referrers() {
				switch u := ref.(type) {
				case *ssa.IndexAddr, *ssa.DebugRef:
				case *ssa.Call:
					if bi, ok := u.Call.Value.(*ssa.Builtin); ok && bi.Name() == "len" {
						continue
					}
					c.Undecided("ja3-list-use", "JA3 "+name+" passed to "+calleeLabel(u), p.InstrPos(u), "the list is handed to a call the rule does not look into: element order/filtering cannot be decided")
				default:
					c.Undecided("ja3-list-use", "JA3 "+name+" unexpected use", p.InstrPos(ref), fmt.Sprintf("unrecognised use of the list (%T)", ref))
				}
			}
		}
		if !c.Check(len(elems) > 0, "ja3-wire-order", "JA3 walks "+name, p.Pos(ja3.Pos()), "ascending walk over "+name, "no element-by-element walk of "+name+" found") {
			continue
		}
		c.Ok("ja3-wire-order", "JA3 walks "+name+" ascending", p.InstrPos(elems[0]), "")
		for _, e := range elems {
			// consumer instructions of e (through conversions)
			var consumers []ssa.Instruction
			seen := map[ssa.Value]bool{}
			var walk func(v ssa.Value)
			walk = func(v ssa.Value) {
				if seen[v] {
					return
				}
				seen[v] = true
				for _, ref := range *v.Referrers() {
					switch u := ref.(type) {
					case *ssa.Convert:
						walk(u)
					case *ssa.ChangeType:
						walk(u)
					case *ssa.Lookup:
						// a table test: not a consumer
					case *ssa.BinOp:
						if u.Op == token.EQL || u.Op == token.NEQ {
							if _, ok := ConstInt(u.Y); ok {
								continue
							}
						}
						consumers = append(consumers, u)
					case *ssa.DebugRef:
					case *ssa.Call:
						f := u.Call.StaticCallee()
						if f != nil && InRepo(f) && f.Signature.Results().Len() == 1 && types.Identical(f.Signature.Results().At(0).Type().Underlying(), types.Typ[types.Bool]) {
							continue // predicate call
						}
						consumers = append(consumers, u)
					default:
						consumers = append(consumers, ref)
					}
				}
			}
			walk(e)
			if len(consumers) == 0 {
				c.Violate("ja3-grease", "JA3 "+name+" element unused", p.InstrPos(e), "the list element is never formatted into the JA3 string")
				continue
			}
			for i, u := range consumers {
				key := fmt.Sprintf("JA3 %s element use[%d]", name, i)
				ok, how, problem := greaseFiltered(p, u.Block(), e, 1)
				if filtered {
					if problem == "" {
						problem = "no GREASE test dominates this use"
					}
					c.Check(ok, "ja3-grease", key, p.InstrPos(u), how, "an element of "+name+" reaches the JA3 string without having been tested as non-GREASE ("+problem+"): two hellos differing only in GREASE values get different digests / the digest is not the specification's")
				} else {
					// must not depend on any condition over the element
					dep := false
					for _, dc := range DomCondsBlock(u.Block()) {
						if strings.Contains(Render(dc.V), Render(e)) {
							dep = true
						}
					}
					c.Check(!ok && !dep, "ja3-grease", key, p.InstrPos(u), "point formats are not filtered", "point formats are filtered by a condition on their value: the specification keeps all of them")
				}
			}
		}
	}
	c.Floor("ja3-grease", 4, "one formatted use per list")

	// constants: separators and formats
	sepOK := map[string]bool{}
	re := regexp.MustCompile(`^[%ds,\-]*$`)
	for _, fn := range fns {
		for _, b := range fn.Blocks {
			for _, in := range b.Instrs {
				var ops []*ssa.Value
				for _, op := range in.Operands(ops) {
					if op == nil || *op == nil {
						continue
					}
					k, ok := (*op).(*ssa.Const)
					if !ok || k.Value == nil {
						continue
					}
					switch k.Value.Kind() {
					case constant.String:
						s := constant.StringVal(k.Value)
						if !re.MatchString(s) {
							c.Violate("ja3-separators", "JA3 constant "+fmt.Sprintf("%q", s), p.InstrPos(in), "a string constant other than the decimal verb and the separators '-' and ',' is used while building the JA3 string")
						}
						if strings.Contains(s, "-") {
							sepOK["-"] = true
						}
						if strings.Contains(s, ",") {
							sepOK[","] = true
						}
					case constant.Int:
						if call, ok := in.(*ssa.Call); ok {
							if f := call.Call.StaticCallee(); f != nil && f.Pkg != nil && f.Pkg.Pkg.Path() == "strconv" {
								// base argument must be 10
								if n, _ := ConstInt(k); n != 10 && (strings.HasPrefix(f.Name(), "Format") || strings.HasPrefix(f.Name(), "Append")) && *op == call.Call.Args[len(call.Call.Args)-1] {
									c.Violate("ja3-separators", "JA3 strconv base", p.InstrPos(in), "values are not formatted in decimal")
								}
							}
							if f := call.Call.StaticCallee(); f != nil && (f.Name() == "WriteByte" || f.Name() == "WriteRune") {
								n, _ := ConstInt(k)
								if n == '-' {
									sepOK["-"] = true
								} else if n == ',' {
									sepOK[","] = true
								} else {
									c.Violate("ja3-separators", fmt.Sprintf("JA3 byte constant %d", n), p.InstrPos(in), "a byte other than '-' or ',' is written into the JA3 string")
								}
							}
						}
					}
				}
			}
		}
	}
	c.Check(sepOK["-"] && sepOK[","], "ja3-separators", "JA3 separators", p.Pos(ja3.Pos()), "'-' within and ',' between sections", "the separators '-' and ',' are not both used")
}

func instrIdx(in ssa.Instruction) int {
	for i, x := range in.Block().Instrs {
		if x == in {
			return i
		}
	}
	return -1
}

func calleeLabel(c ssa.CallInstruction) string {
	if f := c.Common().StaticCallee(); f != nil {
		return FuncShort(f)
	}
	if c.Common().IsInvoke() {
		return c.Common().Method.Name()
	}
	return "dynamic call"
}

func c13Digest(c *Ctx, ja3 *ssa.Function) {
	p := c.P
	d := p.Method(tlsRel, "ClientHelloInfo", "JA3Digest")
	if !c.Anchor(d != nil, "ja3-digest", "(*tls.ClientHelloInfo).JA3Digest") {
		return
	}
	// return = hex.EncodeToString(X); X from md5; JA3(c) flows into md5 input
	okHex, okMD5, okIn := false, false, false
	var ja3Call *ssa.Call
	for _, call := range Calls(d) {
		f := call.Common().StaticCallee()
		if f == ja3 && call.Common().Args[0] == ssa.Value(d.Params[0]) {
			ja3Call, _ = call.(*ssa.Call)
		}
	}
	for _, r := range Returns(d) {
		if call, ok := RetVals(r)[0].(*ssa.Call); ok && FuncIs(call.Call.StaticCallee(), "encoding/hex", "EncodeToString") {
			okHex = true
			// argument provenance: Sum(nil) on md5.New() hash or md5.Sum(...)
			arg := call.Call.Args[0]
			if sl, ok := arg.(*ssa.Slice); ok {
				arg = sl.X
			}
			switch a := arg.(type) {
			case *ssa.Call:
				if a.Call.IsInvoke() && a.Call.Method.Name() == "Sum" {
					if nc, ok := a.Call.Value.(*ssa.Call); ok && FuncIs(nc.Call.StaticCallee(), "crypto/md5", "New") {
						okMD5 = IsNilConst(a.Call.Args[0])
						// Write(JA3 bytes) on the same hash, before Sum
						for _, w := range Calls(d) {
							if w.Common().IsInvoke() && w.Common().Method.Name() == "Write" && w.Common().Value == ssa.Value(nc) {
								if cv, ok := w.Common().Args[0].(*ssa.Convert); ok && ja3Call != nil && cv.X == ssa.Value(ja3Call) && w.Block().Dominates(a.Block()) {
									okIn = true
								}
							}
						}
						nw := 0
						for _, w := range Calls(d) {
							if w.Common().IsInvoke() && w.Common().Method.Name() == "Write" {
								nw++
							}
						}
						if nw != 1 {
							okIn = false
						}
					}
				}
			}
			if ld, ok := arg.(*ssa.UnOp); ok {
				_ = ld
			}
			if al, ok := arg.(*ssa.Alloc); ok {
				for _, sv := range StoredValues(al) {
					if sc, ok := sv.(*ssa.Call); ok && FuncIs(sc.Call.StaticCallee(), "crypto/md5", "Sum") {
						okMD5 = true
						if cv, ok := sc.Call.Args[0].(*ssa.Convert); ok && ja3Call != nil && cv.X == ssa.Value(ja3Call) {
							okIn = true
						}
					}
				}
			}
		}
	}
	c.Check(okHex, "ja3-digest", "JA3Digest hex", p.Pos(d.Pos()), "result is hex.EncodeToString(...)", "JA3Digest does not return a lower-case hex encoding")
	c.Check(okMD5, "ja3-digest", "JA3Digest md5", p.Pos(d.Pos()), "digest is MD5", "the digest is not crypto/md5 of the JA3 string (Sum(nil) of md5.New / md5.Sum)")
	c.Check(okIn, "ja3-digest", "JA3Digest input", p.Pos(d.Pos()), "hash input is exactly []byte(c.JA3())", "the hash input is not exactly the bytes of c.JA3() of the same hello")
}

func c13Unmarshal(c *Ctx) {
	p := c.P
	um := p.Method(tlsRel, "clientHelloMsg", "unmarshal")
	if !c.Anchor(um != nil, "ja3-wire-order", "(*tls.clientHelloMsg).unmarshal") {
		return
	}
	// unmarshal may be split into parts (unmarshalExtensions(data) on the same receiver): the extension analysis runs on
	// the part that records the extension types, the list-fill analysis on all parts
	parts := c13UnmarshalParts(um)
	// the store m.extensions = X
	var st *ssa.Store
	umAll := um
	for _, part := range parts {
		for _, b := range part.Blocks {
			for _, in := range b.Instrs {
				if s, ok := in.(*ssa.Store); ok {
					if fa, ok := s.Addr.(*ssa.FieldAddr); ok && fieldNameOf(fa) == c13ExtField(p) && fa.X == ssa.Value(part.Params[0]) {
						if st != nil {
							c.Violate("ja3-wire-order", "unmarshal stores extensions once", p.InstrPos(s), "more than one store to clientHelloMsg.extensions")
						}
						st = s
						um = part
					}
				}
			}
		}
	}
	_ = umAll
	if !c.Check(st != nil, "ja3-wire-order", "unmarshal stores extensions", p.Pos(um.Pos()), "", "the parsed hello never records its extension types") {
		return
	}
	// value: phi web over append(prev, ext) with initial empty literal
	var appends []*ssa.Call
	seen := map[ssa.Value]bool{}
	bad := ""
	var walk func(v ssa.Value)
	walk = func(v ssa.Value) {
		if seen[v] {
			return
		}
		seen[v] = true
		switch x := v.(type) {
		case *ssa.Phi:
			for _, e := range x.Edges {
				walk(e)
			}
		case *ssa.Call:
			if bi, ok := x.Call.Value.(*ssa.Builtin); ok && bi.Name() == "append" {
				appends = append(appends, x)
				walk(x.Call.Args[0])
			} else {
				bad = Render(x)
			}
		case *ssa.Slice:
			if a, ok := x.X.(*ssa.Alloc); !ok || !strings.Contains(a.Comment, "slicelit") && !strings.Contains(a.Comment, "makeslice") {
				bad = Render(x)
			}
		case *ssa.Const:
		default:
			bad = Render(v)
		}
	}
	walk(st.Val)
	c.Check(bad == "" && len(appends) == 1, "ja3-wire-order", "extensions list construction", p.InstrPos(st), "built by exactly one append site from an empty list", "the extension list is not built by a single append per extension from an empty list: "+bad)
	if len(appends) != 1 {
		return
	}
	ap := appends[0]
	ext := appendedElem(ap.Call.Args[1])
	if !c.Check(ext != nil, "ja3-wire-order", "appended extension", p.InstrPos(ap), "", "cannot resolve the appended value") {
		return
	}
	// ext = uint16(data[0])<<8 | uint16(data[1]) of the loop's current data
	s := Render(ext)
	_, okDec := be16AtStart(ext)
	c.Check(okDec, "ja3-wire-order", "extension type decoding", p.InstrPos(ap), "type = big-endian 16 bits at the cursor", "the appended extension type is not the big-endian 16-bit value at the parse cursor: "+s)
	// unconditional w.r.t. the type: no dominating condition mentions ext; and in the loop
	dep := false
	for _, dc := range DomConds(ap) {
		if strings.Contains(Render(dc.V), s) {
			dep = true
		}
	}
	c.Check(!dep && InLoop(ap.Block()), "ja3-wire-order", "append independent of type", p.InstrPos(ap), "appended once per iteration regardless of the extension type", "the extension type is appended only for some types (or outside the extension loop): unknown/GREASE/duplicate types would be missing from the JA3 extension section")
	// the append happens before the body length is consumed: it dominates every block in the loop that switches on ext
	for _, b := range um.Blocks {
		if len(b.Instrs) == 0 {
			continue
		}
		if iff, ok := b.Instrs[len(b.Instrs)-1].(*ssa.If); ok {
			if bo, ok := iff.Cond.(*ssa.BinOp); ok && bo.X == ext {
				if !ap.Block().Dominates(b) {
					c.Violate("ja3-wire-order", "append before type switch", p.InstrPos(iff), "a branch on the extension type is not dominated by the append of that type")
					return
				}
			}
		}
	}
	c.Ok("ja3-wire-order", "append before type switch", p.InstrPos(ap), "")
	// cipher suites and curves filled by ascending index
	for _, fld := range []string{"cipherSuites", "supportedCurves"} {
		n := 0
		// the list may be decoded by a helper whose result is stored into the field: then the fill sites are the helper's
		scan := append([]*ssa.Function(nil), parts...)
		helperLists := map[ssa.Value]bool{}
		isPart := map[*ssa.Function]bool{}
		for _, part := range parts {
			isPart[part] = true
		}
		for _, part := range parts {
			for _, b := range part.Blocks {
				for _, in := range b.Instrs {
					st3, ok := in.(*ssa.Store)
					if !ok {
						continue
					}
					fa3, ok := st3.Addr.(*ssa.FieldAddr)
					if !ok || fieldNameOf(fa3) != fld {
						continue
					}
					v := st3.Val
					if ex, isE := v.(*ssa.Extract); isE && ex.Index == 0 {
						v = ex.Tuple
					}
					if hc, isC := v.(*ssa.Call); isC {
						if hf := hc.Call.StaticCallee(); hf != nil && InRepo(hf) && hf.Blocks != nil {
							scan = append(scan, hf)
							for _, r := range Returns(hf) {
								helperLists[Deref(RetVals(r)[0])] = true
							}
						}
					}
				}
			}
		}
		for _, sf := range scan {
			for _, b := range sf.Blocks {
				for _, in := range b.Instrs {
					s2, ok := in.(*ssa.Store)
					if !ok {
						continue
					}
					ia, ok := s2.Addr.(*ssa.IndexAddr)
					if !ok {
						continue
					}
					if isPart[sf] {
						if _, ok := isFieldLoadNamed(ia.X, fld); !ok {
							continue
						}
					} else if !helperLists[Deref(ia.X)] {
						continue
					}
					n++
					idxOK := isAscendingIndex(ia.Index)
					vs := Render(s2.Val)
					// value must index the data by the same index: data[k+2*i] pattern
					c.Check(idxOK, "ja3-wire-order", fld+" filled in order", p.InstrPos(s2), "m."+fld+"[i] for ascending i", "m."+fld+" is not filled by an ascending index: "+Render(ia.Index))
					c.Check(strings.Contains(vs, "<< 8") && strings.Contains(vs, "|"), "ja3-wire-order", fld+" element decoding", p.InstrPos(s2), "big-endian 16-bit element", "element is not decoded as a big-endian 16-bit value: "+vs)
				}
			}
		}
		c.Check(n == 1, "ja3-wire-order", fld+" single fill site", p.Pos(um.Pos()), "", fmt.Sprintf("expected one indexed fill of m.%s, found %d", fld, n))
	}
}

func c13Info(c *Ctx) {
	p := c.P
	fn := p.Method(tlsRel, "serverHandshakeState", "clientHelloInfo")
	if !c.Anchor(fn != nil, "ja3-field-pairing", "(*tls.serverHandshakeState).clientHelloInfo") {
		return
	}
	want := map[string]string{"Version": "vers", "CipherSuites": "cipherSuites", "Extensions": c13ExtField(p), "SupportedCurves": "supportedCurves", "SupportedPoints": "supportedPoints", "ServerName": "serverName"}
	got := map[string]string{}
	// the literal may be built in clientHelloInfo itself or in a helper it hands hs.clientHello to
	builders := []*ssa.Function{fn}
	helloParam := map[ssa.Value]bool{}
	for _, call := range Calls(fn) {
		if hf := call.Common().StaticCallee(); hf != nil && InRepo(hf) && hf.Blocks != nil && PkgOf(hf) == PkgOf(fn) {
			for ai, a := range call.Common().Args {
				if Render(a) == "p0.clientHello" && ai < len(hf.Params) {
					helloParam[hf.Params[ai]] = true
					builders = append(builders, hf)
				}
			}
		}
	}
	for _, bf := range builders {
		for _, b := range bf.Blocks {
			for _, in := range b.Instrs {
				st, ok := in.(*ssa.Store)
				if !ok {
					continue
				}
				fa, ok := st.Addr.(*ssa.FieldAddr)
				if !ok || NamedOf(fa.X.Type()) == nil || NamedOf(fa.X.Type()).Obj().Name() != "ClientHelloInfo" {
					continue
				}
				name := fieldNameOf(fa)
				if _, ok := want[name]; !ok {
					continue
				}
				src := "?"
				if ld, ok := st.Val.(*ssa.UnOp); ok {
					if sfa, ok := ld.X.(*ssa.FieldAddr); ok && NamedOf(sfa.X.Type()) != nil && NamedOf(sfa.X.Type()).Obj().Name() == "clientHelloMsg" {
						if (bf == fn && Render(sfa.X) == "p0.clientHello") || helloParam[sfa.X] {
							src = fieldNameOf(sfa)
						}
					}
				}
				if prev, dup := got[name]; dup && prev != src {
					src = prev + "+" + src
				}
				got[name] = src
			}
		}
	}
	var names []string
	for k := range want {
		names = append(names, k)
	}
	sort.Strings(names)
	for _, k := range names {
		c.Check(got[k] == want[k], "ja3-field-pairing", "ClientHelloInfo."+k, p.Pos(fn.Pos()), "<- hs.clientHello."+want[k], "ClientHelloInfo."+k+" is filled from `"+got[k]+"` instead of hs.clientHello."+want[k])
	}
}

func c13HTTPS(c *Ctx) {
	p := c.P
	h := p.Method("services", "httpsService", "Handle")
	if !c.Anchor(h != nil, "https-event-fields", "(*services.httpsService).Handle") {
		return
	}
	// captured cells: allocs stored from the GetCertificate closure
	type cell struct {
		a   *ssa.Alloc
		src string
	}
	cells := map[*ssa.Alloc]string{}
	for _, mc := range MakeClosures(h) {
		cf := mc.Fn.(*ssa.Function)
		if len(cf.Params) != 1 || NamedOf(cf.Params[0].Type()) == nil || NamedOf(cf.Params[0].Type()).Obj().Name() != "ClientHelloInfo" {
			continue
		}
		bind := ClosureBindings(mc)
		for _, b := range cf.Blocks {
			for _, in := range b.Instrs {
				st, ok := in.(*ssa.Store)
				if !ok {
					continue
				}
				fv, ok := st.Addr.(*ssa.FreeVar)
				if !ok {
					continue
				}
				a, ok := bind[fv].(*ssa.Alloc)
				if !ok {
					continue
				}
				src := Render(st.Val)
				// must be in the entry block (every hello)
				if b != cf.Blocks[0] {
					src += " (conditional)"
				}
				if prev, dup := cells[a]; dup {
					src = prev + " | " + src
				}
				cells[a] = src
			}
		}
	}
	// the recorder form: `seen := &httpsHello{..}; GetCertificate: seen.getCertificate` – a bound method that stores into
	// fields of the connection's own recorder object
	type fcell struct {
		a *ssa.Alloc
		f int
	}
	fieldCells := map[fcell]string{}
	helloSrc := func(v ssa.Value, hp ssa.Value) string {
		if call, ok := v.(*ssa.Call); ok {
			if f := call.Call.StaticCallee(); f != nil && f.Name() == "JA3Digest" && len(call.Call.Args) == 1 && call.Call.Args[0] == hp {
				return "(*tls.ClientHelloInfo).JA3Digest(p0)"
			}
		}
		if ld, ok := v.(*ssa.UnOp); ok && ld.Op == token.MUL {
			if fa, ok := ld.X.(*ssa.FieldAddr); ok && fa.X == hp && fieldNameOf(fa) == "ServerName" {
				return "p0.ServerName"
			}
		}
		return Render(v)
	}
	for _, mc := range MakeClosures(h) {
		cf := mc.Fn.(*ssa.Function)
		if !strings.Contains(cf.Synthetic, "bound method") || len(mc.Bindings) != 1 {
			continue
		}
		recvA, ok := mc.Bindings[0].(*ssa.Alloc)
		if !ok {
			continue
		}
		var m *ssa.Function
		for _, call := range Calls(cf) {
			if f := call.Common().StaticCallee(); f != nil && InRepo(f) && f.Blocks != nil {
				m = f
			}
		}
		if m == nil || len(m.Params) != 2 || NamedOf(m.Params[1].Type()) == nil || NamedOf(m.Params[1].Type()).Obj().Name() != "ClientHelloInfo" {
			continue
		}
		for _, b := range m.Blocks {
			for _, in := range b.Instrs {
				st, ok := in.(*ssa.Store)
				if !ok {
					continue
				}
				fa, ok := st.Addr.(*ssa.FieldAddr)
				if !ok || fa.X != ssa.Value(m.Params[0]) {
					continue
				}
				src := helloSrc(st.Val, m.Params[1])
				if b != m.Blocks[0] {
					src += " (conditional)"
				}
				k := fcell{recvA, fa.Field}
				if prev, dup := fieldCells[k]; dup {
					src = prev + " | " + src
				}
				fieldCells[k] = src
			}
		}
	}
	// event fields in Handle, and in helpers of the package that Handle calls with the values as arguments
	n := 0
	judge := func(call ssa.CallInstruction, at ssa.Instruction, resolve func(ssa.Value) ssa.Value) {
		k, ok := ConstString(call.Common().Args[0])
		if !ok || (k != "https.ja3-digest" && k != "https.server-name") {
			return
		}
		n++
		v := Unwrap(resolve(Unwrap(call.Common().Args[1])))
		src := ""
		if ld, ok := v.(*ssa.UnOp); ok {
			if a, ok := ld.X.(*ssa.Alloc); ok {
				src = cells[a]
				// the only other store in Handle must be the "" initialiser
				for _, sv := range StoredValues(a) {
					if s, isS := ConstString(sv); !isS || s != "" {
						src += " + local store " + Render(sv)
					}
				}
			}
			if fa, ok := ld.X.(*ssa.FieldAddr); ok {
				if a, ok := fa.X.(*ssa.Alloc); ok {
					src = fieldCells[fcell{a, fa.Field}]
					for _, b := range h.Blocks {
						for _, in := range b.Instrs {
							if st, isSt := in.(*ssa.Store); isSt {
								if fa2, isFA := st.Addr.(*ssa.FieldAddr); isFA && fa2.X == fa.X && fa2.Field == fa.Field {
									if s, isS := ConstString(st.Val); !isS || s != "" {
										src += " + local store " + Render(st.Val)
									}
								}
							}
						}
					}
				}
			}
		}
		want := "(*tls.ClientHelloInfo).JA3Digest(p0)"
		if k == "https.server-name" {
			want = "p0.ServerName"
		}
		c.Check(src == want, "https-event-fields", fmt.Sprintf("%s site[%d]", k, n), p.InstrPos(at), "= "+want+" captured in GetCertificate", "event field "+k+" does not carry "+want+" of the connection's ClientHello (got `"+src+"`)")
	}
	isCustom := func(call ssa.CallInstruction) bool {
		f := call.Common().StaticCallee()
		return f != nil && f.Name() == "Custom" && strings.HasSuffix(PkgOf(f), "/event") && len(call.Common().Args) == 2
	}
	for _, call := range Calls(h) {
		if isCustom(call) {
			judge(call, call, func(v ssa.Value) ssa.Value { return v })
			continue
		}
		g := call.Common().StaticCallee()
		if g == nil || !InRepo(g) || g.Blocks == nil || PkgOf(g) != PkgOf(h) || g == h {
			continue
		}
		site := call
		for _, c2 := range Calls(g) {
			if !isCustom(c2) {
				continue
			}
			judge(c2, site, func(v ssa.Value) ssa.Value {
				if par, ok := v.(*ssa.Parameter); ok {
					if i := paramIdx(par); i >= 0 && i < len(site.Common().Args) {
						return site.Common().Args[i]
					}
				}
				return v
			})
		}
	}
	c.Floor("https-event-fields", 4, "two fields at two event sites")
}

// convIndexed: v = T(D[k]) for constant k; returns D, k.
func convIndexed(v ssa.Value) (ssa.Value, int64, bool) {
	if cv, ok := v.(*ssa.Convert); ok {
		v = cv.X
	}
	ld, ok := v.(*ssa.UnOp)
	if !ok || ld.Op != token.MUL {
		return nil, 0, false
	}
	ia, ok := ld.X.(*ssa.IndexAddr)
	if !ok {
		return nil, 0, false
	}
	k, ok := ConstInt(ia.Index)
	return ia.X, k, ok
}

// c13UnmarshalParts: unmarshal and the methods of the same receiver it hands (a slice of) the message to.
func c13UnmarshalParts(um *ssa.Function) []*ssa.Function {
	parts := []*ssa.Function{um}
	seen := map[*ssa.Function]bool{um: true}
	for i := 0; i < len(parts) && i < 4; i++ {
		for _, call := range Calls(parts[i]) {
			f := call.Common().StaticCallee()
			if f == nil || seen[f] || f.Blocks == nil || f.Signature.Recv() == nil || len(call.Common().Args) < 2 {
				continue
			}
			if NamedOf(f.Signature.Recv().Type()) != NamedOf(um.Signature.Recv().Type()) || call.Common().Args[0] != ssa.Value(parts[i].Params[0]) {
				continue
			}
			if len(f.Params) < 2 || !isByteSlice(f.Params[1].Type()) {
				continue
			}
			seen[f] = true
			parts = append(parts, f)
		}
	}
	return parts
}

// c13ExtField: the field of clientHelloMsg this fork added to remember the extension types in wire order: "extensions",
// or – when it was renamed – the only []uint16 field besides the standard library's cipherSuites.
func c13ExtField(p *Program) string {
	nt := p.Type(tlsRel, "clientHelloMsg")
	if nt == nil {
		return "extensions"
	}
	st, ok := nt.Underlying().(*types.Struct)
	if !ok {
		return "extensions"
	}
	var cands []string
	for i := 0; i < st.NumFields(); i++ {
		f := st.Field(i)
		if f.Name() == "extensions" {
			return "extensions"
		}
		if sl, isSl := f.Type().Underlying().(*types.Slice); isSl && f.Name() != "cipherSuites" {
			if b, isB := sl.Elem().Underlying().(*types.Basic); isB && b.Kind() == types.Uint16 && NamedOf(sl.Elem()) == nil {
				cands = append(cands, f.Name())
			}
		}
	}
	if len(cands) == 1 {
		return cands[0]
	}
	return "extensions"
}

// c13JoinedSections: when every return of fn is strings.Join(<list literal>, ","), the ClientHelloInfo field each element
// of the list is computed from ("?" when it is not exactly one); nil when fn is not of that form.
func c13JoinedSections(fn *ssa.Function, recv ssa.Value) []string {
	rets := Returns(fn)
	if len(rets) != 1 {
		return nil
	}
	call, ok := RetVals(rets[0])[0].(*ssa.Call)
	if !ok || !CalleeIs(call, "strings", "Join") {
		return nil
	}
	if sep, _ := ConstString(call.Call.Args[1]); sep != "," {
		return nil
	}
	els := variadicArgs(call.Call.Args[0])
	if len(els) == 0 {
		return nil
	}
	var out []string
	for _, el := range els {
		deps := map[string]bool{}
		seen := map[ssa.Value]bool{}
		var walk func(v ssa.Value, d int)
		walk = func(v ssa.Value, d int) {
			if v == nil || seen[v] || d > 40 {
				return
			}
			seen[v] = true
			switch x := v.(type) {
			case *ssa.FieldAddr:
				if n := NamedOf(x.X.Type()); n != nil && n.Obj().Name() == "ClientHelloInfo" {
					deps[fieldNameOf(x)] = true
					return
				}
				walk(x.X, d+1)
			case *ssa.Alloc:
				for _, sv := range StoredValues(x) {
					walk(sv, d+1)
				}
			case *ssa.Const, *ssa.Global, *ssa.Parameter, *ssa.Function, *ssa.Builtin:
			default:
				if in, isI := v.(ssa.Instruction); isI {
					for _, op := range in.Operands(nil) {
						if op != nil && *op != nil {
							walk(*op, d+1)
						}
					}
				}
			}
		}
		walk(el, 0)
		if len(deps) == 1 {
			for k := range deps {
				out = append(out, k)
			}
		} else {
			out = append(out, "?")
		}
	}
	_ = recv
	return out
}

// be16AtStart: v is the big-endian 16-bit value of the first two bytes of a byte slice – written inline
// (uint16(d[0])<<8 | uint16(d[1])), through a helper of the package that returns exactly that of its parameter, or
// binary.BigEndian.Uint16(d). Returns the slice.
func be16AtStart(v ssa.Value) (ssa.Value, bool) {
	for i := 0; i < 3; i++ {
		if cv, ok := v.(*ssa.Convert); ok {
			v = cv.X
			continue
		}
		break
	}
	if or, ok := v.(*ssa.BinOp); ok && or.Op == token.OR {
		hi, lo := or.X, or.Y
		if sh, ok := hi.(*ssa.BinOp); ok && sh.Op == token.SHL {
			if n, _ := ConstInt(sh.Y); n == 8 {
				d0, i0, ok0 := convIndexed(sh.X)
				d1, i1, ok1 := convIndexed(lo)
				if ok0 && ok1 && d0 == d1 && i0 == 0 && i1 == 1 {
					return d0, true
				}
			}
		}
		return nil, false
	}
	call, ok := v.(*ssa.Call)
	if !ok {
		return nil, false
	}
	args := call.Call.Args
	if call.Call.IsInvoke() || len(args) == 0 {
		return nil, false
	}
	f := call.Call.StaticCallee()
	if f == nil {
		return nil, false
	}
	arg := args[len(args)-1]
	if f.Name() == "Uint16" && PkgOf(f) == "encoding/binary" && strings.Contains(f.String(), "bigEndian") {
		return arg, true
	}
	if !InRepo(f) || f.Blocks == nil || len(f.Params) != 1 || len(args) != 1 {
		return nil, false
	}
	for _, r := range Returns(f) {
		vals := RetVals(r)
		if len(vals) != 1 {
			return nil, false
		}
		d, ok := be16AtStart(vals[0])
		if !ok || d != ssa.Value(f.Params[0]) {
			return nil, false
		}
	}
	return arg, true
}
