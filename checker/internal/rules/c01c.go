package rules

import (
	"fmt"
	"sort"
	"strings"

	"golang.org/x/tools/go/ssa"

	. "htcheck/internal/core"
)

// c01UnlockBalanced: "sync: unlock of unlocked mutex" is a fatal runtime error, not a panic: no recover confines it to
// the connection, the process ends. A function that defers mu.Unlock() and also releases mu explicitly (to wait or
// compute outside the lock) must have taken it again before every way out, because the deferred release still runs
// there. Decided per function and mutex: from every explicit Unlock, no return and no explicit panic is reachable
// without passing a Lock of the same mutex.
func c01UnlockBalanced(c *Ctx) {
	p := c.P
	const rule = "mutex-unlock-balanced"
	muCall := func(call ssa.CallInstruction) (key, op string, ok bool) {
		f := call.Common().StaticCallee()
		if f == nil || PkgOf(f) != "sync" || len(call.Common().Args) == 0 {
			return "", "", false
		}
		switch f.Name() {
		case "Lock", "Unlock", "RLock", "RUnlock":
			return Render(call.Common().Args[0]), f.Name(), true
		}
		return "", "", false
	}
	var fns []*ssa.Function
	for _, fn := range p.FuncsIn("services", "server", "listener", "pushers", "event") {
		if fn.Blocks == nil || strings.HasSuffix(p.Fset.Position(fn.Pos()).Filename, "_test.go") {
			continue
		}
		fns = append(fns, fn)
	}
	sort.Slice(fns, func(i, j int) bool { return fns[i].String() < fns[j].String() })
	n, nExplicit := 0, 0
	for _, fn := range fns {
		// deferred releases: defer mu.Unlock() / defer mu.RUnlock()
		deferred := map[string]string{} // mutex key -> release op
		for _, call := range Calls(fn) {
			if _, isDefer := call.(*ssa.Defer); !isDefer {
				continue
			}
			if k, op, ok := muCall(call); ok && (op == "Unlock" || op == "RUnlock") {
				deferred[k+"/"+op] = op
			}
		}
		if len(deferred) == 0 {
			continue
		}
		var keys []string
		for k := range deferred {
			keys = append(keys, k)
		}
		sort.Strings(keys)
		for _, dk := range keys {
			op := deferred[dk]
			mu := strings.TrimSuffix(dk, "/"+op)
			acquire := "Lock"
			if op == "RUnlock" {
				acquire = "RLock"
			}
			n++
			key := fmt.Sprintf("%s: deferred %s.%s", shortFn(fn), mu, op)
			bad := ""
			for _, call := range Calls(fn) {
				if _, isDefer := call.(*ssa.Defer); isDefer {
					continue
				}
				if _, isGo := call.(*ssa.Go); isGo {
					continue
				}
				k, o, ok := muCall(call)
				if !ok || k != mu || o != op {
					continue
				}
				nExplicit++
				stop := func(in ssa.Instruction) bool {
					ci, ok := in.(ssa.CallInstruction)
					if !ok {
						return false
					}
					if _, isDefer := ci.(*ssa.Defer); isDefer {
						return false
					}
					k2, o2, ok := muCall(ci)
					return ok && k2 == mu && o2 == acquire
				}
				reach := InstrReachFrom(fn, call, nil, stop)
				for _, b := range fn.Blocks {
					for _, in := range b.Instrs {
						if !reach(in) || in == ssa.Instruction(call) {
							continue
						}
						switch x := in.(type) {
						case *ssa.Return:
							bad = "the explicit " + op + " at " + p.InstrPos(call) + " reaches the return at " + p.InstrPos(x) + " without the mutex having been taken again"
						case *ssa.Panic:
							if !isSyntheticPanic(x) {
								bad = "the explicit " + op + " at " + p.InstrPos(call) + " reaches the panic at " + p.InstrPos(x) + " without the mutex having been taken again"
							}
						}
					}
				}
			}
			c.Check(bad == "", rule, key, p.Pos(fn.Pos()), "no way out of the function releases the mutex twice", bad+": the deferred "+op+" then releases an unlocked mutex, which is a fatal runtime error (\"sync: unlock of unlocked mutex\") that no recover catches – one connection taking this path ends the process")
		}
	}
	c.Extra["mutex-unlock-balanced"] = map[string]int{"deferred_releases": n, "explicit_releases_beside_a_deferred_one": nExplicit}
	c.Floor(rule, 20, "functions with a deferred mutex release in services/server/listener/pushers/event")
}
